#!/bin/bash
# usage: seed_eval.sh <seed-dir-name> [check args...]   - applies the seeded change to a scratch worktree of /repo HEAD and runs the property's quick check against it
set -u
S=$1; shift
D=/verif/seeded/$S; read PROP CHECKS < $D/.plan
WT=/tmp/seedwt-$S
git -C /repo worktree remove --force $WT >/dev/null 2>&1; rm -rf $WT
git -C /repo worktree add -q $WT ${SEED_BASE:-HEAD} || exit 9
P=$D/patch.diff; [ -e $D/patch-src-only.diff ] && P=$D/patch-src-only.diff
git -C $WT apply $P || { echo "PATCH DOES NOT APPLY"; git -C /repo worktree remove --force $WT; exit 9; }
cd /verif
VERIF_REPO=$WT VERIF_SCRATCH=/tmp/vf-scratch-$S timeout 3000 ./check $CHECKS "$@" > /tmp/seedlog-$S.txt 2>&1; rc=$?
echo "$S rc=$rc $(grep -c '^VIOLATION' /tmp/seedlog-$S.txt) violations; $(tail -1 /tmp/seedlog-$S.txt | cut -c1-160)"
git -C /repo worktree remove --force $WT; rm -rf /tmp/vf-scratch-$S
exit $rc

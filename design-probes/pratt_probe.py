import sys, time, z3
sys.argv = ['x']
import importlib.util
spec = importlib.util.spec_from_file_location('ms', '/tmp/mir/mirsym2.py'); ms = importlib.util.module_from_spec(spec); spec.loader.exec_module(ms)
t0 = time.time()
W = ms.World(['/tmp/mir/parser.mir', '/tmp/mir/lexer.mir'],
          ['/tmp/gs/crates/lexer/src/lib.rs', '/tmp/gs/crates/parser/src/syntax.rs', '/tmp/gs/crates/parser/src/event.rs',
           '/tmp/gs/crates/parser/src/parser.rs', '/tmp/gs/crates/parser/src/input.rs', '/tmp/gs/crates/diagnostics/src/lib.rs'])
kinds = [v[0] for v in W.enums['TokenKind']]; sk = [v[0] for v in W.enums['MySyntaxKind']]
K = kinds.index
LEVEL = {'OrOr': 1, 'AndAnd': 2, 'EqEq': 3, 'NotEq': 3, 'Less': 4, 'Greater': 4, 'LessEq': 4, 'GreaterEq': 4, 'Plus': 5, 'Minus': 5, 'Star': 6, 'Slash': 6}
ops = list(LEVEL)
o1, o2 = z3.Int('o1'), z3.Int('o2')
assumptions = [z3.Or(*[o1 == K(x) for x in ops]), z3.Or(*[o2 == K(x) for x in ops])]
seq = [K('Ident'), o1, K('Ident'), o2, K('Ident')]
def tree_of(ops_):
    st = [[]]
    for op in ops_:
        if op[0] == 'start': st.append([sk[op[1]] if not ms.is_sym(op[1]) else '?'])
        elif op[0] == 'token': st[-1].append('t')
        else:
            n = st.pop(); st[-1].append(n)
    return st[0][0]
def entry(ex):
    toks = ms.PyVec([ms.Agg('Token', 0, [ms.SymEnum('TokenKind', k) if ms.is_sym(k) else ms.Agg('TokenKind', k, []), ms.Str([116, 48 + i]), ms.Agg('TextRange', 0, [i, i + 1])]) for i, k in enumerate(seq)])
    p = ex.call("Parser::<'_>::new", [ms.Opaque('path'), toks], None)
    holder = {0: p}
    ex.call('file', [ms.Ref(holder, 0)], None)
    res = ex.call("Parser::<'_>::build_tree", [holder[0]], None)
    errs = len(res.fields[1].items)
    return (tree_of(res.fields[0].ops), errs)
res, left = ms.explore(W, entry, assumptions)
print('paths', len(res), 'time %.1fs' % (time.time() - t0), 'queries', W.queries)
bad = 0
for pc, kind, r, steps in res:
    if kind != 'ok': print('PANIC', r); bad += 1; continue
    tree, errs = r
    # tree = ['FILE', ['EXPR_BINARY', lhs, 't', rhs]]
    top = tree[1]
    left_nested = isinstance(top[1], list) and top[1][0] == 'EXPR_BINARY'
    # which (o1,o2) reach this path with a shape contradicting the level table?
    sol = z3.Solver(); sol.add(*assumptions); sol.add(*pc)
    exp_left = z3.Or(*[z3.And(o1 == K(a), o2 == K(b)) for a in ops for b in ops if LEVEL[a] >= LEVEL[b]])
    sol.add(exp_left != left_nested)
    if errs: print('diagnostics on valid input', errs); bad += 1
    if sol.check() == z3.sat:
        m = sol.model(); print('VIOLATION', kinds[m[o1].as_long()], kinds[m[o2].as_long()], 'left' if left_nested else 'right'); bad += 1
print('violations', bad, 'sample tree', res[0][2])

#!/bin/bash
name=$1; pkg=$2; h=$3; to=$4; shift 4
cd /tmp/gs
export CARGO_NET_OFFLINE=true
ulimit -v 20000000
start=$(date +%s)
timeout $to cargo kani -p $pkg --target-dir /tmp/kt-$name --harness $h "$@" > /tmp/p2-$name.log 2>&1
echo "EXIT $? after $(( $(date +%s) - start ))s" >> /tmp/p2-$name.log

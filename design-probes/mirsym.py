#!/usr/bin/env python3-vt
# PROBE ONLY (design phase): tiny MIR symbolic executor, decision-replay forking, z3 for feasibility.
import re, sys, itertools
import z3

# ---------------------------------------------------------------- MIR parsing
class Fn:
    def __init__(s, name, params, blocks): s.name, s.params, s.blocks = name, params, blocks

def parse_mir(text):
    fns = {}
    lines = text.split('\n')
    i = 0
    hdr = re.compile(r'^fn (.+?)\((.*)\) -> (.+) \{$')
    while i < len(lines):
        m = hdr.match(lines[i])
        if not m:
            i += 1; continue
        name = m.group(1)
        params = [int(x) for x in re.findall(r'_(\d+):', m.group(2))]
        blocks = {}
        i += 1
        cur = None
        while i < len(lines) and lines[i] != '}':
            l = lines[i].strip()
            mb = re.match(r'^bb(\d+)( \(cleanup\))?: \{$', l)
            if mb:
                cur = int(mb.group(1)); blocks[cur] = []
            elif l == '}' :
                cur = None
            elif cur is not None and l:
                blocks[cur].append(l)
            i += 1
        fns[name] = Fn(name, params, blocks)
    return fns

# ---------------------------------------------------------------- values
class Str:            # immutable &str or owned String buffer (list of char values)
    def __init__(s, chars): s.chars = list(chars)
class Bytes:
    def __init__(s, bs): s.bs = list(bs)
class Enum:
    def __init__(s, idx, fields=()): s.idx, s.fields = idx, list(fields)
class Tup:
    def __init__(s, fields): s.fields = list(fields)
class Ref:            # reference to a local slot (frame, idx) or to a python object
    def __init__(s, frame=None, idx=None, obj=None): s.frame, s.idx, s.obj = frame, idx, obj
    def get(s): return s.obj if s.frame is None else s.frame[s.idx]
    def set(s, v):
        if s.frame is None: raise Exception('set through obj ref')
        s.frame[s.idx] = v
class CharsIter:
    def __init__(s, st): s.st, s.pos = st, 0
class SliceIter:
    def __init__(s, bs): s.bs, s.pos = bs, 0
class Closure:
    def __init__(s, fname): s.fname = fname
class FmtArg:
    def __init__(s, kind, v): s.kind, s.v = kind, v
class FmtArgs:
    def __init__(s, template, args): s.template, s.args = template, args

def is_sym(v): return isinstance(v, z3.ExprRef)
def zb(v): return v if is_sym(v) else z3.BoolVal(bool(v))
def zi(v): return v if is_sym(v) else z3.IntVal(int(v))

class Infeasible(Exception): pass
class Unsupported(Exception): pass

class Exec:
    def __init__(s, fns, assumptions):
        s.fns = fns; s.solver = z3.Solver(); s.solver.add(*assumptions)
        s.decisions = []; s.dpos = 0; s.pc = []; s.pending = []
    # branch on symbolic condition list [(cond, target)] -> chosen target
    def choose(s, options):
        feas = []
        for c, t in options:
            if c is True: feas.append((c, t)); continue
            if c is False: continue
            s.solver.push(); s.solver.add(*s.pc); s.solver.add(c)
            ok = s.solver.check() == z3.sat
            s.solver.pop()
            if ok: feas.append((c, t))
        if not feas: raise Infeasible()
        if s.dpos < len(s.decisions):
            k = s.decisions[s.dpos]
        else:
            k = 0
            for alt in range(1, len(feas)):
                s.pending.append(s.decisions[:s.dpos] + [alt])
            s.decisions.append(0)
        s.dpos += 1
        c, t = feas[k]
        if c is not True: s.pc.append(c)
        return t

    # ------------------------------------------------------------ operands / places
    def place(s, frame, txt):
        txt = txt.strip()
        m = re.fullmatch(r'_(\d+)', txt)
        if m: return ('local', int(m.group(1)))
        if txt.startswith('(*') and txt.endswith(')'):
            return ('deref', s.place(frame, txt[2:-1]))
        m = re.fullmatch(r'\((.+) as (\w+)\)', txt)
        if m: return ('downcast', s.place(frame, m.group(1)), m.group(2))
        m = re.fullmatch(r'\((.+)\.(\d+): (.+)\)', txt)
        if m:
            # find the split point properly: last ".N: " at depth 0
            inner = txt[1:-1]
            depth = 0; cut = None
            for i, ch in enumerate(inner):
                if ch in '([<': depth += 1
                elif ch in ')]>': depth -= 1
                elif ch == '.' and depth == 0:
                    mm = re.match(r'\.(\d+): ', inner[i:])
                    if mm and cut is None: cut = (i, int(mm.group(1)))
            if cut is None: raise Unsupported('place ' + txt)
            return ('field', s.place(frame, inner[:cut[0]]), cut[1])
        raise Unsupported('place ' + txt)
    def read(s, frame, p):
        k = p[0]
        if k == 'local': return frame[p[1]]
        if k == 'deref':
            r = s.read(frame, p[1])
            return r.get() if isinstance(r, Ref) else r
        if k == 'downcast': return s.read(frame, p[1])
        if k == 'field':
            v = s.read(frame, p[1])
            return v.fields[p[2]]
        raise Unsupported(str(p))
    def write(s, frame, p, v):
        if p[0] == 'local': frame[p[1]] = v; return
        if p[0] == 'deref':
            r = s.read(frame, p[1]); r.set(v); return
        raise Unsupported('write ' + str(p))
    def const(s, txt):
        txt = txt.strip()
        if txt in ('true', 'false'): return txt == 'true'
        m = re.fullmatch(r'(-?\d+)_[ui](\d+|size)', txt)
        if m: return int(m.group(1))
        m = re.fullmatch(r"'(.*)'", txt)
        if m:
            body = m.group(1)
            esc = {'\\n': '\n', '\\r': '\r', '\\t': '\t', "\\'": "'", '\\\\': '\\', '\\"': '"'}
            body = esc.get(body, body)
            return ord(body)
        m = re.fullmatch(r'"(.*)"', txt)
        if m:
            body = bytes(m.group(1), 'utf-8').decode('unicode_escape')
            return Str([ord(c) for c in body])
        m = re.fullmatch(r'b"(.*)"', txt)
        if m:
            return Bytes(list(m.group(1).encode('latin1').decode('unicode_escape').encode('latin1')))
        if txt.startswith('ZeroSized: {closure@'):
            return Closure(txt)
        raise Unsupported('const ' + txt)
    def operand(s, frame, txt):
        txt = txt.strip()
        if txt.startswith('const '): return s.const(txt[6:])
        for pre in ('no_retag copy ', 'copy ', 'move '):
            if txt.startswith(pre): return s.read(frame, s.place(frame, txt[len(pre):]))
        raise Unsupported('operand ' + txt)
    def rvalue(s, frame, txt):
        txt = txt.strip()
        m = re.fullmatch(r'(Eq|Ne|Lt|Le|Gt|Ge)\((.+), (.+)\)', txt)
        if m:
            a, b = s.operand(frame, m.group(2)), s.operand(frame, m.group(3))
            op = m.group(1)
            if not is_sym(a) and not is_sym(b):
                return {'Eq': a == b, 'Ne': a != b, 'Lt': a < b, 'Le': a <= b, 'Gt': a > b, 'Ge': a >= b}[op]
            a, b = zi(a), zi(b)
            return {'Eq': a == b, 'Ne': a != b, 'Lt': a < b, 'Le': a <= b, 'Gt': a > b, 'Ge': a >= b}[op]
        m = re.fullmatch(r'discriminant\((.+)\)', txt)
        if m: return s.read(frame, s.place(frame, m.group(1))).idx
        m = re.fullmatch(r'&(mut )?(.+)', txt)
        if m:
            p = s.place(frame, m.group(2))
            if p[0] == 'local': return Ref(frame, p[1])
            if p[0] == 'deref': return s.read(frame, p[1])       # reborrow
            raise Unsupported('ref ' + txt)
        m = re.fullmatch(r'\[(.+); (\d+)\]', txt)
        if m: return Bytes([s.operand(frame, m.group(1))] * int(m.group(2)))
        m = re.fullmatch(r'\((.+),\)', txt)
        if m: return Tup([s.operand(frame, m.group(1))])
        m = re.fullmatch(r'\[(.+)\]', txt)
        if m: return Tup([s.operand(frame, x) for x in m.group(1).split(', ')])
        m = re.fullmatch(r'((?:copy|move) _\d+) as (.+) \((PointerCoercion|IntToInt|Transmute|PtrToPtr).*\)', txt)
        if m: return s.operand(frame, m.group(1))
        return s.operand(frame, txt)

    # ------------------------------------------------------------ library models
    def call(s, fname, args):
        a = args
        def deref(v): return v.get() if isinstance(v, Ref) else v
        if fname in s.fns: return s.run(fname, args)
        if fname == 'core::str::<impl str>::as_bytes': return Bytes(deref(a[0]).chars)
        if fname == 'core::slice::<impl [u8]>::split_first':
            b = deref(a[0]).bs
            if not b: return Enum(0)
            return Enum(1, [Tup([Ref(obj=b[0]), Bytes(b[1:])])])
        if fname in ('core::num::<impl u8>::is_ascii_alphabetic', 'char::methods::<impl char>::is_ascii_alphabetic'):
            c = zi(deref(a[0])); return z3.simplify(z3.Or(z3.And(c >= 65, c <= 90), z3.And(c >= 97, c <= 122)))
        if fname in ('core::num::<impl u8>::is_ascii_alphanumeric', 'char::methods::<impl char>::is_ascii_alphanumeric'):
            c = zi(deref(a[0])); return z3.simplify(z3.Or(z3.And(c >= 65, c <= 90), z3.And(c >= 97, c <= 122), z3.And(c >= 48, c <= 57)))
        if fname == 'core::slice::<impl [u8]>::iter': return SliceIter(deref(a[0]).bs)
        if fname.startswith('<std::slice::Iter<\'_, u8> as Iterator>::all::'):
            it = deref(a[0]); clo = re.search(r'\{closure@(.+?)\}', fname).group(1)
            target = [n for n in s.fns if n.endswith('{closure#0}') and False]
            # find closure fn by source span in its signature: use the unique closure of the caller
            cname = s.closure_by_span(clo)
            while it.pos < len(it.bs):
                v = it.bs[it.pos]; it.pos += 1
                r = s.run(cname, [None, Ref(obj=v)])
                t = s.branch_bool(r)
                if not t: return False
            return True
        if fname == '<str as PartialEq>::eq':
            x, y = deref(a[0]).chars, deref(a[1]).chars
            if len(x) != len(y): return False
            return z3.simplify(z3.And(*[zi(p) == zi(q) for p, q in zip(x, y)])) if x else True
        if fname == '<str as ToString>::to_string': return Str(deref(a[0]).chars)
        if fname == '<std::string::String as From<&str>>::from': return Str(deref(a[0]).chars)
        if fname == 'std::string::String::new': return Str([])
        if fname == 'core::str::<impl str>::chars': return CharsIter(deref(a[0]))
        if fname in ("<Chars<'_> as IntoIterator>::into_iter", '<&[u8] as IntoIterator>::into_iter'):
            v = deref(a[0]); return SliceIter(v.bs) if isinstance(v, Bytes) else v
        if fname == "<Chars<'_> as Iterator>::next":
            it = deref(a[0])
            if it.pos >= len(it.st.chars): return Enum(0)
            it.pos += 1; return Enum(1, [it.st.chars[it.pos - 1]])
        if fname == "<std::slice::Iter<'_, u8> as Iterator>::next":
            it = deref(a[0])
            if it.pos >= len(it.bs): return Enum(0)
            it.pos += 1; return Enum(1, [Ref(obj=it.bs[it.pos - 1])])
        if fname == 'std::string::String::push': deref(a[0]).chars.append(a[1]); return Tup([])
        if fname == 'std::string::String::push_str': deref(a[0]).chars.extend(deref(a[1]).chars); return Tup([])
        if fname == 'char::methods::<impl char>::encode_utf8':
            c = a[0]
            # ASCII only in this probe: force c < 128 on this path
            t = s.choose([(zb(zi(c) < 128), 'ascii'), (zb(zi(c) >= 128), 'multi')])
            if t != 'ascii': raise Unsupported('non-ascii encode_utf8')
            return Ref(obj=Str([c]))
        if fname == "core::fmt::rt::Argument::<'_>::new_lower_hex::<&u8>": return FmtArg('x', deref(deref(a[0])))
        if fname == "Arguments::<'_>::new::<8, 1>":
            return FmtArgs(bytes(deref(a[0]).bs), deref(a[1]).fields)
        if fname == '<std::string::String as std::fmt::Write>::write_fmt':
            fa = a[1]
            if fa.template != b'\xc3 \x00\x00i\x02\x00\x00' or fa.args[0].kind != 'x': raise Unsupported('fmt template')
            v = zi(fa.args[0].v)
            def hexd(n): return z3.If(n < 10, n + 48, n + 87)
            deref(a[0]).chars.extend([z3.simplify(hexd(v / 16)), z3.simplify(hexd(v % 16))])
            return Enum(0, [Tup([])])
        if fname == 'Result::<(), std::fmt::Error>::unwrap': return Tup([])
        raise Unsupported('call ' + fname)
    def closure_by_span(s, span):
        # closures are named <parent>::{closure#N}; match by parent recorded at call time
        cands = [n for n in s.fns if n.startswith(s.cur_fn + '::{closure#')]
        if len(cands) != 1: raise Unsupported('closure lookup ' + span)
        return cands[0]
    def branch_bool(s, v):
        if not is_sym(v): return bool(v)
        return s.choose([(v, True), (z3.Not(v), False)])

    # ------------------------------------------------------------ interpreter
    def run(s, fname, args):
        fn = s.fns[fname]; prev = getattr(s, 'cur_fn', None); s.cur_fn = fname
        frame = {}
        for p, v in zip(fn.params, args): frame[p] = v
        bb = 0; steps = 0
        while True:
            steps += 1
            if steps > 5000: raise Unsupported('step limit')
            stmts = fn.blocks[bb]
            for st in stmts[:-1]:
                st = st.rstrip(';')
                if st.startswith(('StorageLive', 'StorageDead', 'nop', 'FakeRead', 'PlaceMention', 'Retag', 'AscribeUserType', 'Coverage', 'ConstEvalCounter', 'BackwardIncompatibleDropHint')): continue
                lhs, rhs = st.split(' = ', 1)
                s.write(frame, s.place(frame, lhs), s.rvalue(frame, rhs))
            t = stmts[-1].rstrip(';')
            if t == 'return': s.cur_fn = prev; return frame.get(0)
            if t == 'unreachable': raise Infeasible()
            m = re.fullmatch(r'goto -> bb(\d+)', t)
            if m: bb = int(m.group(1)); continue
            m = re.fullmatch(r'switchInt\((.+)\) -> \[(.+)\]', t)
            if m:
                v = s.operand(frame, m.group(1))
                targets = [x.split(': ') for x in m.group(2).split(', ')]
                if not is_sym(v):
                    iv = int(v); dest = None
                    for k, tb in targets:
                        if k != 'otherwise' and int(k) == iv: dest = tb
                    if dest is None: dest = dict((k, tb) for k, tb in targets)['otherwise']
                    bb = int(dest[2:]); continue
                opts = []; others = []
                for k, tb in targets:
                    if k == 'otherwise': continue
                    if z3.is_bool(v): c = z3.Not(v) if int(k) == 0 else v
                    else: c = (v == int(k))
                    opts.append((c, int(tb[2:]))); others.append(c)
                ow = [tb for k, tb in targets if k == 'otherwise']
                if ow: opts.append((z3.Not(z3.Or(*others)), int(ow[0][2:])))
                bb = s.choose(opts); continue
            m = re.fullmatch(r'(.+?) = (.+)\((.*)\) -> \[return: bb(\d+), unwind.*\]', t)
            if m:
                argtxt = m.group(3)
                # split args at depth 0
                parts, depth, cur = [], 0, ''
                for ch in argtxt:
                    if ch in '([{<': depth += 1
                    if ch in ')]}>': depth -= 1
                    if ch == ',' and depth == 0: parts.append(cur); cur = ''
                    else: cur += ch
                if cur.strip(): parts.append(cur)
                args2 = [s.operand(frame, p) for p in parts]
                r = s.call(m.group(2), args2); s.cur_fn = fname
                s.write(frame, s.place(frame, m.group(1)), r)
                bb = int(m.group(4)); continue
            m = re.fullmatch(r'drop\(.+\) -> \[return: bb(\d+), unwind.*\]', t)
            if m: bb = int(m.group(1)); continue
            raise Unsupported('terminator ' + t)

def explore(fns, fname, mkargs, assumptions):
    """returns list of (path_condition, result) over all feasible paths"""
    out = []; work = [[]]
    while work:
        dec = work.pop()
        ex = Exec(fns, assumptions); ex.decisions = list(dec)
        try:
            r = ex.run(fname, mkargs())
            out.append((list(ex.pc), r))
        except Infeasible:
            pass
        work.extend(ex.pending)
    return out

if __name__ == '__main__':
    import time
    t0 = time.time()
    fns = parse_mir(open(sys.argv[1]).read())
    L = int(sys.argv[2]) if len(sys.argv) > 2 else 3
    ALPHA = [ord(c) for c in 'aB1_#:']
    def sym(prefix):
        cs = [z3.Int('%s%d' % (prefix, i)) for i in range(L)]
        return cs, [z3.Or(*[c == a for a in ALPHA]) for c in cs]
    a, ca = sym('a'); b, cb = sym('b')
    pa = explore(fns, 'go_ident', lambda: [Str(a)], ca)
    pb = explore(fns, 'go_ident', lambda: [Str(b)], cb)
    print('paths', len(pa), len(pb), 'explore time %.1fs' % (time.time() - t0))
    sol = z3.Solver(); sol.add(*ca); sol.add(*cb); sol.add(z3.Or(*[x != y for x, y in zip(a, b)]))
    q = 0; found = None
    for (pca, ra), (pcb, rb) in itertools.product(pa, pb):
        if len(ra.chars) != len(rb.chars): continue
        q += 1
        sol.push(); sol.add(*pca); sol.add(*pcb)
        sol.add(*[zi(x) == zi(y) for x, y in zip(ra.chars, rb.chars)])
        if sol.check() == z3.sat:
            m = sol.model()
            found = (''.join(chr(m.eval(x, True).as_long()) for x in a), ''.join(chr(m.eval(x, True).as_long()) for x in b))
            sol.pop(); break
        sol.pop()
    print('queries', q, 'collision', found, 'total %.1fs' % (time.time() - t0))

def append(path, text, tag):
    s=open(path).read()
    i=s.find("\n#[cfg(kani)]\nmod %s {" % tag)
    if i>=0: s=s[:i]
    open(path,'w').write(s+text)
append("crates/compiler/src/go/dce.rs", r'''
#[cfg(kani)]
mod kh8 {
    use super::*;
    use crate::go::goty::GoType;
    fn any_binop() -> ast::GoBinaryOp {
        match kani::any::<u8>() % 12 {
            0 => ast::GoBinaryOp::Add, 1 => ast::GoBinaryOp::Sub, 2 => ast::GoBinaryOp::Mul, 3 => ast::GoBinaryOp::Div,
            4 => ast::GoBinaryOp::Less, 5 => ast::GoBinaryOp::Greater, 6 => ast::GoBinaryOp::LessEq, 7 => ast::GoBinaryOp::GreaterEq,
            8 => ast::GoBinaryOp::Eq, 9 => ast::GoBinaryOp::NotEq, 10 => ast::GoBinaryOp::And, _ => ast::GoBinaryOp::Or,
        }
    }
    fn any_ty() -> GoType {
        match kani::any::<u8>() % 4 { 0 => GoType::TInt32, 1 => GoType::TUint8, 2 => GoType::TFloat64, _ => GoType::TBool }
    }
    fn var() -> ast::Expr { ast::Expr::Var { name: String::new(), ty: any_ty() } }
    fn is_int(t: &GoType) -> bool { matches!(t, GoType::TInt32 | GoType::TUint8) }
    // shape: BinaryOp(Var, Var)
    #[kani::proof]
    #[kani::unwind(3)]
    fn se_binop_var_var() {
        let op = any_binop();
        let ty = any_ty();
        let may = matches!(op, ast::GoBinaryOp::Div) && is_int(&ty);
        let e = ast::Expr::BinaryOp { op, lhs: Box::new(var()), rhs: Box::new(var()), ty };
        let pure_ = !expr_has_side_effects(&e);
        if pure_ { assert!(!may); }
        std::mem::forget(e);
    }
    // shape: UnaryOp(BinaryOp(Var, Var))
    #[kani::proof]
    #[kani::unwind(3)]
    fn se_unop_binop() {
        let op = any_binop();
        let ty = any_ty();
        let may = matches!(op, ast::GoBinaryOp::Div) && is_int(&ty);
        let inner = ast::Expr::BinaryOp { op, lhs: Box::new(var()), rhs: Box::new(var()), ty };
        let e = ast::Expr::UnaryOp { op: ast::GoUnaryOp::Neg, expr: Box::new(inner), ty: any_ty() };
        let pure_ = !expr_has_side_effects(&e);
        if pure_ { assert!(!may); }
        std::mem::forget(e);
    }
}
''', "kh8")

def append(path, text, tag):
    s=open(path).read()
    i=s.find("\n#[cfg(kani)]\nmod %s {" % tag)
    if i>=0: s=s[:i]
    open(path,'w').write(s+text)

append("crates/compiler/src/pprint/go_pprint.rs", r'''
#[cfg(kani)]
mod kh6 {
    use super::*;
    // expected escape of one ASCII byte: (first, second, n)
    fn exp1(c: u8) -> (u8, u8, usize) {
        match c { b'"' => (b'\\', b'"', 2), b'\\' => (b'\\', b'\\', 2), b'\n' => (b'\\', b'n', 2), b'\r' => (b'\\', b'r', 2), b'\t' => (b'\\', b't', 2), o => (o, 0, 1) }
    }
    #[kani::proof]
    #[kani::unwind(4)]
    fn esc_len3_tight() {
        let bytes: [u8; 3] = kani::any();
        kani::assume(bytes[0] < 0x80 && bytes[1] < 0x80 && bytes[2] < 0x80);
        let s = unsafe { std::str::from_utf8_unchecked(&bytes) };
        let e = escape_go_string(s);
        let eb = e.as_bytes();
        let (a0, a1, an) = exp1(bytes[0]);
        let (b0, b1, bn) = exp1(bytes[1]);
        let (c0, c1, cn) = exp1(bytes[2]);
        assert!(eb.len() == an + bn + cn);
        assert!(eb[0] == a0);
        if an == 2 { assert!(eb[1] == a1); }
        assert!(eb[an] == b0);
        if bn == 2 { assert!(eb[an + 1] == b1); }
        assert!(eb[an + bn] == c0);
        if cn == 2 { assert!(eb[an + bn + 1] == c1); }
        std::mem::forget(e);
    }
}
''', "kh6")

append("crates/compiler/src/go/mangle.rs", r'''
#[cfg(kani)]
mod kh6 {
    use super::*;
    fn stub_write(_o: &mut dyn std::fmt::Write, _a: std::fmt::Arguments<'_>) -> std::fmt::Result { unreachable!() }
    const AL: [u8; 5] = [b'a', b'_', b'#', b'B', b'1'];
    fn pick() -> u8 { let k: usize = kani::any(); kani::assume(k < AL.len()); AL[k] }
    fn same(a: &[u8], b: &[u8]) -> bool {
        if a.len() != b.len() { return false; }
        macro_rules! c { ($($i:expr),*) => { $( if $i < a.len() && a[$i] != b[$i] { return false; } )* } }
        c!(0,1,2,3,4,5,6,7,8,9,10,11);
        true
    }
    #[kani::proof]
    #[kani::unwind(5)]
    #[kani::stub(core::fmt::write, stub_write)]
    fn gi_3_3_tight() {
        let a = [pick(), pick(), pick()];
        let b = [pick(), pick(), pick()];
        let sa = unsafe { std::str::from_utf8_unchecked(&a) };
        let sb = unsafe { std::str::from_utf8_unchecked(&b) };
        let ga = go_ident(sa);
        let gb = go_ident(sb);
        if same(ga.as_bytes(), gb.as_bytes()) { assert!(a[0] == b[0] && a[1] == b[1] && a[2] == b[2]); }
        std::mem::forget((ga, gb));
    }
}
''', "kh6")

append("crates/parser/src/expr.rs", r'''
#[cfg(kani)]
mod kh6 {
    use super::*;
    use crate::event::Event;
    use lexer::Token;
    use text_size::{TextRange, TextSize};
    fn stub_format(_a: std::fmt::Arguments<'_>) -> String { String::new() }
    fn stub_atom(p: &mut Parser) -> Option<MarkerClosed> {
        if p.at(T![ident]) {
            let m = p.open();
            p.advance();
            Some(p.close(m, MySyntaxKind::EXPR_IDENT))
        } else { None }
    }
    const OPS: &[TokenKind] = &[T![||], T![&&], T![==], T![!=], T![<], T![>], T![<=], T![>=], T![+], T![-], T![*], T![/]];
    fn level(k: TokenKind) -> u8 {
        match k { T![||] => 1, T![&&] => 2, T![==] | T![!=] => 3, T![<] | T![>] | T![<=] | T![>=] => 4, T![+] | T![-] => 5, _ => 6 }
    }
    #[kani::proof]
    #[kani::unwind(6)]
    #[kani::stub(atom, stub_atom)]
    #[kani::stub(alloc::fmt::format, stub_format)]
    fn pratt_two_ops_tight() {
        let i: usize = kani::any(); kani::assume(i < OPS.len());
        let j: usize = kani::any(); kani::assume(j < OPS.len());
        let (op1, op2) = (OPS[i], OPS[j]);
        let z = TextRange::empty(TextSize::from(0));
        let toks = vec![
            Token { kind: T![ident], text: "x", range: z }, Token { kind: op1, text: "x", range: z },
            Token { kind: T![ident], text: "x", range: z }, Token { kind: op2, text: "x", range: z },
            Token { kind: T![ident], text: "x", range: z },
        ];
        let mut p = Parser::new(std::path::Path::new("f"), toks);
        p.events.reserve(32);
        let r = expr(&mut p);
        assert!(r.is_some());
        assert!(p.eof());
        assert!(p.events.len() == 15);
        let left = matches!(p.events[8], Event::Close);
        let right = matches!(p.events[8], Event::Open { .. });
        assert!(left || right);
        assert!(left == (level(op1) >= level(op2)));
        std::mem::forget(p);
    }
}
''', "kh6")

import sys, time, z3, re
sys.argv = ['x']
import importlib.util
spec = importlib.util.spec_from_file_location('ms', '/tmp/mir/mirsym2.py'); ms = importlib.util.module_from_spec(spec); spec.loader.exec_module(ms)
t0 = time.time()
ms.SRC_ROOT = '/tmp/gs'
W = ms.World(['/tmp/mir/uni.mir'], ['/tmp/gs/crates/compiler/src/tast.rs', '/tmp/gs/crates/diagnostics/src/lib.rs'])
W.enums['DiagnosticStage'] = W.enums['Stage']; W.enums['DiagnosticSeverity'] = W.enums['Severity']
TY = [v[0] for v in W.enums['Ty']]; I = TY.index
# resolver extension for "<impl typer::Typer>::method" call names
orig_resolve = W._resolve
def _resolve(callname):
    m = re.fullmatch(r'(.*)::<impl ([\w:]+)>::(\w+)', callname)
    if m:
        hits = [n for n in W.by_last.get(m.group(3), []) if '<impl at' in n and n.startswith(m.group(1))]
        if len(hits) == 1: return hits[0]
    return orig_resolve(callname)
W._resolve = _resolve
orig_model = ms.Exec.model
def ty_eq(s, x, y): return s.call('<tast::Ty as PartialEq>::eq', [x, y], None)
def model(s, fname, a):
    d = s.deref
    f = fname.replace("::<'_>", '').replace("<'_>", '')
    if re.match(r'<Vec<.*> as Deref>::deref', f): return d(a[0])
    if re.match(r'core::slice::<impl \[.*\]>::iter', f): it = ms.PyVec(d(a[0]).items); it.pos = 0; return it
    if f.endswith('::len') and f.startswith('Vec::'): return len(d(a[0]).items)
    if f == 'Box::<tast::Ty>::new' or f == 'Box::new': return ms.mkbox(a[0])
    if f.startswith('<Box<tast::Ty> as AsRef'): 
        b = d(a[0]); r = b.fields[0].fields[0].fields[0]; return r
    if f == '<&Box<tast::Ty> as PartialEq>::eq':
        x, y = d(d(a[0])), d(d(a[1])); return ty_eq(s, x.fields[0].fields[0].fields[0], y.fields[0].fields[0].fields[0])
    m = re.fullmatch(r'<&std::string::String as PartialEq>::(eq|ne)', f)
    if m:
        r = d(d(a[0])).chars == d(d(a[1])).chars; return r if m.group(1) == 'eq' else not r
    m = re.fullmatch(r'<&usize as PartialEq>::(eq|ne)', f)
    if m:
        x, y = d(d(a[0])), d(d(a[1]))
        r = (ms.zi(x) == ms.zi(y)) if (ms.is_sym(x) or ms.is_sym(y)) else (x == y)
        return r if m.group(1) == 'eq' else (z3.Not(r) if ms.is_sym(r) else not r)
    if f == '<&Vec<tast::Ty> as PartialEq>::eq':
        x, y = d(d(a[0])).items, d(d(a[1])).items
        if len(x) != len(y): return False
        for i in range(len(x)):
            if not s.branch_bool(ty_eq(s, ms.Ref(x, i), ms.Ref(y, i))): return False
        return True
    if '>::zip::<' in f: z = ms.PyVec([]); z.a, z.b, z.pos = a[0].items, a[1].items, 0; return z
    if f.startswith('<Zip<') and f.endswith('IntoIterator>::into_iter'): return a[0]
    if f.startswith('<Zip<') and f.endswith('Iterator>::next'):
        z = d(a[0])
        if z.pos >= min(len(z.a), len(z.b)): return ms.Agg('Option', 0, [])
        z.pos += 1; return ms.Agg('Option', 1, [ms.Agg('tuple', 0, [ms.Ref(z.a, z.pos - 1), ms.Ref(z.b, z.pos - 1)])])
    if '>::map::<' in f and 'as Iterator' in f:
        it = a[0]; it.clo = a[1]; it.cfn = s.W.closure_by_span(re.search(r'\{closure@([^}]+)\}', f).group(1)); return it
    if '>::collect::<' in f:
        it = a[0]; h = {0: it.clo}
        return ms.PyVec([s.run_body(s.W.fns[it.cfn], [ms.Ref(h, 0), ms.Ref(it.items, i)], it.cfn) for i in range(len(it.items))])
    if f == '<std::string::String as Clone>::clone': return ms.Str(d(a[0]).chars)
    if f.startswith('core::fmt::rt::Argument::new_'): return [63]
    if f.startswith('Arguments::new'): return [63]
    if f == 'format': return ms.Str([63])
    if f.startswith('UnificationTable'): raise ms.Unsupported('TVar path reached: ' + f)
    return orig_model(s, fname, a)
ms.Exec.model = model
orig_const = ms.Exec.const
def const(s, txt):
    if txt.strip().startswith('b"'): return ms.Opaque('bytes')
    if txt.strip() == 'core::num::<impl usize>::MAX': return 2**64 - 1
    return orig_const(s, txt)
ms.Exec.const = const
# lazily initialised ground types over a restricted constructor set
class Lazy:
    def __init__(s, depth, tag): s.depth, s.tag = depth, tag
ctr = [0]
def mat(ex, lz):
    leaf = ['TInt32', 'TBool', 'TStruct', 'TParam']
    node = ['TTuple', 'TArray', 'TRef', 'TFunc']
    allowed = leaf + (node if lz.depth > 0 else [])
    k = ex.choose([(True, n) for n in allowed]); ctr[0] += 1
    if k in ('TInt32', 'TBool'): return ms.Agg('Ty', I(k), [])
    if k in ('TStruct', 'TParam'):
        nm = ex.choose([(True, 'A'), (True, 'B')]); return ms.Agg('Ty', I(k), [ms.Str([ord(nm)])])
    sub = lambda: Lazy(lz.depth - 1, lz.tag)
    if k == 'TTuple':
        n = ex.choose([(True, 1), (True, 2)]); return ms.Agg('Ty', I(k), [ms.PyVec([sub() for _ in range(n)])])
    if k == 'TArray':
        v = z3.Int('len_%s_%d' % (lz.tag, ctr[0])); ex.pc += [v >= 1, v <= 2]; return ms.Agg('Ty', I(k), [v, ms.mkbox(sub())])
    if k == 'TRef': return ms.Agg('Ty', I(k), [ms.mkbox(sub())])
    if k == 'TFunc': return ms.Agg('Ty', I(k), [ms.PyVec([sub()]), ms.mkbox(sub())])
orig_slot = ms.Exec.slot
def slot(s, frame, p):
    c, k = orig_slot(s, frame, p)
    try: v = c[k]
    except (KeyError, IndexError): return c, k
    if isinstance(v, Lazy): c[k] = mat(s, v)
    return c, k
ms.Exec.slot = slot
def force(ex, v):
    """fully materialise (for the oracle)"""
    if isinstance(v, Lazy): v = mat(ex, v)
    if isinstance(v, ms.Agg):
        for i, f in enumerate(v.fields): v.fields[i] = force(ex, f)
    if isinstance(v, ms.PyVec): v.items = [force(ex, x) for x in v.items]
    if isinstance(v, ms.Ref): v.set(force(ex, v.get()))
    return v
def struct_eq(x, y):
    """python-side structural equality -> z3 formula"""
    if isinstance(x, ms.Agg) and x.ty == 'Box': return struct_eq(ms.unbox(x), ms.unbox(y))
    if isinstance(x, ms.Agg) and x.ty in ('Unique', 'NonNull'): return struct_eq(x.fields[0], y.fields[0])
    if isinstance(x, ms.Ref): return struct_eq(x.get(), y.get())
    if isinstance(x, ms.Agg):
        if x.idx != y.idx or len(x.fields) != len(y.fields): return False
        parts = [struct_eq(a, b) for a, b in zip(x.fields, y.fields)]
    elif isinstance(x, ms.PyVec):
        if len(x.items) != len(y.items): return False
        parts = [struct_eq(a, b) for a, b in zip(x.items, y.items)]
    elif isinstance(x, ms.Str): return x.chars == y.chars
    else: return (ms.zi(x) == ms.zi(y)) if (ms.is_sym(x) or ms.is_sym(y)) else x == y
    if any(p is False for p in parts): return False
    parts = [p for p in parts if p is not True]
    return z3.And(*parts) if parts else True
DEPTH = 1
def entry(ex):
    h = {0: Lazy(DEPTH, 'a'), 1: Lazy(DEPTH, 'b'), 2: ms.Agg('Typer', 0, [ms.Opaque('uni'), ms.PyVec([]), ms.Opaque('hir'), ms.Opaque('res')]), 3: ms.PyVec([])}
    force(ex, h[0]); h[0] = force(ex, h[0]); h[1] = force(ex, h[1])
    r = ex.call('typer::unify::<impl typer::Typer>::unify', [ms.Ref(h, 2), ms.Ref(h, 3), ms.Ref(h, 0), ms.Ref(h, 1)], None)
    return (r, h[0], h[1], len(h[3].items))
res, left = ms.explore(W, entry, [])
bad = 0
for pc, kind, r, steps in res:
    if kind != 'ok': print('PANIC', r); bad += 1; continue
    ret, a, b, ndiag = r
    eq = struct_eq(a, b)
    sol = z3.Solver(); sol.add(*pc)
    retf = ret if ms.is_sym(ret) else z3.BoolVal(bool(ret)); eqf = eq if ms.is_sym(eq) else z3.BoolVal(bool(eq))
    sol.add(retf != eqf)
    if sol.check() == z3.sat: bad += 1; print('MISMATCH unify=%s eq=%s' % (ret, eq), a, b)
    if (not ms.is_sym(ret)) and (bool(ret) == (ndiag > 0)): bad += 1; print('DIAG MISMATCH', ret, ndiag)
print('paths', len(res), 'bad', bad, 'time %.1fs' % (time.time() - t0), 'queries', W.queries)

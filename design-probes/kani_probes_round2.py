def append(path, text):
    s=open(path).read()
    i=s.find("\n#[cfg(kani)]\nmod kh {")
    if i>=0: s=s[:i]
    open(path,'w').write(s+text)

append("crates/lexer/src/lib.rs", r'''
#[cfg(kani)]
mod kh {
    use super::*;
    const ALPHA: [u8; 5] = [b'\\', b'\n', b' ', b'a', b'\t'];
    fn run<const N: usize>() {
        let mut bytes = [0u8; N];
        for i in 0..N {
            let k: usize = kani::any();
            kani::assume(k < ALPHA.len());
            bytes[i] = ALPHA[k];
        }
        let len: usize = kani::any();
        kani::assume(len <= N);
        let s = unsafe { std::str::from_utf8_unchecked(&bytes[..len]) };
        let mut lex = logos::Lexer::<TokenKind>::new(s);
        let before = lex.remainder().len();
        let r = lex_multiline_str(&mut lex);
        let after = lex.remainder().len();
        assert!(after <= before);
        if r.is_none() { assert!(after == before); }
        if r.is_some() {
            let consumed = before - after;
            assert!(consumed >= 1);
            assert!(bytes[consumed - 1] != b'\n');
        }
    }
    #[kani::proof]
    #[kani::unwind(8)]
    fn mls_5() { run::<5>(); }
}
''')

append("crates/parser/src/expr.rs", r'''
#[cfg(kani)]
mod kh {
    use super::*;
    use lexer::Token;
    use text_size::{TextRange, TextSize};
    #[kani::proof]
    fn infix_table() {
        let (l_or, r_or) = infix_binding_power(T![||]).unwrap();
        let (l_and, r_and) = infix_binding_power(T![&&]).unwrap();
        assert!(l_or < r_or && r_or < l_and && l_and < r_and);
    }
    #[kani::proof]
    #[kani::unwind(260)]
    fn fuel_step() {
        let toks = vec![
            Token { kind: T![ident], text: "x", range: TextRange::empty(TextSize::from(0)) },
            Token { kind: T![+], text: "+", range: TextRange::empty(TextSize::from(0)) },
        ];
        let mut p = Parser::new(std::path::Path::new("f"), toks);
        let n: u16 = kani::any();
        kani::assume(n <= 258);
        let mut i = 0u16;
        let mut last = T![ident];
        while i < n { last = p.peek(); i += 1; }
        if n >= 1 && n <= 256 { assert!(last == T![ident]); }
        if n > 256 { assert!(last == T![eof]); }
        std::mem::forget(p);
    }
}
''')

append("crates/compiler/src/go/mangle.rs", r'''
#[cfg(kani)]
mod kh {
    use super::*;
    fn prim() -> tast::Ty {
        match kani::any::<u8>() % 4 {
            0 => tast::Ty::TInt32,
            1 => tast::Ty::TBool,
            2 => tast::Ty::TStruct { name: String::from("A") },
            _ => tast::Ty::TStruct { name: String::from("A_bool") },
        }
    }
    fn ty1() -> tast::Ty {
        match kani::any::<u8>() % 3 {
            0 => prim(),
            1 => tast::Ty::TTuple { typs: vec![prim(), prim()] },
            _ => tast::Ty::TTuple { typs: vec![prim(), prim(), prim()] },
        }
    }
    fn ty2() -> tast::Ty {
        match kani::any::<u8>() % 3 {
            0 => ty1(),
            1 => tast::Ty::TTuple { typs: vec![ty1(), prim()] },
            _ => tast::Ty::TTuple { typs: vec![ty1(), prim(), prim()] },
        }
    }
    #[kani::proof]
    #[kani::unwind(6)]
    fn encode_ty_inj() {
        let a = ty2();
        let b = ty2();
        let ea = encode_ty(&a);
        let eb = encode_ty(&b);
        if ea == eb { assert!(a == b); }
        std::mem::forget((a, b, ea, eb));
    }
    fn stub_write(_o: &mut dyn std::fmt::Write, _a: std::fmt::Arguments<'_>) -> std::fmt::Result { unreachable!() }
    const AL: [u8; 5] = [b'a', b'_', b'#', b'B', b'1'];
    fn name<const N: usize>() -> String {
        let len: usize = kani::any();
        kani::assume(len <= N);
        let mut v = Vec::with_capacity(N);
        for i in 0..N {
            let k: usize = kani::any();
            kani::assume(k < AL.len());
            if i < len { v.push(AL[k]); }
        }
        unsafe { String::from_utf8_unchecked(v) }
    }
    #[kani::proof]
    #[kani::unwind(12)]
    #[kani::stub(core::fmt::write, stub_write)]
    fn go_ident_inj3() {
        let a = name::<3>();
        let b = name::<3>();
        let ga = go_ident(&a);
        let gb = go_ident(&b);
        if ga == gb { assert!(a == b); }
        std::mem::forget((a, b, ga, gb));
    }
}
''')

append("crates/compiler/src/go/dce.rs", r'''
#[cfg(kani)]
mod kh {
    use super::*;
    fn fixed_rs() -> std::hash::RandomState { unsafe { std::mem::transmute((0u64, 0u64)) } }
    #[kani::proof]
    #[kani::unwind(10)]
    #[kani::stub(std::hash::RandomState::new, fixed_rs)]
    fn hashset_stub_probe() {
        let mut s: HashSet<String> = HashSet::new();
        s.insert(String::from("a"));
        s.insert(String::from("b"));
        assert!(s.contains("a"));
        assert!(!s.contains("c"));
        std::mem::forget(s);
    }
}
''')

append("crates/compiler/src/pprint/go_pprint.rs", r'''
#[cfg(kani)]
mod kh {
    use super::*;
    fn go_unescape(bytes: &[u8], out: &mut [u8; 8]) -> Option<usize> {
        let mut i = 0; let mut n = 0;
        while i < bytes.len() {
            let c = bytes[i];
            if c == b'"' || c == b'\n' { return None; }
            if c == b'\\' {
                if i + 1 >= bytes.len() { return None; }
                let d = bytes[i + 1];
                let r = match d { b'"' => b'"', b'\\' => b'\\', b'n' => b'\n', b'r' => b'\r', b't' => b'\t', _ => return None };
                out[n] = r; n += 1; i += 2;
            } else { out[n] = c; n += 1; i += 1; }
        }
        Some(n)
    }
    #[kani::proof]
    #[kani::unwind(10)]
    fn escape_roundtrip_3() {
        let len: usize = kani::any();
        kani::assume(len <= 3);
        let bytes: [u8; 3] = kani::any();
        for i in 0..3 { kani::assume(bytes[i] < 0x80); }
        let s = unsafe { std::str::from_utf8_unchecked(&bytes[..len]) };
        let e = escape_go_string(s);
        let mut out = [0u8; 8];
        let n = go_unescape(e.as_bytes(), &mut out);
        assert!(n == Some(len));
        for i in 0..3 { if i < len { assert!(out[i] == bytes[i]); } }
        std::mem::forget(e);
    }
}
''')

append("crates/compiler/src/go/compile.rs", r'''
#[cfg(kani)]
mod kh {
    use super::*;
    #[kani::proof]
    #[kani::unwind(8)]
    fn lit_i8_roundtrip() {
        let v: i8 = kani::any();
        let e = go_literal_from_primitive(&Prim::Int8 { value: v }, &tast::Ty::TInt8);
        match &e {
            goast::Expr::Int { value, .. } => {
                let b = value.as_bytes();
                let (neg, digits) = if !b.is_empty() && b[0] == b'-' { (true, &b[1..]) } else { (false, b) };
                assert!(!digits.is_empty() && digits.len() <= 3);
                let mut acc: i32 = 0;
                for d in digits { assert!(*d >= b'0' && *d <= b'9'); acc = acc * 10 + (*d - b'0') as i32; }
                if neg { acc = -acc; }
                assert!(acc == v as i32);
            }
            _ => assert!(false),
        }
        std::mem::forget(e);
    }
}
''')

append("crates/compiler/src/typer/check.rs", r'''
#[cfg(kani)]
mod kh {
    use super::*;
    fn fixed_rs() -> std::hash::RandomState { unsafe { std::mem::transmute((0u64, 0u64)) } }
    fn stub_format(_a: std::fmt::Arguments<'_>) -> String { String::new() }
    #[kani::proof]
    #[kani::unwind(6)]
    #[kani::stub(std::hash::RandomState::new, fixed_rs)]
    #[kani::stub(alloc::fmt::format, stub_format)]
    fn int8_literal_3() {
        let mut typer = Typer::new(crate::hir::HirTable::new(crate::hir::PackageId(1)));
        let mut diags = Diagnostics::new();
        let len: usize = kani::any();
        kani::assume(len >= 1 && len <= 3);
        let bytes: [u8; 3] = kani::any();
        let mut val: u32 = 0;
        for i in 0..3 { if i < len { kani::assume(bytes[i] >= b'0' && bytes[i] <= b'9'); val = val * 10 + (bytes[i] - b'0') as u32; } }
        let s = unsafe { std::str::from_utf8_unchecked(&bytes[..len]) };
        let r = typer.parse_integer_literal_with_ty(&mut diags, s, &tast::Ty::TInt8);
        match r {
            Some(Prim::Int8 { value }) => { assert!(val <= 127 && value as u32 == val); assert!(!diags.has_errors()); }
            None => { assert!(val > 127); assert!(diags.has_errors()); }
            _ => assert!(false),
        }
        std::mem::forget((typer, diags));
    }
}
''')

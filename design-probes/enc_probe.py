import sys, time, z3, re
sys.argv = ['x']
import importlib.util
spec = importlib.util.spec_from_file_location('ms', '/tmp/mir/mirsym2.py'); ms = importlib.util.module_from_spec(spec); spec.loader.exec_module(ms)
t0 = time.time()
W = ms.World(['/tmp/mir/enc.mir'], ['/tmp/gs/crates/compiler/src/tast.rs'])
TY = [v[0] for v in W.enums['Ty']]; print(len(TY), TY[:6], W.enums['Ty'][14:16])
def decode_template(tb, args):
    out = []; i = 0; ai = 0
    while True:
        n = tb[i]; i += 1
        if n == 0: break
        if n < 0x80: out.extend(tb[i:i + n]); i += n
        elif n == 0x80:
            ln = tb[i] | (tb[i + 1] << 8); i += 2; out.extend(tb[i:i + ln]); i += ln
        elif n == 0xC0:
            a = args[ai]; ai += 1; out.extend(a)
        else: raise ms.Unsupported('fmt placeholder with options %x' % n)
    return out
orig_model = ms.Exec.model
orig_const = ms.Exec.const
def const(s, txt):
    txt = txt.strip()
    m = re.fullmatch(r'b"(.*)"', txt, flags=re.S)
    if m:
        raw = m.group(1); bs = []; i = 0
        while i < len(raw):
            if raw[i] == '\\':
                if raw[i + 1] == 'x': bs.append(int(raw[i + 2:i + 4], 16)); i += 4
                else: bs.append({'n': 10, 't': 9, 'r': 13, '\\': 92, '"': 34, '0': 0}[raw[i + 1]]); i += 2
            else: bs.append(ord(raw[i])); i += 1
        o = ms.Opaque('bytes'); o.bs = bs; return o
    return orig_const(s, txt)
ms.Exec.const = const
def model(s, fname, a):
    d = s.deref
    f = fname.replace("::<'_>", '').replace("<'_>", '')
    if re.match(r'<Vec<.*> as Deref>::deref', f): return d(a[0])
    if re.match(r'core::slice::<impl \[.*\]>::iter', f): return ms.PyVec(d(a[0]).items)
    if '>::map::<' in f and 'as Iterator' in f:
        fn = re.search(r'\{(\w+)\}', f).group(1); it = a[0]; it.mapfn = fn; return it
    if '>::collect::<' in f:
        it = a[0]; return ms.PyVec([s.run_body(s.W.fns[it.mapfn], [ms.Ref(it.items, i)], it.mapfn) for i in range(len(it.items))])
    if f.startswith('slice::<impl [std::string::String]>::join'):
        parts = d(a[0]).items; sep = d(a[1]).chars; out = []
        for i, p in enumerate(parts):
            if i: out.extend(sep)
            out.extend(p.chars)
        return ms.Str(out)
    if f.startswith('core::fmt::rt::Argument::new_display'):
        v = d(a[0]); v = d(v)
        if isinstance(v, ms.Str): return v.chars
        if isinstance(v, int): return [ord(c) for c in str(v)]
        raise ms.Unsupported('display of %r' % (v,))
    if f.startswith('Arguments::new'): return decode_template(a[0].bs, d(a[1]).fields)
    if f == 'format': return ms.Str(a[0])
    if f == '<std::string::String as Clone>::clone': return ms.Str(d(a[0]).chars)
    if f.endswith('::is_empty'): return len(d(a[0]).items) == 0
    return orig_model(s, fname, a)
ms.Exec.model = model
I = TY.index
def prim(name):
    v = z3.Int(name); return ms.SymEnum('Ty', v), [z3.Or(v == I('TInt32'), v == I('TBool'))]
def tuple_(items): return ms.Agg('Ty', I('TTuple'), [ms.PyVec(items)])
cons = []
def P(n):
    e, c = prim(n); cons.extend(c); return e
a_leaves = [P('a%d' % i) for i in range(4)]; b_leaves = [P('b%d' % i) for i in range(4)]
A = tuple_([tuple_(a_leaves[:2]), a_leaves[2], a_leaves[3]])      # ((p,p),p,p)
B = tuple_([tuple_(b_leaves[:3]), b_leaves[3]])                   # ((p,p,p),p)
def run(tree):
    def entry(ex):
        h = {0: tree}
        return ex.call('encode_ty', [ms.Ref(h, 0)], None)
    return ms.explore(W, entry, cons)[0]
ra = run(A); rb = run(B)
print('paths', len(ra), len(rb), 'time %.1fs' % (time.time() - t0))
sol = z3.Solver(); sol.add(*cons); found = None
for pca, ka, va, _ in ra:
    for pcb, kb, vb, _ in rb:
        if ka != 'ok' or kb != 'ok': print('panic', va, vb); continue
        if len(va.chars) != len(vb.chars): continue
        sol.push(); sol.add(*pca); sol.add(*pcb); sol.add(*[ms.zi(x) == ms.zi(y) for x, y in zip(va.chars, vb.chars)])
        if sol.check() == z3.sat: found = (''.join(map(chr, va.chars)), ''.join(map(chr, vb.chars)))
        sol.pop()
        if found: break
    if found: break
print('distinct types, equal encodings:', found, 'total %.1fs' % (time.time() - t0))

import sys, time, z3
sys.argv = ['x']
import importlib.util
spec = importlib.util.spec_from_file_location('ms', '/tmp/mir/mirsym2.py'); ms = importlib.util.module_from_spec(spec); spec.loader.exec_module(ms)
W = ms.World([sys.argv[0] and '/tmp/mir/'+MIR, '/tmp/mir/lexer.mir'] if False else ['/tmp/mir/%s' % __import__('os').environ.get('PMIR','parser.mir'), '/tmp/mir/lexer.mir'],
          ['/tmp/gs/crates/lexer/src/lib.rs', '/tmp/gs/crates/parser/src/syntax.rs', '/tmp/gs/crates/parser/src/event.rs',
           '/tmp/gs/crates/parser/src/parser.rs', '/tmp/gs/crates/parser/src/input.rs', '/tmp/gs/crates/diagnostics/src/lib.rs'])
kinds = [v[0] for v in W.enums['TokenKind']]; sk = [v[0] for v in W.enums['MySyntaxKind']]
K = kinds.index
p = z3.Int('p')
assumptions = [z3.Or(p == K('Minus'), p == K('Bang'))]
seq = [p, K('Ident'), K('Dot'), K('Ident')]
def tree_of(ops_):
    st = [[]]
    for op in ops_:
        if op[0] == 'start': st.append([sk[op[1]]])
        elif op[0] == 'token': st[-1].append('t')
        else:
            n = st.pop(); st[-1].append(n)
    return st[0][0]
def entry(ex):
    toks = ms.PyVec([ms.Agg('Token', 0, [ms.SymEnum('TokenKind', k) if ms.is_sym(k) else ms.Agg('TokenKind', k, []), ms.Str([116, 48 + i]), ms.Agg('TextRange', 0, [i, i + 1])]) for i, k in enumerate(seq)])
    pp = ex.call("Parser::<'_>::new", [ms.Opaque('path'), toks], None)
    holder = {0: pp}
    ex.call('file', [ms.Ref(holder, 0)], None)
    res = ex.call("Parser::<'_>::build_tree", [holder[0]], None)
    return tree_of(res.fields[0].ops)
res, left = ms.explore(W, entry, assumptions)
for pc, kind, r, steps in res: print(kind, r)

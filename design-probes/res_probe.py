import sys, time, z3, re, os
sys.argv = ['x']
import importlib.util
spec = importlib.util.spec_from_file_location('ms', '/tmp/mir/mirsym2.py'); ms = importlib.util.module_from_spec(spec); spec.loader.exec_module(ms)
t0 = time.time()
ms.SRC_ROOT = '/tmp/gs'
FILES = {'ast': '/tmp/gs/crates/ast/src/ast.rs', 'hir': '/tmp/gs/crates/compiler/src/hir.rs', 'common_defs': '/tmp/gs/crates/common-defs/src/lib.rs',
         'diagnostics': '/tmp/gs/crates/diagnostics/src/lib.rs', 'name_resolution': '/tmp/gs/crates/compiler/src/typer/name_resolution.rs'}
W = ms.World(['/tmp/mir/compiler.mir', '/tmp/mir/ast.mir'], [])
print('parsed', len(W.fns), 'fns in %.1fs' % (time.time() - t0))
QE, QS = {}, {}
for mod, path in FILES.items():
    e, s_ = ms.scan_types([path])
    for k, v in e.items(): QE[(mod, k)] = v
    for k, v in s_.items(): QS[(mod, k)] = v
def find_enum(segs):
    # segs: path segments without generics, last is variant (or type if as_type)
    for i in range(len(segs) - 2, -1, -1):
        if (segs[i], segs[-2]) in QE: return QE[(segs[i], segs[-2])], segs[-2]
    hits = [(m, n) for (m, n) in QE if n == segs[-2]]
    if len(hits) == 1: return QE[hits[0]], segs[-2]
    if segs[-2] in ('Option', 'Result'): return QE[('ast', segs[-2])], segs[-2]
    return None, None
def variant_value(s, path, fields, named=None):
    p = ms.Exec.strip_generics(path); segs = [x for x in p.split('::') if x]
    if len(segs) >= 2:
        tab, en = find_enum(segs)
        if tab:
            names = [v[0] for v in tab]
            if segs[-1] in names:
                idx = names.index(segs[-1])
                if named is not None: fields = [named[f] for f in tab[idx][1]]
                return ms.Agg(en, idx, fields)
    return None
ms.Exec.variant_value = variant_value
# struct aggregates with qualified lookup: patch W.structs as union (names unique enough here)
W.qstructs = QS
for (m, n), v in QS.items(): W.structs.setdefault(n, v)
for (m, n), v in QE.items(): W.enums.setdefault(n, v)
print(W.structs.get('HirTable'), QE[('hir', 'NameRef')])

orig_resolve = W._resolve
def _resolve(callname):
    r = orig_resolve(callname)
    if r: return r
    c = ms.Exec.strip_generics(callname.replace("::<'_>", ''))
    segs = c.split('::')
    if len(segs) >= 2 and not c.startswith('<'):
        ty, meth = segs[-2], segs[-1]
        hits = [n for n in W.by_last.get(meth, []) if (W.impl_self(n) or (None, None))[0] == ty and (W.impl_self(n) or (0, 0))[1] is None]
        if len(hits) > 1:
            h2 = [n for n in hits if n.startswith(segs[0] + '::')]
            if len(h2) == 1: return h2[0]
            if segs[0] == 'ast':
                h2 = [n for n in hits if 'crates/ast/' in n]
                if len(h2) == 1: return h2[0]
            h2 = [n for n in hits if 'crates/compiler/src/' + segs[0] in n]
            if len(h2) == 1: return h2[0]
    return None
W._resolve = _resolve
# ---------------------------------------------------------------- models
orig_model = ms.Exec.model
def str_eq(x, y):
    if len(x) != len(y): return False
    parts = []
    for p, q in zip(x, y):
        if ms.is_sym(p) or ms.is_sym(q): parts.append(ms.zi(p) == ms.zi(q))
        elif p != q: return False
    return z3.And(*parts) if parts else True
def model(s, fname, a):
    d = s.deref
    f = fname.replace("::<'_>", '').replace("<'_>", '')
    g = ms.Exec.strip_generics(f)
    if g == 'Box::new_uninit':
        b = ms.Opaque('ubox'); b.arr = None; return b
    if g == 'std::boxed::box_assume_init_into_vec_unsafe': return ms.PyVec(a[0].arr.fields)
    if g in ('std::collections::HashMap::new', 'std::collections::HashSet::new', 'HashMap::new', 'HashSet::new'): return {}
    if g.endswith('HashMap::get') or g.endswith('HashMap::contains_key') or g.endswith('HashSet::contains'):
        m = d(a[0])
        if len(m): raise ms.Unsupported('non-empty map lookup')
        return ms.Agg('Option', 0, []) if g.endswith('::get') else False
    if g.endswith('HashMap::insert'): return ms.Agg('Option', 0, [])
    if g in ('Arena::new', 'la_arena::Arena::new'): return ms.PyVec([])
    if g.endswith('Arena::alloc'): v = d(a[0]); v.items.append(a[1]); return ms.Agg('Idx', 0, [len(v.items) - 1])
    if g.endswith('::into_raw'): return a[0]
    if g.endswith('::into_u32'): return a[0].fields[0] if isinstance(a[0], ms.Agg) else a[0]
    if re.match(r'<Vec<.*> as Deref(Mut)?>::deref(_mut)?', g): return d(a[0])
    if re.match(r'core::slice::<impl \[.*\]>::iter', f): it = ms.PyVec(d(a[0]).items); it.pos = 0; return it
    if re.match(r'core::slice::<impl \[.*\]>::(first|last)', f):
        it = d(a[0]).items
        if not it: return ms.Agg('Option', 0, [])
        return ms.Agg('Option', 1, [ms.Ref(it, 0 if g.endswith('first') else len(it) - 1)])
    if g.startswith('Vec::') and g.endswith('::len'): return len(d(a[0]).items)
    if g.startswith('Vec::') and g.endswith('::new'): return ms.PyVec([])
    if g.startswith('Vec::') and g.endswith('::push'): d(a[0]).items.append(a[1]); return ms.UNIT
    if g.startswith('Vec::') and g.endswith('::resize'):
        v = d(a[0]).items
        while len(v) < a[1]: v.append(ms.copyval(a[2]))
        del v[a[1]:]; return ms.UNIT
    if re.match(r'<Vec<.*> as Index(Mut)?<usize>>::index(_mut)?', g):
        it = d(a[0]).items
        if a[1] >= len(it): raise ms.Panic('index out of bounds')
        return ms.Ref(it, a[1])
    if '>::map::<' in f and 'as Iterator' in f:
        it = a[0]; it.clo = a[1]; it.cfn = s.W.closure_by_span(re.search(r'\{closure@([^}]+)\}', f).group(1)); return it
    if '>::collect::<' in f:
        it = a[0]; h = {0: it.clo}
        return ms.PyVec([s.run_body(s.W.fns[it.cfn], [ms.Ref(h, 0), ms.Ref(it.items, i)], it.cfn) for i in range(len(it.items))])
    if g in ('<std::string::String as Clone>::clone', '<String as Clone>::clone'): return ms.Str(d(a[0]).chars)
    if g in ('<std::string::String as Deref>::deref', '<String as Deref>::deref'): return d(a[0])
    if g in ('<std::string::String as PartialEq>::eq', '<str as PartialEq>::eq', '<&str as PartialEq>::eq', '<String as PartialEq>::eq'):
        return str_eq(d(d(a[0])).chars, d(d(a[1])).chars)
    if g in ('<&str as PartialEq>::ne',):
        r = str_eq(d(d(a[0])).chars, d(d(a[1])).chars); return z3.Not(r) if ms.is_sym(r) else not r
    if g.startswith('core::fmt::rt::Argument::new_'): return [63]
    if g.startswith('Arguments::new'): return [63]
    if g in ('format', 'std::fmt::format'): return ms.Str([63])
    if g.startswith('im::Vector') and g.endswith('::new'): return ms.PyVec([])
    if g.endswith('Vector::push_back'): d(a[0]).items.append(a[1]); return ms.UNIT
    if g.startswith('<im::Vector') and g.endswith('Clone>::clone'): return ms.PyVec(list(d(a[0]).items))
    if g.endswith('Vector::iter'): it = ms.PyVec(d(a[0]).items); it.pos = 0; return it
    if 'Iterator>::rfind' in f or 'DoubleEndedIterator>::rfind' in f:
        it = d(a[0]); cfn = s.W.closure_by_span(re.search(r'\{closure@([^}]+)\}', f).group(1)); h = {0: a[1]}
        for i in range(len(it.items) - 1, -1, -1):
            r_ = {0: ms.Ref(it.items, i)}
            if s.branch_bool(s.run_body(s.W.fns[cfn], [ms.Ref(h, 0), ms.Ref(r_, 0)], cfn)): return ms.Agg('Option', 1, [ms.Ref(it.items, i)])
        return ms.Agg('Option', 0, [])
    m = re.match(r'std::option::Option::(\w+)$', g) or re.match(r'Option::(\w+)$', g)
    if m:
        op = m.group(1); o = a[0]
        if op == 'is_some_and':
            if o.idx == 0: return False
            cfn = s.W.closure_by_span(re.findall(r'\{closure@([^}]+)\}', fname)[-1]); return s.run_body(s.W.fns[cfn], [a[1], o.fields[0]], cfn)
        if op == 'copied': return o if o.idx == 0 else ms.Agg('Option', 1, [ms.copyval(d(o.fields[0]))])
        if op == 'unwrap_or_default': return o.fields[0] if o.idx == 1 else ms.Str([])
        if op in ('map', 'and_then', 'unwrap_or_else'):
            spans = re.findall(r'\{closure@([^}]+)\}', fname)
            if spans:
                cfn = s.W.closure_by_span(spans[-1]); call = lambda *xs: s.run_body(s.W.fns[cfn], [a[1]] + list(xs), cfn)
            else:
                fn = re.search(r'\{([\w:]+)\}', fname).group(1); tgt = s.W.resolve(fn)
                call = (lambda *xs: s.run_body(s.W.fns[tgt], list(xs), tgt)) if tgt else (lambda *xs: s.variant_value(fn, list(xs)))
            if op == 'map': return o if o.idx == 0 else ms.Agg('Option', 1, [call(o.fields[0])])
            if op == 'and_then': return o if o.idx == 0 else call(o.fields[0])
            if op == 'unwrap_or_else': return o.fields[0] if o.idx == 1 else call()
        if op == 'as_ref':
            c, k = a[0].c, a[0].k; o = c[k]
            return ms.Agg('Option', 0, []) if o.idx == 0 else ms.Agg('Option', 1, [ms.Ref(o.fields, 0)])
    if re.fullmatch(r'<(std::option::)?Option<.*> as Try>::branch', f):
        o = a[0]
        return ms.Agg('ControlFlow', 0, [o.fields[0]]) if o.idx == 1 else ms.Agg('ControlFlow', 1, [ms.Agg('Option', 0, [])])
    if re.fullmatch(r'<(std::option::)?Option<.*> as FromResidual<.*>>::from_residual', f): return ms.Agg('Option', 0, [])
    if g.startswith('<&ast::ast::Path as Into<'): return s.call('<hir::Path as From<&ast::ast::Path>>::from', a, None)
    return orig_model(s, fname, a)
ms.Exec.model = model
orig_call = ms.Exec.call
def call(s, fname, args, frame):
    m = re.fullmatch(r'<&(.+) as PartialEq>::(eq|ne)', fname)
    if m and not m.group(1).startswith(('str', 'std::string::String', 'usize', 'String')):
        args = [x.get() if isinstance(x, ms.Ref) else x for x in args]
        return s.call('<%s as PartialEq>::%s' % (m.group(1), m.group(2)), args, frame)
    return orig_call(s, fname, args, frame)
ms.Exec.call = call
orig_const = ms.Exec.const
def const(s, txt):
    t = txt.strip()
    if t.startswith('b"'): return ms.Opaque('bytes')
    if t == 'core::num::MAX': return 2 ** 32 - 1
    m_ = re.fullmatch(r'core::num::<impl (u\d+|usize)>::MAX', t)
    if m_: return 2 ** {'u8': 8, 'u16': 16, 'u32': 32, 'u64': 64, 'usize': 64}[m_.group(1)] - 1
    return orig_const(s, txt)
ms.Exec.const = const

# ---------------------------------------------------------------- input AST
def E(name, **kw):
    tab = QE[('ast', 'Expr')]; names = [v[0] for v in tab]; idx = names.index(name)
    return ms.Agg('Expr', idx, [kw[f] for f in tab[idx][1]])
def Pv(namechars):
    tab = QE[('ast', 'Pat')]; return ms.Agg('Pat', 0, [ms.Agg('AstIdent', 0, [ms.Str(namechars)]), PTR])
PTR = ms.Opaque('astptr')
def path1(namechars): return ms.Agg('Path', 0, [ms.PyVec([ms.Agg('PathSegment', 0, [ms.Agg('AstIdent', 0, [ms.Str(namechars)])])])])
names = {k: z3.Int(k) for k in ('n1', 'n2', 'u1', 'u2')}
cons = [z3.Or(v == ord('x'), v == ord('y')) for v in names.values()]
NONE = ms.Agg('Option', 0, [])
def int_(v): return E('EInt', value=ms.Str([ord(v)]), astptr=PTR)
prog = E('EBlock', astptr=PTR, exprs=ms.PyVec([
    E('ELet', pat=Pv([names['n1']]), annotation=NONE, value=ms.mkbox(int_('1')), astptr=PTR),
    E('EIf', cond=ms.mkbox(E('EBool', value=True, astptr=PTR)),
      then_branch=ms.mkbox(E('EBlock', astptr=PTR, exprs=ms.PyVec([
          E('ELet', pat=Pv([names['n2']]), annotation=NONE, value=ms.mkbox(int_('2')), astptr=PTR),
          E('EPath', path=path1([names['u1']]), astptr=PTR)]))),
      else_branch=ms.mkbox(E('EBlock', astptr=PTR, exprs=ms.PyVec([int_('0')]))), astptr=PTR),
    E('EPath', path=path1([names['u2']]), astptr=PTR)]))
print(QE[('ast', 'Expr')][0], QE[('ast','Expr')][20])

def entry(ex):
    import copy
    ht = ex.call('hir::HirTable::new', [ms.Agg('PackageId', 0, [1])], None)
    store = {'b': {}, 'd': {}, 'deps': {}, 'cp': ms.Str([ord(c) for c in 'Main']), 'imp': {}, 'ci': ms.Agg('ConstructorIndex', 0, [{}])}
    ctx = ms.Agg('ResolutionContext', 0, [ms.Ref(store, 'b'), ms.Ref(store, 'd'), ms.Ref(store, 'deps'), ms.Ref(store, 'cp'), ms.Ref(store, 'imp'), ms.Ref(store, 'ci')])
    nr = ms.Agg('NameResolution', 0, [ms.PyVec([])])
    env = ms.Agg('ResolveLocalEnv', 0, [ms.PyVec([])])
    h = {0: nr, 1: copy.deepcopy(prog) if False else prog, 2: env, 3: ctx, 4: ht}
    r = ex.call('NameResolution::resolve_expr', [ms.Ref(h, 0), ms.Ref(h, 1), ms.Ref(h, 2), ms.Ref(h, 3), ms.Ref(h, 4)], None)
    return h[4], h[0]
res, left = ms.explore(W, entry, cons)
print('paths', len(res), 'time %.1fs' % (time.time() - t0))
HE = [v[0] for v in QE[('hir', 'Expr')]]; HP = [v[0] for v in QE[('hir', 'Pat')]]; NR = [v[0] for v in QE[('hir', 'NameRef')]]
viol = 0
for pc, kind, r, steps in res:
    if kind != 'ok': print('PANIC', r); continue
    ht, nr = r
    fields = dict(zip(W.structs['HirTable'], ht.fields))
    exprs = fields['exprs'].items; pats = fields['pats'].items
    refs = [e for e in exprs if isinstance(e, ms.Agg) and HE[e.idx] == 'ENameRef']
    binders = [p for p in pats if isinstance(p, ms.Agg) and HP[p.idx] == 'PVar']
    def local_of(e):
        resv = e.fields[0]
        return ('Local', resv.fields[0].fields[1]) if NR[resv.idx] == 'Local' else (NR[resv.idx], None)
    b = [p.fields[0].fields[1] for p in binders]     # LocalId.idx of binder 1, 2
    got = [local_of(e) for e in refs]
    n1, n2, u1, u2 = (names[k] for k in ('n1', 'n2', 'u1', 'u2'))
    sol = z3.Solver(); sol.add(*cons); sol.add(*pc)
    # oracle (lexical scoping): u1 -> binder2 if u1==n2, elif u1==n1 binder1, else unresolved ; u2 -> binder1 if u2==n1 else unresolved
    def expect_formula(gotv, cases):
        # cases: list of (cond, expected) in priority order
        f = []; prior = []
        for cnd, exp in cases:
            f.append(z3.And(*( [z3.Not(p) for p in prior] + [cnd] )) if (gotv != exp) else z3.BoolVal(False)); prior.append(cnd)
        return z3.Or(*f)
    bad1 = expect_formula(got[0], [(u1 == n2, ('Local', b[1])), (u1 == n1, ('Local', b[0])), (z3.BoolVal(True), ('Unresolved', None))])
    bad2 = expect_formula(got[1], [(u2 == n1, ('Local', b[0])), (z3.BoolVal(True), ('Unresolved', None))])
    sol.add(z3.Or(bad1, bad2))
    if sol.check() == z3.sat:
        m = sol.model(); viol += 1
        print('VIOLATION names', {k: chr(m.eval(v, True).as_long()) for k, v in names.items()}, 'resolved', got, 'binders', b)
print('violating paths', viol, 'total %.1fs' % (time.time() - t0))

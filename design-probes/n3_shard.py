import sys, time, z3
first = sys.argv[1]; sys.argv = ['x']
import importlib.util
spec = importlib.util.spec_from_file_location('ms', '/tmp/mir/mirsym2.py'); ms = importlib.util.module_from_spec(spec); spec.loader.exec_module(ms)
t0 = time.time()
W = ms.World(['/tmp/mir/parser.mir', '/tmp/mir/lexer.mir'],
          ['/tmp/gs/crates/lexer/src/lib.rs', '/tmp/gs/crates/parser/src/syntax.rs', '/tmp/gs/crates/parser/src/event.rs',
           '/tmp/gs/crates/parser/src/parser.rs', '/tmp/gs/crates/parser/src/input.rs', '/tmp/gs/crates/diagnostics/src/lib.rs'])
kinds = [v[0] for v in W.enums['TokenKind']]; nk = len(kinds)
ks = [z3.Int('k%d' % i) for i in range(3)]
assumptions = [ks[0] == kinds.index(first)] + [c for k in ks[1:] for c in (k >= 0, k < nk - 1)]
N = 3
def entry(ex):
    toks = ms.PyVec([ms.Agg('Token', 0, [ms.SymEnum('TokenKind', k), ms.Str([ord('t'), 48 + i]), ms.Agg('TextRange', 0, [i, i + 1])]) for i, k in enumerate(ks)])
    p = ex.call("Parser::<'_>::new", [ms.Opaque('path'), toks], None)
    holder = {0: p}
    ex.call('file', [ms.Ref(holder, 0)], None)
    P = holder[0]; depth = 0
    for e in P.fields[3].items:
        if e.idx == 0: depth += 1
        elif e.idx == 1:
            depth -= 1
            if depth < 0: raise ms.Panic('unbalanced close')
    if depth: raise ms.Panic('unbalanced')
    stuck = [d for d in P.fields[4].items if isinstance(d.fields[2], ms.Str) and ''.join(map(chr, d.fields[2].chars)).startswith('parser did not consume')]
    res = ex.call("Parser::<'_>::build_tree", [P], None)
    emitted = [''.join(map(chr, ex.deref(op[1]).chars)) for op in res.fields[0].ops if op[0] == 'token']
    if emitted != ['t%d' % i for i in range(N)]: raise ms.Panic('lossy tree: %r' % (emitted,))
    return bool(stuck)
res, left = ms.explore(W, entry, assumptions)
pan = [r for r in res if r[1] == 'panic']
print('first=%s paths=%d panics=%d fuel_exhausted=%d queries=%d time=%.0fs' % (first, len(res), len(pan), sum(1 for r in res if r[1]=='ok' and r[2]), W.queries, time.time() - t0))
for pc, _, msg, _ in pan[:3]:
    sol = z3.Solver(); sol.add(*assumptions); sol.add(*pc); sol.check(); mdl = sol.model()
    print('  PANIC', msg, [kinds[mdl.eval(k, True).as_long()] for k in ks])

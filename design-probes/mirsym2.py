#!/usr/bin/env python3-vt
# PROBE ONLY (design phase): MIR symbolic executor v2 - enough to run the goml parser on symbolic token kinds.
import re, sys, time, os
import z3

# ================================================================ source type tables
def strip_comments(src):
    src = '\n'.join(l for l in src.split('\n') if not l.strip().startswith('#['))
    return re.sub(r'//[^\n]*', '', src)

def scan_types(paths):
    enums, structs = {}, {}
    for p in paths:
        src = strip_comments(open(p).read())
        for m in re.finditer(r'\benum\s+(\w+)\s*(?:<[^>{]*>)?\s*\{', src):
            name = m.group(1); i = m.end(); depth = 1; body = ''
            while depth:
                ch = src[i]
                if ch == '{': depth += 1
                elif ch == '}': depth -= 1
                if depth: body += ch
                i += 1
            # split variants at depth 0 commas
            vs, cur, d = [], '', 0
            for ch in body:
                if ch in '({[<': d += 1
                if ch in ')}]>': d -= 1
                if ch == ',' and d == 0: vs.append(cur); cur = ''
                else: cur += ch
            if cur.strip(): vs.append(cur)
            variants = []
            for v in vs:
                v = re.sub(r'#\[[^\]]*\]', '', v, flags=re.S).strip()
                v = re.sub(r'#\[.*?\)\]', '', v, flags=re.S).strip()
                mm = re.match(r'(\w+)\s*(\{(.*)\})?', v, flags=re.S)
                if not mm: continue
                fields = None
                if mm.group(2):
                    fields = re.findall(r'(\w+)\s*:', mm.group(3))
                variants.append((mm.group(1), fields))
            if name not in enums: enums[name] = variants
        for m in re.finditer(r'\bstruct\s+(\w+)\s*(?:<[^>{(]*>)?\s*\{([^}]*)\}', src):
            fields = re.findall(r'(?:pub(?:\([^)]*\))?\s+)?(\w+)\s*:', re.sub(r'#\[[^\]]*\]', '', m.group(2)))
            structs.setdefault(m.group(1), fields)
    structs['Range'] = ['start', 'end']
    enums['Option'] = [('None', None), ('Some', None)]
    enums['Result'] = [('Ok', None), ('Err', None)]
    return enums, structs

# ================================================================ MIR parsing
class Fn:
    def __init__(s, name, params, blocks): s.name, s.params, s.blocks = name, params, blocks

def parse_mir(text, fns, consts):
    lines = text.split('\n'); i = 0
    hdr = re.compile(r'^fn (.+?)\((.*)\) -> (.+) \{$')
    chdr = re.compile(r'^const (.+): ((?:(?!: ).)+) = \{$')
    while i < len(lines):
        m = hdr.match(lines[i]); c = chdr.match(lines[i]) if not m else None
        if not m and not c: i += 1; continue
        name = (m or c).group(1)
        params = [int(x) for x in re.findall(r'_(\d+):', m.group(2))] if m else []
        blocks = {}; i += 1; cur = None; ltypes = {}
        if m:
            for pm in re.finditer(r'_(\d+): ([^,]+(?:<[^>]*>)?)', m.group(2)): ltypes[int(pm.group(1))] = pm.group(2)
            ltypes[0] = m.group(3)
        while i < len(lines) and lines[i] != '}':
            l = lines[i].strip()
            ml = re.match(r'^let (?:mut )?_(\d+): (.+);$', l)
            if ml: ltypes[int(ml.group(1))] = ml.group(2)
            mb = re.match(r'^bb(\d+)( \(cleanup\))?: \{$', l)
            if mb: cur = int(mb.group(1)); blocks[cur] = []
            elif l == '}': cur = None
            elif cur is not None and l: blocks[cur].append(l)
            i += 1
        fobj = Fn(name, params, blocks); fobj.ltypes = ltypes
        (fns if m else consts).setdefault(name, fobj)

# ================================================================ values
class Agg:   # struct / tuple / enum variant
    __slots__ = ('ty', 'idx', 'fields')
    def __init__(s, ty, idx, fields): s.ty, s.idx, s.fields = ty, idx, list(fields)
    def __repr__(s): return 'Agg(%s,%s,%r)' % (s.ty, s.idx, s.fields)
class SymEnum:  # fieldless enum with symbolic discriminant
    __slots__ = ('ty', 'd')
    def __init__(s, ty, d): s.ty, s.d = ty, d
class Str:
    def __init__(s, chars): s.chars = list(chars)
class PyVec:
    def __init__(s, items): s.items = list(items)
class Ref:   # handle: (container list/dict, key)
    __slots__ = ('c', 'k')
    def __init__(s, c, k): s.c, s.k = c, k
    def get(s): return s.c[s.k]
    def set(s, v): s.c[s.k] = v
class Cell_:
    def __init__(s, v): s.v = v
class Opaque:
    def __init__(s, what): s.what = what
class ClosureVal:
    def __init__(s, fname, caps): s.fname, s.caps, s.fields = fname, caps, caps
class Builder:
    def __init__(s): s.ops = []; s.depth = 0; s.roots = 0

def is_sym(v): return isinstance(v, z3.ExprRef)
def zi(v): return v if is_sym(v) else z3.IntVal(int(v))
def copyval(v):
    if isinstance(v, Agg): return Agg(v.ty, v.idx, [copyval(f) for f in v.fields])
    return v

class Infeasible(Exception): pass
class Unsupported(Exception): pass
class Panic(Exception): pass

UNIT = Agg('tuple', 0, [])
def mkbox(v):
    return Agg('Box', 0, [Agg('Unique', 0, [Agg('NonNull', 0, [Ref([v], 0)])])])
def unbox(b):
    r = b.fields[0].fields[0].fields[0]; return r.get()

class Exec:
    def __init__(s, W, assumptions, decisions):
        s.W = W; s.solver = W.solver; s.assump = assumptions
        s.decisions = list(decisions); s.dpos = 0; s.pc = []; s.pending = []
        s.steps = 0; s.stack = []
    def feasible(s, c):
        s.W.queries += 1
        s.solver.push(); s.solver.add(*s.assump); s.solver.add(*s.pc); s.solver.add(c)
        r = s.solver.check() == z3.sat
        s.solver.pop(); return r
    def choose(s, options):
        feas = []
        for c, t in options:
            if c is True: feas.append((c, t))
            elif c is False: pass
            elif s.feasible(c): feas.append((c, t))
        if not feas: raise Infeasible()
        if len(feas) == 1: k = 0
        else:
            if s.dpos < len(s.decisions): k = s.decisions[s.dpos]
            else:
                k = 0
                for alt in range(1, len(feas)): s.pending.append(s.decisions[:s.dpos] + [alt])
                s.decisions.append(0)
            s.dpos += 1
        c, t = feas[k]
        if c is not True: s.pc.append(c)
        return t
    def branch_bool(s, v):
        if not is_sym(v): return bool(v)
        return s.choose([(v, True), (z3.Not(v), False)])

    # ---------------------------------------------------------------- places
    def parse_place(s, txt):
        txt = txt.strip()
        key = txt
        c = s.W.place_cache.get(key)
        if c is not None: return c
        r = s._parse_place(txt); s.W.place_cache[key] = r; return r
    def _parse_place(s, txt):
        m = re.fullmatch(r'_(\d+)', txt)
        if m: return ('local', int(m.group(1)))
        if txt.startswith('(*') and txt.endswith(')') and s.balanced(txt[2:-1]):
            return ('deref', s._parse_place(txt[2:-1]))
        if txt.startswith('(') and txt.endswith(')'):
            inner = txt[1:-1]
            # downcast: "<place> as Variant"
            m = re.fullmatch(r'(.+) as (\w+)', inner)
            if m and s.balanced(m.group(1)): return ('downcast', s._parse_place(m.group(1)), m.group(2))
            depth = 0
            for i, ch in enumerate(inner):
                if ch in '([<{': depth += 1
                elif ch in ')]}' or (ch == '>' and inner[i - 1] != '-'): depth -= 1
                elif ch == '.' and depth == 0:
                    mm = re.match(r'\.(\d+): ', inner[i:])
                    if mm: return ('field', s._parse_place(inner[:i]), int(mm.group(1)))
        m = re.fullmatch(r'(.+)\[(_\d+)\]', txt)
        if m: return ('index', s._parse_place(m.group(1)), int(m.group(2)[1:]))
        m = re.fullmatch(r'(.+)\[(\d+) of (\d+)\]', txt)
        if m: return ('cindex', s._parse_place(m.group(1)), int(m.group(2)))
        raise Unsupported('place ' + txt)
    @staticmethod
    def balanced(t):
        d = 0
        for ch in t:
            if ch in '([': d += 1
            elif ch in ')]':
                d -= 1
                if d < 0: return False
        return d == 0
    def slot(s, frame, p):
        """returns (container, key) for place p"""
        k = p[0]
        if k == 'local': return frame, p[1]
        if k == 'deref':
            c, kk = s.slot(frame, p[1]); r = c[kk]
            if isinstance(r, Ref): return r.c, r.k
            if isinstance(r, Agg) and r.ty == 'Box':
                rr = r.fields[0].fields[0].fields[0]; return rr.c, rr.k
            if isinstance(r, (PyVec, Str)): return c, kk      # slices/strs passed by handle
            raise Unsupported('deref of non-ref %r' % (r,))
        if k == 'downcast': return s.slot(frame, p[1])
        if k == 'field':
            c, kk = s.slot(frame, p[1]); v = c[kk]
            if isinstance(v, (Agg, ClosureVal)): return v.fields, p[2]
            raise Unsupported('field of %r in place %r stack %s' % (v, p, [x[-40:] for x in s.stack[-4:]]))
        if k == 'index':
            c, kk = s.slot(frame, p[1]); v = c[kk]; i = frame[p[2]]
            items = v.items if isinstance(v, PyVec) else v.fields
            if is_sym(i): raise Unsupported('symbolic index')
            if i >= len(items): raise Panic('index out of bounds')
            return items, i
        if k == 'cindex':
            c, kk = s.slot(frame, p[1]); v = c[kk]
            items = v.items if isinstance(v, PyVec) else v.fields
            return items, p[2]
        raise Unsupported(str(p))
    def read(s, frame, p):
        c, k = s.slot(frame, p); return c[k]
    def write(s, frame, p, v):
        c, k = s.slot(frame, p); c[k] = v

    # ---------------------------------------------------------------- constants / operands / rvalues
    def const(s, txt):
        txt = txt.strip()
        if txt in ('true', 'false'): return txt == 'true'
        m = re.fullmatch(r'(-?\d+)_(?:[ui](?:\d+|size))', txt)
        if m: return int(m.group(1))
        m = re.fullmatch(r"'(.*)'", txt)
        if m:
            body = m.group(1); esc = {'\\n': '\n', '\\r': '\r', '\\t': '\t', "\\'": "'", '\\\\': '\\'}
            return ord(esc.get(body, body))
        m = re.fullmatch(r'"(.*)"', txt, flags=re.S)
        if m: return Str([ord(c) for c in m.group(1)])
        if txt.startswith('b"'): return Opaque('bytes')
        if txt == '()': return UNIT
        if txt.startswith('ZeroSized: {closure@'): return ClosureVal(re.search(r'\{closure@([^}]+)\}', txt).group(1), [])
        if txt.startswith('ZeroSized:'): return Opaque(txt)
        # enum unit variant constant e.g. "TokenKind::Eof" / "Option::<usize>::None" / "MySyntaxKind::FILE"
        v = s.variant_value(txt, [])
        if v is not None: return v
        # named const item / promoted
        if txt in s.W.consts or s.W.find_const(txt): return s.eval_const(txt)
        raise Unsupported('const ' + txt)
    def eval_const(s, name):
        cname = name if name in s.W.consts else s.W.find_const(name)
        if cname in s.W.const_vals: return s.W.const_vals[cname]
        v = s.run_body(s.W.consts[cname], [], cname)
        s.W.const_vals[cname] = v; return v
    def variant_value(s, path, fields, named=None):
        p = re.sub(r'::<[^<>]*(?:<[^<>]*>[^<>]*)*>', '', path)
        segs = p.split('::')
        if len(segs) >= 2 and segs[-2] in s.W.enums:
            en = segs[-2]; names = [v[0] for v in s.W.enums[en]]
            if segs[-1] in names:
                idx = names.index(segs[-1])
                if named is not None: fields = list(named.values())
                return Agg(en, idx, fields)
        if len(segs) == 1:   # bare variant name ("Eof")
            hits = [(en, [v[0] for v in vs].index(segs[0])) for en, vs in s.W.enums.items() if segs[0] in [v[0] for v in vs]]
            if len(hits) == 1: return Agg(hits[0][0], hits[0][1], fields)
        return None
    def operand(s, frame, txt):
        txt = txt.strip()
        mc = re.fullmatch(r'(const .+?) as \w+ \(IntToInt\)', txt)
        if mc: return int(s.operand(frame, mc.group(1)))
        if txt.startswith('const '): return s.const(txt[6:])
        if txt.startswith('copy '): return copyval(s.read(frame, s.parse_place(txt[5:])))
        if txt.startswith('no_retag copy '): return copyval(s.read(frame, s.parse_place(txt[14:])))
        if txt.startswith('move '): return s.read(frame, s.parse_place(txt[5:]))
        raise Unsupported('operand ' + txt)
    BIN = ('Eq', 'Ne', 'Lt', 'Le', 'Gt', 'Ge', 'Add', 'Sub', 'Mul', 'BitAnd', 'BitOr', 'AddWithOverflow', 'SubWithOverflow', 'MulWithOverflow', 'Offset')
    @staticmethod
    def strip_generics(t):
        out = ''; i = 0
        while i < len(t):
            if t.startswith('::<', i):
                d = 0; j = i + 2
                while True:
                    ch = t[j]
                    if ch in '<([': d += 1
                    elif ch in ')]' or (ch == '>' and t[j - 1] != '-'):
                        d -= 1
                        if d == 0: break
                    j += 1
                i = j + 1
            else:
                out += t[i]; i += 1
        return out
    def rvalue(s, frame, txt):
        txt = txt.strip()
        if '::<' in txt and not txt.startswith(('copy ', 'move ', 'const ', 'no_retag', '&')) and not re.match(r'\w+\(', txt):
            txt = s.strip_generics(txt)
        m = re.fullmatch(r'(\w+)\((.+), (.+)\)', txt)
        if m and m.group(1) in s.BIN:
            a, b = s.operand(frame, m.group(2)), s.operand(frame, m.group(3)); op = m.group(1)
            if isinstance(a, (Agg, SymEnum)): a, b = s.disc(a), s.disc(b)
            sym = is_sym(a) or is_sym(b)
            if sym: a, b = zi(a), zi(b)
            if op == 'Eq': return a == b
            if op == 'Ne': return a != b
            if op == 'Lt':
                if isinstance(b, Agg) or isinstance(a, Agg): raise Unsupported('Lt on %r %r in %s: %s' % (a, b, s.stack[-1][-50:], txt))
                return a < b
            if op == 'Le': return a <= b
            if op == 'Gt': return a > b
            if op == 'Ge': return a >= b
            if op in ('AddWithOverflow', 'SubWithOverflow'):
                r = a + b if op[0] == 'A' else a - b
                if sym: raise Unsupported('symbolic checked arith')
                return Agg('tuple', 0, [r, r < 0 or r >= 2**64])
            if op == 'Add': return a + b
            if op == 'Sub': return a - b
            raise Unsupported('binop ' + op)
        m = re.fullmatch(r'(?:PtrMetadata|Len)\((.+)\)', txt)
        if m:
            v = s.operand(frame, m.group(1)) if m.group(1).startswith(('copy', 'move')) else s.read(frame, s.parse_place(m.group(1)))
            v = s.deref(v); return len(v.items if isinstance(v, PyVec) else v.fields)
        m = re.fullmatch(r'Not\((.+)\)', txt)
        if m:
            v = s.operand(frame, m.group(1)); return z3.Not(v) if is_sym(v) else (not v)
        m = re.fullmatch(r'discriminant\((.+)\)', txt)
        if m: return s.disc(s.read(frame, s.parse_place(m.group(1))))
        m = re.fullmatch(r'&(?:mut |raw const |raw mut )?(.+)', txt)
        if m:
            c, k = s.slot(frame, s.parse_place(m.group(1))); return Ref(c, k)
        m = re.fullmatch(r'\[(.+); (\d+)\]', txt)
        if m: return Agg('array', 0, [s.operand(frame, m.group(1))] * int(m.group(2)))
        if txt.startswith('[') and txt.endswith(']'):
            return Agg('array', 0, [s.operand(frame, x) for x in s.split_args(txt[1:-1])])
        if txt.startswith('(') and txt.endswith(')') and not txt.startswith('(*') and ': ' not in txt.split(',')[0]:
            inner = txt[1:-1].rstrip(',')
            return Agg('tuple', 0, [s.operand(frame, x) for x in s.split_args(inner)] if inner.strip() else [])
        m = re.fullmatch(r'((?:copy|move) .+?) as (.+?) \((IntToInt|Transmute|PtrToPtr|PointerCoercion\(.*\)|PointerExposeProvenance|PointerWithExposedProvenance)\)', txt)
        if m and s.balanced(m.group(1)):
            v = s.operand(frame, m.group(1))
            if m.group(3) == 'Transmute':
                while isinstance(v, Agg) and len(v.fields) == 1 and isinstance(v.fields[0], (Agg, Ref)): v = v.fields[0]
            return v
        m = re.fullmatch(r'\{closure@([^}]+)\}', txt)
        if m: return ClosureVal(m.group(1), [])
        m = re.fullmatch(r'\{closure@([^}]+)\} \{ (.*) \}', txt)
        if m:
            caps = [s.operand(frame, x.split(': ', 1)[1]) for x in s.split_args(m.group(2))] if m.group(2).strip() else []
            return ClosureVal(m.group(1), caps)
        # struct / enum-struct-variant aggregate:  Path { a: op, b: op }
        m = re.fullmatch(r'([\w:<>\', ]+?) \{ (.*) \}', txt)
        if m:
            named = {}
            for part in s.split_args(m.group(2)):
                k, v = part.split(': ', 1); named[k.strip()] = s.operand(frame, v)
            ev = s.variant_value(m.group(1), None, named)
            if ev is not None: return ev
            sname = re.sub(r'::<.*', '', m.group(1)).split('::')[-1]
            return Agg(sname, 0, list(named.values()))
            raise Unsupported('aggregate ' + txt)
        # tuple-like variant / struct: Path(op, ..)   (appears as rvalue e.g. Option::<usize>::Some(move _9))
        m = re.fullmatch(r'([\w:<>\', &\[\]\(\)]+?)\((.*)\)', txt)
        if m and not txt.startswith(('copy ', 'move ', 'const ', 'no_retag')):
            ev = s.variant_value(m.group(1), [s.operand(frame, x) for x in s.split_args(m.group(2))])
            if ev is not None: return ev
            sname = re.sub(r'::<.*', '', m.group(1)).split('::')[-1]
            return Agg(sname, 0, [s.operand(frame, x) for x in s.split_args(m.group(2))])
        if not txt.startswith(('copy ', 'move ', 'const ', 'no_retag')):
            ev = s.variant_value(txt, [])
            if ev is not None: return ev
        return s.operand(frame, txt)
    @staticmethod
    def split_args(t):
        parts, depth, cur = [], 0, ''
        instr = False
        prev = ''
        for ch in t:
            if ch == '"': instr = not instr
            if not instr:
                if ch in '([{<': depth += 1
                if ch in ')]}' or (ch == '>' and prev != '-'): depth -= 1
            prev = ch
            if ch == ',' and depth == 0 and not instr: parts.append(cur); cur = ''
            else: cur += ch
        if cur.strip(): parts.append(cur)
        return [p.strip() for p in parts]
    def disc(s, v):
        if isinstance(v, Agg): return v.idx
        if isinstance(v, SymEnum): return v.d
        if isinstance(v, Ref): return s.disc(v.get())
        return v

    # ---------------------------------------------------------------- calls
    def call(s, fname, args, frame):
        W = s.W
        target = W.resolve(fname)
        if target: return s.run_body(W.fns[target], args, target)
        return s.model(fname, args)
    def deref(s, v):
        while isinstance(v, Ref): v = v.get()
        return v
    def call_closure(s, clo, args, hint):
        # closures: resolve by caller + index; here: the single closure chain of current fn
        cands = [n for n in s.W.fns if n.startswith(hint)]
        raise Unsupported('closure call ' + hint)
    def model(s, fname, a):
        d = s.deref
        f = fname.replace("::<'_>", '').replace("<'_>", '')
        f = re.sub(r"::<(?!impl )[^<>]*(?:<[^<>]*>[^<>]*)*>", '', f)
        if f in ('Cell::new',): return Cell_(a[0])
        if f == 'Cell::get': return d(a[0]).v
        if f == 'Cell::set': d(a[0]).v = a[1]; return UNIT
        if f in ('Vec::new',): return PyVec([])
        if f == 'Vec::with_capacity': return PyVec([])
        if f == 'Vec::push': d(a[0]).items.append(a[1]); return UNIT
        if f == 'Vec::pop':
            it = d(a[0]).items
            return Agg('Option', 1, [it.pop()]) if it else Agg('Option', 0, [])
        if f == 'Vec::len': return len(d(a[0]).items)
        if f in ('<Vec<Event> as IndexMut<usize>>::index_mut', '<Vec<lexer::Token> as Index<usize>>::index', '<Vec<Event> as Index<usize>>::index'):
            it = d(a[0]).items
            if a[1] >= len(it): raise Panic('index out of bounds')
            return Ref(it, a[1])
        if f in ('<Vec<lexer::Token> as Deref>::deref', '<Vec<Event> as Deref>::deref', '<Vec<MySyntaxKind> as IntoIterator>::into_iter'): return d(a[0])
        if f.startswith('core::slice::<impl [') and f.endswith(']>::get'):
            it = d(a[0]).items
            return Agg('Option', 1, [Ref(it, a[1])]) if a[1] < len(it) else Agg('Option', 0, [])
        if f.startswith('core::slice::<impl [') and f.endswith(']>::last'):
            it = d(a[0]).items
            return Agg('Option', 1, [Ref(it, len(it) - 1)]) if it else Agg('Option', 0, [])
        if f.startswith('core::slice::<impl [') and f.endswith(']>::contains'):
            it = d(a[0]); items = it.items if isinstance(it, PyVec) else it.fields
            x = s.disc(d(a[1]))
            conds = [zi(s.disc(y)) == zi(x) for y in items]
            c = z3.simplify(z3.Or(*conds)) if conds else False
            if z3.is_true(c): return True
            if z3.is_false(c): return False
            return c
        if f in ('<&Path as Into<PathBuf>>::into',): return Opaque('pathbuf')
        if f == 'Diagnostics::new': return PyVec([])
        if f == 'Diagnostic::new': return Agg('Diagnostic', 0, [a[0], a[1], a[2], None])
        if f == 'Diagnostic::with_range': a[0].fields[3] = a[1]; return a[0]
        if f == 'Diagnostics::push': d(a[0]).items.append(a[1]); return UNIT
        if f in ('<str as ToString>::to_string', '<String as From<&str>>::from'): return Str(d(a[0]).chars)
        if f in ('<TokenKind as ToString>::to_string',): return Opaque('kindname')
        if f.startswith('core::fmt::rt::Argument::new_'): return Opaque('fmtarg')
        if f.startswith('Arguments::new'): return Opaque('fmtargs')
        if f == 'format' or f == 'std::fmt::format' or f == 'alloc::fmt::format': return Str([ord('?')])
        if f == 'must_use': return a[0]
        if f == '<String as Deref>::deref': return d(a[0])
        if f == 'core::panicking::panic' or f.startswith('core::panicking::'): raise Panic(''.join(map(chr, a[0].chars)) if a and isinstance(a[0], Str) else f)
        if f == 'std::mem::replace':
            r = d(a[0]) if False else a[0]; old = r.get(); r.set(a[1]); return old
        if f in ('Option::is_none',): return s.disc(d(a[0])) == 0
        if f in ('Option::is_some',): return s.disc(d(a[0])) == 1
        if f == '<Option<MarkerClosed> as Try>::branch':
            o = a[0]
            return Agg('ControlFlow', 0, [o.fields[0]]) if o.idx == 1 else Agg('ControlFlow', 1, [Agg('Option', 0, [])])
        if f.startswith('<Option<MarkerClosed> as FromResidual'): return Agg('Option', 0, [])
        if f in ('Option::map', 'Option::map_or', 'Option::or_else', 'Option::map_or_else'):
            spans = re.findall(r'\{closure@([^}]+)\}', fname)
            cfn = s.W.closure_by_span(spans[-1])
            o = a[0]
            if f == 'Option::map_or':
                return a[1] if o.idx == 0 else s.run_body(s.W.fns[cfn], [a[2], o.fields[0]], cfn)
            if f == 'Option::map':
                return o if o.idx == 0 else Agg('Option', 1, [s.run_body(s.W.fns[cfn], [a[1], o.fields[0]], cfn)])
            if f == 'Option::or_else':
                return o if o.idx == 1 else s.run_body(s.W.fns[cfn], [a[1]], cfn)
            raise Unsupported('closure combinator ' + f)
        if f == 'Box::new_uninit':
            b = Opaque('ubox'); b.arr = None; return b
        if f == 'std::boxed::box_assume_init_into_vec_unsafe': return PyVec(a[0].arr.fields)
        if f == '<std::ops::Range<usize> as IntoIterator>::into_iter': return a[0]
        if f == '<std::ops::Range<usize> as Iterator>::next':
            r = d(a[0])
            if r.fields[0] >= r.fields[1]: return Agg('Option', 0, [])
            r.fields[0] += 1; return Agg('Option', 1, [r.fields[0] - 1])
        if f in ('<Vec<MySyntaxKind> as IntoIterator>::into_iter',): return PyVec(list(a[0].items))
        if f == '<std::vec::IntoIter<MySyntaxKind> as Iterator>::rev': return PyVec(list(reversed(a[0].items)))
        if f == '<Rev<std::vec::IntoIter<MySyntaxKind>> as IntoIterator>::into_iter': return a[0]
        if f == '<Rev<std::vec::IntoIter<MySyntaxKind>> as Iterator>::next':
            it = d(a[0]).items
            return Agg('Option', 1, [it.pop(0)]) if it else Agg('Option', 0, [])
        mne = re.fullmatch(r'<(.+) as PartialEq>::ne', f)
        if mne:
            r = s.call('<%s as PartialEq>::eq' % mne.group(1), a, None)
            return z3.Not(r) if is_sym(r) else (not r)
        if f == 'GreenNodeBuilder::new': return Builder()
        if f == 'GreenNodeBuilder::start_node':
            b = d(a[0]); b.ops.append(('start', s.disc(a[1].fields[0]) if isinstance(a[1], Agg) else a[1]))
            if b.depth == 0: b.roots += 1
            b.depth += 1; return UNIT
        if f == 'GreenNodeBuilder::token':
            b = d(a[0])
            if b.depth == 0: raise Panic('rowan: token outside root')
            b.ops.append(('token', a[2])); return UNIT
        if f == 'GreenNodeBuilder::finish_node':
            b = d(a[0])
            if b.depth == 0: raise Panic('rowan: finish_node on empty stack')
            b.depth -= 1; b.ops.append(('finish',)); return UNIT
        if f == 'GreenNodeBuilder::finish':
            b = a[0]
            if b.depth != 0 or b.roots != 1: raise Panic('rowan: finish with depth %d roots %d' % (b.depth, b.roots))
            return b
        if f == '<MySyntaxKind as Into<SyntaxKind>>::into': return s.call('<SyntaxKind as From<MySyntaxKind>>::from', a, None)
        raise Unsupported('call ' + fname)

    # ---------------------------------------------------------------- interpreter
    def run_body(s, fn, args, fname):
        frame = {}
        for p, v in zip(fn.params, args): frame[p] = v
        bb = 0
        s.stack.append(fname)
        if len(s.stack) > 200: raise Unsupported('stack depth')
        while True:
            stmts = fn.blocks[bb]
            for st in stmts[:-1]:
                s.steps += 1
                st = st[:-1] if st.endswith(';') else st
                if st[0] == 'S' and st.startswith(('StorageLive', 'StorageDead')): continue
                if st.startswith(('nop', 'FakeRead', 'PlaceMention', 'Retag', 'AscribeUserType', 'Coverage', 'ConstEvalCounter', 'BackwardIncompatibleDropHint', 'Deinit')): continue
                lhs, rhs = st.split(' = ', 1)
                if 'std::ptr::Unique<std::mem::MaybeUninit' in rhs and '(Transmute)' in rhs:
                    src = re.search(r'\(\(_(\d+)\.0', rhs); frame[int(lhs[1:])] = frame[int(src.group(1))]; continue
                if 'std::mem::ManuallyDrop<[' in lhs:
                    ptr = re.search(r'\(\*_(\d+)\)', lhs); frame[int(ptr.group(1))].arr = s.rvalue(frame, rhs); continue
                if re.fullmatch(r'\w+', rhs) and re.fullmatch(r'_\d+', lhs):
                    tyname = re.sub(r'<.*', '', fn.ltypes.get(int(lhs[1:]), '')).split('::')[-1]
                    if tyname in s.W.enums and rhs in [v[0] for v in s.W.enums[tyname]]:
                        frame[int(lhs[1:])] = Agg(tyname, [v[0] for v in s.W.enums[tyname]].index(rhs), []); continue
                s.write(frame, s.parse_place(lhs), s.rvalue(frame, rhs))
            s.steps += 1
            if s.steps > s.W.step_limit: raise Unsupported('step limit')
            t = stmts[-1]; t = t[:-1] if t.endswith(';') else t
            if t == 'return': s.stack.pop(); return frame.get(0, UNIT)
            if t == 'unreachable': raise Infeasible()
            if t.startswith('goto -> bb'): bb = int(t[10:]); continue
            m = re.fullmatch(r'switchInt\((.+)\) -> \[(.+)\]', t)
            if m:
                v = s.operand(frame, m.group(1))
                if isinstance(v, (Agg, SymEnum)): v = s.disc(v)
                targets = [x.split(': ') for x in m.group(2).split(', ')]
                if not is_sym(v):
                    iv = int(v); dest = None
                    for k, tb in targets:
                        if k != 'otherwise' and int(k) == iv: dest = tb
                    if dest is None: dest = dict(targets)['otherwise']
                    bb = int(dest[2:]); continue
                opts, others = [], []
                for k, tb in targets:
                    if k == 'otherwise': continue
                    c = (z3.Not(v) if int(k) == 0 else v) if z3.is_bool(v) else (v == int(k))
                    opts.append((c, int(tb[2:]))); others.append(c)
                ow = [tb for k, tb in targets if k == 'otherwise']
                if ow: opts.append((z3.Not(z3.Or(*others)), int(ow[0][2:])))
                bb = s.choose(opts); continue
            m = re.fullmatch(r'assert\((!?)(.+?), ".*\) -> \[success: bb(\d+), unwind.*\]', t)
            if m:
                v = s.operand(frame, m.group(2))
                if m.group(1): v = z3.Not(v) if is_sym(v) else (not v)
                if not s.branch_bool(v): raise Panic('MIR assert: ' + t[:80])
                bb = int(m.group(3)); continue
            m = re.fullmatch(r'(.+?) = (.+) -> \[return: bb(\d+), unwind.*\]', t)
            if m and m.group(2).endswith(')'):
                callee = m.group(2); d_ = 0; j = len(callee) - 1
                while True:
                    ch = callee[j]
                    if ch == ')': d_ += 1
                    elif ch == '(':
                        d_ -= 1
                        if d_ == 0: break
                    j -= 1
                fname_, argtxt = callee[:j], callee[j + 1:-1]
                args2 = [s.operand(frame, p) if not re.fullmatch(r'[a-z_][\w:]*', p) else Opaque(p) for p in s.split_args(argtxt)]
                r = s.call(fname_, args2, frame)
                s.write(frame, s.parse_place(m.group(1)), r)
                bb = int(m.group(3)); continue
            m = re.fullmatch(r'(.+?) = (.+?)\((.*)\) -> unwind.*', t)
            if m:
                args2 = [s.operand(frame, p) for p in s.split_args(m.group(3))]
                s.call(m.group(2), args2, frame); raise Unsupported('diverging call returned')
            m = re.fullmatch(r'drop\(.+\) -> \[return: bb(\d+), unwind.*\]', t)
            if m: bb = int(m.group(1)); continue
            raise Unsupported('terminator ' + t)

class World:
    def __init__(s, mir_files, src_files):
        s.fns, s.consts = {}, {}
        s.mir_texts = [open(f).read() for f in mir_files]
        for t in s.mir_texts: parse_mir(t, s.fns, s.consts)
        s.enums, s.structs = scan_types(src_files)
        s.place_cache = {}; s.const_vals = {}; s.solver = z3.Solver(); s.queries = 0
        s.step_limit = 200000
        # index defs by last segment
        s.by_last = {}
        for n in s.fns:
            last = re.sub(r'::<.*?>$', '', n).split('::')[-1]
            s.by_last.setdefault(last, []).append(n)
        s.impl_type = {}
        s.res_cache = {}
    def closure_by_span(s, span):
        if not hasattr(s, 'clo_idx'):
            s.clo_idx = {}
            for f in s.mir_texts:
                for m in re.finditer(r'^fn (.+?)\(_1: (?:&mut |&)?\{closure@([^}]+)\}', f, flags=re.M):
                    s.clo_idx[m.group(2)] = m.group(1)
        return s.clo_idx[span]
    def find_const(s, name):
        hits = [c for c in s.consts if c == name or c.endswith('::' + name) or name.endswith('::' + c)]
        if len(hits) == 1: return hits[0]
        n2 = re.sub(r"::<[^<>]*>", '', name).split('::')
        for k in (3, 2, 1):
            tail = '::'.join(n2[-k:])
            hits = [c for c in s.consts if c.endswith('::' + tail) or c == tail]
            if len(hits) == 1: return hits[0]
        return None
    def impl_self(s, defname):
        """self type of an impl-block method, from the source span in its MIR name"""
        if defname in s.impl_type: return s.impl_type[defname]
        m = re.search(r'<impl at ([^:]+):(\d+):(\d+): (\d+):(\d+)>', defname)
        ty = None
        if m:
            path = os.path.join(SRC_ROOT, m.group(1))
            lines = open(path).read().split('\n')
            l0, c0, l1, c1 = int(m.group(2)), int(m.group(3)), int(m.group(4)), int(m.group(5))
            text = lines[l0 - 1][c0 - 1:(c1 - 1 if l1 == l0 else None)]
            mm = re.match(r'impl(?:<[^>]*>)?\s+(?:([\w:]+)(?:<[^>]*>)?\s+for\s+)?([\w:]+)', text)
            if mm: ty = (mm.group(2).split('::')[-1], mm.group(1).split('::')[-1] if mm.group(1) else None)
            else:
                # derive attribute: span covers the trait name; the type is the next item
                trait = text.strip()
                for j in range(l0, min(l0 + 8, len(lines))):
                    mt = re.match(r'\s*(?:pub\s+)?(?:enum|struct)\s+(\w+)', lines[j])
                    if mt: ty = (mt.group(1), trait); break
        s.impl_type[defname] = ty; return ty
    def resolve(s, callname):
        if callname in s.res_cache: return s.res_cache[callname]
        r = s._resolve(callname); s.res_cache[callname] = r; return r
    def _resolve(s, callname):
        if callname in s.fns: return callname
        c = re.sub(r"::<[^<>]*(?:<[^<>]*>[^<>]*)*>", '', callname)
        m = re.fullmatch(r'<(.+) as (.+)>::(\w+)', c)
        if m:
            ty, tr, meth = m.group(1).split('::')[-1].strip('&'), m.group(2).split('::')[-1], m.group(3)
            tr = re.sub(r'<.*', '', tr)
            hits = [n for n in s.by_last.get(meth, []) if s.impl_self(n) == (ty, tr)]
            return hits[0] if len(hits) == 1 else None
        segs = c.split('::'); meth = segs[-1]
        cands = s.by_last.get(meth, [])
        if len(segs) >= 2:
            ty = segs[-2]
            hits = [n for n in cands if (s.impl_self(n) or (None, None))[0] == ty and (s.impl_self(n) or (0, 0))[1] is None]
            if len(hits) == 1: return hits[0]
            hits = [n for n in cands if n.endswith(ty + '::' + meth)]
            if len(hits) == 1: return hits[0]
        free = [n for n in cands if '<impl at' not in n and '{closure' not in n]
        if len(segs) == 1 and len(free) == 1: return free[0]
        if len(segs) >= 2:
            hits = [n for n in free if n.endswith('::'.join(segs[-2:])) or n == meth]
            if len(hits) == 1: return hits[0]
        return None

SRC_ROOT = '/tmp/gs'

def explore(W, entry, assumptions, limit=10**9):
    """entry(ex) -> result ; returns list of (decisions, pc, outcome)"""
    out = []; work = [[]]; n = 0
    while work and n < limit:
        dec = work.pop(); n += 1
        ex = Exec(W, assumptions, dec)
        try:
            r = entry(ex); out.append((ex.pc, 'ok', r, ex.steps))
        except Infeasible: pass
        except Panic as e: out.append((ex.pc, 'panic', str(e), ex.steps))
        work.extend(ex.pending)
    return out, len(work)

if __name__ == '__main__':
    N = int(sys.argv[1]) if len(sys.argv) > 1 else 1
    t0 = time.time()
    W = World(['/tmp/mir/parser.mir', '/tmp/mir/lexer.mir'],
              ['/tmp/gs/crates/lexer/src/lib.rs', '/tmp/gs/crates/parser/src/syntax.rs', '/tmp/gs/crates/parser/src/event.rs',
               '/tmp/gs/crates/parser/src/parser.rs', '/tmp/gs/crates/parser/src/input.rs', '/tmp/gs/crates/diagnostics/src/lib.rs'])
    kinds = [v[0] for v in W.enums['TokenKind']]
    nk = len(kinds)
    ks = [z3.Int('k%d' % i) for i in range(N)]
    alpha = None
    if len(sys.argv) > 2:
        alpha = [kinds.index(x) for x in sys.argv[2].split(',')]
    assumptions = []
    for k in ks:
        if alpha: assumptions.append(z3.Or(*[k == a for a in alpha]))
        else: assumptions += [k >= 0, k < nk - 1]     # everything but Eof (never produced by the lexer)
    def entry(ex):
        toks = PyVec([Agg('Token', 0, [SymEnum('TokenKind', k), Str([ord('t'), 48 + i]), Agg('TextRange', 0, [i, i + 1])]) for i, k in enumerate(ks)])
        p = ex.call('Parser::<\'_>::new', [Opaque('path'), toks], None)
        holder = {0: p}
        ex.call('file', [Ref(holder, 0)], None)
        P = holder[0]
        events = P.fields[3].items
        depth = 0; adv = 0
        for e in events:
            if e.idx == 0: depth += 1
            elif e.idx == 1:
                depth -= 1
                if depth < 0: raise Panic('unbalanced close')
            elif e.idx == 2: adv += 1
        if depth != 0: raise Panic('unbalanced events')
        stuck = [d for d in P.fields[4].items if isinstance(d.fields[2], Str) and ''.join(map(chr, d.fields[2].chars)).startswith('parser did not consume')]
        if stuck: raise Panic('fuel exhausted')
        res = ex.call('Parser::<\'_>::build_tree', [P], None)
        b = res.fields[0]
        emitted = [''.join(map(chr, ex.deref(op[1]).chars)) for op in b.ops if op[0] == 'token']
        if emitted != ['t%d' % i for i in range(N)]: raise Panic('lossy tree: %r' % (emitted,))
        return (len(events), adv)
    res, left = explore(W, entry, assumptions)
    dt = time.time() - t0
    oks = [r for r in res if r[1] == 'ok']; pan = [r for r in res if r[1] == 'panic']
    print('N=%d paths=%d ok=%d panics=%d z3queries=%d steps=%d time=%.1fs' % (N, len(res), len(oks), len(pan), W.queries, sum(r[3] for r in res), dt))
    seen = set()
    for pc, _, msg, _ in pan:
        if msg in seen: continue
        seen.add(msg)
        sol = z3.Solver(); sol.add(*assumptions); sol.add(*pc); sol.check(); mdl = sol.model()
        print('  PANIC', msg, [kinds[mdl.eval(k, True).as_long()] for k in ks])

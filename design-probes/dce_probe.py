import sys, time, z3, re
sys.argv = ['x']
import importlib.util
spec = importlib.util.spec_from_file_location('ms', '/tmp/mir/mirsym2.py'); ms = importlib.util.module_from_spec(spec); spec.loader.exec_module(ms)
t0 = time.time()
W = ms.World(['/tmp/mir/dce.mir'], ['/tmp/gs/crates/compiler/src/go/goast.rs', '/tmp/gs/crates/compiler/src/go/goty.rs'])
EXPR = [v[0] for v in W.enums['Expr']]; GOTY = [v[0] for v in W.enums['GoType']]; BIN = [v[0] for v in W.enums['GoBinaryOp']]
print(EXPR, W.enums['Expr'][10])
DEPTH = int(__import__('os').environ.get('DEPTH', '2'))
class Lazy:
    def __init__(s, ty, depth): s.ty, s.depth = ty, depth
cnt = [0]
def fresh(name, n):
    cnt[0] += 1; v = z3.Int('%s%d' % (name, cnt[0])); return v, [v >= 0, v < n]
def mk_field(ex, fname, depth):
    if fname == 'ty':
        v, c = fresh('ty', len(GOTY)); ex.pc += c; return ms.SymEnum('GoType', v)
    if fname == 'op':
        v, c = fresh('op', 12); ex.pc += c; return ms.SymEnum('Op', v)
    if fname in ('func', 'expr_box', 'lhs', 'rhs', 'obj', 'array', 'index'): return ms.mkbox(Lazy('Expr', depth - 1))
    if fname in ('args', 'elems'):
        n = ex.choose([(True, 0), (True, 1)]); return ms.PyVec([Lazy('Expr', depth - 1) for _ in range(n)])
    if fname == 'fields':
        n = ex.choose([(True, 0), (True, 1)]); return ms.PyVec([ms.Agg('tuple', 0, [ms.Str([]), Lazy('Expr', depth - 1)]) for _ in range(n)])
    if fname == 'stmts': return ms.PyVec([])
    if fname == 'opt_expr':
        k = ex.choose([(True, 0), (True, 1)])
        return ms.Agg('Option', 0, []) if k == 0 else ms.Agg('Option', 1, [ms.mkbox(Lazy('Expr', depth - 1))])
    return ms.Opaque(fname)
def materialize(ex, lz):
    allowed = range(len(EXPR)) if lz.depth > 0 else range(8)
    idx = ex.choose([(True, i) for i in allowed])
    name, fields = W.enums['Expr'][idx]
    vals = []
    for f in fields:
        key = f
        if name in ('UnaryOp', 'Cast') and f == 'expr': key = 'expr_box'
        if name == 'Block' and f == 'expr': key = 'opt_expr'
        vals.append(mk_field(ex, key, lz.depth))
    return ms.Agg('Expr', idx, vals)
# hook materialisation into slot()/disc
orig_slot = ms.Exec.slot
def slot(s, frame, p):
    c, k = orig_slot(s, frame, p)
    try:
        v = c[k]
    except (KeyError, IndexError):
        return c, k
    if isinstance(v, Lazy): c[k] = materialize(s, v)
    return c, k
ms.Exec.slot = slot
orig_model = ms.Exec.model
def model(s, fname, a):
    d = s.deref
    f = fname.replace("::<'_>", '').replace("<'_>", '')
    if re.match(r'<Vec<.*> as Deref>::deref', f): return d(a[0])
    if re.match(r'core::slice::<impl \[.*\]>::iter', f): v = d(a[0]); it = ms.PyVec(v.items); it.src = v.items; it.pos = 0; return it
    m = re.match(r"<std::slice::Iter<.*> as Iterator>::any::<(.*)>$", f)
    if m:
        it = d(a[0]); g = m.group(1)
        while it.pos < len(it.src):
            r_ = ms.Ref(it.src, it.pos); it.pos += 1
            if 'closure@' in g:
                cfn = s.W.closure_by_span(re.search(r'\{closure@([^}]+)\}', g).group(1)); r = s.run_body(s.W.fns[cfn], [a[1], r_], cfn)
            else:
                fn = re.search(r'\{(\w+)\}', g).group(1); r = s.run_body(s.W.fns[fn], [r_], fn)
            if s.branch_bool(r): return True
        return False
    if f.startswith('std::option::Option::') and f.endswith('::as_ref'):
        c, k = a[0].c, a[0].k
        if isinstance(c[k], Lazy): c[k] = materialize(s, c[k])
        o = c[k]
        return ms.Agg('Option', 0, []) if o.idx == 0 else ms.Agg('Option', 1, [ms.Ref(o.fields, 0)])
    m = re.match(r'std::option::Option::<.*>::map::<bool, (.*)>$', f)
    if m:
        o = a[0]; g = m.group(1)
        if o.idx == 0: return o
        if 'closure@' in g:
            cfn = s.W.closure_by_span(re.search(r'\{closure@([^}]+)\}', g).group(1)); r = s.run_body(s.W.fns[cfn], [a[1], o.fields[0]], cfn)
        else:
            fn = re.search(r'\{(\w+)\}', g).group(1); r = s.run_body(s.W.fns[fn], [o.fields[0]], fn)
        return ms.Agg('Option', 1, [r])
    if f.endswith('::unwrap_or'): return a[1] if a[0].idx == 0 else a[0].fields[0]
    return orig_model(s, fname, a)
ms.Exec.model = model
INT_TYS = [GOTY.index(x) for x in ('TInt8','TInt16','TInt32','TInt64','TUint8','TUint16','TUint32','TUint64')]
def may_effect(e):
    """returns z3 formula / bool: exists effect"""
    if isinstance(e, Lazy): return e.depth > 0     # an unexplored subtree of depth>0 can be a Call; depth 0 leaves are pure
    if isinstance(e, ms.Agg) and e.ty == 'Box': return may_effect(ms.unbox(e))
    name, fields = W.enums['Expr'][e.idx]; fv = dict(zip(fields, e.fields))
    if name == 'Call': return True
    if name == 'Index': return True
    kids = []
    for k, v in fv.items():
        if isinstance(v, ms.Agg) and v.ty == 'Box': kids.append(may_effect(v))
        elif isinstance(v, ms.PyVec): kids += [may_effect(x.fields[1] if isinstance(x, ms.Agg) and x.ty == 'tuple' else x) for x in v.items]
        elif isinstance(v, ms.Agg) and v.ty == 'Option' and v.idx == 1: kids.append(may_effect(v.fields[0]))
    if name == 'BinaryOp':
        kids.append(z3.And(fv['op'].d == BIN.index('Div'), z3.Or(*[fv['ty'].d == t for t in INT_TYS])))
    if any(k is True for k in kids): return True
    kids = [k for k in kids if k is not False]
    return z3.Or(*kids) if kids else False
def entry(ex):
    holder = {0: Lazy('Expr', DEPTH)}
    r = ex.call('expr_has_side_effects', [ms.Ref(holder, 0)], None)
    return (r, holder[0])
def show(e, mdl):
    if isinstance(e, Lazy): return '<any depth<=%d>' % e.depth
    if isinstance(e, ms.Agg) and e.ty == 'Box': return show(ms.unbox(e), mdl)
    name, fields = W.enums['Expr'][e.idx]; parts = []
    for f, v in zip(fields, e.fields):
        if isinstance(v, ms.SymEnum):
            iv = mdl.eval(v.d, True).as_long(); parts.append('%s=%s' % (f, (BIN if v.ty == 'Op' else GOTY)[iv]))
        elif isinstance(v, ms.Agg) and v.ty == 'Box': parts.append('%s=%s' % (f, show(v, mdl)))
        elif isinstance(v, ms.PyVec): parts.append('%s=[%s]' % (f, ','.join(show(x.fields[1] if x.ty == 'tuple' else x, mdl) for x in v.items)))
    return '%s(%s)' % (name, ', '.join(parts))
res, left = ms.explore(W, entry, [])
viol = []
for pc, kind, r, steps in res:
    if kind != 'ok': print('PANIC', r); continue
    ret, tree = r
    pure = (not ret) if not ms.is_sym(ret) else z3.Not(ret)
    me = may_effect(tree)
    sol = z3.Solver(); sol.add(*pc)
    sol.add(pure if ms.is_sym(pure) else z3.BoolVal(pure)); sol.add(me if ms.is_sym(me) else z3.BoolVal(me))
    if sol.check() == z3.sat: viol.append(show(tree, sol.model()))
print('depth', DEPTH, 'paths', len(res), 'violating paths', len(viol), 'time %.1fs' % (time.time() - t0), 'queries', W.queries)
for v in sorted(set(viol))[:8]: print('  VIOLATION: judged pure but may fail/act:', v)

import sys, time, z3, re, os
sys.argv = ['x']
import importlib.util
spec = importlib.util.spec_from_file_location('ms', '/tmp/mir/mirsym2.py'); ms = importlib.util.module_from_spec(spec); spec.loader.exec_module(ms)
t0 = time.time()
ms.SRC_ROOT = '/tmp/gs'
FILES = {'goty': '/tmp/gs/crates/compiler/src/go/goty.rs', 'goast': '/tmp/gs/crates/compiler/src/go/goast.rs', 'lift': '/tmp/gs/crates/compiler/src/lift.rs', 'anf': '/tmp/gs/crates/compiler/src/anf.rs', 'common_defs2': '/tmp/gs/crates/common-defs/src/lib.rs', 'tast': '/tmp/gs/crates/compiler/src/tast.rs', 'core': '/tmp/gs/crates/compiler/src/core.rs', 'common': '/tmp/gs/crates/compiler/src/common.rs', 'compile_match': '/tmp/gs/crates/compiler/src/compile_match.rs', 'env': '/tmp/gs/crates/compiler/src/env.rs', 'ast': '/tmp/gs/crates/ast/src/ast.rs', 'hir': '/tmp/gs/crates/compiler/src/hir.rs', 'common_defs': '/tmp/gs/crates/common-defs/src/lib.rs',
         'diagnostics': '/tmp/gs/crates/diagnostics/src/lib.rs', 'name_resolution': '/tmp/gs/crates/compiler/src/typer/name_resolution.rs'}
W = ms.World(['/tmp/mir/compiler.mir', '/tmp/mir/ast.mir'], [])
print('parsed', len(W.fns), 'fns in %.1fs' % (time.time() - t0))
QE, QS = {}, {}
for mod, path in FILES.items():
    e, s_ = ms.scan_types([path])
    for k, v in e.items(): QE[(mod, k)] = v
    for k, v in s_.items(): QS[(mod, k)] = v
def find_enum(segs):
    # segs: path segments without generics, last is variant (or type if as_type)
    for i in range(len(segs) - 2, -1, -1):
        if (segs[i], segs[-2]) in QE: return QE[(segs[i], segs[-2])], segs[-2]
    hits = [(m, n) for (m, n) in QE if n == segs[-2]]
    if len(hits) == 1: return QE[hits[0]], segs[-2]
    if segs[-2] in ('Option', 'Result'): return QE[('ast', segs[-2])], segs[-2]
    return None, None
def variant_value(s, path, fields, named=None):
    p = ms.Exec.strip_generics(path); segs = [x for x in p.split('::') if x]
    if len(segs) >= 2:
        tab, en = find_enum(segs)
        if tab:
            names = [v[0] for v in tab]
            if segs[-1] in names:
                idx = names.index(segs[-1])
                if named is not None: fields = list(named.values())
                return ms.Agg(en, idx, fields)
    return None
ms.Exec.variant_value = variant_value
# struct aggregates with qualified lookup: patch W.structs as union (names unique enough here)
W.qstructs = QS
for (m, n), v in QS.items(): W.structs.setdefault(n, v)
for (m, n), v in QE.items(): W.enums.setdefault(n, v)


orig_resolve = W._resolve
def _resolve(callname):
    r = orig_resolve(callname)
    if r: return r
    c = ms.Exec.strip_generics(callname.replace("::<'_>", ''))
    mt = re.fullmatch(r'<(.+) as (.+)>::(\w+)', c)
    if mt:
        tsegs = mt.group(1).lstrip('&').split('::'); ty, tr, meth = tsegs[-1], mt.group(2).split('::')[-1], mt.group(3)
        hits = [n for n in W.by_last.get(meth, []) if W.impl_self(n) == (ty, tr)]
        if len(hits) > 1 and len(tsegs) > 1:
            h2 = [n for n in hits if n.startswith(tsegs[0] + '::') or ('/' + tsegs[0] + '.rs') in n or ('crates/' + tsegs[0] + '/') in n]
            if len(h2) == 1: return h2[0]
        if len(hits) == 1: return hits[0]
        return None
    mi = re.fullmatch(r'(.*)::<impl ([\w:]+)>::(\w+)', callname)
    if mi:
        ty = mi.group(2).split('::')[-1]
        hits = [n for n in W.by_last.get(mi.group(3), []) if '<impl at' in n and (W.impl_self(n) or (None, None))[0] == ty and (W.impl_self(n) or (0, 0))[1] is None]
        if len(hits) == 1: return hits[0]
        return None
    segs = c.split('::')
    if len(segs) >= 2 and not c.startswith('<'):
        ty, meth = segs[-2], segs[-1]
        hits = [n for n in W.by_last.get(meth, []) if (W.impl_self(n) or (None, None))[0] == ty and (W.impl_self(n) or (0, 0))[1] is None]
        if len(hits) > 1:
            h2 = [n for n in hits if n.startswith(segs[0] + '::')]
            if len(h2) == 1: return h2[0]
            if segs[0] == 'ast':
                h2 = [n for n in hits if 'crates/ast/' in n]
                if len(h2) == 1: return h2[0]
            h2 = [n for n in hits if 'crates/compiler/src/' + segs[0] in n]
            if len(h2) == 1: return h2[0]
    return None
W._resolve = _resolve
# ---------------------------------------------------------------- models
orig_model = ms.Exec.model
def str_eq(x, y):
    if len(x) != len(y): return False
    parts = []
    for p, q in zip(x, y):
        if ms.is_sym(p) or ms.is_sym(q): parts.append(ms.zi(p) == ms.zi(q))
        elif p != q: return False
    return z3.And(*parts) if parts else True
def model(s, fname, a):
    d = s.deref
    f = fname.replace("::<'_>", '').replace("<'_>", '')
    g = ms.Exec.strip_generics(f)
    if g == 'Box::new_uninit':
        b = ms.Opaque('ubox'); b.arr = None; return b
    if g == 'std::boxed::box_assume_init_into_vec_unsafe': return ms.PyVec(a[0].arr.fields)
    if g in ('std::collections::HashMap::new', 'std::collections::HashSet::new', 'HashMap::new', 'HashSet::new'): return {}
    if g.endswith('HashMap::get') or g.endswith('HashMap::contains_key') or g.endswith('HashSet::contains'):
        m = d(a[0])
        if len(m): raise ms.Unsupported('non-empty map lookup')
        return ms.Agg('Option', 0, []) if g.endswith('::get') else False
    if g.endswith('HashMap::insert'): return ms.Agg('Option', 0, [])
    if g in ('Arena::new', 'la_arena::Arena::new'): return ms.PyVec([])
    if g.endswith('Arena::alloc'): v = d(a[0]); v.items.append(a[1]); return ms.Agg('Idx', 0, [len(v.items) - 1])
    if g.endswith('::into_raw'): return a[0]
    if g.endswith('::into_u32'): return a[0].fields[0] if isinstance(a[0], ms.Agg) else a[0]
    if re.match(r'<Vec<.*> as Deref(Mut)?>::deref(_mut)?', g): return d(a[0])
    if re.match(r'core::slice::<impl \[.*\]>::iter', f): it = ms.PyVec(d(a[0]).items); it.pos = 0; return it
    if re.match(r'core::slice::<impl \[.*\]>::(first|last)', f):
        it = d(a[0]).items
        if not it: return ms.Agg('Option', 0, [])
        return ms.Agg('Option', 1, [ms.Ref(it, 0 if g.endswith('first') else len(it) - 1)])
    if g.startswith('Vec::') and g.endswith('::len'): return len(d(a[0]).items)
    if g.startswith('Vec::') and g.endswith('::new'): return ms.PyVec([])
    if g.startswith('Vec::') and g.endswith('::push'): d(a[0]).items.append(a[1]); return ms.UNIT
    if g.startswith('Vec::') and g.endswith('::resize'):
        v = d(a[0]).items
        while len(v) < a[1]: v.append(ms.copyval(a[2]))
        del v[a[1]:]; return ms.UNIT
    if re.match(r'<Vec<.*> as (std::ops::)?Index(Mut)?<usize>>::index(_mut)?', f):
        it = d(a[0]).items
        if a[1] >= len(it): raise ms.Panic('index out of bounds')
        return ms.Ref(it, a[1])
    if '>::map::<' in f and 'as Iterator' in f:
        it = a[0]; it.clo = a[1]; it.cfn = s.W.closure_by_span(re.search(r'\{closure@([^}]+)\}', f).group(1)); return it
    if '>::collect::<' in f:
        it = a[0]; h = {0: it.clo}
        return ms.PyVec([s.run_body(s.W.fns[it.cfn], [ms.Ref(h, 0), ms.Ref(it.items, i)], it.cfn) for i in range(len(it.items))])
    if g in ('<std::string::String as Clone>::clone', '<String as Clone>::clone'): return ms.Str(d(a[0]).chars)
    if g in ('<std::string::String as Deref>::deref', '<String as Deref>::deref'): return d(a[0])
    if g in ('<std::string::String as PartialEq>::eq', '<str as PartialEq>::eq', '<&str as PartialEq>::eq', '<String as PartialEq>::eq'):
        return str_eq(d(d(a[0])).chars, d(d(a[1])).chars)
    if g in ('<&str as PartialEq>::ne',):
        r = str_eq(d(d(a[0])).chars, d(d(a[1])).chars); return z3.Not(r) if ms.is_sym(r) else not r
    if g.startswith('core::fmt::rt::Argument::new_'): return [63]
    if g.startswith('Arguments::new'): return [63]
    if g in ('format', 'std::fmt::format'): return ms.Str([63])
    if g.startswith('im::Vector') and g.endswith('::new'): return ms.PyVec([])
    if g.endswith('Vector::push_back'): d(a[0]).items.append(a[1]); return ms.UNIT
    if g.startswith('<im::Vector') and g.endswith('Clone>::clone'): return ms.PyVec(list(d(a[0]).items))
    if g.endswith('Vector::iter'): it = ms.PyVec(d(a[0]).items); it.pos = 0; return it
    if 'Iterator>::rfind' in f or 'DoubleEndedIterator>::rfind' in f:
        it = d(a[0]); cfn = s.W.closure_by_span(re.search(r'\{closure@([^}]+)\}', f).group(1)); h = {0: a[1]}
        for i in range(len(it.items) - 1, -1, -1):
            r_ = {0: ms.Ref(it.items, i)}
            if s.branch_bool(s.run_body(s.W.fns[cfn], [ms.Ref(h, 0), ms.Ref(r_, 0)], cfn)): return ms.Agg('Option', 1, [ms.Ref(it.items, i)])
        return ms.Agg('Option', 0, [])
    m = re.match(r'std::option::Option::(\w+)$', g) or re.match(r'Option::(\w+)$', g)
    if m:
        op = m.group(1); o = a[0]
        if op == 'copied': return o if o.idx == 0 else ms.Agg('Option', 1, [ms.copyval(d(o.fields[0]))])
        if op == 'unwrap_or_default': return o.fields[0] if o.idx == 1 else ms.Str([])
        if op in ('map', 'and_then', 'unwrap_or_else'):
            spans = re.findall(r'\{closure@([^}]+)\}', fname)
            if spans:
                cfn = s.W.closure_by_span(spans[-1]); call = lambda *xs: s.run_body(s.W.fns[cfn], [a[1]] + list(xs), cfn)
            else:
                fn = re.search(r'\{([\w:]+)\}', fname).group(1); tgt = s.W.resolve(fn)
                call = (lambda *xs: s.run_body(s.W.fns[tgt], list(xs), tgt)) if tgt else (lambda *xs: s.variant_value(fn, list(xs)))
            if op == 'map': return o if o.idx == 0 else ms.Agg('Option', 1, [call(o.fields[0])])
            if op == 'and_then': return o if o.idx == 0 else call(o.fields[0])
            if op == 'unwrap_or_else': return o.fields[0] if o.idx == 1 else call()
        if op == 'as_ref':
            c, k = a[0].c, a[0].k; o = c[k]
            return ms.Agg('Option', 0, []) if o.idx == 0 else ms.Agg('Option', 1, [ms.Ref(o.fields, 0)])
    if re.fullmatch(r'<(std::option::)?Option<.*> as Try>::branch', f):
        o = a[0]
        return ms.Agg('ControlFlow', 0, [o.fields[0]]) if o.idx == 1 else ms.Agg('ControlFlow', 1, [ms.Agg('Option', 0, [])])
    if re.fullmatch(r'<(std::option::)?Option<.*> as FromResidual<.*>>::from_residual', f): return ms.Agg('Option', 0, [])
    if g.startswith('<&ast::ast::Path as Into<'): return s.call('<hir::Path as From<&ast::ast::Path>>::from', a, None)
    return orig_model(s, fname, a)
ms.Exec.model = model
orig_call = ms.Exec.call
def call(s, fname, args, frame):
    m = re.fullmatch(r'<&(.+) as PartialEq>::(eq|ne)', fname)
    if m and not m.group(1).startswith(('str', 'std::string::String', 'usize', 'String')):
        args = [x.get() if isinstance(x, ms.Ref) else x for x in args]
        return s.call('<%s as PartialEq>::%s' % (m.group(1), m.group(2)), args, frame)
    return orig_call(s, fname, args, frame)
ms.Exec.call = call
orig_const = ms.Exec.const
def const(s, txt):
    t = txt.strip()
    if t.startswith('b"'): return ms.Opaque('bytes')
    if t == 'core::num::MAX': return 2 ** 32 - 1
    m_ = re.fullmatch(r'core::num::<impl (u\d+|usize)>::MAX', t)
    if m_: return 2 ** {'u8': 8, 'u16': 16, 'u32': 32, 'u64': 64, 'usize': 64}[m_.group(1)] - 1
    return orig_const(s, txt)
ms.Exec.const = const


# ---------------------------------------------------------------- extra models for compile_match
prev_model = ms.Exec.model
class PyMap:
    def __init__(s): s.keys, s.vals = [], []
def keyrepr(s, k):
    k = s.deref(k)
    return ''.join(map(chr, k.chars)) if isinstance(k, ms.Str) else repr(k)
def clone_as(s, v, tyname):
    v = s.deref(v)
    tyname = tyname.strip()
    if isinstance(v, ms.Str): return ms.Str(v.chars)
    m = re.fullmatch(r'Vec<(.+)>', tyname)
    if m: return ms.PyVec([clone_as(s, ms.Ref(v.items, i), m.group(1)) for i in range(len(v.items))])
    m = re.fullmatch(r'Box<(.+)>', tyname)
    if m: return ms.mkbox(clone_as(s, v.fields[0].fields[0].fields[0], m.group(1)))
    m = re.fullmatch(r'(?:std::option::)?Option<(.+)>', tyname)
    if m: return v if v.idx == 0 else ms.Agg('Option', 1, [clone_as(s, ms.Ref(v.fields, 0), m.group(1))])
    tgt = s.W.resolve('<%s as Clone>::clone' % tyname)
    if tgt:
        h = {0: v}; return s.run_body(s.W.fns[tgt], [ms.Ref(h, 0)], tgt)
    if isinstance(v, (int, bool)) or ms.is_sym(v) or isinstance(v, ms.Opaque): return v
    return ms.copyval(v)
def model2(s, fname, a):
    d = s.deref
    if re.fullmatch(r'<(std::string::)?String as PartialEq<&?str>>::eq', fname) or re.fullmatch(r'<&?str as PartialEq<(std::string::)?String>>::eq', fname):
        return str_eq(d(d(a[0])).chars, d(d(a[1])).chars)
    mc = re.fullmatch(r'<(.+) as Clone>::clone', fname.replace("<'_>", ''))
    if mc and not s.W.resolve(fname): return clone_as(s, a[0], mc.group(1))
    f = fname.replace("::<'_>", '').replace("<'_>", '')
    g = ms.Exec.strip_generics(f)
    if g in ('HashMap::new', 'std::collections::HashMap::new', 'IndexMap::new', 'indexmap::IndexMap::new'): return PyMap()
    if re.match(r'<(indexmap::)?IndexMap<.*> as Default>::default', f) or re.match(r'<(std::collections::)?HashMap<.*> as Default>::default', f): return PyMap()
    if g.endswith('HashMap::entry'):
        m = d(a[0]); k = keyrepr(s, a[1])
        return ms.Agg('Entry', 0, [m, k])
    if g.endswith('Entry::or_insert'):
        m, k = a[0].fields
        if k not in m.keys: m.keys.append(k); m.vals.append(a[1])
        return ms.Ref(m.vals, m.keys.index(k))
    if g.endswith('HashMap::insert'):
        m = d(a[0]); k = keyrepr(s, a[1])
        if k in m.keys: m.vals[m.keys.index(k)] = a[2]
        else: m.keys.append(k); m.vals.append(a[2])
        return ms.Agg('Option', 0, [])
    if re.match(r'<(std::collections::)?HashMap<.*> as (std::ops::)?Index<.*>>::index', f):
        m = d(a[0]); k = keyrepr(s, a[1])
        if k not in m.keys: raise ms.Panic('HashMap index: key not found')
        return ms.Ref(m.vals, m.keys.index(k))
    if 'Iterator>::max_by_key::<' in f:
        it = d(a[0]) if isinstance(a[0], ms.Ref) else a[0]
        cfn = s.W.closure_by_span(re.findall(r'\{closure@([^}]+)\}', f)[-1]); h = {0: a[1]}
        best, bestk = None, None
        items = getattr(it, 'mapped', None) or [ms.Ref(it.items, i) for i in range(len(it.items))]
        for x in items:
            hx = {0: x}
            k = s.run_body(s.W.fns[cfn], [ms.Ref(h, 0), ms.Ref(hx, 0)], cfn)
            if best is None or k >= bestk: best, bestk = x, k
        return ms.Agg('Option', 0, []) if best is None else ms.Agg('Option', 1, [best])
    if '>::map::<' in f and 'as Iterator' in f:
        it = d(a[0]) if isinstance(a[0], ms.Ref) else a[0]
        spans = re.findall(r'\{closure@([^}]+)\}', f)
        if not spans:
            fn_ = re.search(r'\{([\w:]+)\}>?$', f).group(1); tgt = s.W.resolve(fn_)
            base = getattr(it, 'mapped', None) or [ms.Ref(it.items, i) for i in range(len(it.items))]
            out = ms.PyVec([]); out.mapped = [s.run_body(s.W.fns[tgt], [x], tgt) for x in base]; out.items = out.mapped; return out
        cfn = s.W.closure_by_span(spans[-1]); h = {0: a[1]}
        base = getattr(it, 'mapped', None) or [ms.Ref(it.items, i) for i in range(len(it.items))]
        out = ms.PyVec([]); out.mapped = [s.run_body(s.W.fns[cfn], [ms.Ref(h, 0), x], cfn) for x in base]; out.items = out.mapped; return out
    if '>::collect::<' in f:
        it = a[0]; return ms.PyVec(list(getattr(it, 'mapped', it.items)))
    if g.endswith('Option::unwrap_or'): return a[0].fields[0] if a[0].idx == 1 else a[1]
    if g.endswith('Option::unwrap') or g.endswith('Option::expect'):
        if a[0].idx == 0: raise ms.Panic('unwrap on None')
        return a[0].fields[0]
    if g.endswith('Option::is_some_and'):
        o = a[0]
        if o.idx == 0: return False
        cfn = s.W.closure_by_span(re.findall(r'\{closure@([^}]+)\}', f)[-1]); return s.run_body(s.W.fns[cfn], [a[1], o.fields[0]], cfn)
    if g.startswith('Vec::') and g.endswith('::retain'):
        v = d(a[0]); cfn = s.W.closure_by_span(re.findall(r'\{closure@([^}]+)\}', f)[-1]); h = {0: a[1]}
        keep = []
        for i in range(len(v.items)):
            if s.branch_bool(s.run_body(s.W.fns[cfn], [ms.Ref(h, 0), ms.Ref(v.items, i)], cfn)): keep.append(v.items[i])
        v.items[:] = keep; return ms.UNIT
    if g.startswith('Vec::') and g.endswith('::remove'):
        v = d(a[0])
        if a[1] >= len(v.items): raise ms.Panic('remove index')
        return v.items.pop(a[1])
    if g.startswith('Vec::') and g.endswith('::is_empty'): return len(d(a[0]).items) == 0
    if re.match(r'core::slice::<impl \[.*\]>::(is_empty)', f): return len(d(a[0]).items) == 0
    if re.match(r'core::slice::<impl \[.*\]>::(len)', f): return len(d(a[0]).items)
    if re.match(r'core::slice::<impl \[.*\]>::(to_vec|into_vec)', f): return ms.PyVec(list(d(a[0]).items))
    if re.match(r'<Vec<.*> as IntoIterator>::into_iter', f) or re.match(r'<&(mut )?Vec<.*> as IntoIterator>::into_iter', f):
        v = d(a[0]); it = ms.PyVec(v.items if isinstance(a[0], ms.Ref) else list(v.items)); it.pos = 0; it.byref = isinstance(a[0], ms.Ref); return it
    if re.match(r'<std::slice::Iter(Mut)?<.*> as Iterator>::next', f) or re.match(r'<std::vec::IntoIter<.*> as Iterator>::next', f):
        it = d(a[0])
        if not hasattr(it, 'pos'): it.pos = 0
        if it.pos >= len(it.items): return ms.Agg('Option', 0, [])
        it.pos += 1
        byref = 'slice::Iter' in f or getattr(it, 'byref', False)
        return ms.Agg('Option', 1, [ms.Ref(it.items, it.pos - 1) if byref else it.items[it.pos - 1]])
    if re.match(r'<std::slice::Iter<.*> as Iterator>::enumerate', f) or '>::enumerate' in f:
        it = a[0]; e = ms.PyVec(it.items); e.pos = 0; e.enum = True; e.byref = ('slice::Iter' in f) or getattr(it, 'byref', False); return e
    if re.match(r'<(std::iter::)?Enumerate<.*> as Iterator>::next', f):
        it = d(a[0])
        if not hasattr(it, 'pos'): it.pos = 0
        if it.pos >= len(it.items): return ms.Agg('Option', 0, [])
        it.pos += 1; return ms.Agg('Option', 1, [ms.Agg('tuple', 0, [it.pos - 1, ms.Ref(it.items, it.pos - 1) if it.byref else it.items[it.pos - 1]])])
    if re.match(r'<.* as IntoIterator>::into_iter', f): return a[0]
    if re.match(r'core::slice::<impl \[.*\]>::iter_mut', f): it = ms.PyVec(d(a[0]).items); it.pos = 0; it.byref = True; return it
    if g.endswith('::rev'): it = a[0]; r = ms.PyVec(list(reversed(it.items))); r.pos = 0; r.enumrev = getattr(it, 'enum', False); r.n = len(it.items); r.byref = getattr(it, 'byref', True); r.src = it.items; return r
    if re.match(r'<(std::iter::)?Rev<.*> as Iterator>::next', f):
        it = d(a[0])
        if not hasattr(it, 'pos'): it.pos = 0
        if it.pos >= len(it.items): return ms.Agg('Option', 0, [])
        it.pos += 1
        if getattr(it, 'enumrev', False):
            j = it.n - it.pos; return ms.Agg('Option', 1, [ms.Agg('tuple', 0, [j, ms.Ref(it.src, j) if it.byref else it.src[j]])])
        return ms.Agg('Option', 1, [ms.Ref(it.items, it.pos - 1)])
    if g in ('Box::new',) or re.fullmatch(r'Box::new', g): return ms.mkbox(a[0])
    if g.startswith('core::fmt::rt::Argument::new_display'):
        v = d(d(a[0]))
        if isinstance(v, ms.Str): return v.chars
        if isinstance(v, int): return [ord(c) for c in str(v)]
        return [63]
    if g.startswith('Arguments::new'):
        tb = getattr(a[0], 'bs', None)
        if tb is None: return [63]
        out = []; i = 0; ai = 0; args = d(a[1]).fields
        while True:
            n = tb[i]; i += 1
            if n == 0: break
            if n < 0x80: out.extend(tb[i:i + n]); i += n
            elif n == 0xC0: out.extend(args[ai]); ai += 1
            else: return [63]
        return out
    if g in ('format', 'std::fmt::format'): return ms.Str(a[0])
    if g == 'std::string::String::as_str' or g == 'String::as_str': return d(a[0])
    if g.endswith('Cell::get'): return d(a[0]).v
    return prev_model(s, fname, a)
ms.Exec.model = model2
def const2(s, txt):
    t = txt.strip()
    m = re.fullmatch(r'b"(.*)"', t, flags=re.S)
    if m:
        raw = m.group(1); bs = []; i = 0
        while i < len(raw):
            if raw[i] == '\\':
                if raw[i + 1] == 'x': bs.append(int(raw[i + 2:i + 4], 16)); i += 4
                else: bs.append({'n': 10, 't': 9, 'r': 13, '\\': 92, '"': 34, '0': 0}[raw[i + 1]]); i += 2
            else: bs.append(ord(raw[i])); i += 1
        o = ms.Opaque('bytes'); o.bs = bs; return o
    return const(s, txt)
ms.Exec.const = const2



# ---------------------------------------------------------------- C10 O10.4: operator mapping in compile_cexpr
prev6 = ms.Exec.model
def model6(s, fname, a):
    d = s.deref
    g6 = ms.Exec.strip_generics(fname.replace("::<'_>", ''))
    if re.match(r'<Vec<.*> as Extend<.*>>::extend', fname): d(a[0]).items.extend(s.deref(a[1]).items); return ms.UNIT
    if g6.endswith('IndexMap::get') or g6.endswith('IndexMap::contains_key') or g6.endswith('IndexMap::get_index_of'):
        m = d(a[0])
        if len(m.keys): raise ms.Unsupported('non-empty IndexMap lookup')
        return False if g6.endswith('contains_key') else ms.Agg('Option', 0, [])
    if g6.endswith('IndexMap::iter') or g6.endswith('IndexMap::values') or g6.endswith('IndexMap::keys'):
        it = ms.PyVec([]); it.pos = 0; return it
    f = fname.replace("::<'_>", '').replace("<'_>", '')
    if f == 'core::str::<impl str>::as_bytes': return ms.PyVec(list(d(a[0]).chars))
    if f == 'core::slice::<impl [u8]>::split_first':
        b = d(a[0]).items
        return ms.Agg('Option', 0, []) if not b else ms.Agg('Option', 1, [ms.Agg('tuple', 0, [ms.Ref(b, 0), ms.PyVec(b[1:])])])
    if f.endswith('is_ascii_alphabetic'):
        c = d(a[0]); return (65 <= c <= 90) or (97 <= c <= 122)
    if f.endswith('is_ascii_alphanumeric'):
        c = d(a[0]); return (65 <= c <= 90) or (97 <= c <= 122) or (48 <= c <= 57)
    if "as Iterator>::all::<" in f:
        it = d(a[0]); cfn = s.W.closure_by_span(re.findall(r'\{closure@([^}]+)\}', f)[-1]); h = {0: a[1]}
        for i in range(getattr(it, 'pos', 0), len(it.items)):
            if not s.branch_bool(s.run_body(s.W.fns[cfn], [ms.Ref(h, 0), ms.Ref(it.items, i)], cfn)): return False
        return True
    return prev6(s, fname, a)
ms.Exec.model = model6


# ---------------------------------------------------------------- C09 O9.2: block-level DCE must keep a possibly-failing initializer
class PySet:
    def __init__(s, elems=()): s.elems = list(elems)
def sval(x): return ''.join(map(chr, x.chars))
prev7 = ms.Exec.model
def model7(s, fname, a):
    d = s.deref
    if re.fullmatch(r'<.* as Drop>::drop', fname): return ms.UNIT
    f = fname.replace("::<'_>", '').replace("<'_>", '')
    g = ms.Exec.strip_generics(f)
    if g.endswith('HashSet::new') or re.match(r'<(std::collections::)?HashSet<.*> as Default>::default', f): return PySet()
    if re.match(r'<(std::collections::)?HashSet<.*> as Clone>::clone', f): return PySet([ms.Str(e.chars) for e in d(a[0]).elems])
    if g.endswith('HashSet::insert'):
        st = d(a[0]); k = sval(a[1])
        if k in [sval(e) for e in st.elems]: return False
        st.elems.append(a[1]); return True
    if g.endswith('HashSet::remove'):
        st = d(a[0]); k = sval(d(d(a[1]))); n = len(st.elems); st.elems = [e for e in st.elems if sval(e) != k]; return len(st.elems) != n
    if g.endswith('HashSet::contains'):
        st = d(a[0]); return sval(d(d(a[1]))) in [sval(e) for e in st.elems]
    if re.match(r'<(std::collections::)?HashSet<.*> as Extend<.*>>::extend', f):
        st = d(a[0]); src = a[1]; items = src.elems if isinstance(src, PySet) else src.items
        for e in items:
            e = d(e)
            if sval(e) not in [sval(x) for x in st.elems]: st.elems.append(ms.Str(e.chars))
        return ms.UNIT
    if re.match(r'<(std::collections::)?HashSet<.*> as IntoIterator>::into_iter', f) or g.endswith('HashSet::iter'):
        st = d(a[0]); it = ms.PyVec(list(st.elems)); it.pos = 0; it.byref = not f.startswith('<std::collections::HashSet') ; return it
    if 'hash_set::IntoIter' in f and f.endswith('::next') or 'hash_set::Iter' in f and f.endswith('::next'):
        it = d(a[0])
        if it.pos >= len(it.items): return ms.Agg('Option', 0, [])
        it.pos += 1; return ms.Agg('Option', 1, [it.items[it.pos - 1]])
    if re.match(r'<&(std::collections::)?HashSet<.*> as (std::ops::)?Sub<.*>>::sub', f):
        x, y = d(d(a[0])), d(d(a[1])); ys = [sval(e) for e in y.elems]; return PySet([ms.Str(e.chars) for e in x.elems if sval(e) not in ys])
    if g.endswith('Option::unwrap_or_default'): return a[0].fields[0] if a[0].idx == 1 else PySet()
    if g.endswith('Vec::with_capacity'): return ms.PyVec([])
    if re.match(r'<(std::vec::)?IntoIter<.*> as Iterator>::rev', f) or g.endswith('::rev'):
        it = a[0]; r = ms.PyVec(list(reversed(it.items))); r.pos = 0; r.byref = False; return r
    if re.match(r'<(std::iter::)?Rev<.*> as Iterator>::next', f):
        it = d(a[0])
        if it.pos >= len(it.items): return ms.Agg('Option', 0, [])
        it.pos += 1; return ms.Agg('Option', 1, [it.items[it.pos - 1]])
    if re.match(r'core::slice::<impl \[.*\]>::reverse', f): d(a[0]).items.reverse(); return ms.UNIT
    if g.endswith('Option::map') and 'fn(' in fname and '{closure@' not in fname:
        o = a[0]
        if o.idx == 0: return o
        fn_ = re.search(r'\{([\w:]+)\}', fname).group(1); tgt = s.W.resolve(fn_)
        return ms.Agg('Option', 1, [s.run_body(s.W.fns[tgt], [o.fields[0]], tgt)])
    return prev7(s, fname, a)
ms.Exec.model = model7
GE = QE[('goast', 'Expr')]; GEN = [v[0] for v in GE]; GS = QE[('goast', 'Stmt')]; GSN = [v[0] for v in GS]
GB = [v[0] for v in QE[('goast', 'GoBinaryOp')]]; GT = [v[0] for v in QE[('goty', 'GoType')]]
def mkstr(t): return ms.Str([ord(c) for c in t])
def gty(n): return ms.Agg('GoType', GT.index(n), [])
def gvar(n): return ms.Agg('Expr', GEN.index('Var'), [mkstr(n), gty('TInt32')])
op = z3.Int('op'); tyv = z3.Int('ty')
cons = [op >= 0, op < len(GB), z3.Or(tyv == GT.index('TInt32'), tyv == GT.index('TFloat64'))]
def entry(ex):
    init = ms.Agg('Expr', GEN.index('BinaryOp'), [ms.SymEnum('GoBinaryOp', op), ms.mkbox(gvar('z')), ms.mkbox(gvar('w')), ms.SymEnum('GoType', tyv)])
    decl = ms.Agg('Stmt', GSN.index('VarDecl'), [mkstr('a'), ms.SymEnum('GoType', tyv), ms.Agg('Option', 1, [init])])
    callp = ms.Agg('Stmt', GSN.index('Expr'), [ms.Agg('Expr', GEN.index('Call'), [ms.mkbox(gvar('println')), ms.PyVec([]), gty('TUnit')])])
    block = ms.Agg('Block', 0, [ms.PyVec([decl, callp])])
    h = {0: PySet()}
    r = ex.call('go::dce::dce_block_with_live', [block, ms.Ref(h, 0)], None)
    return r.fields[0]
res, left = ms.explore(W, entry, cons)
viol = 0
for pc, kind, r, steps in res:
    if kind != 'ok': print('PANIC', r); continue
    out = r.fields[0].items
    kinds = [GSN[s_.idx] for s_ in out]
    kept = any(GSN[s_.idx] in ('VarDecl', 'Expr') and 'BinaryOp' in repr([GEN[x.idx] for x in ([s_.fields[0]] if GSN[s_.idx] == 'Expr' else ([s_.fields[2].fields[0]] if s_.fields[2].idx == 1 else []))]) for s_ in out)
    sol = z3.Solver(); sol.add(*cons); sol.add(*pc)
    # the division is observable iff op == Div and integer type
    sol.add(op == GB.index('Div'), tyv == GT.index('TInt32'))
    if sol.check() == z3.sat and not kept:
        viol += 1; print('VIOLATION: `var a int32 = z / w` (unused) is deleted; output stmts:', kinds)
print('paths', len(res), 'violations', viol, 'time %.1fs' % (time.time() - t0))

def append(path, text, tag="kh2"):
    s=open(path).read()
    i=s.find("\n#[cfg(kani)]\nmod %s {" % tag)
    if i>=0: s=s[:i]
    open(path,'w').write(s+text)

append("crates/compiler/src/typer/unify.rs", r'''
#[cfg(kani)]
mod kh2 {
    use super::*;
    fn fixed_rs() -> std::hash::RandomState { unsafe { std::mem::transmute((0u64, 0u64)) } }
    fn stub_format(_a: std::fmt::Arguments<'_>) -> String { String::new() }
    fn prim() -> tast::Ty {
        match kani::any::<u8>() % 3 { 0 => tast::Ty::TInt32, 1 => tast::Ty::TBool, _ => tast::Ty::TString }
    }
    fn ty1() -> tast::Ty {
        match kani::any::<u8>() % 5 {
            0 => prim(),
            1 => tast::Ty::TTuple { typs: vec![prim(), prim()] },
            2 => { let len: usize = kani::any(); kani::assume(len <= 3); tast::Ty::TArray { len, elem: Box::new(prim()) } },
            3 => tast::Ty::TRef { elem: Box::new(prim()) },
            _ => tast::Ty::TFunc { params: vec![prim()], ret_ty: Box::new(prim()) },
        }
    }
    #[kani::proof]
    #[kani::unwind(5)]
    #[kani::stub(std::hash::RandomState::new, fixed_rs)]
    #[kani::stub(alloc::fmt::format, stub_format)]
    fn unify_ground_d1() {
        let mut typer = Typer::new(crate::hir::HirTable::new(crate::hir::PackageId(1)));
        let mut diags = Diagnostics::new();
        let a = ty1();
        let b = ty1();
        let ok = typer.unify(&mut diags, &a, &b);
        assert!(ok == (a == b));
        assert!(ok == !diags.has_errors());
        std::mem::forget((typer, diags, a, b));
    }
}
''')

append("crates/compiler/src/typer/name_resolution.rs", r'''
#[cfg(kani)]
mod kh2 {
    use super::*;
    fn name() -> ast::AstIdent {
        match kani::any::<u8>() % 3 { 0 => ast::AstIdent::new("x"), 1 => ast::AstIdent::new("y"), _ => ast::AstIdent::new("xy") }
    }
    #[kani::proof]
    #[kani::unwind(6)]
    fn rfind_innermost() {
        let mut env = ResolveLocalEnv::new();
        let n: usize = kani::any();
        kani::assume(n <= 3);
        let names = [name(), name(), name()];
        for i in 0..3 { if i < n { env.add(&names[i], hir::LocalId { pkg: hir::PackageId(1), idx: i as u32 }); } }
        let q = name();
        let r = env.rfind(&q);
        let mut expect: Option<u32> = None;
        for i in 0..3 { if i < n && names[i] == q { expect = Some(i as u32); } }
        assert!(r.map(|l| l.idx) == expect);
        std::mem::forget((env, names, q));
    }
}
''')

append("crates/compiler/src/artifact.rs", r'''
#[cfg(kani)]
mod kh2 {
    use super::*;
    fn fixed_rs() -> std::hash::RandomState { unsafe { std::mem::transmute((0u64, 0u64)) } }
    fn stub_hash(_u: &InterfaceUnit) -> String { String::from("H") }
    fn s2() -> String { if kani::any() { String::from("A") } else { String::from("B") } }
    #[kani::proof]
    #[kani::unwind(6)]
    #[kani::stub(std::hash::RandomState::new, fixed_rs)]
    #[kani::stub(InterfaceUnit::compute_hash, stub_hash)]
    fn validate_logic() {
        let exports = GlobalTypeEnv::new_empty();
        let exports = PackageExports { type_env: exports.type_env, trait_env: exports.trait_env, value_env: exports.value_env };
        let hir_interface = crate::hir::PackageInterface {
            id: crate::hir::PackageId(1),
            name: crate::hir::PackageName(String::from("A")),
            exports: indexmap::IndexMap::new(),
            enum_variants: indexmap::IndexMap::new(),
        };
        let mut ideps = BTreeMap::new();
        if kani::any() { ideps.insert(s2(), s2()); }
        let mut cdeps = BTreeMap::new();
        if kani::any() { cdeps.insert(s2(), s2()); }
        let interface = InterfaceUnit {
            format_version: kani::any(), compiler_abi: kani::any(), package: s2(),
            exports, hir_interface, deps: ideps, interface_hash: if kani::any() { String::from("H") } else { String::from("X") },
        };
        let unit = CoreUnit {
            format_version: kani::any(), compiler_abi: kani::any(), package: s2(), interface,
            core_ir: crate::core::File { toplevels: Vec::new() }, deps: cdeps, sources: Vec::new(),
        };
        let expect = unit.format_version == FORMAT_VERSION && unit.compiler_abi == COMPILER_ABI
            && unit.package == unit.interface.package && unit.interface.interface_hash == "H" && unit.deps == unit.interface.deps;
        assert!(unit.validate() == expect);
        std::mem::forget(unit);
    }
}
''')

use std::io::BufRead;
fn main() {
    std::panic::set_hook(Box::new(|_| {}));
    for line in std::io::stdin().lock().lines() {
        let line = line.unwrap(); let p: Vec<&str> = line.split_whitespace().collect();
        if p.len() != 4 { continue; }
        let (id, a, b): (u32, i64, i64) = (p[1].parse().unwrap(), p[2].parse().unwrap(), p[3].parse().unwrap());
        let which = p[0].to_string();
        let r = std::panic::catch_unwind(move || match which.as_str() { "s" => modelprobe::probe(id, a, b), "i" => modelprobe::probe_iter(id, a, b), "o" => modelprobe::probe_opt(id, a, b), "m" => modelprobe::probe_map(id, a, b), "f" => modelprobe::probe_fmt(id, a, b), "c" => modelprobe::probe_char(id, a, b), _ => modelprobe::probe_str2(id, a, b) });
        match r { Ok(v) => println!("{:?}", v), Err(_) => println!("[-2]") }
    }
}

use std::io::BufRead;
fn main() {
    std::panic::set_hook(Box::new(|_| {}));
    for line in std::io::stdin().lock().lines() {
        let line = line.unwrap(); let p: Vec<&str> = line.split_whitespace().collect();
        if p.len() != 4 { continue; }
        let (id, a, b): (u32, i64, i64) = (p[1].parse().unwrap(), p[2].parse().unwrap(), p[3].parse().unwrap());
        let which = p[0].to_string();
        let r = std::panic::catch_unwind(move || if which == "s" { modelprobe::probe(id, a, b) } else { modelprobe::probe_iter(id, a, b) });
        match r { Ok(v) => println!("{:?}", v), Err(_) => println!("[-2]") }
    }
}

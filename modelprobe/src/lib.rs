//! Differential probes for the library models of mirsym: every function here uses std operations the goml sources use;
//! the same concrete calls are run natively and through the MIR interpreter and must agree (a panic is the answer [-2]).
const TEXTS: [&str; 5] = ["", "ab", "é", "aé:b", "a::b::c"];
const NUMS: [i64; 4] = [10, 20, 30, 40];

fn bytes_of(s: &str) -> Vec<i64> { s.as_bytes().iter().map(|b| *b as i64).collect() }
fn opt_str(s: Option<&str>) -> Vec<i64> { match s { None => vec![-1], Some(t) => bytes_of(t) } }
fn opt_num(x: Option<usize>) -> Vec<i64> { match x { None => vec![-1], Some(v) => vec![v as i64] } }

pub fn probe(id: u32, a: i64, b: i64) -> Vec<i64> {
    let ua = a as usize; let ub = b as usize;
    let t = TEXTS[(id % 5) as usize];
    match id / 5 {
        0 => opt_str(t.get(ua..ub)),
        1 => bytes_of(&t[ua..ub]),
        2 => vec![t.is_char_boundary(ua) as i64],
        3 => { let mut s = t.to_string(); s.insert_str(ua, "xy"); bytes_of(&s) }
        4 => opt_str(t.get(ua..)),
        5 => opt_str(t.get(..ub)),
        6 => bytes_of(&t[ua..]),
        7 => bytes_of(&t[..ub]),
        8 => match t.as_bytes().get(ua..ub) { None => vec![-1], Some(x) => x.iter().map(|v| *v as i64).collect() },
        9 => match t.as_bytes().get(ua) { None => vec![-1], Some(x) => vec![*x as i64] },
        10 => opt_num(t.find("::")).into_iter().chain(opt_num(t.rfind(':'))).collect(),
        11 => t.split("::").flat_map(|p| { let mut v = bytes_of(p); v.push(-9); v }).collect(),
        12 => bytes_of(t.trim_matches(':')).into_iter().chain(bytes_of(t.trim_start_matches('a'))).collect(),
        13 => opt_str(t.strip_prefix("a")).into_iter().chain(vec![t.starts_with("a:") as i64, t.ends_with('c') as i64, t.contains("::") as i64]).collect(),
        14 => t.char_indices().flat_map(|(i, c)| vec![i as i64, c as i64]).collect(),
        15 => t.chars().rev().map(|c| c as i64).collect(),
        16 => match t.split_once("::") { None => vec![-1], Some((x, y)) => { let mut v = bytes_of(x); v.push(-9); v.extend(bytes_of(y)); v } },
        17 => vec![t.len() as i64, t.chars().count() as i64, t.is_empty() as i64],
        _ => vec![-7],
    }
}

pub fn probe_iter(id: u32, a: i64, b: i64) -> Vec<i64> {
    let ua = a as usize; let ub = b as usize;
    match id {
        0 => NUMS.iter().rev().enumerate().flat_map(|(i, v)| vec![i as i64, *v]).collect(),
        1 => NUMS.iter().enumerate().rev().flat_map(|(i, v)| vec![i as i64, *v]).collect(),
        2 => NUMS.iter().skip(ua).take(ub).copied().collect(),
        3 => NUMS.iter().zip(NUMS.iter().skip(ua)).map(|(x, y)| x + y).collect(),
        4 => NUMS.iter().take(ua).chain(NUMS.iter().skip(ub)).copied().collect(),
        5 => NUMS.iter().rev().skip(ua).copied().collect(),
        6 => NUMS.iter().filter(|v| **v != 20).enumerate().flat_map(|(i, v)| vec![i as i64, *v]).collect(),
        7 => opt_num(NUMS.iter().position(|v| *v == a)),
        8 => opt_num(NUMS.iter().rposition(|v| *v >= a)),
        9 => match NUMS.iter().max_by_key(|v| (**v - a).abs()) { None => vec![-1], Some(v) => vec![*v] },
        10 => match NUMS.iter().min_by_key(|v| (**v - a).abs()) { None => vec![-1], Some(v) => vec![*v] },
        11 => match NUMS.iter().nth(ua) { None => vec![-1], Some(v) => vec![*v] },
        12 => NUMS.chunks(ua).flat_map(|c| { let mut v = c.to_vec(); v.push(-9); v }).collect(),
        13 => NUMS.chunks_exact(ua).flat_map(|c| { let mut v = c.to_vec(); v.push(-9); v }).collect(),
        14 => { let mut v = NUMS.to_vec(); let d: Vec<i64> = v.drain(ua..ub).collect(); v.push(-9); v.extend(d); v }
        15 => { let mut v = NUMS.to_vec(); v.retain(|x| *x != a); v }
        16 => { let mut v = NUMS.to_vec(); v.insert(ua, 7); v }
        17 => { let mut v = NUMS.to_vec(); let r = v.remove(ua); v.push(r); v }
        18 => { let mut v = NUMS.to_vec(); v.truncate(ua); v }
        19 => { let (x, y) = NUMS.split_at(ua); let mut v = x.to_vec(); v.push(-9); v.extend(y); v }
        20 => match NUMS[..ua].split_first() { None => vec![-1], Some((h, t)) => { let mut v = vec![*h, -9]; v.extend(t); v } },
        21 => match NUMS[..ua].split_last() { None => vec![-1], Some((h, t)) => { let mut v = vec![*h, -9]; v.extend(t); v } },
        22 => match NUMS.binary_search(&a) { Ok(i) => vec![1, i as i64], Err(i) => vec![0, i as i64] },
        23 => vec![NUMS.contains(&a) as i64, NUMS.iter().any(|v| *v > a) as i64, NUMS.iter().all(|v| *v > a) as i64],
        24 => { let mut v = vec![a, b, a, a, b]; v.dedup(); v }
        25 => { let mut v = vec![b, a, 25, a]; v.sort(); v }
        26 => match NUMS.get(ua..ub) { None => vec![-1], Some(x) => x.to_vec() },
        27 => NUMS[ua..ub].to_vec(),
        28 => match NUMS.iter().rev().last() { None => vec![-1], Some(v) => vec![*v] },
        29 => { let mut v = NUMS.to_vec(); v.reverse(); v.extend(NUMS.iter().skip(ua).rev()); v }
        30 => NUMS.iter().map(|v| v * a).filter(|v| *v > b).collect(),
        31 => vec![NUMS.iter().take(ua).sum::<i64>(), NUMS.iter().skip(ub).count() as i64],
        32 => vec![(a as u32).checked_sub(b as u32).map(|v| v as i64).unwrap_or(-1), (a as u32).saturating_sub(b as u32) as i64, (a as u8).wrapping_add(b as u8) as i64],
        33 => vec![(-a) / b.max(1), (-a) % b.max(1), (a as i8) as i64, (a as u8) as i64, a >> 1, (a << 2) & 0xff],
        34 => { let v: Vec<String> = NUMS.iter().take(ua).map(|x| x.to_string()).collect(); bytes_of(&v.join("_")) }
        35 => NUMS.iter().rev().take(ua).enumerate().flat_map(|(i, v)| vec![i as i64, *v]).collect(),
        _ => vec![-7],
    }
}

//! Differential probes for the library models of mirsym: every function here uses std operations the goml sources use;
//! the same concrete calls are run natively and through the MIR interpreter and must agree (a panic is the answer [-2]).
const TEXTS: [&str; 5] = ["", "ab", "é", "aé:b", "a::b::c"];
const NUMS: [i64; 4] = [10, 20, 30, 40];

fn bytes_of(s: &str) -> Vec<i64> { s.as_bytes().iter().map(|b| *b as i64).collect() }
fn opt_str(s: Option<&str>) -> Vec<i64> { match s { None => vec![-1], Some(t) => bytes_of(t) } }
fn opt_num(x: Option<usize>) -> Vec<i64> { match x { None => vec![-1], Some(v) => vec![v as i64] } }

pub fn probe(id: u32, a: i64, b: i64) -> Vec<i64> {
    let ua = a as usize; let ub = b as usize;
    let t = TEXTS[(id % 5) as usize];
    match id / 5 {
        0 => opt_str(t.get(ua..ub)),
        1 => bytes_of(&t[ua..ub]),
        2 => vec![t.is_char_boundary(ua) as i64],
        3 => { let mut s = t.to_string(); s.insert_str(ua, "xy"); bytes_of(&s) }
        4 => opt_str(t.get(ua..)),
        5 => opt_str(t.get(..ub)),
        6 => bytes_of(&t[ua..]),
        7 => bytes_of(&t[..ub]),
        8 => match t.as_bytes().get(ua..ub) { None => vec![-1], Some(x) => x.iter().map(|v| *v as i64).collect() },
        9 => match t.as_bytes().get(ua) { None => vec![-1], Some(x) => vec![*x as i64] },
        10 => opt_num(t.find("::")).into_iter().chain(opt_num(t.rfind(':'))).collect(),
        11 => t.split("::").flat_map(|p| { let mut v = bytes_of(p); v.push(-9); v }).collect(),
        12 => bytes_of(t.trim_matches(':')).into_iter().chain(bytes_of(t.trim_start_matches('a'))).collect(),
        13 => opt_str(t.strip_prefix("a")).into_iter().chain(vec![t.starts_with("a:") as i64, t.ends_with('c') as i64, t.contains("::") as i64]).collect(),
        14 => t.char_indices().flat_map(|(i, c)| vec![i as i64, c as i64]).collect(),
        15 => t.chars().rev().map(|c| c as i64).collect(),
        16 => match t.split_once("::") { None => vec![-1], Some((x, y)) => { let mut v = bytes_of(x); v.push(-9); v.extend(bytes_of(y)); v } },
        17 => vec![t.len() as i64, t.chars().count() as i64, t.is_empty() as i64],
        _ => vec![-7],
    }
}

pub fn probe_iter(id: u32, a: i64, b: i64) -> Vec<i64> {
    let ua = a as usize; let ub = b as usize;
    match id {
        0 => NUMS.iter().rev().enumerate().flat_map(|(i, v)| vec![i as i64, *v]).collect(),
        1 => NUMS.iter().enumerate().rev().flat_map(|(i, v)| vec![i as i64, *v]).collect(),
        2 => NUMS.iter().skip(ua).take(ub).copied().collect(),
        3 => NUMS.iter().zip(NUMS.iter().skip(ua)).map(|(x, y)| x + y).collect(),
        4 => NUMS.iter().take(ua).chain(NUMS.iter().skip(ub)).copied().collect(),
        5 => NUMS.iter().rev().skip(ua).copied().collect(),
        6 => NUMS.iter().filter(|v| **v != 20).enumerate().flat_map(|(i, v)| vec![i as i64, *v]).collect(),
        7 => opt_num(NUMS.iter().position(|v| *v == a)),
        8 => opt_num(NUMS.iter().rposition(|v| *v >= a)),
        9 => match NUMS.iter().max_by_key(|v| (**v - a).abs()) { None => vec![-1], Some(v) => vec![*v] },
        10 => match NUMS.iter().min_by_key(|v| (**v - a).abs()) { None => vec![-1], Some(v) => vec![*v] },
        11 => match NUMS.iter().nth(ua) { None => vec![-1], Some(v) => vec![*v] },
        12 => NUMS.chunks(ua).flat_map(|c| { let mut v = c.to_vec(); v.push(-9); v }).collect(),
        13 => NUMS.chunks_exact(ua).flat_map(|c| { let mut v = c.to_vec(); v.push(-9); v }).collect(),
        14 => { let mut v = NUMS.to_vec(); let d: Vec<i64> = v.drain(ua..ub).collect(); v.push(-9); v.extend(d); v }
        15 => { let mut v = NUMS.to_vec(); v.retain(|x| *x != a); v }
        16 => { let mut v = NUMS.to_vec(); v.insert(ua, 7); v }
        17 => { let mut v = NUMS.to_vec(); let r = v.remove(ua); v.push(r); v }
        18 => { let mut v = NUMS.to_vec(); v.truncate(ua); v }
        19 => { let (x, y) = NUMS.split_at(ua); let mut v = x.to_vec(); v.push(-9); v.extend(y); v }
        20 => match NUMS[..ua].split_first() { None => vec![-1], Some((h, t)) => { let mut v = vec![*h, -9]; v.extend(t); v } },
        21 => match NUMS[..ua].split_last() { None => vec![-1], Some((h, t)) => { let mut v = vec![*h, -9]; v.extend(t); v } },
        22 => match NUMS.binary_search(&a) { Ok(i) => vec![1, i as i64], Err(i) => vec![0, i as i64] },
        23 => vec![NUMS.contains(&a) as i64, NUMS.iter().any(|v| *v > a) as i64, NUMS.iter().all(|v| *v > a) as i64],
        24 => { let mut v = vec![a, b, a, a, b]; v.dedup(); v }
        25 => { let mut v = vec![b, a, 25, a]; v.sort(); v }
        26 => match NUMS.get(ua..ub) { None => vec![-1], Some(x) => x.to_vec() },
        27 => NUMS[ua..ub].to_vec(),
        28 => match NUMS.iter().rev().last() { None => vec![-1], Some(v) => vec![*v] },
        29 => { let mut v = NUMS.to_vec(); v.reverse(); v.extend(NUMS.iter().skip(ua).rev()); v }
        30 => NUMS.iter().map(|v| v * a).filter(|v| *v > b).collect(),
        31 => vec![NUMS.iter().take(ua).sum::<i64>(), NUMS.iter().skip(ub).count() as i64],
        32 => vec![(a as u32).checked_sub(b as u32).map(|v| v as i64).unwrap_or(-1), (a as u32).saturating_sub(b as u32) as i64, (a as u8).wrapping_add(b as u8) as i64],
        33 => vec![(-a) / b.max(1), (-a) % b.max(1), (a as i8) as i64, (a as u8) as i64, a >> 1, (a << 2) & 0xff],
        34 => { let v: Vec<String> = NUMS.iter().take(ua).map(|x| x.to_string()).collect(); bytes_of(&v.join("_")) }
        35 => NUMS.iter().rev().take(ua).enumerate().flat_map(|(i, v)| vec![i as i64, *v]).collect(),
        _ => vec![-7],
    }
}

// ---------------------------------------------------------------------------------------------- second group: Option / Result, maps and sets, formatting, characters, strings
use std::collections::{BTreeMap, BTreeSet, HashMap, HashSet};
use indexmap::IndexMap;

fn opt(a: i64) -> Option<i64> { if a < 0 { None } else { Some(a) } }
fn res(a: i64) -> Result<i64, i64> { if a < 0 { Err(-a) } else { Ok(a) } }
fn ov(x: Option<i64>) -> Vec<i64> { match x { None => vec![-1], Some(v) => vec![1, v] } }

pub fn probe_opt(id: u32, a: i64, b: i64) -> Vec<i64> {
    match id {
        0 => ov(opt(a).map(|v| v + b)),
        1 => vec![opt(a).map_or(7, |v| v * 2)],
        2 => ov(opt(a).and_then(|v| opt(v - b))),
        3 => ov(opt(a).or_else(|| opt(b))),
        4 => vec![opt(a).unwrap_or(b), opt(a).unwrap_or_else(|| b + 1), opt(a).unwrap_or_default()],
        5 => vec![opt(a).is_some_and(|v| v > b) as i64, opt(a).is_some() as i64, opt(a).is_none() as i64],
        6 => ov(opt(a).filter(|v| *v != b)),
        7 => match opt(a).ok_or(b) { Ok(v) => vec![1, v], Err(e) => vec![0, e] },
        8 => { let mut o = opt(a); let t = o.take(); let mut v = ov(t); v.extend(ov(o)); v }
        9 => { let mut o = opt(a); let t = o.replace(b); let mut v = ov(t); v.extend(ov(o)); v }
        10 => match res(a).map(|v| v + 1).map_err(|e| e * 10) { Ok(v) => vec![1, v], Err(e) => vec![0, e] },
        11 => ov(res(a).ok()),
        12 => match res(a).and_then(|v| res(v - b)) { Ok(v) => vec![1, v], Err(e) => vec![0, e] },
        13 => vec![res(a).unwrap_or(b), res(a).is_ok() as i64, res(a).is_err() as i64],
        14 => ov(opt(a).zip(opt(b)).map(|(x, y)| x * 100 + y)),
        15 => ov(opt(a).xor(opt(b))),
        16 => ov(opt(a).or(opt(b))),
        17 => ov(opt(a).and(opt(b))),
        18 => { let v = vec![opt(a), opt(b), Some(3)]; ov(v.into_iter().flatten().max()) }
        19 => { let r: Option<Vec<i64>> = vec![opt(a), opt(b)].into_iter().collect(); match r { None => vec![-1], Some(v) => v } }
        20 => vec![(opt(a) == opt(b)) as i64, (opt(a) < opt(b)) as i64, (Some(a) == opt(a)) as i64],
        _ => vec![-7],
    }
}

pub fn probe_map(id: u32, a: i64, b: i64) -> Vec<i64> {
    let keys = [3i64, 1, 2, a, b];
    match id {
        0 => { let mut m = BTreeMap::new(); for (i, k) in keys.iter().enumerate() { m.insert(*k, i as i64); } m.iter().flat_map(|(k, v)| vec![*k, *v]).collect() }
        1 => { let mut m = IndexMap::new(); for (i, k) in keys.iter().enumerate() { m.insert(*k, i as i64); } m.iter().flat_map(|(k, v)| vec![*k, *v]).collect() }
        2 => { let mut m = IndexMap::new(); let mut out = vec![]; for (i, k) in keys.iter().enumerate() { out.extend(ov(m.insert(*k, i as i64))); } out }
        3 => { let mut m = HashMap::new(); for (i, k) in keys.iter().enumerate() { m.insert(*k, i as i64); } let mut v = vec![m.len() as i64, m.contains_key(&a) as i64]; v.extend(ov(m.get(&b).copied())); v.extend(ov(m.remove(&1))); v.push(m.len() as i64); v }
        4 => { let mut m: IndexMap<i64, i64> = IndexMap::new(); for k in keys.iter() { *m.entry(*k).or_insert(0) += 1; } m.iter().flat_map(|(k, v)| vec![*k, *v]).collect() }
        5 => { let mut m: IndexMap<i64, Vec<i64>> = IndexMap::new(); for (i, k) in keys.iter().enumerate() { m.entry(*k).or_default().push(i as i64); } m.iter().flat_map(|(k, v)| { let mut x = vec![*k]; x.extend(v); x.push(-9); x }).collect() }
        6 => { let mut m: IndexMap<i64, i64> = IndexMap::new(); for (i, k) in keys.iter().enumerate() { m.insert(*k, i as i64); } let mut v = ov(m.get_index_of(&a).map(|x| x as i64)); v.extend(ov(m.get_index(1).map(|(k, _)| *k))); v.extend(m.keys().copied()); v.push(-9); v.extend(m.values().copied()); v }
        7 => { let mut s = BTreeSet::new(); let mut out = vec![]; for k in keys.iter() { out.push(s.insert(*k) as i64); } out.push(-9); out.extend(s.iter().copied()); out }
        8 => { let mut s = HashSet::new(); let mut out = vec![]; for k in keys.iter() { out.push(s.insert(*k) as i64); } out.push(s.len() as i64); out.push(s.contains(&a) as i64); out.push(s.remove(&b) as i64); out.push(s.len() as i64); out }
        9 => { let mut m: IndexMap<i64, i64> = IndexMap::new(); for (i, k) in keys.iter().enumerate() { m.insert(*k, i as i64); } m.retain(|k, _| *k != a); let mut v: Vec<i64> = m.keys().copied().collect(); v.push(-9); let mut n: IndexMap<i64, i64> = IndexMap::new(); n.insert(9, 9); n.extend(m); v.extend(n.keys().copied()); v }
        10 => { let mut m: BTreeMap<i64, i64> = BTreeMap::new(); for (i, k) in keys.iter().enumerate() { m.entry(*k).and_modify(|v| *v += 10).or_insert(i as i64); } m.into_iter().flat_map(|(k, v)| vec![k, v]).collect() }
        11 => { let m: IndexMap<i64, i64> = keys.iter().enumerate().map(|(i, k)| (*k, i as i64)).collect(); let mut v: Vec<(i64, i64)> = m.into_iter().collect(); v.sort_by(|x, y| y.1.cmp(&x.1)); v.into_iter().flat_map(|(k, x)| vec![k, x]).collect() }
        12 => { let mut v = keys.to_vec(); v.sort_by_key(|k| (k % 2, -*k)); v }
        13 => { let m: HashMap<i64, i64> = keys.iter().map(|k| (*k, k * 2)).collect(); vec![m[&3], m.get(&99).copied().unwrap_or(-1), m.values().sum::<i64>()] }
        _ => vec![-7],
    }
}

pub fn probe_fmt(id: u32, a: i64, b: i64) -> Vec<i64> {
    let t = TEXTS[((b as usize) % 5)];
    let s = match id {
        0 => format!("{}-{}", a, t),
        1 => format!("{:?}", t),
        2 => format!("\\x{:02x}", a as u8),
        3 => format!("\\u{:04x}", a as u32),
        4 => format!("{:x}", a as u32),
        5 => format!("{}{}", a > b, 'c'),
        6 => format!("{}", (a as i32).to_string() + &b.to_string()),
        7 => format!("{:?}", Some(a)),
        8 => format!("{:?}", vec![a, b]),
        9 => format!("{:?}", (a, t)),
        10 => format!("a{{{}}}b", a),
        11 => { let mut s = String::new(); use std::fmt::Write; write!(s, "{}:{}", a, b).unwrap(); s }
        12 => format!("{:?}", "q\"\n\\é\u{1}"),
        13 => [a.to_string(), t.to_string(), b.to_string()].join("::"),
        14 => format!("{a}/{b}"),
        15 => format!("{:>4}|{:<3}|{:03}", a, b, a),
        _ => "?".to_string(),
    };
    bytes_of(&s)
}

pub fn probe_char(id: u32, a: i64, _b: i64) -> Vec<i64> {
    let c = match char::from_u32(a as u32) { Some(c) => c, None => return vec![-1] };
    match id {
        0 => vec![c.is_alphanumeric() as i64, c.is_alphabetic() as i64, c.is_numeric() as i64, c.is_whitespace() as i64, c.is_control() as i64],
        1 => vec![c.is_ascii_digit() as i64, c.is_ascii_alphabetic() as i64, c.is_ascii_alphanumeric() as i64, c.is_ascii_hexdigit() as i64, c.is_ascii() as i64, c.is_ascii_uppercase() as i64, c.is_ascii_lowercase() as i64, c.is_ascii_punctuation() as i64, c.is_ascii_whitespace() as i64],
        2 => vec![c.to_digit(10).map(|d| d as i64).unwrap_or(-1), c.to_digit(16).map(|d| d as i64).unwrap_or(-1)],
        3 => vec![c.to_ascii_lowercase() as i64, c.to_ascii_uppercase() as i64, c.len_utf8() as i64],
        4 => { let mut buf = [0u8; 4]; c.encode_utf8(&mut buf).as_bytes().iter().map(|x| *x as i64).collect() }
        5 => { let mut s = String::new(); s.push(c); s.push('x'); let p = s.pop(); let mut v = bytes_of(&s); v.push(p.map(|x| x as i64).unwrap_or(-1)); v }
        6 => vec![c.is_uppercase() as i64, c.is_lowercase() as i64, (c == '_') as i64, (c >= 'a' && c <= 'z') as i64, matches!(c, '0'..='9' | 'a'..='f') as i64],
        7 => std::char::from_digit((a as u32) % 40, 16).map(|d| vec![d as i64]).unwrap_or(vec![-1]),
        _ => vec![-7],
    }
}

pub fn probe_str2(id: u32, a: i64, b: i64) -> Vec<i64> {
    let t = TEXTS[((a as usize) % 5)]; let u = TEXTS[((b as usize) % 5)];
    let nums = ["0", "7", "-3", "255", "256", "+5", "", "12a", "99999999999", "2147483648", "-129", "00012"];
    let n = nums[((a as usize) % 12)];
    match id {
        0 => { let mut s = String::from(t); s.push_str(u); s.push(':'); bytes_of(&s) }
        1 => bytes_of(&(t.to_string() + u)),
        2 => vec![(t == u) as i64, (t < u) as i64, t.cmp(u) as i64, t.eq_ignore_ascii_case(u) as i64],
        3 => bytes_of(&t.to_uppercase()).into_iter().chain(bytes_of(&t.to_lowercase())).collect(),
        4 => match n.parse::<i32>() { Ok(v) => vec![1, v as i64], Err(_) => vec![0] },
        5 => match n.parse::<u8>() { Ok(v) => vec![1, v as i64], Err(_) => vec![0] },
        6 => match n.parse::<i64>() { Ok(v) => vec![1, v], Err(_) => vec![0] },
        7 => match n.parse::<i8>() { Ok(v) => vec![1, v as i64], Err(_) => vec![0] },
        8 => bytes_of(&t.chars().filter(|c| *c != ':').collect::<String>()),
        9 => bytes_of(&t.replace("::", "/")).into_iter().chain(bytes_of(&t.replace(':', ""))).collect(),
        10 => { let mut v = vec![t, u, "b", "a"]; v.sort(); v.dedup(); v.into_iter().flat_map(|s| { let mut x = bytes_of(s); x.push(-9); x }).collect() }
        11 => bytes_of(t.trim()).into_iter().chain(bytes_of(&t.repeat(((b as usize) % 3)))).collect(),
        12 => t.bytes().rev().map(|x| x as i64).collect(),
        13 => { let parts: Vec<&str> = t.rsplit("::").collect(); parts.iter().flat_map(|s| { let mut x = bytes_of(s); x.push(-9); x }).collect() }
        14 => { let parts: Vec<&str> = t.splitn(2, ':').collect(); parts.iter().flat_map(|s| { let mut x = bytes_of(s); x.push(-9); x }).collect() }
        15 => opt_str(t.strip_suffix("c")).into_iter().chain(opt_str(t.rsplit_once(':').map(|x| x.1))).collect(),
        16 => vec![t.chars().next().map(|c| c as i64).unwrap_or(-1), t.chars().last().map(|c| c as i64).unwrap_or(-1), t.chars().nth(1).map(|c| c as i64).unwrap_or(-1)],
        17 => { let mut s = t.to_string(); s.truncate(((b as usize) % 4)); bytes_of(&s) }
        _ => vec![-7],
    }
}

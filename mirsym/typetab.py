"""Type tables taken from rustdoc JSON of the workspace crates (variant order, field names and types, impl blocks).

Nothing here is scraped from source text: discriminant indices are the declaration order rustdoc reports, and an
`<impl at file:line:col: ..>` name printed by MIR is mapped to (self type, trait) through the impl item's span.
"""
import json

class TypeTabError(Exception):
    pass

class Variant:
    __slots__ = ('name', 'kind', 'fields')          # kind: plain | tuple | struct ; fields: [(name|None, tyjson)]
    def __init__(s, name, kind, fields): s.name, s.kind, s.fields = name, kind, fields

class Adt:
    __slots__ = ('crate', 'id', 'name', 'path', 'kind', 'variants', 'generics')     # kind: enum | struct
    def __init__(s, crate, id_, name, path, kind, variants, generics):
        s.crate, s.id, s.name, s.path, s.kind, s.variants, s.generics = crate, id_, name, path, kind, variants, generics
    @property
    def key(s): return '::'.join(s.path)
    def vnames(s): return [v.name for v in s.variants]
    def vindex(s, name):
        for i, v in enumerate(s.variants):
            if v.name == name: return i
        raise TypeTabError('no variant %s in %s' % (name, s.key))
    def __repr__(s): return '<Adt %s>' % s.key

class Impl:
    __slots__ = ('crate', 'file', 'line', 'col', 'self_ty', 'trait', 'trait_args', 'methods', 'self_key', 'self_adt', 'generics')

def ty_key(t):
    """short printable key of a rustdoc type: last path segment, &-prefix for references"""
    if t is None: return '?'
    if 'resolved_path' in t: return t['resolved_path']['path'].split('::')[-1]
    if 'primitive' in t: return t['primitive']
    if 'borrowed_ref' in t: return '&' + ty_key(t['borrowed_ref']['type'])
    if 'tuple' in t: return '(' + ','.join(ty_key(x) for x in t['tuple']) + ')'
    if 'slice' in t: return '[' + ty_key(t['slice']) + ']'
    if 'array' in t: return '[' + ty_key(t['array']['type']) + ';' + str(t['array']['len']) + ']'
    if 'generic' in t: return t['generic']
    if 'raw_pointer' in t: return '*' + ty_key(t['raw_pointer']['type'])
    if 'dyn_trait' in t: return 'dyn'
    return '?'

def _builtin(name, variants):
    return Adt('std', -1, name, ['std', name], 'enum', [Variant(n, 'tuple' if f else 'plain', [(None, {'generic': 'T%d' % i}) for i in range(f)]) for n, f in variants], [])

BUILTIN = {
    'Option': _builtin('Option', [('None', 0), ('Some', 1)]),
    'Result': _builtin('Result', [('Ok', 1), ('Err', 1)]),
    'ControlFlow': _builtin('ControlFlow', [('Continue', 1), ('Break', 1)]),
    'Ordering': _builtin('Ordering', [('Less', 0), ('Equal', 0), ('Greater', 0)]),
    'Entry': _builtin('Entry', [('Occupied', 1), ('Vacant', 1)]),
    'Cow': _builtin('Cow', [('Borrowed', 1), ('Owned', 1)]),
    'Bound': _builtin('Bound', [('Included', 1), ('Excluded', 1), ('Unbounded', 0)]),
}

class TypeTab:
    def __init__(self):
        self.adts = {}            # (crate, id) -> Adt
        self.by_name = {}         # simple name -> [Adt]
        self.impls = {}           # (file, line, col) -> Impl
        self.variant_owner = {}   # variant simple name -> [(Adt, idx)]
        self.docs = {}
        self.aliases = {}         # `pub use a::B as C` : C -> B
        self.fn_generics = {}     # (crate, fn name) -> [type parameter names]  (free functions and methods, by simple name)
        for n, a in BUILTIN.items(): self.by_name.setdefault(n, []).append(a)

    def load(self, crate, path):
        j = json.load(open(path)); idx = j['index']; paths = j['paths']
        self.docs[crate] = j
        def fields_of(ids):
            out = []
            for fid in ids:
                if fid is None: out.append((None, None)); continue
                it = idx[str(fid)]
                out.append((it['name'], it['inner']['struct_field']))
            return out
        for k, it in idx.items():
            inner = it['inner']
            if it.get('crate_id', 0) != 0: continue
            if 'enum' in inner:
                vs = []
                for vid in inner['enum']['variants']:
                    v = idx[str(vid)]; vk = v['inner']['variant']['kind']
                    if vk == 'plain': vs.append(Variant(v['name'], 'plain', []))
                    elif 'tuple' in vk: vs.append(Variant(v['name'], 'tuple', fields_of(vk['tuple'])))
                    else: vs.append(Variant(v['name'], 'struct', fields_of(vk['struct']['fields'])))
                p = paths.get(k, {}).get('path') or [crate, it['name']]
                a = Adt(crate, int(k), it['name'], p, 'enum', vs, [g['name'] for g in inner['enum']['generics']['params']])
            elif 'struct' in inner:
                sk = inner['struct']['kind']
                if sk == 'unit': v = Variant(it['name'], 'plain', [])
                elif 'tuple' in sk: v = Variant(it['name'], 'tuple', fields_of(sk['tuple']))
                else: v = Variant(it['name'], 'struct', fields_of(sk['plain']['fields']))
                p = paths.get(k, {}).get('path') or [crate, it['name']]
                a = Adt(crate, int(k), it['name'], p, 'struct', [v], [g['name'] for g in inner['struct']['generics']['params']])
            else:
                continue
            self.adts[(crate, int(k))] = a
            self.by_name.setdefault(a.name, []).append(a)
            if a.kind == 'enum':
                for i, v in enumerate(a.variants): self.variant_owner.setdefault(v.name, []).append((a, i))
        for k, it in idx.items():
            fn = it['inner'].get('function') if isinstance(it['inner'], dict) else None
            if fn and it.get('name'):
                gs = [g['name'] for g in fn['generics']['params'] if 'type' in g.get('kind', {})]
                if gs: self.fn_generics.setdefault((crate, it['name']), []).append(gs)
        for k, it in idx.items():
            u = it['inner'].get('use') if isinstance(it['inner'], dict) else None
            if u and u.get('name') and u.get('source') and u['name'] != u['source'].split('::')[-1] and not u.get('is_glob'):
                self.aliases[u['name']] = u['source'].split('::')[-1]
        for k, it in idx.items():
            inner = it['inner']
            if 'impl' not in inner or not it.get('span'): continue
            im = inner['impl']; sp = it['span']
            o = Impl(); o.crate = crate; o.file = sp['filename']; o.line, o.col = sp['begin']
            o.self_ty = im['for']; o.trait = im['trait']['path'].split('::')[-1] if im['trait'] else None
            o.trait_args = im['trait']['args'] if im['trait'] else None
            o.methods = [idx[str(i)]['name'] for i in im['items'] if str(i) in idx]
            o.self_key = ty_key(im['for'])
            o.generics = [g['name'] for g in im['generics']['params'] if 'type' in g.get('kind', {})]
            o.self_adt = None
            t = im['for']
            while t and 'borrowed_ref' in t: t = t['borrowed_ref']['type']
            if t and 'resolved_path' in t: o.self_adt = self.adts.get((crate, t['resolved_path']['id']))
            self.impls[(o.file, o.line, o.col)] = o

    # ---------------------------------------------------------------- lookups by printed path
    def find_adt(self, segs, hint_crate=None):
        """segs: printed path segments (generics stripped) naming a struct/enum."""
        name = self.aliases.get(segs[-1], segs[-1]) if segs[-1] not in self.by_name else segs[-1]; cands = self.by_name.get(name, [])
        if not cands: return None
        if len(cands) == 1: return cands[0]
        quals = [q for q in segs[:-1] if q not in ('crate', 'self', 'super')]
        def ok(a):
            p = a.path[:-1]; i = 0
            for q in quals:
                while i < len(p) and p[i] != q: i += 1
                if i == len(p): return False
                i += 1
            return True
        c2 = [a for a in cands if ok(a)] if quals else cands
        if len(c2) == 1: return c2[0]
        if hint_crate:
            c3 = [a for a in (c2 or cands) if a.crate == hint_crate]
            if len(c3) == 1: return c3[0]
        c4 = [a for a in (c2 or cands) if a.crate != 'std']
        if len(c4) == 1: return c4[0]
        raise TypeTabError('ambiguous type %s: %s' % ('::'.join(segs), [a.key for a in (c2 or cands)]))

    def find_variant(self, segs, hint_crate=None, hint_adt=None):
        """-> (Adt, variant index) for a printed `Enum::Variant` / bare `Variant` / struct path."""
        if hint_adt is not None:
            for i, v in enumerate(hint_adt.variants):
                if v.name == segs[-1]: return hint_adt, i
            if hint_adt.kind == 'struct' and hint_adt.name == segs[-1]: return hint_adt, 0
        if len(segs) >= 2:
            a = None
            try: a = self.find_adt(segs[:-1], hint_crate)
            except TypeTabError: a = None
            if a is not None and a.kind == 'enum' and segs[-1] in a.vnames(): return a, a.vindex(segs[-1])
        a = self.find_adt(segs, hint_crate) if self.by_name.get(segs[-1]) else None
        if a is not None and a.kind == 'struct': return a, 0
        if len(segs) == 1:
            own = self.variant_owner.get(segs[0], [])
            if len(own) == 1: return own[0]
            if hint_crate:
                o2 = [x for x in own if x[0].crate == hint_crate]
                if len(o2) == 1: return o2[0]
            if own: raise TypeTabError('ambiguous bare variant %s: %s' % (segs[0], [x[0].key for x in own]))
        return None

    def impl_at(self, file, line, col):
        return self.impls.get((file, line, col))

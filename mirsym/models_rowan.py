"""rowan syntax trees as Python objects: a tree is rebuilt from the GreenNodeBuilder recorder ops and the red-tree API used by the
cst / ast crates (kind, children, children_with_tokens, text_range, Display, SyntaxNodePtr::new ...) is modelled on it."""
import re
import z3
from . import mirtext as mt
from .engine import *
from .models import *
from .models import exact, pattern, Iter

class SynNode:
    def __init__(s, kind, parent): s.kind, s.parent, s.children, s.start, s.end = kind, parent, [], None, None
    def __repr__(s): return 'SynNode(%s,%s..%s)' % (s.kind, s.start, s.end)
class SynToken:
    def __init__(s, kind, text, start, end, parent): s.kind, s.text, s.start, s.end, s.parent = kind, text, start, end, parent
    def __repr__(s): return 'SynToken(%s,%r)' % (s.kind, s.text)

def tree_from_ops(ops, lengths=None):
    """ops: recorder ops of the real build_tree; token ranges follow the input order, each token `lengths[i]` (default 1) long"""
    root = None; cur = None; pos = 0; ti = 0
    for op in ops:
        if op[0] == 'start':
            n = SynNode(op[1], cur)
            if cur is None: root = n
            else: cur.children.append(n)
            n.start = pos; cur = n
        elif op[0] == 'token':
            ln = lengths[ti] if lengths else 1
            cur.children.append(SynToken(op[1], op[2], pos, pos + ln, cur)); pos += ln; ti += 1
        else:
            cur.end = pos; cur = cur.parent
    return root

def node_text(n):
    if isinstance(n, SynToken): return list(n.text.chars)
    out = []
    for c in n.children: out += node_text(c)
    return out

def _kind_value(ex, k):
    SK = ex.W.tt.find_adt(['syntax', 'MySyntaxKind'], 'parser')
    if is_sym(k):
        le = LazyEnum(SK, k, 0, None, 'kind'); return le
    return Agg(SK.key, int(k), [])

def _self(ex, v):
    v = ex.deref_ref(v)
    return v

_N = r'(rowan::(api::)?)?SyntaxNode'
_T = r'(rowan::(api::)?)?SyntaxToken'

@pattern(r'^' + _N + r'::(kind|children|children_with_tokens|text_range|text|first_token|last_token|parent|first_child|descendants|ancestors|clone_for_update|green|index)$', 'g')
def m_syn_node(ex, f, a):
    op = mt.strip_generics(f).rsplit('::', 1)[1]; n = _self(ex, a[0])
    if not isinstance(n, SynNode): raise Unsupported('SyntaxNode method on %r' % (n,))
    if op == 'kind': return _kind_value(ex, n.kind)
    if op == 'children': return Iter([c for c in n.children if isinstance(c, SynNode)])
    if op == 'children_with_tokens': return Iter([Agg('NodeOrToken', 0 if isinstance(c, SynNode) else 1, [c]) for c in n.children])
    if op == 'text_range': return Agg('TextRange', 0, [n.start, n.end])
    if op == 'text': return Opaque('SyntaxText', node=n)
    if op == 'parent': return some(n.parent) if n.parent is not None else NONE()
    if op == 'first_child':
        cs = [c for c in n.children if isinstance(c, SynNode)]; return some(cs[0]) if cs else NONE()
    if op in ('first_token', 'last_token'):
        def ft(x, last):
            if isinstance(x, SynToken): return x
            for c in (reversed(x.children) if last else x.children):
                r_ = ft(c, last)
                if r_ is not None: return r_
            return None
        t = ft(n, op == 'last_token'); return some(t) if t is not None else NONE()
    if op == 'descendants':
        out = []
        def walk(x):
            out.append(x)
            for c in x.children:
                if isinstance(c, SynNode): walk(c)
        walk(n); return Iter(out)
    if op == 'ancestors':
        out = []; x = n
        while x is not None: out.append(x); x = x.parent
        return Iter(out)
    raise Unsupported('SyntaxNode::' + op)

@pattern(r'^' + _T + r'::(kind|text|text_range|parent|index)$', 'g')
def m_syn_token(ex, f, a):
    op = mt.strip_generics(f).rsplit('::', 1)[1]; t = _self(ex, a[0])
    if not isinstance(t, SynToken): raise Unsupported('SyntaxToken method on %r' % (t,))
    if op == 'kind': return _kind_value(ex, t.kind)
    if op == 'text': return t.text
    if op == 'text_range': return Agg('TextRange', 0, [t.start, t.end])
    if op == 'parent': return some(t.parent) if t.parent is not None else NONE()
    raise Unsupported('SyntaxToken::' + op)

@pattern(r'(^|::)NodeOrToken::(into_token|into_node|as_token|as_node|kind|text_range)$', 'g')
def m_node_or_token(ex, f, a):
    op = mt.strip_generics(f).rsplit('::', 1)[1]; v = _self(ex, a[0])
    if op in ('into_token', 'as_token'): return some(v.fields[0]) if v.idx == 1 else NONE()
    if op in ('into_node', 'as_node'): return some(v.fields[0]) if v.idx == 0 else NONE()
    x = v.fields[0]
    if op == 'kind': return _kind_value(ex, x.kind)
    return Agg('TextRange', 0, [x.start, x.end])

@pattern(r'^<' + _N + r'<.*> as (std::fmt::)?Display>::fmt$|^<' + _T + r'<.*> as (std::fmt::)?Display>::fmt$|^<(rowan::)?SyntaxText as (std::fmt::)?Display>::fmt$')
def m_syn_display(ex, f, a):
    v = _self(ex, a[0]); v = getattr(v, 'node', v)
    fm = ex.deref(a[1]); fm.fields[0].chars.extend(node_text(v)); return ok(UNIT)
@pattern(r'^<' + _N + r'<.*> as ToString>::to_string$|^<' + _T + r'<.*> as ToString>::to_string$|^<(rowan::)?SyntaxText as ToString>::to_string$', prio=4)
def m_syn_to_string(ex, f, a):
    v = _self(ex, a[0]); v = getattr(v, 'node', v); return Str(node_text(v))
@pattern(r'^<' + _N + r'<.*> as Clone>::clone$|^<' + _T + r'<.*> as Clone>::clone$', prio=4)
def m_syn_clone(ex, f, a): return _self(ex, a[0])
@pattern(r'^<' + _N + r'<.*> as PartialEq>::(eq|ne)$|^<' + _T + r'<.*> as PartialEq>::(eq|ne)$', prio=4)
def m_syn_eq(ex, f, a):
    r_ = _self(ex, a[0]) is _self(ex, a[1]); return r_ if f.endswith('eq') else not r_
@pattern(r'(^|::)SyntaxNodePtr::new$|(^|::)SyntaxNodePtr<.*>::new$', 'g')
def m_syn_ptr_new(ex, f, a):
    n = _self(ex, a[0]); return Opaque('astptr', node=n)
@pattern(r'(^|::)SyntaxNodePtr::(text_range|kind)$', 'g')
def m_syn_ptr_get(ex, f, a):
    p = _self(ex, a[0]); n = getattr(p, 'node', None)
    if n is None:                 # a pointer a harness made up without a tree behind it: positions are not the subject there
        if f.endswith('text_range'): return Agg('TextRange', 0, [0, 0])
        raise Unsupported('kind of a syntax pointer without a node')
    return Agg('TextRange', 0, [n.start, n.end]) if f.endswith('text_range') else _kind_value(ex, n.kind)
@pattern(r'^<(rowan::)?(api::)?SyntaxNodeChildren<.*> as Iterator>::', prio=4)
def m_syn_children_iter(ex, f, a):
    from .models_coll import m_iter_method
    return m_iter_method(ex, f, a)

# ----------------------------------------------------------------------------- red tree from a finished builder, token_at_offset (with rowan's own contract), line_index
@pattern(r'(^|::)SyntaxNode(<.*>)?::new_root$', 'g')
def m_syn_new_root(ex, f, a):
    b = _self(ex, a[0])
    if not hasattr(b, 'ops'): raise Unsupported('new_root on %r' % (b,))
    lens = []
    for op in b.ops:
        if op[0] == 'token':
            t = ex.deref(op[2]) if not isinstance(op[2], Str) else op[2]
            if any(is_sym(c) for c in t.chars): raise Unsupported('new_root: symbolic token text')
            lens.append(sum(len(chr(c).encode()) for c in t.chars))
    return tree_from_ops([(op[0], op[1], (ex.deref(op[2]) if not isinstance(op[2], Str) else op[2])) if op[0] == 'token' else op for op in b.ops], lens)

def _leaf_tokens(n, out):
    for c in n.children:
        if isinstance(c, SynToken): out.append(c)
        else: _leaf_tokens(c, out)
    return out

@pattern(r'(^|::)SyntaxNode(<.*>)?::token_at_offset$', 'g')
def m_syn_token_at_offset(ex, f, a):
    """rowan 0.16 cursor.rs: asserts range.start <= offset <= range.end ("Bad offset"), None on an empty tree, otherwise the one or two
    non-empty leaf tokens whose closed range contains the offset"""
    n = _self(ex, a[0]); off = a[1]
    while isinstance(off, Agg): off = off.fields[0]
    if not isinstance(n, SynNode): raise Unsupported('token_at_offset on %r' % (n,))
    inside = ex.branch_bool(z3.And(off >= n.start, off <= n.end) if is_sym(off) else (n.start <= off <= n.end))
    if not inside: raise Panic('rowan contract: token_at_offset: Bad offset: range %s..%s' % (n.start, n.end))
    if n.start == n.end: return Agg('TokenAtOffset', 0, [])
    o = ex.concretize(off, 'token_at_offset offset')
    hit = [t for t in _leaf_tokens(n, []) if t.start != t.end and t.start <= o <= t.end]
    if len(hit) == 1: return Agg('TokenAtOffset', 1, [hit[0]])
    if len(hit) == 2: return Agg('TokenAtOffset', 2, [hit[0], hit[1]])
    raise Panic('rowan: token_at_offset unreachable!() - %d tokens at offset %d' % (len(hit), o))

class LineIdx:
    def __init__(s, starts): s.starts = starts
@pattern(r'(^|::)LineIndex::new$', 'g')
def m_line_index_new(ex, f, a):
    t = _self(ex, a[0])
    if any(is_sym(c) for c in t.chars): raise Unsupported('LineIndex::new on a symbolic text')
    starts = []; pos = 0
    for c in t.chars:
        pos += len(chr(c).encode())
        if c == 10: starts.append(pos)
    return LineIdx(starts)
@pattern(r'(^|::)LineIndex::offset$', 'g')
def m_line_index_offset(ex, f, a):
    """line-index 0.1.2: start_offset(line) = 0 for line 0, newlines.get(line - 1) otherwise; result start + col (u32 addition of text-size,
    overflow-checked in the dev profile)"""
    li = _self(ex, a[0]); lc = a[1]; line, col = lc.fields[0], lc.fields[1]
    opts = [(line == 0, 0)] + [(line == i + 1, s_) for i, s_ in enumerate(li.starts)] + [(line > len(li.starts), None)]
    st = ex.choose(opts) if is_sym(line) else (0 if line == 0 else (li.starts[line - 1] if line - 1 < len(li.starts) else None))
    if st is None: return NONE()
    r_ = st + col
    if is_sym(r_):
        if not ex.branch_bool(r_ <= 2**32 - 1): raise Panic('text-size: TextSize + TextSize overflows u32 (attempt to add with overflow)')
    elif r_ > 2**32 - 1: raise Panic('text-size: TextSize + TextSize overflows u32')
    return some(r_)
@pattern(r'^(text_size::)?TextSize::(checked_sub|checked_add)$', 'g')
def m_text_size_checked(ex, f, a):
    x, y = a[0], a[1]
    while isinstance(x, Agg): x = x.fields[0]
    while isinstance(y, Agg): y = y.fields[0]
    if f.endswith('checked_sub'):
        okc = x >= y; r_ = x - y
    else:
        okc = x + y <= 2**32 - 1; r_ = x + y
    return some(r_) if ex.branch_bool(okc) else NONE()

"""Lazy initialisation of tree-shaped symbolic inputs from rustdoc type information.

An input of enum type is a LazyEnum: its discriminant is a z3 integer restricted to the allowed variants; the fields of a
variant are created (again lazily, down to a depth budget) when the code under test downcasts to it.  Strings fork over a
finite choice list, vectors over a length range.  The solver - through `choose` on feasible discriminant values - ranges over
the shapes; the number of paths follows the case structure of the code, not the size of the type.
"""
import z3
from .engine import Agg, LazyEnum, Str, PyVec, Ref, Opaque, UNIT, mkbox, mkstr, Unsupported, INT_RANGES, is_sym
from .typetab import BUILTIN, ty_key

class Spec:
    def __init__(s, tt, crate='compiler', allowed=None, leaves=None, strings=('A', 'B'), vec_len=(0, 2), int_choices=None, overrides=None, depth=2, field_hooks=None):
        s.tt, s.crate = tt, crate
        s.allowed = allowed or {}          # adt name -> variant names allowed at depth > 0
        s.leaves = leaves or {}            # adt name -> variant names allowed when the depth budget is exhausted
        s.strings = list(strings); s.vec_len = vec_len; s.int_choices = int_choices
        s.overrides = overrides or {}      # adt/type name -> fn(spec, ex, tyjson, depth, path) -> value
        s.field_hooks = field_hooks or {}  # (adt name, variant, field name) -> fn(spec, ex, depth, path) -> value
        s.depth = depth; s.counter = 0

    # ---------------------------------------------------------------- creation
    def root(s, ex, adt_path, depth=None, tag='in'):
        adt = s.tt.find_adt(adt_path.split('::'), s.crate)
        return s.make_adt(ex, adt, s.depth if depth is None else depth, tag, {})

    def make_adt(s, ex, adt, depth, path, subst):
        if adt.name in s.overrides: return s.overrides[adt.name](s, ex, None, depth, path)
        if adt.kind == 'struct':
            v = adt.variants[0]
            return Agg(adt.key if adt.crate != 'std' else adt.name, 0, [s.make_field(ex, adt, v, i, depth, path, subst) for i in range(len(v.fields))])
        names = s.allowed.get(adt.name) if depth > 0 else (s.leaves.get(adt.name) or s.allowed.get(adt.name))
        if names is None: names = adt.vnames()
        names = [n for n in names if n in adt.vnames()]
        if depth <= 0 and adt.name not in s.leaves:
            # no explicit leaf list: keep the variants without fields of the same type (cannot recurse)
            names = [n for n in names if not any(s._mentions(f[1], adt) for f in adt.variants[adt.vindex(n)].fields)]
        if not names: raise Unsupported('lazy: no variant of %s allowed at depth %d' % (adt.name, depth))
        ex.fresh += 1
        d = z3.Int('%s.d%d' % (path, ex.fresh))
        idxs = [adt.vindex(n) for n in names]
        ex.restrict(d, idxs)
        le = LazyEnum(adt, d, depth, s, path); le.variants = {}
        le.subst = subst
        if len(idxs) == 1:
            # single possibility: materialise now (keeps paths short)
            return Agg(adt.key if adt.crate != 'std' else adt.name, idxs[0], s.fields(ex, le, idxs[0]))
        return le

    def _mentions(s, ty, adt):
        if ty is None: return False
        if 'resolved_path' in ty:
            rp = ty['resolved_path']
            if rp['path'].split('::')[-1] == adt.name: return True
            args = (rp.get('args') or {}).get('angle_bracketed', {}).get('args', [])
            return any(s._mentions(a.get('type'), adt) for a in args)
        for k in ('borrowed_ref', 'slice', 'array'):
            if k in ty: return s._mentions(ty[k]['type'] if isinstance(ty[k], dict) and 'type' in ty[k] else ty[k], adt)
        if 'tuple' in ty: return any(s._mentions(t, adt) for t in ty['tuple'])
        return False

    def fields(s, ex, le, idx):
        v = le.adt.variants[idx]; subst = le.subst
        return [s.make_field(ex, le.adt, v, i, le.depth - 1, '%s.%s' % (le.tag, v.name), subst) for i in range(len(v.fields))]

    def make_field(s, ex, adt, variant, i, depth, path, subst):
        fname, fty = variant.fields[i]
        hook = s.field_hooks.get((adt.name, variant.name, fname if fname is not None else i))
        if hook is not None: return hook(s, ex, depth, '%s.%s' % (path, fname if fname is not None else i))
        return s.make(ex, fty, depth, '%s.%s' % (path, fname if fname is not None else i), subst)

    def make(s, ex, ty, depth, path, subst=None):
        subst = subst or {}
        if ty is None: return Opaque('stripped')
        if 'generic' in ty:
            g = ty['generic']
            if g in subst: return s.make(ex, subst[g], depth, path, {})
            raise Unsupported('lazy: unbound generic %s at %s' % (g, path))
        if 'primitive' in ty:
            p = ty['primitive']
            if p == 'bool':
                ex.fresh += 1; return z3.Bool('%s.b%d' % (path, ex.fresh))
            if p in INT_RANGES:
                if s.int_choices is not None:
                    return ex.choose([(True, x) for x in s.int_choices]) if len(s.int_choices) > 1 else s.int_choices[0]
                lo, hi = INT_RANGES[p]; return ex.fresh_int(path, lo, hi)
            if p == 'str': return s.make_string(ex, path)
            if p in ('f32', 'f64'): return Opaque('float', text='sym')
            if p == 'unit': return UNIT
            raise Unsupported('lazy: primitive ' + p)
        if 'tuple' in ty: return Agg('tuple', 0, [s.make(ex, t, depth, '%s.%d' % (path, i), subst) for i, t in enumerate(ty['tuple'])])
        if 'borrowed_ref' in ty:
            h = [s.make(ex, ty['borrowed_ref']['type'], depth, path, subst)]; return Ref(h, 0)
        if 'slice' in ty: return s.make_vec(ex, ty['slice'], depth, path, subst)
        if 'resolved_path' in ty:
            rp = ty['resolved_path']; name = rp['path'].split('::')[-1]
            args = [a['type'] for a in ((rp.get('args') or {}).get('angle_bracketed', {}).get('args', [])) if 'type' in a]
            args = [subst.get(a.get('generic'), a) if 'generic' in a else a for a in args]
            if name in s.overrides: return s.overrides[name](s, ex, ty, depth, path)
            if name == 'String': return s.make_string(ex, path)
            if name == 'Box': return mkbox(s.make(ex, args[0], depth, path, subst))
            if name == 'Vec': return s.make_vec(ex, args[0], depth, path, subst)
            if name in BUILTIN:
                b = BUILTIN[name]; sub2 = {'T%d' % i: a for i, a in enumerate(args)}
                if name == 'Result': sub2 = {'T0': args[0], 'T1': args[1]} ; b = _result_adt()
                return s.make_adt(ex, b, depth, path, sub2)
            adt = None
            for c in ([s.crate] + [c for c in s.tt.docs if c != s.crate]):
                adt = s.tt.adts.get((c, rp['id'])) if rp.get('id') is not None else None
                if adt is not None and adt.name == name: break
                adt = None
            if adt is None:
                cands = [a for a in s.tt.by_name.get(name, []) if a.crate != 'std']
                if len(cands) == 1: adt = cands[0]
            if adt is None: raise Unsupported('lazy: unknown type %s at %s' % (rp['path'], path))
            sub2 = dict(zip(adt.generics, args))
            return s.make_adt(ex, adt, depth, path, sub2)
        raise Unsupported('lazy: type %s at %s' % (ty_key(ty), path))

    def make_string(s, ex, path):
        if len(s.strings) == 1: return mkstr(s.strings[0])
        return mkstr(ex.choose([(True, t) for t in s.strings]))

    def make_vec(s, ex, elem, depth, path, subst):
        lo, hi = s.vec_len
        n = ex.choose([(True, k) for k in range(lo, hi + 1)]) if hi > lo else lo
        return PyVec([s.make(ex, elem, depth, '%s[%d]' % (path, i), subst) for i in range(n)])


def _result_adt():
    from .typetab import Adt, Variant
    return Adt('std', -1, 'Result', ['std', 'Result'], 'enum', [Variant('Ok', 'tuple', [(None, {'generic': 'T0'})]), Variant('Err', 'tuple', [(None, {'generic': 'T1'})])], [])

def force(ex, v, seen=None):
    """fully materialise a lazily initialised value (for oracles): every LazyEnum becomes an Agg"""
    if isinstance(v, LazyEnum):
        k = ex.choose_fd(v.d, [(frozenset([i]), i) for i in range(len(v.adt.variants))], False) if v.d.get_id() not in ex.entangled else ex.choose([(v.d == i, i) for i in range(len(v.adt.variants))], exhaustive=True)
        v = Agg(v.adt.key if v.adt.crate != 'std' else v.adt.name, k, ex.lazy_variant(v, v.adt.variants[k].name))
    if isinstance(v, Agg):
        for i, f in enumerate(v.fields): v.fields[i] = force(ex, f)
    elif isinstance(v, PyVec): v.items = [force(ex, x) for x in v.items]
    elif isinstance(v, Ref): v.set(force(ex, v.get()))
    return v

"""std / external-crate models, part 2: strings, chars, fmt, iterators, maps, sets, arenas, rowan recorder, misc"""
import re
import z3
from . import mirtext as mt
from .engine import *
from .models import *
from .models import exact, pattern
from .models_core import _concrete_enum, eq_typed, default_of, _items

# ----------------------------------------------------------------------------- String / str / char
@exact('String::new', 'String::with_capacity')
def m_string_new(ex, f, a): return Str([])
@pattern(r'^<str as ToString>::to_string$|^<String as ToString>::to_string$|^<String as From<&(mut )?(str|String)>>::from$|^<String as Clone>::clone$|^core::str::<impl str>::to_string$|^(alloc::)?str::<impl str>::(to_owned|to_string)$|^<str as ToOwned>::to_owned$|^<String as From<String>>::from$|^<&str as Into<String>>::into$|^<&String as Into<String>>::into$|^<char as ToString>::to_string$|^<String as From<char>>::from$|^<&str as ToString>::to_string$|^<Cow<str> as ToString>::to_string$')
def m_to_string(ex, f, a):
    v = ex.deref(a[0])
    if isinstance(v, Str): return Str(v.chars)
    if isinstance(v, int) or is_sym(v): return Str([v])
    raise Unsupported('to_string of %r' % (v,))
@exact('String::push')
def m_string_push(ex, f, a): ex.deref(a[0]).chars.append(a[1]); return UNIT
@exact('String::push_str')
def m_string_push_str(ex, f, a): ex.deref(a[0]).chars.extend(ex.deref(a[1]).chars); return UNIT
@exact('String::as_str', 'String::as_mut_str', 'String::into_boxed_str', 'core::str::<impl str>::trim_matches_unsupported')
def m_as_str(ex, f, a): return a[0] if isinstance(a[0], Ref) else ex.deref(a[0])
@exact('String::len', 'core::str::<impl str>::len')
def m_str_len(ex, f, a): return ex.W.strlen(ex, ex.deref(a[0]))
@exact('String::is_empty', 'core::str::<impl str>::is_empty')
def m_str_is_empty(ex, f, a): return len(ex.deref(a[0]).chars) == 0
@exact('String::clear')
def m_str_clear(ex, f, a): del ex.deref(a[0]).chars[:]; return UNIT
@exact('String::pop')
def m_str_pop(ex, f, a):
    c = ex.deref(a[0]).chars; return some(c.pop()) if c else NONE()
@exact('String::truncate')
def m_str_truncate(ex, f, a):
    s_ = ex.deref(a[0]); n = a[1]
    if any(is_sym(c) or c >= 0x80 for c in s_.chars): raise Unsupported('truncate on non-ASCII')
    del s_.chars[n:]; return UNIT
@exact('String::insert_str')
def m_str_insert_str(ex, f, a):
    s_ = ex.deref(a[0]); idx = a[1]
    if any(is_sym(c) for c in s_.chars): raise Unsupported('insert_str on a text with symbolic characters')
    if is_sym(idx): idx = ex.concretize(idx, 'insert_str index')
    pos = 0; at = None                                   # byte index -> character index; std asserts is_char_boundary(idx)
    for i, c in enumerate(s_.chars):
        if pos == idx: at = i
        pos += len(chr(c).encode())
    if pos == idx: at = len(s_.chars)
    if at is None: raise Panic('String::insert_str: index %d is not a char boundary (or beyond the end) of a %d-byte text' % (idx, pos))
    s_.chars[at:at] = ex.deref(a[2]).chars; return UNIT
@exact('String::into_bytes', 'core::str::<impl str>::as_bytes', 'String::as_bytes')
def m_as_bytes(ex, f, a): return PyVec(to_bytes(ex, ex.deref(a[0])))
@exact('core::str::<impl str>::chars')
def m_chars(ex, f, a): return Iter(list(ex.deref(a[0]).chars))
@exact('core::str::<impl str>::bytes')
def m_bytes(ex, f, a): return Iter(to_bytes(ex, ex.deref(a[0])))
@exact('core::str::<impl str>::char_indices')
def m_char_indices(ex, f, a):
    out = []; off = 0
    for c in ex.deref(a[0]).chars:
        out.append(Agg('tuple', 0, [off, c])); off += utf8_len_char(ex, c)
    return Iter(out)
@exact('String::from_utf8', 'core::str::from_utf8', 'std::str::from_utf8', 'String::from_utf8_lossy')
def m_from_utf8(ex, f, a):
    bs = _items(ex, a[0])
    if any(is_sym(b) for b in bs):
        for b in bs:
            if is_sym(b) and ex.feasible(b >= 0x80): raise Unsupported('from_utf8 on symbolic non-ASCII bytes')
        return ok(Str(bs)) if not f.endswith('lossy') else Str(bs)
    try: t = bytes(bs).decode('utf-8')
    except UnicodeDecodeError: return err(Opaque('utf8error'))
    return ok(mkstr(t)) if not f.endswith('lossy') else mkstr(t)
@exact('core::str::<impl str>::to_lowercase', 'core::str::<impl str>::to_ascii_lowercase', 'core::str::<impl str>::to_uppercase', 'core::str::<impl str>::to_ascii_uppercase', 'str::<impl str>::to_lowercase', 'str::<impl str>::to_uppercase')
def m_to_lower(ex, f, a):
    t = pystr(ex.deref(a[0])); return mkstr(t.lower() if 'lower' in f else t.upper())
@pattern(r'^(core::)?str::<impl str>::(starts_with|ends_with|contains|strip_prefix|strip_suffix|find|rfind|split|trim|trim_start|trim_end|trim_matches|trim_start_matches|trim_end_matches|replace|split_once|rsplit_once|lines|split_whitespace|repeat|parse|rsplit|splitn|eq_ignore_ascii_case|is_char_boundary|split_at|get)(::<.*>)?$')
def m_str_misc(ex, f, a):
    op = mt.strip_generics(f).rsplit('::', 1)[1]
    s_ = ex.deref(a[0])
    def pat(i=1):
        p = ex.deref(a[i])
        if isinstance(p, Str): return p.chars
        if isinstance(p, int) or is_sym(p): return [p]
        raise Unsupported('str pattern %r' % (p,))
    if op in ('starts_with', 'ends_with', 'strip_prefix', 'strip_suffix'):
        p = pat()
        if len(p) > len(s_.chars): r = False
        else:
            seg = s_.chars[:len(p)] if op in ('starts_with', 'strip_prefix') else s_.chars[len(s_.chars) - len(p):]
            r = str_eq(seg, p)
        if op in ('starts_with', 'ends_with'): return r
        if not ex.branch_bool(r): return NONE()
        return some(Str(s_.chars[len(p):] if op == 'strip_prefix' else s_.chars[:len(s_.chars) - len(p)]))
    if op == 'is_char_boundary':
        i = a[1]; off = 0
        if i == 0: return True
        for c in s_.chars:
            off += utf8_len_char(ex, c)
            if off == i: return True
            if off > i: return False
        return False
    t = pystr(s_)
    if op == 'contains':
        p1 = ex.deref(a[1])
        if isinstance(p1, Agg) and p1.ty == 'array': return any(chr(c) in t for c in p1.fields)       # char-set pattern
        return pystr(Str(pat())) in t
    if op in ('find', 'rfind'):
        k = (t.find if op == 'find' else t.rfind)(pystr(Str(pat())))
        return NONE() if k < 0 else some(len(t[:k].encode()))
    if op == 'trim': return mkstr(t.strip())
    if op == 'trim_start': return mkstr(t.lstrip())
    if op == 'trim_end': return mkstr(t.rstrip())
    if op in ('trim_matches', 'trim_start_matches', 'trim_end_matches'):
        p1 = ex.deref(a[1])
        if isinstance(p1, Agg) and p1.ty == 'array':
            cs = ''.join(chr(c) for c in p1.fields)
            return mkstr(t.strip(cs) if op == 'trim_matches' else (t.lstrip(cs) if 'start' in op else t.rstrip(cs)))
        p = pystr(Str(pat()))
        if len(p) != 1: raise Unsupported('trim_matches with multi-char pattern')
        return mkstr(t.strip(p) if op == 'trim_matches' else (t.lstrip(p) if 'start' in op else t.rstrip(p)))
    if op == 'replace':
        p1 = ex.deref(a[1])
        if isinstance(p1, Agg) and p1.ty == 'array':          # char-set pattern: every occurrence of any of the chars
            cs = ''.join(chr(c) for c in p1.fields); rep = pystr(Str(pat(2)))
            return mkstr(''.join(rep if ch in cs else ch for ch in t))
        return mkstr(t.replace(pystr(Str(pat(1))), pystr(Str(pat(2)))))
    if op in ('split', 'rsplit'):
        parts = t.split(pystr(Str(pat()))); return Iter([mkstr(x) for x in (parts if op == 'split' else parts[::-1])])
    if op == 'splitn': return Iter([mkstr(x) for x in t.split(pystr(Str(pat(2))), a[1] - 1)])
    if op in ('split_once', 'rsplit_once'):
        p = pystr(Str(pat())); k = t.find(p) if op == 'split_once' else t.rfind(p)
        return NONE() if k < 0 else some(Agg('tuple', 0, [mkstr(t[:k]), mkstr(t[k + len(p):])]))
    if op == 'lines': return Iter([mkstr(x) for x in t.splitlines()])
    if op == 'split_whitespace': return Iter([mkstr(x) for x in t.split()])
    if op == 'get':
        rg = ex.deref(a[1])
        if isinstance(rg, Agg) and len(rg.fields) == 2:      # str::get(start..end): None unless both ends are in range and on char boundaries
            st_ = ex.concretize(rg.fields[0], 'str::get start'); en_ = ex.concretize(rg.fields[1], 'str::get end'); b = t.encode()
            if not (0 <= st_ <= en_ <= len(b)): return NONE()
            def boundary(i): return i == len(b) or (b[i] & 0xC0) != 0x80          # both ends must be char boundaries, also of an empty range
            if not boundary(st_) or not boundary(en_): return NONE()
            return some(mkstr(b[st_:en_].decode()))
        raise Unsupported('str::get with a non-range index')
    if op == 'repeat': return mkstr(t * a[1])
    if op == 'eq_ignore_ascii_case': return t.lower() == pystr(ex.deref(a[1])).lower()
    if op == 'parse':
        ty = generic_args(f)[0]
        if ty in INT_RANGES and ty not in ('char', 'bool'):
            if re.fullmatch(r'[+-]?\d+', t) and not (t.startswith('-') and ty.startswith('u') and False):
                v = int(t); lo, hi = INT_RANGES[ty]
                if t.startswith('-') and ty.startswith('u'): return err(Opaque('ParseIntError', kind='InvalidDigit'))
                if lo <= v <= hi: return ok(v)
                return err(Opaque('ParseIntError', kind='PosOverflow' if v > hi else 'NegOverflow'))
            return err(Opaque('ParseIntError', kind='Empty' if t == '' else 'InvalidDigit'))
        if ty in ('f64', 'f32'):
            try: float(t); return ok(Opaque('float', text=t))
            except ValueError: return err(Opaque('ParseFloatError'))
    raise Unsupported('str op ' + f)
@pattern(r'^(char::methods|core::char::methods)::<impl char>::(is_ascii_alphanumeric|is_ascii_alphabetic|is_ascii_digit|is_alphabetic|is_alphanumeric|is_numeric|is_whitespace|is_ascii_whitespace|is_ascii|len_utf8|is_ascii_uppercase|is_ascii_lowercase|is_uppercase|is_lowercase|is_ascii_hexdigit|is_ascii_punctuation|is_control|to_ascii_lowercase|to_ascii_uppercase|is_digit|to_digit)$|^core::num::<impl u8>::(is_ascii_alphanumeric|is_ascii_alphabetic|is_ascii_digit|is_ascii_whitespace|is_ascii|is_ascii_uppercase|is_ascii_lowercase|is_ascii_hexdigit|to_ascii_lowercase|to_ascii_uppercase)$')
def m_char_class(ex, f, a):
    op = f.rsplit('::', 1)[1]; c = ex.deref(a[0]); sym = is_sym(c)
    rng = lambda lo, hi: (z3.And(c >= lo, c <= hi) if sym else lo <= c <= hi)
    alpha = lambda: zor(rng(65, 90), rng(97, 122))
    digit = lambda: rng(48, 57)
    if op == 'is_ascii_alphabetic': return alpha()
    if op == 'is_ascii_digit': return digit()
    if op == 'is_ascii_alphanumeric': return zor(alpha(), digit())
    if op == 'is_ascii': return rng(0, 127)
    if op == 'is_ascii_uppercase': return rng(65, 90)
    if op == 'is_ascii_lowercase': return rng(97, 122)
    if op == 'is_ascii_hexdigit': return zor(digit(), rng(65, 70), rng(97, 102))
    if op == 'is_ascii_whitespace': return zor(*[(c == x) for x in (32, 9, 10, 12, 13)])
    if op == 'len_utf8': return utf8_len_char(ex, c)
    if op == 'is_control': return zor(rng(0, 31), rng(127, 159))      # general category Cc is exactly U+0000..U+001F and U+007F..U+009F
    if sym:
        # unicode predicates: decide on ASCII exactly, otherwise inconclusive
        if ex.feasible(c >= 128): raise Unsupported('unicode class %s on symbolic non-ASCII char' % op)
        if op in ('is_alphabetic',): return alpha()
        if op in ('is_alphanumeric',): return zor(alpha(), digit())
        if op in ('is_numeric',): return digit()
        if op == 'is_whitespace': return zor(*[(c == x) for x in (32, 9, 10, 11, 12, 13)])
        raise Unsupported('char op %s on symbolic char' % op)
    ch = chr(c)
    if op == 'is_alphabetic': return ch.isalpha()
    if op == 'is_alphanumeric': return ch.isalnum()
    if op == 'is_numeric': return ch.isnumeric()
    if op == 'is_whitespace': return ch.isspace()
    if op in ('is_uppercase',): return ch.isupper()
    if op in ('is_lowercase',): return ch.islower()
    if op == 'is_control': return c < 32 or 127 <= c < 160
    if op == 'is_ascii_punctuation': return c < 128 and not ch.isalnum() and 33 <= c <= 126
    if op == 'to_ascii_lowercase': return ord(ch.lower()) if c < 128 else c
    if op == 'to_ascii_uppercase': return ord(ch.upper()) if c < 128 else c
    if op == 'is_digit': return ch in '0123456789abcdefghijklmnopqrstuvwxyz'[:a[1]] or ch.lower() in '0123456789abcdefghijklmnopqrstuvwxyz'[:a[1]]
    if op == 'to_digit':
        k = '0123456789abcdefghijklmnopqrstuvwxyz'.find(ch.lower()); return some(k) if 0 <= k < a[1] else NONE()
    raise Unsupported('char op ' + op)
@exact('char::methods::<impl char>::encode_utf8')
def m_encode_utf8(ex, f, a): return Str([a[0]])
@exact('char::methods::<impl char>::from_u32', 'std::char::from_u32', 'core::char::from_u32')
def m_from_u32(ex, f, a):
    c = a[0]
    if is_sym(c): raise Unsupported('from_u32 symbolic')
    return some(c) if (c < 0xD800 or 0xE000 <= c <= 0x10FFFF) else NONE()
@pattern(r'^<String as (FromIterator|Extend)<.*>>::(from_iter|extend)')
def m_string_from_iter(ex, f, a):
    if f.endswith('extend') or '::extend' in f:
        dst = ex.deref(a[0]); src = a[1]
    else: dst = Str([]); src = a[0]
    for x in as_iter(ex, src).drain(ex):
        x = ex.deref(x)
        if isinstance(x, Str): dst.chars.extend(x.chars)
        else: dst.chars.append(x)
    return UNIT if '::extend' in f else dst
@pattern(r'^<String as (Add|AddAssign)<&str>>::(add|add_assign)$')
def m_string_add(ex, f, a):
    if f.endswith('add_assign'): ex.deref(a[0]).chars.extend(ex.deref(a[1]).chars); return UNIT
    a[0].chars.extend(ex.deref(a[1]).chars); return a[0]
@pattern(r'^<(String|str|&str|&String|&mut String) as (AsRef|Borrow)<(str|\[u8\]|OsStr|std::ffi::OsStr|Path|std::path::Path)>>::(as_ref|borrow)$')
def m_str_as_ref(ex, f, a): return a[0]
@pattern(r'^<.* as Hash>::hash')
def m_hash(ex, f, a): return UNIT

# ----------------------------------------------------------------------------- fmt
class FmtArg:
    def __init__(s, kind, v): s.kind, s.v = kind, v
@pattern(r'^core::fmt::rt::Argument::new_(\w+)')
def m_fmt_arg(ex, f, a): return FmtArg(re.search(r'Argument::new_(\w+)', f).group(1), (a[0], generic_args(f)[0] if '::<' in f else ''))
@pattern(r'^core::fmt::rt::Argument::from_usize')
def m_fmt_arg_usize(ex, f, a): return FmtArg('usize', (a[0], 'usize'))
def render_arg(ex, arg, flags=0, width=None):
    v, ty = arg.v; v = ex.deref(v); kind = arg.kind
    if kind in ('display', 'debug') and isinstance(v, Str):
        if kind == 'debug':
            # <str as Debug>: quotes, and char::escape_debug for `"` `\` \n \r \t \0, other control characters as \u{..}; a symbolic character must not need an escape
            out = [34]
            for c in v.chars:
                if is_sym(c):
                    if ex.branch_bool(z3.Or(c == 34, c == 92, c < 32, z3.And(c >= 127, c < 160))): raise Unsupported('Debug formatting of a symbolic character that needs an escape')
                    out.append(c); continue
                if c in (34, 92): out += [92, c]
                elif c in (10, 13, 9, 0): out += [92, {10: 110, 13: 114, 9: 116, 0: 48}[c]]
                elif c < 32 or 127 <= c < 160: out += [ord(x) for x in '\\u{%x}' % c]
                elif c >= 160 and not chr(c).isprintable(): raise Unsupported('Debug formatting of the non-printable character U+%04X' % c)
                else: out.append(c)
            out.append(34)
        else: out = list(v.chars)
    elif kind in ('display', 'debug') and isinstance(v, bool): out = [ord(c) for c in ('true' if v else 'false')]
    elif kind in ('display', 'debug') and isinstance(v, int):
        t = ty.lstrip('&').strip()
        out = [v] if t == 'char' else [ord(c) for c in str(v)]
    elif kind == 'lower_hex' and (isinstance(v, int) or is_sym(v)):
        if is_sym(v):
            if width == 2 and flags & (1 << 24) and not ex.feasible(z3.Or(v < 0, v > 255)):
                hexd = lambda d: z3.If(d < 10, 48 + d, 87 + d)
                return [hexd(v / 16), hexd(v % 16)]
            if (width is None or width <= 1) and not ex.feasible(z3.Or(v < 0, v > 255)):      # {:x}: minimal number of digits
                hexd = lambda d: z3.If(d < 10, 48 + d, 87 + d)
                return [hexd(v)] if ex.branch_bool(v < 16) else [hexd(v / 16), hexd(v % 16)]
            raise Unsupported('symbolic hex formatting')
        out = [ord(c) for c in '%x' % v]
    elif kind in ('display', 'debug') and is_sym(v):
        t = ty.lstrip('&').strip()
        if t == 'char': return [v]
        if getattr(ex.W, 'opaque_int_format', False): return [0xFFFD]      # opt-in per obligation: diagnostic wording is not the subject
        raise Unsupported('formatting of symbolic integer')
    elif kind in ('display', 'debug'):
        t = ty.strip()
        while t.startswith('&'): t = t[1:].strip()
        tr = 'std::fmt::Display' if kind == 'display' else 'Debug'
        for trn in ((tr, 'Display') if kind == 'display' else ('Debug', 'std::fmt::Debug')):
            ref = ex.W.resolve('<%s as %s>::fmt' % (t, trn), getattr(ex, 'cur_crate', 'compiler'))
            if ref is not None and kind == 'display':
                buf = Str([]); fm = Agg('Formatter', 0, [buf]); h = [v]; hf = [fm]
                ex.run_body(ref, [Ref(h, 0), Ref(hf, 0)]); out = buf.chars; break
        else:
            return [0xFFFD]        # opaque rendering (Debug of a structure etc.): one replacement char, never compared
    else: raise Unsupported('fmt arg kind %s of %r' % (kind, v))
    if width is not None and len(out) < width:
        pad = [48 if flags & (1 << 24) else (flags & 0x1FFFFF or 32)] * (width - len(out)); align = (flags >> 29) & 3 if flags else 3
        if flags & (1 << 24): out = (out[:1] + pad + out[1:]) if out[:1] == [45] else pad + out                   # sign-aware zero padding
        elif align == 0: out = out + pad
        elif align == 1: out = pad + out
        elif align == 2: out = pad[:len(pad) // 2] + out + pad[len(pad) // 2:]
        else: out = pad + out if isinstance(v, int) and not isinstance(v, bool) else out + pad         # no alignment given: numbers to the right, everything else to the left
    return out
@pattern(r'^(core::fmt::|std::fmt::)?Arguments::new(_const|_v1)?')
def m_fmt_arguments(ex, f, a):
    tb = getattr(ex.deref(a[0]), 'bs', None)
    if tb is None: raise Unsupported('fmt template not bytes')
    args = ex.deref(a[1]).fields if len(a) > 1 else []
    out = []; i = 0; ai = 0
    while True:
        n = tb[i]; i += 1
        if n == 0: break
        if n < 0x80: out.extend(_utf8_decode(tb[i:i + n])); i += n
        elif n == 0x80:
            ln = tb[i] | (tb[i + 1] << 8); i += 2; out.extend(_utf8_decode(tb[i:i + ln])); i += ln
        elif n == 0xC0: out.extend(render_arg(ex, args[ai])); ai += 1
        else:
            flags = 0; width = None
            if n & 1: flags = int.from_bytes(bytes(tb[i:i + 4]), 'little'); i += 4
            if n & 2: width = tb[i] | (tb[i + 1] << 8); i += 2
            if n & 4: raise Unsupported('fmt precision')
            if n & 8: ai = tb[i] | (tb[i + 1] << 8); i += 2
            if n & 48: raise Unsupported('fmt indirect width/precision')
            out.extend(render_arg(ex, args[ai], flags, width)); ai += 1
    return Opaque('fmtargs', chars=out)
def _utf8_decode(bs): return [ord(c) for c in bytes(bs).decode('utf-8')]
@pattern(r'^(core::fmt::|std::fmt::)?Arguments::(from_str|as_str)')
def m_fmt_from_str(ex, f, a): return Opaque('fmtargs', chars=list(ex.deref(a[0]).chars))
@exact('format', 'std::fmt::format', 'alloc::fmt::format', 'fmt::format')
def m_format(ex, f, a): return Str(a[0].chars)
@pattern(r'^<String as (std::fmt::)?Write>::write_fmt$|^(std::fmt::)?Formatter::write_fmt$|^<.*Formatter as (std::fmt::)?Write>::write_fmt$')
def m_write_fmt(ex, f, a):
    dst = ex.deref(a[0])
    if isinstance(dst, Agg) and dst.ty == 'Formatter': dst = dst.fields[0]
    dst.chars.extend(a[1].chars); return ok(UNIT)
@pattern(r'^<String as (std::fmt::)?Write>::write_str$|^(std::fmt::)?Formatter::write_str$|^<String as (std::fmt::)?Write>::write_char$|^(std::fmt::)?Formatter::write_char$')
def m_write_str(ex, f, a):
    dst = ex.deref(a[0])
    if isinstance(dst, Agg) and dst.ty == 'Formatter': dst = dst.fields[0]
    v = ex.deref(a[1])
    if isinstance(v, Str): dst.chars.extend(v.chars)
    else: dst.chars.append(v)
    return ok(UNIT)
@pattern(r'^<str as (std::fmt::)?Display>::fmt$|^<String as (std::fmt::)?Display>::fmt$')
def m_str_display(ex, f, a):
    ex.deref(a[1]).fields[0].chars.extend(ex.deref(a[0]).chars); return ok(UNIT)
@pattern(r'^<(.+) as ToString>::to_string$', prio=8)
def m_to_string_generic(ex, f, a):
    t = re.match(r'^<(.+) as ToString>::to_string$', f).group(1); v = ex.deref(a[0])
    if t in INT_RANGES and t != 'char':
        if is_sym(v): raise Unsupported('to_string of symbolic integer')
        return mkstr(str(v))
    if t == 'bool': return mkstr('true' if v else 'false')
    return Str(render_arg(ex, FmtArg('display', (a[0], t))))
@exact('std::io::_print', 'std::io::_eprint', '_print', '_eprint')
def m_print(ex, f, a): return UNIT

# ----------------------------------------------------------------------------- iterators
@pattern(r'^<.* as IntoIterator>::into_iter$', prio=8)
def m_into_iter(ex, f, a):
    st = self_type(f) or ''
    t = ex.deref_ref(a[0])
    if isinstance(t, Agg) and t.ty not in ('array', 'Option', 'Range', 'RangeInclusive', 'tuple') and not isinstance(a[0], Ref):
        return a[0]          # a workspace type that is itself an Iterator: `impl<I: Iterator> IntoIterator for I` is the identity
    return as_iter(ex, a[0], st.startswith('&') or isinstance(a[0], Ref))
@pattern(r'^<.* as (Iterator|DoubleEndedIterator|ExactSizeIterator)>::(\w+)(::<.*>)?$', prio=8)
def m_iter_method(ex, f, a):
    op = mt.strip_generics(f).rsplit('::', 1)[1]
    it = a[0]
    if isinstance(it, Ref): it = it.get()
    if isinstance(it, Agg) and it.ty not in ('array', 'Option', 'Range', 'RangeInclusive', 'tuple'):
        # provided Iterator method on a workspace iterator type: elements come from its own `next` (executed from MIR)
        it = WorkspaceIter(ex, it, self_type(f))
    if not isinstance(it, Iter): it = as_iter(ex, it)
    if op == 'next': return it.pull(ex)
    if op == 'next_back': return it.pull(ex, True)
    if op in ('map', 'filter', 'filter_map', 'inspect'):
        it.stages.append((op, a[1])); return it
    if op == 'enumerate': it.stages.append(('enumerate', [0], bool(getattr(it, 'rev', False)))); return it      # third field: a rev() was applied BEFORE the enumerate
    if op in ('cloned', 'copied'):
        st = self_type(f) or ''
        ga = None
        it.stages.append((op, None)); return it
    if op == 'rev': it.rev = not it.rev; return it
    if op == 'by_ref': return a[0]
    if op == 'peekable': return it
    if op == 'fuse': return it
    if op == 'chain': return ChainIter(it, as_iter(ex, a[1]))
    if op == 'zip': return ZipIter(it, as_iter(ex, a[1]))
    if op == 'take':
        n = a[1]; got = []
        return Iter(_take(ex, it, n))
    if op == 'skip':
        for _ in range(a[1]): it.pull(ex)
        return it
    if op == 'step_by': return Iter(it.drain(ex)[::a[1]])
    if op == 'take_while':
        out = []
        while True:
            r = it.pull(ex)
            if r.idx == 0: break
            h = [r.fields[0]]
            if not ex.branch_bool(callf(ex, a[1], Ref(h, 0))): break
            out.append(r.fields[0])
        return Iter(out)
    if op == 'skip_while':
        while True:
            r = it.pull(ex)
            if r.idx == 0: return it
            h = [r.fields[0]]
            if not ex.branch_bool(callf(ex, a[1], Ref(h, 0))):
                rest = [r.fields[0]] + it.drain(ex); return Iter(rest)
    if op in ('flat_map', 'flatten'):
        out = []
        for x in it.drain(ex):
            inner = callf(ex, a[1], x) if op == 'flat_map' else x
            out.extend(as_iter(ex, inner).drain(ex))
        return Iter(out)
    if op == 'collect': return collect_into(ex, it, generic_args(f)[0])
    if op in ('any', 'all'):
        want = op == 'any'
        while True:
            r = it.pull(ex)
            if r.idx == 0: return not want
            if ex.branch_bool(callf(ex, a[1], r.fields[0])) == want: return want
    if op in ('find', 'rfind'):
        while True:
            r = it.pull(ex, op == 'rfind')
            if r.idx == 0: return NONE()
            h = [r.fields[0]]
            if ex.branch_bool(callf(ex, a[1], Ref(h, 0))): return some(r.fields[0])
    if op == 'find_map':
        while True:
            r = it.pull(ex)
            if r.idx == 0: return NONE()
            o = _concrete_enum(ex, callf(ex, a[1], r.fields[0]))
            if o.idx == 1: return o
    if op == 'position':
        i = 0
        while True:
            r = it.pull(ex)
            if r.idx == 0: return NONE()
            if ex.branch_bool(callf(ex, a[1], r.fields[0])): return some(i)
            i += 1
    if op == 'rposition':
        # searches from the back; the index counts from the front (ExactSizeIterator): found only by the differential probes
        if any(s_[0] in ('filter', 'filter_map') for s_ in it.stages): raise Unsupported('rposition over a filtered iterator')
        i = len(it.clone().drain(ex))
        while True:
            r = it.pull(ex, True)
            if r.idx == 0: return NONE()
            i -= 1
            if ex.branch_bool(callf(ex, a[1], r.fields[0])): return some(i)
    if op == 'count': return len(it.drain(ex))
    if op == 'len': return len(it.clone().drain(ex)) if not any(s_[0] in ('map', 'filter', 'filter_map', 'inspect') for s_ in it.stages) else _unsup('len of effectful iterator')
    if op == 'last':
        xs = it.drain(ex); return some(xs[-1]) if xs else NONE()
    if op == 'nth':
        r = NONE()
        for _ in range(a[1] + 1): r = it.pull(ex)
        return r
    if op == 'peek':
        if it.peeked is None:
            r = it.pull(ex)
            if r.idx == 0: return NONE()
            it.peeked = r
        return some(Ref(it.peeked.fields, 0))
    if op == 'for_each':
        for x in it.drain(ex): callf(ex, a[1], x)
        return UNIT
    if op == 'fold':
        acc = a[1]
        while True:
            r = it.pull(ex)
            if r.idx == 0: return acc
            acc = callf(ex, a[2], acc, r.fields[0])
    if op in ('max_by_key', 'min_by_key'):
        best = None; bk = None
        for x in it.drain(ex):
            h = [x]; k = callf(ex, a[1], Ref(h, 0))
            if is_sym(k): raise Unsupported('symbolic key in ' + op)
            if best is None or (k >= bk if op == 'max_by_key' else k < bk): best, bk = x, k
        return NONE() if best is None else some(best)
    if op in ('max', 'min'):
        xs = it.drain(ex)
        if not xs: return NONE()
        ks = [sort_key(ex, x) for x in xs]
        bi = 0
        for i in range(1, len(xs)):
            if (ks[i] >= ks[bi]) if op == 'max' else (ks[i] < ks[bi]): bi = i
        return some(xs[bi])
    if op == 'sum':
        tot = 0
        for x in it.drain(ex): tot = tot + ex.deref(x)
        return tot
    if op == 'unzip':
        xs = it.drain(ex); return Agg('tuple', 0, [PyVec([x.fields[0] for x in xs]), PyVec([x.fields[1] for x in xs])])
    if op == 'partition':
        yes, no = [], []
        for x in it.drain(ex):
            h = [x]; (yes if ex.branch_bool(callf(ex, a[1], Ref(h, 0))) else no).append(x)
        return Agg('tuple', 0, [PyVec(yes), PyVec(no)])
    if op == 'eq':
        xs, ys = it.drain(ex), as_iter(ex, a[1]).drain(ex)
        if len(xs) != len(ys): return False
        return zand(*[veq(ex, x, y) for x, y in zip(xs, ys)])
    if op == 'size_hint': return Agg('tuple', 0, [0, NONE()])
    raise Unsupported('iterator method ' + op + ' in ' + f)
class WorkspaceIter(Iter):
    def __init__(s, ex, value, tytext):
        Iter.__init__(s, []); s.holder = [value]; s.ref = ex.W.resolve('<%s as Iterator>::next' % tytext, getattr(ex, 'cur_crate', 'compiler'))
        if s.ref is None: raise Unsupported('no Iterator::next body for ' + str(tytext))
        s.subst = ex.W.call_subst('<%s as Iterator>::next' % tytext, s.ref)
    def pull(s, ex, from_back=False):
        if from_back != s.rev: raise Unsupported('reverse iteration over a workspace iterator')
        while True:
            r_ = ex.run_body(s.ref, [Ref(s.holder, 0)], s.subst)
            if r_.idx == 0: return r_
            v = r_.fields[0]; keep = True
            for st in s.stages:
                k = st[0]
                if k == 'map': v = callf(ex, st[1], v)
                elif k == 'filter':
                    h = [v]
                    if not ex.branch_bool(callf(ex, st[1], Ref(h, 0))): keep = False; break
                elif k == 'filter_map':
                    o = callf(ex, st[1], v)
                    if o.idx == 0: keep = False; break
                    v = o.fields[0]
                elif k == 'enumerate': v = Agg('tuple', 0, [st[1][0], v]); st[1][0] += 1
                else: raise Unsupported('stage %s over a workspace iterator' % k)
            if keep: return some(v)
    def clone(s): raise Unsupported('clone of a workspace iterator')
def _unsup(msg): raise Unsupported(msg)
def _take(ex, it, n):
    out = []
    for _ in range(n):
        r = it.pull(ex)
        if r.idx == 0: break
        out.append(r.fields[0])
    return out

def collect_into(ex, it, ty):
    ty = ty.strip()
    xs = None
    if ty.startswith(('Result<', 'Option<')):
        good = 0 if ty.startswith('Result<') else 1
        inner = mt.split_top(ty[ty.index('<') + 1:-1])[0]; vals = []
        while True:
            r = it.pull(ex)
            if r.idx == 0: break
            x = _concrete_enum(ex, r.fields[0])
            if x.idx != good: return x if good == 0 else NONE()
            vals.append(x.fields[0])
        v = collect_into(ex, Iter(vals), inner)
        return ok(v) if good == 0 else some(v)
    xs = it.drain(ex)
    if ty.startswith(('Vec<', 'VecDeque<', 'Box<[')) or ty == 'Vec<_>' or ty == 'Vec': return PyVec(xs)
    if ty == 'String':
        out = Str([])
        for x in xs:
            x = ex.deref(x)
            if isinstance(x, Str): out.chars.extend(x.chars)
            else: out.chars.append(x)
        return out
    for pre, kind in (('HashMap<', 'hash'), ('IndexMap<', 'index'), ('BTreeMap<', 'btree')):
        if ty.startswith(pre):
            m = PyMap(kind)
            for x in xs: map_insert(ex, m, x.fields[0], x.fields[1])
            return m
    for pre, kind in (('HashSet<', 'hash'), ('IndexSet<', 'index'), ('indexmap::IndexSet<', 'index'), ('BTreeSet<', 'btree')):
        if ty.startswith(pre):
            st = PySet([], kind)
            for x in xs:
                if key_index(ex, st, x) < 0: st.elems.append(x)
            return st
    raise Unsupported('collect into ' + ty)
@pattern(r'^<(Vec<.*>|String|HashMap<.*>|HashSet<.*>|IndexMap<.*>|BTreeMap<.*>|BTreeSet<.*>) as FromIterator<.*>>::from_iter')
def m_from_iter(ex, f, a): return collect_into(ex, as_iter(ex, a[0]), self_type(f))

# ----------------------------------------------------------------------------- maps / sets
def map_insert(ex, m, k, v):
    i = key_index(ex, m, k)
    if i >= 0:
        old = m.vals[i]; m.vals[i] = v; return some(old)
    m.keys.append(k); m.vals.append(v); return NONE()
_MAP = r'(HashMap|IndexMap|BTreeMap|im::HashMap|im::OrdMap)'
_SET = r'(HashSet|IndexSet|indexmap::IndexSet|BTreeSet|im::HashSet)'
def _kind(f): return 'btree' if 'BTree' in f or 'OrdMap' in f else ('index' if 'Index' in f else 'hash')
@pattern(r'^' + _MAP + r'::(new|with_capacity|default|with_hasher)$', 'g')
def m_map_new(ex, f, a): return PyMap(_kind(f))
@pattern(r'^' + _SET + r'::(new|with_capacity|default)$', 'g')
def m_set_new(ex, f, a): return PySet([], _kind(f))
@pattern(r'^' + _MAP + r'::(\w+)$', 'g')
def m_map_method(ex, f, a):
    g = mt.strip_generics(f); op = g.rsplit('::', 1)[1]; m = ex.deref(a[0])
    if not isinstance(m, PyMap): raise Unsupported('map method on %r' % (m,))
    if op == 'insert': return map_insert(ex, m, a[1], a[2])
    if op in ('get', 'get_mut'):
        i = key_index(ex, m, a[1]); return some(Ref(m.vals, i)) if i >= 0 else NONE()
    if op == 'get_index_of':
        i = key_index(ex, m, a[1]); return some(i) if i >= 0 else NONE()
    if op == 'get_full':
        i = key_index(ex, m, a[1]); return some(Agg('tuple', 0, [i, Ref(m.keys, i), Ref(m.vals, i)])) if i >= 0 else NONE()
    if op == 'get_index':
        i = a[1]; return some(Agg('tuple', 0, [Ref(m.keys, i), Ref(m.vals, i)])) if i < len(m.keys) else NONE()
    if op == 'get_key_value':
        i = key_index(ex, m, a[1]); return some(Agg('tuple', 0, [Ref(m.keys, i), Ref(m.vals, i)])) if i >= 0 else NONE()
    if op == 'contains_key': return key_index(ex, m, a[1]) >= 0
    if op in ('remove', 'swap_remove', 'shift_remove'):
        i = key_index(ex, m, a[1])
        if i < 0: return NONE()
        m.keys.pop(i); return some(m.vals.pop(i))
    if op == 'len': return len(m.keys)
    if op == 'is_empty': return len(m.keys) == 0
    if op == 'clear': del m.keys[:]; del m.vals[:]; return UNIT
    if op in ('iter', 'iter_mut'): return Iter(map_order(ex, m, [Agg('tuple', 0, [Ref(m.keys, i), Ref(m.vals, i)]) for i in range(len(m.keys))]))
    if op == 'keys': return Iter(map_order(ex, m, [Ref(m.keys, i) for i in range(len(m.keys))]))
    if op in ('values', 'values_mut'): return Iter(map_order(ex, m, [Ref(m.vals, i) for i in range(len(m.vals))]))
    if op in ('into_keys',): return Iter(map_order(ex, m, list(m.keys)))
    if op in ('into_values',): return Iter(map_order(ex, m, list(m.vals)))
    if op == 'entry': return Agg('EntryH', 0, [m, a[1]])
    if op in ('extend',):
        for x in as_iter(ex, a[1]).drain(ex): map_insert(ex, m, x.fields[0], x.fields[1])
        return UNIT
    if op in ('first', 'last'):
        if not m.keys: return NONE()
        i = 0 if op == 'first' else len(m.keys) - 1
        return some(Agg('tuple', 0, [Ref(m.keys, i), Ref(m.vals, i)]))
    if op == 'retain':
        keep = [i for i in range(len(m.keys)) if ex.branch_bool(callf(ex, a[1], Ref(m.keys, i), Ref(m.vals, i)))]
        m.keys[:] = [m.keys[i] for i in keep]; m.vals[:] = [m.vals[i] for i in keep]; return UNIT
    if op in ('reserve', 'shrink_to_fit', 'sort_keys'):
        if op == 'sort_keys':
            idx = sorted(range(len(m.keys)), key=lambda i: sort_key(ex, m.keys[i]))
            m.keys[:] = [m.keys[i] for i in idx]; m.vals[:] = [m.vals[i] for i in idx]
        return UNIT
    raise Unsupported('map method ' + f)
@pattern(r'(^|::)Entry::(or_insert|or_insert_with|or_default|and_modify|or_insert_with_key)$', 'g')
def m_entry(ex, f, a):
    g = mt.strip_generics(f); op = g.rsplit('::', 1)[1]; m, k = a[0].fields
    i = key_index(ex, m, k)
    if op == 'and_modify':
        if i >= 0: callf(ex, a[1], Ref(m.vals, i))
        return a[0]
    if i < 0:
        if op == 'or_insert': v = a[1]
        elif op == 'or_insert_with': v = callf(ex, a[1])
        elif op == 'or_default':
            ga = generic_args(f.rsplit('::', 1)[0]); v = default_of(ex, ga[-1])
        else: raise Unsupported(f)
        m.keys.append(k); m.vals.append(v); i = len(m.keys) - 1
    return Ref(m.vals, i)
@pattern(r'^<' + _MAP + r'<.*> as Index<.*>>::index$')
def m_map_index(ex, f, a):
    m = ex.deref(a[0]); i = key_index(ex, m, a[1])
    if i < 0: raise Panic('map index: key not found')
    return Ref(m.vals, i)
@pattern(r'^<' + _MAP + r'<.*> as Extend<.*>>::extend')
def m_map_extend(ex, f, a):
    m = ex.deref(a[0])
    for x in as_iter(ex, a[1]).drain(ex): map_insert(ex, m, x.fields[0], x.fields[1])
    return UNIT
@pattern(r'^' + _SET + r'::(\w+)$', 'g')
def m_set_method(ex, f, a):
    g = mt.strip_generics(f); op = g.rsplit('::', 1)[1]; st = ex.deref(a[0])
    if not isinstance(st, PySet): raise Unsupported('set method on %r' % (st,))
    if op == 'insert':
        if key_index(ex, st, a[1]) >= 0: return False
        st.elems.append(a[1]); return True
    if op == 'insert_full':
        i = key_index(ex, st, a[1])
        if i >= 0: return Agg('tuple', 0, [i, False])
        st.elems.append(a[1]); return Agg('tuple', 0, [len(st.elems) - 1, True])
    if op == 'contains': return key_index(ex, st, a[1]) >= 0
    if op == 'get':
        i = key_index(ex, st, a[1]); return some(Ref(st.elems, i)) if i >= 0 else NONE()
    if op == 'get_index_of':
        i = key_index(ex, st, a[1]); return some(i) if i >= 0 else NONE()
    if op in ('remove', 'swap_remove', 'shift_remove'):
        i = key_index(ex, st, a[1])
        if i < 0: return False
        st.elems.pop(i); return True
    if op == 'len': return len(st.elems)
    if op == 'is_empty': return len(st.elems) == 0
    if op == 'clear': del st.elems[:]; return UNIT
    if op == 'iter': return Iter(hash_order(ex, st, [Ref(st.elems, i) for i in range(len(st.elems))]))
    if op in ('extend',):
        for x in as_iter(ex, a[1]).drain(ex):
            x = ex.deref(x) if isinstance(x, Ref) else x
            if key_index(ex, st, x) < 0: st.elems.append(deep_clone(ex, x))
        return UNIT
    if op in ('difference', 'intersection', 'union'):
        o = ex.deref(a[1]); out = []
        if op == 'union':
            out = [Ref(st.elems, i) for i in range(len(st.elems))] + [Ref(o.elems, i) for i in range(len(o.elems)) if key_index(ex, st, o.elems[i]) < 0]
        else:
            for i in range(len(st.elems)):
                inside = key_index(ex, o, st.elems[i]) >= 0
                if inside == (op == 'intersection'): out.append(Ref(st.elems, i))
        return Iter(hash_order(ex, st, out))
    if op == 'is_subset':
        o = ex.deref(a[1]); return all(key_index(ex, o, e) >= 0 for e in st.elems)
    if op == 'retain':
        st.elems[:] = [e for i, e in enumerate(list(st.elems)) if ex.branch_bool(callf(ex, a[1], Ref(st.elems, i)))]; return UNIT
    raise Unsupported('set method ' + f)
@pattern(r'^<&?' + _SET + r'<.*> as Sub<.*>>::sub$')
def m_set_sub(ex, f, a):
    x, y = ex.deref(a[0]), ex.deref(a[1])
    return PySet([deep_clone(ex, e) for e in x.elems if key_index(ex, y, e) < 0], x.kind)
@pattern(r'^<' + _SET + r'<.*> as Extend<.*>>::extend')
def m_set_extend(ex, f, a):
    st = ex.deref(a[0])
    for x in as_iter(ex, a[1]).drain(ex):
        x = ex.deref(x) if isinstance(x, Ref) else x
        if key_index(ex, st, x) < 0: st.elems.append(deep_clone(ex, x))
    return UNIT

# ----------------------------------------------------------------------------- im::Vector / la-arena / misc crates
@pattern(r'^(im::)?(vector::)?Vector::(\w+)$', 'g')
def m_im_vector(ex, f, a):
    op = mt.strip_generics(f).rsplit('::', 1)[1]
    if op == 'new': return PyVec([])
    v = ex.deref(a[0])
    if op == 'push_back': v.items.append(a[1]); return UNIT
    if op == 'pop_back': return some(v.items.pop()) if v.items else NONE()
    if op == 'iter': return Iter([Ref(v.items, i) for i in range(len(v.items))])
    if op == 'len': return len(v.items)
    if op == 'is_empty': return len(v.items) == 0
    if op == 'last' or op == 'back': return some(Ref(v.items, len(v.items) - 1)) if v.items else NONE()
    if op == 'get': return some(Ref(v.items, a[1])) if a[1] < len(v.items) else NONE()
    raise Unsupported('im::Vector method ' + f)
@pattern(r'^<(im::)?(vector::)?Vector<.*> as Clone>::clone$')
def m_im_vector_clone(ex, f, a): return PyVec(list(ex.deref(a[0]).items))      # persistent vector: elements shared
@pattern(r'^(la_arena::)?Arena::(\w+)$', 'g')
def m_arena(ex, f, a):
    op = mt.strip_generics(f).rsplit('::', 1)[1]
    if op in ('new', 'default', 'with_capacity'): return PyVec([])
    v = ex.deref(a[0])
    if op == 'alloc': v.items.append(a[1]); return Agg('Idx', 0, [len(v.items) - 1])
    if op == 'len': return len(v.items)
    if op == 'iter': return Iter([Agg('tuple', 0, [Agg('Idx', 0, [i]), Ref(v.items, i)]) for i in range(len(v.items))])
    raise Unsupported('arena method ' + f)
@pattern(r'^<(la_arena::)?Arena<.*> as Index(Mut)?<.*>>::index(_mut)?$')
def m_arena_index(ex, f, a):
    v = ex.deref(a[0]); i = a[1].fields[0]
    if i >= len(v.items): raise Panic('arena index out of bounds')
    return Ref(v.items, i)
@pattern(r'^<(la_arena::)?Arena<.*> as Default>::default$')
def m_arena_default(ex, f, a): return PyVec([])
@pattern(r'(^|::)Idx::(into_raw|from_raw)$|RawIdx::(into_u32|from_u32|from)$|^<(la_arena::)?RawIdx as From<u32>>::from$|^<u32 as From<(la_arena::)?RawIdx>>::from$', 'g')
def m_idx_raw(ex, f, a):
    v = a[0]
    if f.rstrip('>').endswith(('from_raw',)) : return Agg('Idx', 0, [v.fields[0] if isinstance(v, Agg) else v])
    if 'into_raw' in f: return Agg('RawIdx', 0, [v.fields[0]])
    if 'into_u32' in f or f.startswith('<u32 as From'): return v.fields[0] if isinstance(v, Agg) else v
    return Agg('RawIdx', 0, [v])
@pattern(r'^std::path::Path::(to_path_buf|new|as_os_str|to_str|to_string_lossy|display|join|file_name|parent|extension|file_stem|exists|is_dir|is_file)(::<.*>)?$|^<(std::path::)?PathBuf as (Deref|AsRef<.*>|Borrow<.*>)>::(deref|as_ref|borrow)$|^<(std::path::)?Path as AsRef<.*>>::as_ref$|^<&(std::path::)?Path as Into<(std::path::)?PathBuf>>::into$|^<(std::path::)?PathBuf as From<.*>>::from$|^<(std::path::)?PathBuf as Clone>::clone$')
def m_path(ex, f, a):
    if f.endswith(('::exists', '::is_dir', '::is_file')): raise Unsupported('filesystem query ' + f)
    if f.endswith(('::display', '::to_string_lossy')): return Str([0xFFFD])
    if mt.strip_generics(f).endswith('::join'):
        base = ex.deref(a[0]); return Opaque('path', parts=getattr(base, 'parts', ()) + (ex.deref(a[1]),))
    v = a[0]; return v if not isinstance(v, Ref) or isinstance(v.get(), (Opaque,)) and False else (ex.deref(v) if isinstance(ex.deref(v), Opaque) else v)
@pattern(r'^<std::path::Display as ToString>::to_string$')
def m_path_display(ex, f, a): return Str([0xFFFD])
@pattern(r'^<(.+) as AsRef<(.+)>>::as_ref$', prio=8)
def m_as_ref(ex, f, a): return a[0]
@pattern(r'^<(.+) as Borrow<(.+)>>::borrow$', prio=8)
def m_borrow(ex, f, a): return a[0]
@pattern(r'^core::num::<impl (\w+)>::(checked_add|checked_sub|checked_mul|saturating_sub|saturating_add|wrapping_add|wrapping_sub|pow|abs|min|max|to_string|is_power_of_two|leading_zeros|trailing_zeros|count_ones|from_str_radix|unsigned_abs|abs_diff)$')
def m_num(ex, f, a):
    m = re.match(r'^core::num::<impl (\w+)>::(\w+)$', f); ty, op = m.group(1), m.group(2); lo, hi = INT_RANGES[ty]
    x = a[0]; y = a[1] if len(a) > 1 else None
    sym = is_sym(x) or is_sym(y)
    if op in ('checked_add', 'checked_sub', 'checked_mul'):
        r = x + y if op == 'checked_add' else (x - y if op == 'checked_sub' else x * y)
        if sym: return some(r) if ex.branch_bool(z3.And(zi(r) >= lo, zi(r) <= hi)) else NONE()
        return some(r) if lo <= r <= hi else NONE()
    if op in ('saturating_sub', 'saturating_add'):
        r = x - y if op == 'saturating_sub' else x + y
        if sym: return z3.If(r < lo, lo, z3.If(r > hi, hi, r))
        return min(max(r, lo), hi)
    if op == 'from_str_radix':
        t = pystr(ex.deref(a[0])); radix = a[1]
        try: v = int(t, radix)
        except ValueError: return err(Opaque('ParseIntError'))
        if t[:1] in '+-' and len(t) == 1: return err(Opaque('ParseIntError'))
        return ok(v) if lo <= v <= hi else err(Opaque('ParseIntError'))
    if sym: raise Unsupported('symbolic ' + f)
    if op == 'wrapping_add': return wrap_int(x + y, ty)
    if op == 'wrapping_sub': return wrap_int(x - y, ty)
    if op == 'pow':
        r = x ** y
        if not lo <= r <= hi: raise Panic('attempt to multiply with overflow')
        return r
    if op == 'abs': return abs(x)
    if op == 'min': return min(x, y)
    if op == 'max': return max(x, y)
    if op == 'abs_diff': return abs(x - y)
    raise Unsupported('num op ' + f)
@pattern(r'^<(u8|u16|u32|u64|usize|i8|i16|i32|i64|isize) as TryFrom<(\w+)>>::try_from$|^<(\w+) as TryInto<(\w+)>>::try_into$')
def m_try_from(ex, f, a):
    m = re.match(r'^<(\w+) as (TryFrom|TryInto)<(\w+)>>', f)
    dst = m.group(1) if m.group(2) == 'TryFrom' else m.group(3); lo, hi = INT_RANGES[dst]; v = a[0]
    if is_sym(v): return ok(v) if ex.branch_bool(z3.And(v >= lo, v <= hi)) else err(Opaque('TryFromIntError'))
    return ok(v) if lo <= v <= hi else err(Opaque('TryFromIntError'))
@pattern(r'^<Range<usize> as Iterator>::next$|^<RangeInclusive<usize> as Iterator>::next$')
def m_range_next(ex, f, a):
    r = ex.deref(a[0])
    if isinstance(r, Iter): return r.pull(ex)
    lo, hi = r.fields[0], r.fields[1]
    if is_sym(lo) or is_sym(hi):
        if not ex.branch_bool(zi(lo) < zi(hi)): return NONE()
    elif lo >= hi: return NONE()
    r.fields[0] = lo + 1; return some(lo)
@pattern(r'^<Range<\w+> as RangeBounds<.*>>::contains$|^Range::<\w+>::contains$|^RangeInclusive::<\w+>::contains$|^<RangeInclusive<\w+> as RangeBounds<.*>>::contains$|^(Range|RangeInclusive)::contains$')
def m_range_contains(ex, f, a):
    r = ex.deref(a[0]); x = ex.deref(a[1]); lo, hi = r.fields[0], r.fields[1]
    incl = 'Inclusive' in f
    if is_sym(x) or is_sym(lo) or is_sym(hi): return z3.And(zi(x) >= zi(lo), (zi(x) <= zi(hi)) if incl else (zi(x) < zi(hi)))
    return lo <= x <= hi if incl else lo <= x < hi
@exact('RangeInclusive::new')
def m_range_incl_new(ex, f, a): return Agg('RangeInclusive', 0, [a[0], a[1], False])
@pattern(r'^(text_size::)?TextRange::(new|empty|start|end|len|at|cover|contains|is_empty)$|^(text_size::)?TextSize::(new|from|of)$|^<(text_size::)?TextSize as From<u32>>::from$|^<u32 as From<(text_size::)?TextSize>>::from$|^<usize as From<(text_size::)?TextSize>>::from$|^<(text_size::)?TextSize as (Add|Sub)>::(add|sub)$|^<(text_size::)?TextSize as TryFrom<usize>>::try_from$', 'g')
def m_text_size(ex, f, a):
    g = mt.strip_generics(f); op = g.rsplit('::', 1)[1]
    if 'TextRange' in g:
        if op == 'new':
            if not is_sym(a[0]) and not is_sym(a[1]) and a[0] > a[1]: raise Panic('TextRange::new: start > end')
            return Agg('TextRange', 0, [a[0], a[1]])
        if op == 'empty': return Agg('TextRange', 0, [a[0], a[0]])
        if op == 'at': return Agg('TextRange', 0, [a[0], a[0] + a[1]])
        r = ex.deref(a[0])
        if op == 'start': return r.fields[0]
        if op == 'end': return r.fields[1]
        if op == 'len': return r.fields[1] - r.fields[0]
        if op == 'is_empty': return r.fields[0] == r.fields[1]
        if op == 'cover':
            o = ex.deref(a[1]); return Agg('TextRange', 0, [min(r.fields[0], o.fields[0]), max(r.fields[1], o.fields[1])])
    if op == 'try_from': return ok(a[0])
    if op in ('add',): return a[0] + a[1]
    if op in ('sub',): return a[0] - a[1]
    if op == 'of': return ex.W.strlen(ex, ex.deref(a[0]))
    return a[0]

# ----------------------------------------------------------------------------- rowan GreenNodeBuilder as an event recorder
class Builder:
    def __init__(s): s.ops = []; s.depth = 0; s.roots = 0
@pattern(r'(^|::)GreenNodeBuilder::(new|start_node|token|finish_node|finish|checkpoint|start_node_at)$', 'g')
def m_green_builder(ex, f, a):
    op = mt.strip_generics(f).rsplit('::', 1)[1]
    if op == 'new': return Builder()
    b = ex.deref(a[0]) if isinstance(a[0], Ref) else a[0]
    if op == 'start_node':
        k = a[1]; k = k.fields[0] if isinstance(k, Agg) else k
        b.ops.append(('start', ex.disc(k) if isinstance(k, (Agg, LazyEnum)) else k))
        if b.depth == 0:
            b.roots += 1
            if b.roots > 1: raise Panic('rowan: second root node')
        b.depth += 1; return UNIT
    if op == 'token':
        if b.depth == 0: raise Panic('rowan: token outside of any node')
        k = a[1]; k = k.fields[0] if isinstance(k, Agg) else k
        b.ops.append(('token', k, a[2])); return UNIT
    if op == 'finish_node':
        if b.depth == 0: raise Panic('rowan: finish_node with an empty stack')
        b.depth -= 1; b.ops.append(('finish',)); return UNIT
    if op == 'finish':
        if b.depth != 0 or b.roots != 1: raise Panic('rowan: finish with %d open nodes and %d roots' % (b.depth, b.roots))
        return b
    raise Unsupported('rowan builder op ' + op)
@pattern(r'^<(rowan::)?SyntaxKind as From<MySyntaxKind>>::from$|^<MySyntaxKind as Into<(rowan::)?SyntaxKind>>::into$')
def m_syntax_kind_from(ex, f, a):
    ref = ex.W.resolve('<SyntaxKind as From<MySyntaxKind>>::from', 'parser')
    if ref is not None: return ex.run_body(ref, [a[0]])
    return Agg('SyntaxKind', 0, [ex.disc(a[0])])

# ----------------------------------------------------------------------------- floats (z3 floating-point theory)
@pattern(r'^(core::)?f(32|64)::<impl f(32|64)>::(is_finite|is_nan|is_infinite|abs|is_sign_negative)$')
def m_float_pred(ex, f, a):
    op = f.rsplit('::', 1)[1]; v = a[0]
    if isinstance(v, Opaque): raise Unsupported('float predicate on an opaque float')
    if op == 'is_finite': return z3.Not(z3.Or(z3.fpIsInf(v), z3.fpIsNaN(v)))
    if op == 'is_nan': return z3.fpIsNaN(v)
    if op == 'is_infinite': return z3.fpIsInf(v)
    if op == 'abs': return z3.fpAbs(v)
    if op == 'is_sign_negative': return z3.fpIsNegative(v)

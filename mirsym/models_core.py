"""std models, part 1: Option / Result / Box / Cell / Vec / slices / String / char / fmt / mem / panics"""
import re
import z3
from . import mirtext as mt
from .engine import *
from .engine import Exec
from .models import *
from .models import exact, pattern

def _opt(v, ex):
    if isinstance(v, Ref): v = v.get()
    return v

def _is_variant(ex, o, idx):
    o = ex.deref(o) if isinstance(o, Ref) else o
    if isinstance(o, LazyEnum): return o.d == idx
    return o.idx == idx

def _concrete_enum(ex, o):
    """Agg view of an Option/Result value (forks on a lazy one)"""
    if isinstance(o, LazyEnum):
        k = ex.choose_fd(o.d, [(frozenset([i]), i) for i in range(len(o.adt.variants))], False) if o.d.get_id() not in ex.entangled else ex.choose([(o.d == i, i) for i in range(len(o.adt.variants))], exhaustive=True)
        return Agg(o.adt.name, k, ex.lazy_variant(o, o.adt.variants[k].name))
    return o

# ----------------------------------------------------------------------------- panics / intrinsics
@pattern(r'^(core|std)::panicking::|^std::rt::begin_panic|^core::option::(unwrap_failed|expect_failed)|^core::result::unwrap_failed|^core::slice::index::slice_|^core::str::slice_error_fail', 'g')
def m_panic(ex, f, a):
    msg = f
    for x in a:
        x = ex.deref(x)
        if isinstance(x, Str):
            try: msg = pystr(x)
            except Unsupported: pass
            break
    raise Panic(msg)

@exact('must_use', 'std::hint::must_use', 'core::hint::must_use', 'std::convert::identity', 'identity')
def m_identity(ex, f, a): return a[0]

@exact('std::mem::replace', 'core::mem::replace', 'replace')
def m_replace(ex, f, a):
    old = a[0].get(); a[0].set(a[1]); return old
@exact('std::mem::take', 'core::mem::take', 'take')
def m_take(ex, f, a):
    old = a[0].get()
    if isinstance(old, PyVec): a[0].set(PyVec([]))
    elif isinstance(old, Str): a[0].set(Str([]))
    elif isinstance(old, PyMap): a[0].set(PyMap(old.kind))
    elif isinstance(old, PySet): a[0].set(PySet([], old.kind))
    elif isinstance(old, Agg) and old.ty == 'Option': a[0].set(NONE())
    else: raise Unsupported('mem::take of %r' % (old,))
    return old
@exact('std::mem::swap', 'core::mem::swap')
def m_swap(ex, f, a):
    x, y = a[0].get(), a[1].get(); a[0].set(y); a[1].set(x); return UNIT
@exact('std::mem::drop', 'drop', 'core::mem::drop', 'std::mem::forget')
def m_drop(ex, f, a): return UNIT
@pattern(r'^<.* as Drop>::drop$', 'g')
def m_drop_impl(ex, f, a): return UNIT

# ----------------------------------------------------------------------------- Box / Cell / Rc
@exact('Box::new', 'Rc::new', 'std::rc::Rc::new', 'Arc::new', 'std::sync::Arc::new')
def m_box_new(ex, f, a): return mkbox(a[0])
@exact('Box::new_uninit')
def m_box_uninit(ex, f, a):
    # layout followed by the `vec![..]` lowering:  (*box).1: ManuallyDrop<T>  .0: MaybeDangling<T>  .0: T
    return mkbox(Agg('MaybeUninit', 0, [UNIT, Agg('ManuallyDrop', 0, [Agg('MaybeDangling', 0, [None])])]))
@exact('std::boxed::box_assume_init_into_vec_unsafe')
def m_box_into_vec(ex, f, a):
    arr = unbox(a[0])
    while isinstance(arr, Agg) and arr.ty in ('ManuallyDrop', 'MaybeUninit', 'MaybeDangling'): arr = arr.fields[1] if arr.ty == 'MaybeUninit' else arr.fields[0]
    if not (isinstance(arr, Agg) and arr.ty == 'array'): raise Unsupported('vec![] idiom: box content %r' % (arr,))
    return PyVec(list(arr.fields))
@pattern(r'^<Box<.*> as (AsRef|Deref|DerefMut|Borrow|AsMut)(<.*>)?>::(as_ref|deref|deref_mut|borrow|as_mut)$')
def m_box_deref(ex, f, a):
    b = ex.deref_ref(a[0])
    return unbox_ref(b)
@pattern(r'^<Box<dyn .*> as Fn(Once|Mut)?<.*>>::call(_once|_mut)?$')
def m_box_call(ex, f, a):
    fv = a[0]
    if isinstance(fv, Ref): fv = fv.get()
    fv = unbox(fv) if isinstance(fv, Agg) and fv.ty == 'Box' else fv
    return ex.call_value(fv, list(a[1].fields))
@pattern(r'^<.* as Fn(Once|Mut)?<.*>>::call(_once|_mut)?$', prio=9)
def m_fn_call(ex, f, a):
    fv = a[0]
    if isinstance(fv, Ref):
        try: fv = fv.get()
        except (KeyError, IndexError): fv = None       # capture-less closure: a ZST local that MIR never assigns
    if fv is None or isinstance(fv, Opaque):
        st = self_type(f) or ''
        m_ = re.search(r'\{closure@([^}]+)\}', st)
        if not m_: raise Unsupported('call through unset function value: ' + f)
        fv = ClosureVal(m_.group(1), [])
    return ex.call_value(fv, list(a[1].fields))
@exact('Cell::new', 'RefCell::new')
def m_cell_new(ex, f, a): return Cell_(a[0])
@exact('Cell::get')
def m_cell_get(ex, f, a): return copyval(ex.deref(a[0]).v)
@exact('Cell::set')
def m_cell_set(ex, f, a): ex.deref(a[0]).v = a[1]; return UNIT
@exact('Cell::replace')
def m_cell_replace(ex, f, a): c = ex.deref(a[0]); old = c.v; c.v = a[1]; return old

# ----------------------------------------------------------------------------- Option / Result
@pattern(r'^(f64|core::f64)::<impl f64>::(fract|trunc|is_finite|is_nan|abs|floor|ceil)$|^std::f64::<impl f64>::(fract|trunc|floor|ceil|abs)$')
def m_f64_concrete(ex, f, a):
    """concrete f64 helpers (Python floats are IEEE doubles); symbolic floats are not supported here"""
    import math
    v = a[0]
    while isinstance(v, Ref): v = v.get()
    op = f.rsplit('::', 1)[1]
    if not isinstance(v, float):
        if op in ('is_finite', 'is_nan', 'abs'):      # symbolic floats: the floating-point theory model
            from .models_coll import m_float_pred
            return m_float_pred(ex, f, a)
        raise Unsupported('f64 method %s on a non-concrete float' % op)
    if op == 'is_finite': return math.isfinite(v)
    if op == 'is_nan': return v != v
    if not math.isfinite(v): return v if op != 'fract' else float('nan')
    if op == 'trunc': return float(math.trunc(v))
    if op == 'fract': return v - float(math.trunc(v))
    if op == 'abs': return abs(v)
    return float(math.floor(v)) if op == 'floor' else float(math.ceil(v))

@pattern(r'ParseIntError::kind$')
def m_parse_int_error_kind(ex, f, a):
    """core::num::IntErrorKind { Empty, InvalidDigit, PosOverflow, NegOverflow, Zero }; the str::parse model records which one"""
    e = ex.deref(a[0]); k = getattr(e, 'kind', None)
    if k is None: raise Unsupported('ParseIntError without a recorded kind')
    cell = {0: Agg('core::num::IntErrorKind', ['Empty', 'InvalidDigit', 'PosOverflow', 'NegOverflow', 'Zero'].index(k), [])}
    return Ref(cell, 0)

@pattern(r'^core::bool::<impl bool>::then_some(::<.*>)?$|^bool::then_some(::<.*>)?$')
def m_bool_then_some(ex, f, a): return some(a[1]) if ex.branch_bool(a[0]) else NONE()
@pattern(r'^core::bool::<impl bool>::then(::<.*>)?$|^bool::then(::<.*>)?$')
def m_bool_then(ex, f, a): return some(callf(ex, a[1])) if ex.branch_bool(a[0]) else NONE()
@exact('Option::is_none')
def m_is_none(ex, f, a): return _is_variant(ex, a[0], 0)
@exact('Option::is_some')
def m_is_some(ex, f, a): return _is_variant(ex, a[0], 1)
@exact('Result::is_ok')
def m_is_ok(ex, f, a): return _is_variant(ex, a[0], 0)
@exact('Result::is_err')
def m_is_err(ex, f, a): return _is_variant(ex, a[0], 1)
@exact('Option::unwrap', 'Option::expect')
def m_unwrap(ex, f, a):
    o = _concrete_enum(ex, a[0])
    if o.idx == 0: raise Panic('called `Option::unwrap()` on a `None` value' if f.endswith('unwrap') else 'Option::expect failed')
    return o.fields[0]
@exact('Result::unwrap', 'Result::expect')
def m_res_unwrap(ex, f, a):
    o = _concrete_enum(ex, a[0])
    if o.idx == 1: raise Panic('called `Result::unwrap()` on an `Err` value')
    return o.fields[0]
@exact('Result::unwrap_err', 'Result::expect_err')
def m_res_unwrap_err(ex, f, a):
    o = _concrete_enum(ex, a[0])
    if o.idx == 0: raise Panic('called `Result::unwrap_err()` on an `Ok` value')
    return o.fields[0]
@exact('Option::unwrap_or', 'Result::unwrap_or')
def m_unwrap_or(ex, f, a):
    o = _concrete_enum(ex, a[0]); good = 1 if f.startswith('Option') else 0
    return o.fields[0] if o.idx == good else a[1]
@exact('Option::unwrap_or_else', 'Result::unwrap_or_else')
def m_unwrap_or_else(ex, f, a):
    o = _concrete_enum(ex, a[0])
    if f.startswith('Option'): return o.fields[0] if o.idx == 1 else callf(ex, a[1])
    return o.fields[0] if o.idx == 0 else callf(ex, a[1], o.fields[0])
@pattern(r'^Option::<(.+)>::unwrap_or_default$')
def m_unwrap_or_default(ex, f, a):
    o = _concrete_enum(ex, a[0])
    if o.idx == 1: return o.fields[0]
    return default_of(ex, generic_args(f.rsplit('::', 1)[0])[0])
@exact('Option::map')
def m_opt_map(ex, f, a):
    o = _concrete_enum(ex, a[0]); return o if o.idx == 0 else some(callf(ex, a[1], o.fields[0]))
@exact('Option::and_then')
def m_opt_and_then(ex, f, a):
    o = _concrete_enum(ex, a[0]); return o if o.idx == 0 else callf(ex, a[1], o.fields[0])
@exact('Option::map_or')
def m_opt_map_or(ex, f, a):
    o = _concrete_enum(ex, a[0]); return a[1] if o.idx == 0 else callf(ex, a[2], o.fields[0])
@exact('Option::map_or_else')
def m_opt_map_or_else(ex, f, a):
    o = _concrete_enum(ex, a[0]); return callf(ex, a[1]) if o.idx == 0 else callf(ex, a[2], o.fields[0])
@exact('Option::or_else')
def m_opt_or_else(ex, f, a):
    o = _concrete_enum(ex, a[0]); return o if o.idx == 1 else callf(ex, a[1])
@exact('Option::or')
def m_opt_or(ex, f, a):
    o = _concrete_enum(ex, a[0]); return o if o.idx == 1 else a[1]
@exact('Option::filter')
def m_opt_filter(ex, f, a):
    o = _concrete_enum(ex, a[0])
    if o.idx == 0: return o
    return o if ex.branch_bool(callf(ex, a[1], Ref(o.fields, 0))) else NONE()
@exact('Option::is_some_and')
def m_is_some_and(ex, f, a):
    o = _concrete_enum(ex, a[0]); return False if o.idx == 0 else callf(ex, a[1], o.fields[0])
@exact('Option::is_none_or')
def m_is_none_or(ex, f, a):
    o = _concrete_enum(ex, a[0]); return True if o.idx == 0 else callf(ex, a[1], o.fields[0])
@exact('Option::ok_or')
def m_ok_or(ex, f, a):
    o = _concrete_enum(ex, a[0]); return ok(o.fields[0]) if o.idx == 1 else err(a[1])
@exact('Option::ok_or_else')
def m_ok_or_else(ex, f, a):
    o = _concrete_enum(ex, a[0]); return ok(o.fields[0]) if o.idx == 1 else err(callf(ex, a[1]))
@exact('Option::copied', 'Option::cloned')
def m_opt_copied(ex, f, a):
    o = _concrete_enum(ex, a[0])
    if o.idx == 0: return o
    v = ex.deref(o.fields[0]); return some(copyval(v) if f.endswith('copied') else deep_clone(ex, v))
@exact('Option::as_ref', 'Option::as_mut', 'Option::as_deref', 'Option::as_deref_mut')
def m_opt_as_ref(ex, f, a):
    o = _concrete_enum(ex, a[0].get())
    if isinstance(a[0].get(), LazyEnum): a[0].set(o)
    if o.idx == 0: return NONE()
    r = Ref(o.fields, 0)
    if 'deref' in f:
        t = r.get()
        if isinstance(t, Agg) and t.ty == 'Box': r = unbox_ref(t)
    return some(r)
@exact('Option::take')
def m_opt_take(ex, f, a): old = a[0].get(); a[0].set(NONE()); return old
@exact('Option::insert', 'Option::get_or_insert')
def m_opt_insert(ex, f, a):
    o = a[0].get()
    if f.endswith('get_or_insert') and o.idx == 1: return Ref(o.fields, 0)
    n = some(a[1]); a[0].set(n); return Ref(n.fields, 0)
@exact('Option::get_or_insert_with')
def m_opt_goiw(ex, f, a):
    o = a[0].get()
    if o.idx == 1: return Ref(o.fields, 0)
    n = some(callf(ex, a[1])); a[0].set(n); return Ref(n.fields, 0)
@exact('Option::zip')
def m_opt_zip(ex, f, a):
    x, y = _concrete_enum(ex, a[0]), _concrete_enum(ex, a[1])
    return some(Agg('tuple', 0, [x.fields[0], y.fields[0]])) if x.idx == 1 and y.idx == 1 else NONE()
@exact('Option::iter')
def m_opt_iter(ex, f, a):
    o = _concrete_enum(ex, ex.deref(a[0])); return Iter([Ref(o.fields, 0)] if o.idx == 1 else [])
@exact('Result::map')
def m_res_map(ex, f, a):
    o = _concrete_enum(ex, a[0]); return ok(callf(ex, a[1], o.fields[0])) if o.idx == 0 else o
@exact('Result::map_err')
def m_res_map_err(ex, f, a):
    o = _concrete_enum(ex, a[0]); return err(callf(ex, a[1], o.fields[0])) if o.idx == 1 else o
@exact('Result::and_then')
def m_res_and_then(ex, f, a):
    o = _concrete_enum(ex, a[0]); return callf(ex, a[1], o.fields[0]) if o.idx == 0 else o
@exact('Result::ok')
def m_res_ok(ex, f, a):
    o = _concrete_enum(ex, a[0]); return some(o.fields[0]) if o.idx == 0 else NONE()
@exact('Result::err')
def m_res_err(ex, f, a):
    o = _concrete_enum(ex, a[0]); return some(o.fields[0]) if o.idx == 1 else NONE()
@exact('Result::as_ref')
def m_res_as_ref(ex, f, a):
    o = a[0].get(); return Agg('Result', o.idx, [Ref(o.fields, 0)])
@pattern(r'^<Option<.*> as Try>::branch$')
def m_opt_branch(ex, f, a):
    o = _concrete_enum(ex, a[0])
    return Agg('ControlFlow', 0, [o.fields[0]]) if o.idx == 1 else Agg('ControlFlow', 1, [NONE()])
@pattern(r'^<Option<.*> as FromResidual<.*>>::from_residual$')
def m_opt_residual(ex, f, a): return NONE()
@pattern(r'^<Result<.*> as Try>::branch$')
def m_res_branch(ex, f, a):
    r = _concrete_enum(ex, a[0])
    return Agg('ControlFlow', 0, [r.fields[0]]) if r.idx == 0 else Agg('ControlFlow', 1, [r])
@pattern(r'^<Result<.*> as FromResidual<.*>>::from_residual$')
def m_res_residual(ex, f, a):
    r = a[0]
    return r if isinstance(r, Agg) and r.ty == 'Result' else err(r)
@pattern(r'^<Option<(.+)> as Clone>::clone$')
def m_opt_clone(ex, f, a): return clone_typed(ex, a[0], 'Option<%s>' % re.match(r'^<Option<(.+)> as Clone>::clone$', f).group(1))
@pattern(r'^<Option<.*> as (Default)>::default$')
def m_opt_default(ex, f, a): return NONE()
@pattern(r'^<Option<.*> as PartialEq>::(eq|ne)$')
def m_opt_eq(ex, f, a):
    x, y = _concrete_enum(ex, ex.deref(a[0])), _concrete_enum(ex, ex.deref(a[1]))
    it = re.match(r'^<Option<(.+)> as PartialEq>', f).group(1)
    if x.idx != y.idx: r = False
    elif x.idx == 0: r = True
    else: r = eq_typed(ex, Ref(x.fields, 0), Ref(y.fields, 0), it)
    return r if f.endswith('eq') else znot(r)

def str_cmp(ex, xs, ys):
    """lexicographic comparison of code-point lists (= Rust's bytewise str order), forking on symbolic positions"""
    for p, q in zip(xs, ys):
        if is_sym(p) or is_sym(q):
            k = ex.choose([(zi(p) < zi(q), -1), (zi(p) == zi(q), 0), (zi(p) > zi(q), 1)], exhaustive=True)
            if k != 0: return k
        elif p != q: return -1 if p < q else 1
    return (len(xs) > len(ys)) - (len(xs) < len(ys))

def eq_typed(ex, x, y, ty):
    """`<ty as PartialEq>::eq(&x, &y)`: workspace impls run from MIR; std containers elementwise; scalars/strings directly"""
    ty = ty.strip()
    while ty.startswith('&'):
        ty = ty[1:].strip(); x, y = ex.deref(x) if isinstance(ex.deref(x), Ref) else x, ex.deref(y) if isinstance(ex.deref(y), Ref) else y
        if ty.startswith('mut '): ty = ty[4:]
    xv, yv = ex.deref_ref(x), ex.deref_ref(y)
    it = inner_type(ty, 'Vec')
    if it is None and ty.startswith('[') and ty.endswith(']'): it = ty[1:-1].split(';')[0].strip() if mt.find_top(ty[1:-1], ';') != -1 else ty[1:-1]
    if it is not None:
        xi = _items(ex, xv); yi = _items(ex, yv)
        if len(xi) != len(yi): return False
        for i in range(len(xi)):
            if not ex.branch_bool(eq_typed(ex, Ref(xi, i), Ref(yi, i), it)): return False
        return True
    it = inner_type(ty, 'Box')
    if it is not None: return eq_typed(ex, unbox_ref(xv), unbox_ref(yv), it)
    it = inner_type(ty, 'Option')
    if it is not None:
        xo, yo = _concrete_enum(ex, xv), _concrete_enum(ex, yv)
        if xo.idx != yo.idx: return False
        return True if xo.idx == 0 else eq_typed(ex, Ref(xo.fields, 0), Ref(yo.fields, 0), it)
    if ty.startswith('(') and ty.endswith(')'):
        parts = mt.split_top(ty[1:-1])
        return zand(*[eq_typed(ex, Ref(xv.fields, i), Ref(yv.fields, i), parts[i]) for i in range(len(parts))])
    if re.match(r'[A-Za-z_][\w:]*(<.*>)?$', ty) and ty not in ('String', 'str', 'bool', 'char') and ty not in INT_RANGES:
        ref = ex.W.resolve('<%s as PartialEq>::eq' % ty, getattr(ex, 'cur_crate', 'compiler'))
        if ref is not None:
            hx, hy = [xv], [yv]
            return ex.run_body(ref, [Ref(hx, 0), Ref(hy, 0)])
    return veq(ex, xv, yv)

def default_of(ex, ty):
    ty = ty.strip()
    if ty.startswith('(') and ty.endswith(')'):
        return Agg('tuple', 0, [default_of(ex, x) for x in mt.split_top(ty[1:-1])])
    if ty in ('String',): return Str([])
    if ty.startswith('Vec<'): return PyVec([])
    if ty.startswith('HashMap<'): return PyMap('hash')
    if ty.startswith('IndexMap<'): return PyMap('index')
    if ty.startswith('BTreeMap<'): return PyMap('btree')
    if ty.startswith('HashSet<'): return PySet([], 'hash')
    if ty.startswith('IndexSet<') or ty.startswith('indexmap::IndexSet<'): return PySet([], 'index')
    if ty.startswith('BTreeSet<'): return PySet([], 'btree')
    if ty.startswith('Option<'): return NONE()
    if ty in INT_RANGES: return 0
    if ty == 'bool': return False
    ref = ex.W.resolve('<%s as Default>::default' % ty, getattr(ex, 'cur_crate', 'compiler'))
    if ref is not None: return ex.run_body(ref, [])
    raise Unsupported('default of ' + ty)

@pattern(r'^<(.+) as Default>::default$', prio=9)
def m_default(ex, f, a): return default_of(ex, re.match(r'^<(.+) as Default>::default$', f).group(1))

# ----------------------------------------------------------------------------- generic Clone / PartialEq fallbacks
@pattern(r'^<(.+) as Clone>::clone$', prio=9)
def m_clone(ex, f, a):
    return clone_typed(ex, a[0], re.match(r'^<(.+) as Clone>::clone$', f).group(1))
@pattern(r'^<(.+) as ToOwned>::to_owned$', prio=9)
def m_to_owned(ex, f, a):
    v = ex.deref(a[0])
    return Str(v.chars) if isinstance(v, Str) else deep_clone(ex, v)
@pattern(r'^<(.+) as PartialEq(<.*>)?>::(eq|ne)$', prio=9)
def m_eq(ex, f, a):
    m = re.match(r'^<(.+) as PartialEq(<.*>)?>::(eq|ne)$', f)
    # split self type from trait at top-level ' as '
    st = self_type(f) or m.group(1)
    r = eq_typed(ex, a[0], a[1], st)
    return r if f.endswith('::eq') else znot(r)
@pattern(r'^<(.+) as (PartialOrd|Ord)(<.*>)?>::(lt|le|gt|ge|cmp|partial_cmp|max|min)$', prio=9)
def m_ord(ex, f, a):
    x, y = ex.deref(a[0]), ex.deref(a[1]); op = f.rsplit('::', 1)[1]
    if isinstance(x, Str) and isinstance(y, Str) and any(is_sym(c) for c in x.chars + y.chars):
        c = str_cmp(ex, x.chars, y.chars)
        if op in ('cmp', 'partial_cmp'):
            o = Agg('Ordering', c + 1, []); return o if op == 'cmp' else some(o)
        return {'lt': c < 0, 'le': c <= 0, 'gt': c > 0, 'ge': c >= 0}[op]
    if isinstance(x, Str) or isinstance(x, Agg):
        kx, ky = sort_key(ex, x), sort_key(ex, y)
        if op in ('cmp', 'partial_cmp'):
            o = Agg('Ordering', 0 if kx < ky else (1 if kx == ky else 2), []); return o if op == 'cmp' else some(o)
        return {'lt': kx < ky, 'le': kx <= ky, 'gt': kx > ky, 'ge': kx >= ky}[op]
    if op == 'max': return z3.If(zi(x) >= zi(y), zi(x), zi(y)) if (is_sym(x) or is_sym(y)) else max(x, y)
    if op == 'min': return z3.If(zi(x) <= zi(y), zi(x), zi(y)) if (is_sym(x) or is_sym(y)) else min(x, y)
    if op in ('cmp', 'partial_cmp'):
        if is_sym(x) or is_sym(y):
            k = ex.choose([(zi(x) < zi(y), 0), (zi(x) == zi(y), 1), (zi(x) > zi(y), 2)], exhaustive=True)
        else: k = 0 if x < y else (1 if x == y else 2)
        o = Agg('Ordering', k, []); return o if op == 'cmp' else some(o)
    sym = is_sym(x) or is_sym(y)
    if sym: x, y = zi(x), zi(y)
    return {'lt': x < y, 'le': x <= y, 'gt': x > y, 'ge': x >= y}[op]
@pattern(r'^<(.+) as (From|Into)<(.+)>>::(from|into)$', prio=9)
def m_from(ex, f, a):
    m = re.match(r'^<(.+) as (From|Into)<(.+)>>::(from|into)$', f); st = self_type(f)
    tr_arg = f[len(st) + 5 + len(m.group(2)) + 1: f.rindex('>>::')]
    dst, src = (st, tr_arg) if m.group(2) == 'From' else (tr_arg, st)
    dstn = dst.strip()
    v = a[0]
    if src.strip() == dstn: return v
    if dstn == 'f64' and src.strip() == 'f32' and isinstance(v, float): return v      # widening a concrete float is exact
    if src.strip().startswith('impl ') or re.fullmatch(r'[A-Z]\w?', src.strip()):
        # polymorphic MIR (generic caller): the conversion is decided by the run-time value
        t = ex.deref(v)
        if dstn.startswith('Option<'): return v if isinstance(t, (Agg, LazyEnum)) and getattr(t, 'ty', '') == 'Option' else some(v)
        if dstn == 'String' and isinstance(t, Str): return Str(t.chars)
        if dstn.startswith('Cow<') and isinstance(t, Str): return Agg('Cow', 0, [Str(t.chars)])
        raise Unsupported('polymorphic conversion ' + f)
    if dstn in ('String',) :
        t = ex.deref(v)
        if isinstance(t, Str): return Str(t.chars)
        if isinstance(t, int) or is_sym(t): return Str([t])          # From<char>
    if dstn.startswith('Cow<'):
        t = ex.deref(v)
        return Agg('Cow', 0 if src.strip().startswith('&') else 1, [Str(t.chars) if isinstance(t, Str) else t])
    if dstn.startswith('Box<') : return mkbox(v if not isinstance(ex.deref(v), Str) else Str(ex.deref(v).chars))
    if dstn.startswith('Option<'): return some(v)
    if dstn in INT_RANGES and src.strip() in INT_RANGES or src.strip() in ('bool', 'char'): return ex.int_cast(v, src.strip(), dstn)
    if dstn.startswith('Vec<'):
        t = ex.deref(v)
        if isinstance(t, Agg) and t.ty == 'array': return PyVec(list(t.fields))
        if isinstance(t, PyVec): return PyVec([deep_clone(ex, x) for x in t.items])
        if isinstance(t, Str): return PyVec(to_bytes(ex, t))
    if src.strip() == dstn: return v
    if m.group(2) == 'Into':
        ref = ex.W.resolve('<%s as From<%s>>::from' % (dst, src), getattr(ex, 'cur_crate', 'compiler'))
        if ref is not None: return ex.run_body(ref, [v])
        if dstn in ('PathBuf', 'std::path::PathBuf'): return v
    raise Unsupported('conversion ' + f)

# ----------------------------------------------------------------------------- Vec / slices
@exact('Vec::new', 'Vec::with_capacity', 'VecDeque::new', 'VecDeque::with_capacity')
def m_vec_new(ex, f, a): return PyVec([])
@pattern(r'^<&?bool as Not>::not$')
def m_bool_not(ex, f, a): return znot(ex.deref(a[0]))
@exact('std::vec::from_elem', 'alloc::vec::from_elem', 'vec::from_elem')
def m_vec_from_elem(ex, f, a):
    n = a[1]
    if is_sym(n): n = ex.concretize(n, 'vec![x; n] length')
    return PyVec([deep_clone(ex, a[0]) for _ in range(n)])
@exact('Vec::push', 'VecDeque::push_back')
def m_vec_push(ex, f, a): ex.deref(a[0]).items.append(a[1]); return UNIT
@exact('VecDeque::push_front')
def m_vec_push_front(ex, f, a): ex.deref(a[0]).items.insert(0, a[1]); return UNIT
@exact('Vec::pop', 'VecDeque::pop_back')
def m_vec_pop(ex, f, a):
    it = ex.deref(a[0]).items; return some(it.pop()) if it else NONE()
@exact('VecDeque::pop_front')
def m_vec_pop_front(ex, f, a):
    it = ex.deref(a[0]).items; return some(it.pop(0)) if it else NONE()
@exact('Vec::len', 'VecDeque::len')
def m_vec_len(ex, f, a): return len(ex.deref(a[0]).items)
@exact('Vec::is_empty', 'VecDeque::is_empty')
def m_vec_is_empty(ex, f, a): return len(ex.deref(a[0]).items) == 0
@exact('Vec::clear')
def m_vec_clear(ex, f, a): del ex.deref(a[0]).items[:]; return UNIT
@exact('Vec::reserve', 'Vec::shrink_to_fit', 'String::reserve', 'Vec::reserve_exact')
def m_vec_reserve(ex, f, a): return UNIT
@exact('Vec::insert')
def m_vec_insert(ex, f, a):
    it = ex.deref(a[0]).items
    if a[1] > len(it): raise Panic('insertion index out of bounds')
    it.insert(a[1], a[2]); return UNIT
@exact('Vec::remove')
def m_vec_remove(ex, f, a):
    it = ex.deref(a[0]).items
    if a[1] >= len(it): raise Panic('removal index out of bounds')
    return it.pop(a[1])
@exact('Vec::swap_remove')
def m_vec_swap_remove(ex, f, a):
    it = ex.deref(a[0]).items
    if a[1] >= len(it): raise Panic('swap_remove index out of bounds')
    v = it[a[1]]; it[a[1]] = it[-1]; it.pop(); return v
@exact('Vec::truncate')
def m_vec_truncate(ex, f, a): del ex.deref(a[0]).items[a[1]:]; return UNIT
@exact('Vec::resize')
def m_vec_resize(ex, f, a):
    v = ex.deref(a[0]).items
    while len(v) < a[1]: v.append(deep_clone(ex, a[2]))
    del v[a[1]:]; return UNIT
@exact('Vec::retain', 'Vec::retain_mut')
def m_vec_retain(ex, f, a):
    v = ex.deref(a[0]); keep = []
    for i in range(len(v.items)):
        if ex.branch_bool(callf(ex, a[1], Ref(v.items, i))): keep.append(v.items[i])
    v.items[:] = keep; return UNIT
@exact('Vec::append')
def m_vec_append(ex, f, a):
    o = ex.deref(a[1]); ex.deref(a[0]).items.extend(o.items); del o.items[:]; return UNIT
@exact('Vec::extend_from_slice')
def m_vec_extend_slice(ex, f, a):
    src = ex.deref(a[1]); items = src.items if isinstance(src, PyVec) else src.fields
    ex.deref(a[0]).items.extend(deep_clone(ex, x) for x in items); return UNIT
@exact('Vec::drain')
def m_vec_drain(ex, f, a):
    v = ex.deref(a[0]); r = a[1]
    if isinstance(r, Agg) and r.ty == 'RangeFull' or not isinstance(r, Agg):      # `..` is a ZST constant
        out = list(v.items); del v.items[:]; return Iter(out)
    lo = r.fields[0] if r.ty in ('Range', 'RangeFrom') else 0
    hi = r.fields[1] if r.ty == 'Range' else (r.fields[0] if r.ty == 'RangeTo' else len(v.items))
    if is_sym(lo): lo = ex.concretize(lo, 'drain start')
    if is_sym(hi): hi = ex.concretize(hi, 'drain end')
    if lo > hi: raise Panic('Vec::drain: slice index starts at %d but ends at %d' % (lo, hi))
    if hi > len(v.items): raise Panic('Vec::drain: range end index %d out of range for slice of length %d' % (hi, len(v.items)))
    out = v.items[lo:hi]; del v.items[lo:hi]; return Iter(out)
@exact('Vec::as_slice', 'Vec::as_mut_slice', 'Vec::into_boxed_slice', 'Vec::leak')
def m_vec_as_slice(ex, f, a): return a[0] if isinstance(a[0], Ref) else ex.deref(a[0])
@exact('Vec::first', 'Vec::last')
def m_vec_first(ex, f, a): return m_slice_first(ex, f, a)
@pattern(r'^<Vec<.*> as Deref(Mut)?>::deref(_mut)?$|^<String as Deref(Mut)?>::deref(_mut)?$|^<PathBuf as Deref>::deref$|^<std::path::PathBuf as Deref>::deref$')
def m_deref_handle(ex, f, a): return a[0] if isinstance(a[0], Ref) else ex.deref(a[0])
@pattern(r'^<(Vec<.*>|\[.*\]) as Index(Mut)?<usize>>::index(_mut)?$')
def m_vec_index(ex, f, a):
    t = ex.deref(a[0]); it = t.items if isinstance(t, PyVec) else t.fields; i = a[1]
    if is_sym(i): i = ex.concretize(i, 'vec index')
    if i >= len(it) or i < 0: raise Panic('index out of bounds: the len is %d but the index is %d' % (len(it), i))
    return Ref(it, i)
@pattern(r'^<(Vec<.*>|\[.*\]|str|String) as Index(Mut)?<Range(From|To|Full|Inclusive|ToInclusive)?(<usize>)?>>::index(_mut)?$')
def m_slice_range(ex, f, a):
    v = ex.deref(a[0]); r = a[1]
    if isinstance(v, Str):
        bs = v.chars
        if any(is_sym(c) for c in bs): raise Unsupported('str range index on a symbolic string')
        if any(c >= 0x80 for c in bs):
            # concrete non-ASCII text: byte offsets; an end inside a character is the `byte index is not a char boundary` panic of str indexing
            raw = ''.join(chr(c) for c in bs).encode(); n = len(raw)
            ty = r.ty if isinstance(r, Agg) else 'RangeFull'
            lo = r.fields[0] if ty in ('Range', 'RangeFrom', 'RangeInclusive') else 0
            hi = r.fields[1] if ty == 'Range' else (r.fields[1] + 1 if ty == 'RangeInclusive' else (r.fields[0] if ty == 'RangeTo' else (r.fields[0] + 1 if ty == 'RangeToInclusive' else n)))
            if is_sym(lo): lo = ex.concretize(lo, 'range start')
            if is_sym(hi): hi = ex.concretize(hi, 'range end')
            if lo > hi or hi > n: raise Panic('slice index out of range')
            def boundary(i): return i == n or (raw[i] & 0xC0) != 0x80        # str::is_char_boundary: BOTH ends are checked, also of an empty range
            if not boundary(lo) or not boundary(hi): raise Panic('byte index %d is not a char boundary' % (lo if not boundary(lo) else hi))
            return Str([ord(ch) for ch in raw[lo:hi].decode()])
        n = len(bs)
    else:
        bs = v.items if isinstance(v, PyVec) else v.fields; n = len(bs)
    ty = r.ty if isinstance(r, Agg) else 'RangeFull'
    lo = r.fields[0] if ty in ('Range', 'RangeFrom', 'RangeInclusive') else 0
    hi = r.fields[1] if ty == 'Range' else (r.fields[1] + 1 if ty == 'RangeInclusive' else (r.fields[0] if ty == 'RangeTo' else (r.fields[0] + 1 if ty == 'RangeToInclusive' else n)))
    if is_sym(lo): lo = ex.concretize(lo, 'range start')
    if is_sym(hi): hi = ex.concretize(hi, 'range end')
    if lo > hi or hi > n: raise Panic('slice index out of range')
    return Str(bs[lo:hi]) if isinstance(v, Str) else PyVec(bs[lo:hi])
def _items(ex, v):
    t = ex.deref(v)
    if isinstance(t, PyVec): return t.items
    if isinstance(t, Agg): return t.fields
    if isinstance(t, Opaque) and hasattr(t, 'bs'): return t.bs
    raise Unsupported('slice view of %r' % (t,))
@pattern(r'^core::slice::<impl \[.*\]>::(iter|iter_mut)$')
def m_slice_iter(ex, f, a): it = _items(ex, a[0]); return Iter([Ref(it, i) for i in range(len(it))])
@pattern(r'^core::slice::<impl \[.*\]>::(first|last|first_mut|last_mut)$')
def m_slice_first(ex, f, a):
    it = _items(ex, a[0])
    if not it: return NONE()
    return some(Ref(it, 0 if 'first' in f.rsplit('::', 1)[1] else len(it) - 1))
@pattern(r'^core::slice::<impl \[.*\]>::(get|get_mut)(::<usize>)?$')
def m_slice_get(ex, f, a):
    it = _items(ex, a[0]); i = a[1]
    if is_sym(i):
        if not ex.branch_bool(z3.And(i >= 0, i < len(it))): return NONE()
        i = ex.concretize(i, 'slice get')
    return some(Ref(it, i)) if 0 <= i < len(it) else NONE()
@pattern(r'^core::slice::<impl \[.*\]>::get::<(std::ops::|core::ops::)?Range<usize>>$')
def m_slice_get_range(ex, f, a):
    """<[T]>::get(start..end): None unless start <= end <= len"""
    it = _items(ex, a[0]); rg = ex.deref(a[1]); st_, en_ = rg.fields[0], rg.fields[1]
    if is_sym(st_) or is_sym(en_):
        if not ex.branch_bool(z3.And(zi(st_) >= 0, zi(st_) <= zi(en_), zi(en_) <= len(it))): return NONE()
        st_ = ex.concretize(st_, 'slice get start'); en_ = ex.concretize(en_, 'slice get end')
    if not (0 <= st_ <= en_ <= len(it)): return NONE()
    return some(PyVec(list(it[st_:en_])))
@pattern(r'^core::slice::<impl \[.*\]>::len$')
def m_slice_len(ex, f, a): return len(_items(ex, a[0]))
@pattern(r'^core::slice::<impl \[.*\]>::is_empty$')
def m_slice_is_empty(ex, f, a): return len(_items(ex, a[0])) == 0
@pattern(r'^(core::)?slice::<impl \[.*\]>::(to_vec|into_vec)$')
def m_slice_to_vec(ex, f, a):
    it = _items(ex, a[0]); return PyVec([deep_clone(ex, x) for x in it] if f.endswith('to_vec') else list(it))
@pattern(r'^core::slice::<impl \[.*\]>::contains$')
def m_slice_contains(ex, f, a):
    it = _items(ex, a[0]); x = ex.deref(a[1])
    return zor(*[veq(ex, y, x) for y in it])
@pattern(r'^core::slice::<impl \[.*\]>::split_first$')
def m_split_first(ex, f, a):
    b = _items(ex, a[0])
    return NONE() if not b else some(Agg('tuple', 0, [Ref(b, 0), PyVec(b[1:])]))
@pattern(r'^core::slice::<impl \[.*\]>::split_last$')
def m_split_last(ex, f, a):
    b = _items(ex, a[0])
    return NONE() if not b else some(Agg('tuple', 0, [Ref(b, len(b) - 1), PyVec(b[:-1])]))
@pattern(r'^core::slice::<impl \[.*\]>::reverse$')
def m_slice_reverse(ex, f, a): _items(ex, a[0]).reverse(); return UNIT
@pattern(r'^core::slice::<impl \[.*\]>::swap$')
def m_slice_swap(ex, f, a):
    it = _items(ex, a[0]); it[a[1]], it[a[2]] = it[a[2]], it[a[1]]; return UNIT
@pattern(r'^(core::)?slice::<impl \[.*\]>::(sort|sort_unstable)$')
def m_slice_sort(ex, f, a):
    it = _items(ex, a[0]); it.sort(key=lambda x: sort_key(ex, x)); return UNIT
@pattern(r'^(core::)?slice::<impl \[.*\]>::(sort_by_key|sort_unstable_by_key|sort_by_cached_key)')
def m_slice_sort_by_key(ex, f, a):
    it = _items(ex, a[0]); keys = [sort_key(ex, callf(ex, a[1], Ref(it, i))) for i in range(len(it))]
    idx = sorted(range(len(it)), key=lambda i: keys[i]); it[:] = [it[i] for i in idx]; return UNIT
@pattern(r'^(core::)?slice::<impl \[.*\]>::(sort_by|sort_unstable_by)')
def m_slice_sort_by(ex, f, a):
    import functools
    it = _items(ex, a[0])
    def cmp(x, y):
        hx, hy = [x], [y]; o = callf(ex, a[1], Ref(hx, 0), Ref(hy, 0)); return o.idx - 1
    it.sort(key=functools.cmp_to_key(cmp)); return UNIT
@pattern(r'^(core::)?slice::<impl \[.*\]>::(join|concat)')
def m_slice_join(ex, f, a):
    it = _items(ex, a[0]); sep = ex.deref(a[1]).chars if len(a) > 1 else []
    out = []
    for i, x in enumerate(it):
        if i: out.extend(sep)
        out.extend(ex.deref(x).chars)
    return Str(out)
@pattern(r'^core::slice::<impl \[.*\]>::windows$')
def m_slice_windows(ex, f, a):
    it = _items(ex, a[0]); n = a[1]
    if is_sym(n): n = ex.concretize(n, 'window size')
    if n == 0: raise Panic('window size must be non-zero')
    return Iter([PyVec(it[i:i + n]) for i in range(len(it) - n + 1)])
@pattern(r'^core::slice::<impl \[.*\]>::(starts_with|ends_with)$')
def m_slice_starts(ex, f, a):
    it, pre = _items(ex, a[0]), _items(ex, a[1])
    if len(pre) > len(it): return False
    seg = it[:len(pre)] if f.endswith('starts_with') else it[len(it) - len(pre):]
    return zand(*[veq(ex, x, y) for x, y in zip(seg, pre)])
@pattern(r'^core::slice::<impl \[.*\]>::binary_search$')
def m_slice_binary_search(ex, f, a):
    # std's algorithm on the slice as it is (a mis-sorted table gives std's answer, not the linear-search one)
    it = _items(ex, a[0]); x = ex.deref(a[1])
    size = len(it)
    if size == 0: return err(0)
    base = 0
    def cmp(i):
        o = m_ord(ex, '<T as Ord>::cmp', [Ref(it, i), x] if not isinstance(it[i], Ref) else [it[i], x]); return o.idx     # 0 Less 1 Equal 2 Greater
    while size > 1:
        half = size // 2; mid = base + half
        base = base if cmp(mid) == 2 else mid
        size -= half
    c = cmp(base)
    if c == 1: return ok(base)
    return err(base + (1 if c == 0 else 0))
@pattern(r'^core::array::<impl \[.*\]>::(map|as_slice|iter)')
def m_array(ex, f, a):
    if f.endswith('as_slice') or '::as_slice' in f: return a[0]
    if '::iter' in f: return as_iter(ex, a[0], True)
    t = a[0]; return Agg('array', 0, [callf(ex, a[1], x) for x in t.fields])
@pattern(r'^<(Vec<.*>|VecDeque<.*>) as Extend<.*>>::extend')
def m_vec_extend(ex, f, a):
    dst = ex.deref(a[0]); it = as_iter(ex, a[1])
    byref = '&' in generic_args(f.replace('>::extend', '>'))[-1] if False else False
    for x in it.drain(ex):
        dst.items.append(deep_clone(ex, ex.deref(x)) if isinstance(x, Ref) else x)
    return UNIT
@pattern(r'^<\[.*\] as ToOwned>::to_owned$|^<\[.*\]>::to_vec')
def m_slice_to_owned(ex, f, a): return PyVec([deep_clone(ex, x) for x in _items(ex, a[0])])

@pattern(r'^core::slice::<impl \[.*\]>::(chunks|chunks_exact)$')
def m_slice_chunks(ex, f, a):
    """<[T]>::chunks(n) / chunks_exact(n): consecutive sub-slices of n elements; chunks keeps the shorter remainder, chunks_exact drops it; n == 0 panics"""
    it = _items(ex, a[0]); n = a[1]
    if is_sym(n): n = ex.concretize(n, 'chunk size')
    n = int(n)
    if n == 0: raise Panic('chunk size must be non-zero')
    exact_ = f.rsplit('::', 1)[1].startswith('chunks_exact'); out = []
    for i in range(0, len(it), n):
        part = list(it[i:i + n])
        if len(part) < n and exact_: break
        out.append(PyVec(part))
    return Iter(out)

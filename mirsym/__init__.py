from . import engine, models, models_core, models_coll, models_rowan
from .engine import *
from .models import Iter, veq, str_eq, deep_clone
ALL_CRATES = ['lexer', 'diagnostics', 'common_defs', 'cst', 'ast', 'parser', 'compiler']
def load_world(mir_dir, crates=None):
    import os
    return World(mir_dir, crates or ALL_CRATES, os.path.join(mir_dir, 'doc'))

"""mirsym: a path-forking symbolic executor for rustc MIR (textual dump), deciding with z3.

Scalars are z3 integer/boolean terms (or Python ints when concrete); machine-width semantics are kept by
range-checked arithmetic (overflow-checks=on makes every `+ - *` a checked op followed by an assert edge; casts and
unchecked ops are range-analysed with the solver and make the run inconclusive when they could wrap).
Aggregates / boxes / vectors / strings are Python objects; a reference is a (container, key) handle.
Exploration: decision-replay DFS.  Every `choose` outcome is logged in a trace; a path is re-executed along its
trace prefix without solver calls and forks only at new decision points.
"""
import re, time, os
import z3
from . import mirtext as mt
from .typetab import TypeTab, TypeTabError, BUILTIN, Adt, ty_key

class Infeasible(Exception): pass
class Unsupported(Exception): pass           # => inconclusive run (exit 2), never a pass
class Panic(Exception): pass                 # a panic edge of the code under test was taken on this path
class Limit(Exception): pass                 # step / path limits => inconclusive

# ----------------------------------------------------------------------------- values
class Agg:
    __slots__ = ('ty', 'idx', 'fields')
    def __init__(s, ty, idx, fields): s.ty, s.idx, s.fields = ty, idx, list(fields)
    def __repr__(s): return 'Agg(%s,%s,%r)' % (s.ty, s.idx, s.fields)

class LazyEnum:
    """input value of enum type with a symbolic discriminant; fields are created when the code downcasts"""
    __slots__ = ('adt', 'd', 'depth', 'variants', 'spec', 'tag', 'subst')
    def __init__(s, adt, d, depth, spec, tag): s.adt, s.d, s.depth, s.spec, s.tag = adt, d, depth, spec, tag; s.variants = {}; s.subst = {}
    @property
    def ty(s): return s.adt.key
    def __repr__(s): return 'LazyEnum(%s,%s)' % (s.adt.name, s.tag)

class Str:
    __slots__ = ('chars',)
    def __init__(s, chars): s.chars = list(chars)
    def __repr__(s): return 'Str(%r)' % (''.join(chr(c) if isinstance(c, int) else '?' for c in s.chars),)

class PyVec:
    def __init__(s, items): s.items = list(items)
    def __repr__(s): return 'PyVec(%r)' % (s.items,)

class Ref:
    __slots__ = ('c', 'k')
    def __init__(s, c, k): s.c, s.k = c, k
    def get(s): return s.c[s.k]
    def set(s, v): s.c[s.k] = v
    def __repr__(s): return 'Ref(%r)' % (s.c[s.k],)

class Cell_:
    def __init__(s, v): s.v = v

class Opaque:
    def __init__(s, what, **kw): s.what = what; s.__dict__.update(kw)
    def __repr__(s): return 'Opaque(%s)' % s.what

class ClosureVal:
    def __init__(s, span, caps): s.span, s.caps, s.fields = span, caps, caps
    def __repr__(s): return 'Closure(%s)' % s.span

class FnItem:
    def __init__(s, path): s.path = path
    def __repr__(s): return 'FnItem(%s)' % s.path

class PyMap:      # insertion-ordered map model (IndexMap, BTreeMap by sorted view, HashMap with symbolic order)
    def __init__(s, kind='hash'): s.keys, s.vals, s.kind = [], [], kind
    def __repr__(s): return 'PyMap(%s,%r)' % (s.kind, list(zip(s.keys, s.vals)))

class PySet:
    def __init__(s, elems=(), kind='hash'): s.elems = list(elems); s.kind = kind
    def __repr__(s): return 'PySet(%s,%r)' % (s.kind, s.elems)

UNIT = Agg('tuple', 0, [])
def is_sym(v): return isinstance(v, z3.ExprRef)
def zi(v):
    if is_sym(v): return v
    if isinstance(v, bool): return z3.BoolVal(v)
    return z3.IntVal(int(v))
def znot(v): return z3.Not(v) if is_sym(v) else (not v)
def zand(*xs):
    xs = [x for x in xs if x is not True]
    if any(x is False for x in xs): return False
    if not xs: return True
    return xs[0] if len(xs) == 1 else z3.And(*[zi(x) for x in xs])
def zor(*xs):
    xs = [x for x in xs if x is not False]
    if any(x is True for x in xs): return True
    if not xs: return False
    return xs[0] if len(xs) == 1 else z3.Or(*[zi(x) for x in xs])
def mkstr(t): return Str([ord(c) for c in t])
def pystr(v):
    """concrete python string of a Str (raises if symbolic chars)"""
    out = []
    for c in v.chars:
        if is_sym(c): raise Unsupported('symbolic char in concrete string context')
        out.append(chr(c))
    return ''.join(out)
def copyval(v):
    if isinstance(v, Agg): return Agg(v.ty, v.idx, [copyval(f) for f in v.fields])
    return v
def mkbox(v): return Agg('Box', 0, [Agg('Unique', 0, [Agg('NonNull', 0, [Ref([v], 0)]), UNIT]), UNIT])
def unbox_ref(b):
    r = b.fields[0].fields[0].fields[0]
    if not isinstance(r, Ref): raise Unsupported('box without cell: %r' % (b,))
    return r
def unbox(b): return unbox_ref(b).get()
def some(v): return Agg('Option', 1, [v])
NONE = lambda: Agg('Option', 0, [])
def ok(v): return Agg('Result', 0, [v])
def err(v): return Agg('Result', 1, [v])

INT_RANGES = {'u8': (0, 2**8 - 1), 'u16': (0, 2**16 - 1), 'u32': (0, 2**32 - 1), 'u64': (0, 2**64 - 1), 'u128': (0, 2**128 - 1), 'usize': (0, 2**64 - 1),
              'i8': (-2**7, 2**7 - 1), 'i16': (-2**15, 2**15 - 1), 'i32': (-2**31, 2**31 - 1), 'i64': (-2**63, 2**63 - 1), 'i128': (-2**127, 2**127 - 1),
              'isize': (-2**63, 2**63 - 1), 'char': (0, 0x10FFFF), 'bool': (0, 1)}

def wrap_int(v, ty):
    lo, hi = INT_RANGES[ty]; m = hi - lo + 1
    return (v - lo) % m + lo

# ----------------------------------------------------------------------------- world
_IMPL_AT = re.compile(r'<impl at ([^:>]+):(\d+):(\d+): (\d+):(\d+)>')

class World:
    def __init__(self, mir_dir, crates, doc_dir=None, src_root=None):
        self.files = {}; self.tt = TypeTab(); self.src_root = src_root
        for c in crates:
            self.files[c] = mt.MirFile(c, open(os.path.join(mir_dir, c + '.mir')).read())
            if doc_dir and os.path.exists(os.path.join(doc_dir, c + '.json')): self.tt.load(c, os.path.join(doc_dir, c + '.json'))
        # rustc prints a path through whichever `use .. as Alias` of ANY workspace crate it finds first (seen: `DiagnosticStage::other` in compiler.mir,
        # an alias declared in the parser crate): read the renaming imports of the crates that are not loaded, too
        if doc_dir and os.path.isdir(doc_dir):
            import json as _json
            for fn_ in sorted(os.listdir(doc_dir)):
                if not fn_.endswith('.json') or fn_[:-5] in crates: continue
                try: idx = _json.load(open(os.path.join(doc_dir, fn_)))['index']
                except Exception: continue
                for it in idx.values():
                    u = it['inner'].get('use') if isinstance(it.get('inner'), dict) else None
                    if u and u.get('name') and u.get('source') and u['name'] != u['source'].split('::')[-1] and not u.get('is_glob'):
                        self.tt.aliases.setdefault(u['name'], u['source'].split('::')[-1])
        self.free = {}          # body name -> [(crate, name)]
        self.methods = {}       # method name -> [(crate, body name, Impl)]
        self.closures = {}      # closure span -> (crate, body name)
        self.consts = {}        # const name -> [(crate, name)]
        for c, f in self.files.items():
            for name in f.names():
                st, en, kind = f.spans[name]
                if kind != 'fn':
                    self.consts.setdefault(name, []).append((c, name)); continue
                ms = list(_IMPL_AT.finditer(name))
                if '{closure#' in name or '{closure@' in name:
                    head = f.text[st:f.text.index('\n', st)]
                    m = re.search(r'\(_1: (?:&mut |&)?\{closure@([^}]+)\}', head)
                    if m: self.closures[m.group(1)] = (c, name)
                    continue
                if ms:
                    last = ms[-1]; rest = name[last.end():]
                    if re.fullmatch(r'::\w+', rest):
                        im = self.tt.impl_at(last.group(1), int(last.group(2)), int(last.group(3)))
                        if im is None and name[:last.start()].rstrip(':') and re.search(r'(^|::)[a-z_]\w*::$', name[:last.start()]):
                            # an impl block local to a function body is not in the rustdoc output: inherent impl, self type read from the receiver
                            head = f.text[st:f.text.index('\n', st)]
                            mm = re.search(r'\(_1: (?:&mut |&)?([\w:]+)', head)
                            if mm:
                                from .typetab import Impl
                                im = Impl(); im.crate = c; im.file = last.group(1); im.line = int(last.group(2)); im.col = int(last.group(3)); im.self_ty = None
                                im.trait = None; im.trait_args = None; im.methods = []; im.self_key = mm.group(1).split('::')[-1]; im.self_adt = None; im.generics = []
                        self.methods.setdefault(rest[2:], []).append((c, name, im))
                    continue
                self.free.setdefault(name, []).append((c, name))
        self._macro_impls()
        self.impl_of = {}
        for meth, lst in self.methods.items():
            for c, key, im in lst: self.impl_of[(c, key)] = im
        self.res_cache = {}; self.const_vals = {}
        self.solver = z3.Solver(); self.queries = 0; self.solver_time = 0.0
        self.step_limit = 400000; self.bodies_run = set(); self.models_used = set(); self.steps_total = 0
        self.stubs = {}
        self.hash_order = 'insertion'          # or 'symbolic': iteration order of std hash containers is chosen by the solver

    def body(self, ref): return self.files[ref[0]].body(ref[1])

    def _macro_impls(self):
        """bodies of impls generated by one macro share their `<impl at ..>` name (MirFile keeps them as name@@k).  The dump prints the
        methods of one impl consecutively, so the instances are recovered by file order and their self type from the method headers
        (`cast(..) -> Option<X>`, `syntax(_1: &X)`, `fmt(_1: &X, ..)`).  This association is validated by the differential self-test."""
        from .typetab import Impl
        for c, f in self.files.items():
            groups = {}                                 # impl prefix -> list of instances {method: key}
            for key in f.order:
                if f.spans[key][2] != 'fn': continue
                base = key.split('@@')[0]
                ms_ = list(_IMPL_AT.finditer(base))
                if not ms_: continue
                last = ms_[-1]; rest = base[last.end():]
                if not re.fullmatch(r'::\w+', rest): continue
                prefix = base[:last.end()]; meth = rest[2:]
                g = groups.setdefault(prefix, [])
                if not g or meth in g[-1]: g.append({})
                g[-1][meth] = key
            for prefix, insts in groups.items():
                if len(insts) < 2: continue
                for inst in insts:
                    selfty = None; trait = None
                    for meth, key in inst.items():
                        st, en, _k = f.spans[key]; head = f.text[st:f.text.index('\n', st)]
                        if meth == 'cast':
                            m = re.search(r'-> (?:std::option::)?Option<(.+)> \{$', head)
                            if m: selfty = m.group(1); trait = 'CstNode'
                        elif meth in ('syntax', 'fmt') and selfty is None:
                            m = re.search(r'\(_1: &(?:mut )?([\w:]+)', head)
                            if m: selfty = m.group(1); trait = 'CstNode' if meth == 'syntax' else 'Display'
                    if selfty is None: continue
                    if 'fmt' in inst and 'cast' not in inst: trait = 'Display'
                    name = selfty.split('::')[-1]
                    im = Impl(); im.crate = c; im.file = ''; im.line = im.col = 0; im.self_ty = None; im.trait = trait; im.trait_args = None
                    im.methods = list(inst); im.self_key = name; im.self_adt = None; im.generics = []
                    cands = [a for a in self.tt.by_name.get(name, []) if a.crate == c]
                    if len(cands) == 1: im.self_adt = cands[0]
                    for meth, key in inst.items():
                        lst = self.methods.setdefault(meth, [])
                        lst[:] = [h for h in lst if not (h[0] == c and h[1] == key)]
                        # drop the ambiguous span-based registration of the shared name
                        lst[:] = [h for h in lst if not (h[0] == c and h[1] == key.split('@@')[0] and h[2] is not None and h[2].self_key != name and '@@' not in key)]
                        lst.append((c, key, im))

    # ---------------------------------------------------------------- call-site -> body
    def resolve(self, callee, from_crate):
        key = (callee, from_crate)
        if key in self.res_cache: return self.res_cache[key]
        r = self._resolve(callee, from_crate); self.res_cache[key] = r; return r

    def _pick(self, hits, from_crate, what):
        if not hits: return None
        if len(hits) == 1: return hits[0][:2]
        h2 = [h for h in hits if h[0] == from_crate]
        if len(h2) == 1: return h2[0][:2]
        raise Unsupported('ambiguous call target %s: %s' % (what, [h[1] for h in hits][:6]))

    def _resolve(self, callee, from_crate):
        c = mt.strip_lifetimes(callee)
        g = mt.strip_generics(c)
        if g in self.free:
            return self._pick(self.free[g], from_crate, g)
        segs = [x for x in split_path(g)]
        if len(segs) >= 2 and segs[0] in self.files and not g.startswith('<'):
            tail = '::'.join(segs[1:])
            for k in range(1, len(segs)):
                t = '::'.join(segs[k:])
                hits = [h for h in self.free.get(t, []) if h[0] == segs[0]]
                if len(hits) == 1: return hits[0]
        if g.startswith('<') :
            d = mt.depths(g); close = None
            for i, ch in enumerate(g):
                if ch == '>' and d[i + 1] == 0 and g[i - 1] not in '-=': close = i; break
            if close is None: return None
            inner = g[1:close]; rest = g[close + 1:]
            m = re.fullmatch(r'::(\w+)', rest)
            if not m: return None
            meth = m.group(1)
            k = mt.find_top(inner, ' as ')
            if k == -1: return None
            sty, tr = inner[:k].strip(), inner[k + 4:].strip()
            cg = mt.strip_lifetimes(callee); cd = mt.depths(cg); ck = mt.find_top(cg, ' as ', 0, cd)
            # trait with its generic args (from the un-stripped text) for From<X>-style disambiguation
            trait_full = None
            if ck != -1:
                e = ck + 4; dd = cd
                j = e
                while j < len(cg) and not (cg[j] == '>' and dd[j + 1] == 0 and cg[j - 1] not in '-='): j += 1
                trait_full = cg[e:j]
            return self._find_method(sty, tr.split('::')[-1], meth, from_crate, trait_full)
        if len(segs) >= 2:
            meth = segs[-1]; ty = segs[-2]
            m = re.fullmatch(r'<impl (.+)>', ty)
            quals = segs[:-2]
            if m:
                # `module::<impl Type>::method`: the qualifier names the module of the impl block, not of the type
                ty = m.group(1)
                r = self._find_method(ty, None, meth, from_crate, None, impl_mod='::'.join(quals))
            else:
                r = self._find_method('::'.join(quals + [ty]), None, meth, from_crate, None)
            if r is not None: return r
            if segs[0] in ('std', 'core', 'alloc') or any(x.startswith('<') for x in segs): return None      # never fall back for library paths
            for k in range(1, len(segs)):           # a longer path than the trimmed one MIR printed for the definition
                if any(not x or x[0].isupper() for x in segs[:k]): break        # only module / crate segments may be dropped, never a type
                hits = self.free.get('::'.join(segs[k:]), [])
                if hits: return self._pick(hits, from_crate, g)
            return None
        hits = self.free.get(g, [])
        return self._pick(hits, from_crate, g)

    def _find_method(self, sty, trait, meth, from_crate, trait_full, impl_mod=None):
        refs = ''
        while sty.startswith('&'):
            refs += '&'; sty = sty[1:].strip()
            if sty.startswith('mut '): sty = sty[4:]
        tsegs = split_path(mt.strip_generics(sty)) if re.match(r'[\w:]+', sty) else [sty]
        tsegs = [re.sub(r'<.*>$', '', x) if re.match(r'\w+<', x) else x for x in tsegs]      # `Type<Args>` -> `Type`
        last = tsegs[-1].replace(' ', '')
        if last in self.tt.aliases and last not in self.tt.by_name: last = self.tt.aliases[last]; tsegs = [last]
        skey = refs + last
        cands = [h for h in self.methods.get(meth, []) if h[2] is not None and h[2].trait == trait and h[2].self_key.replace(' ', '') == skey]
        if cands and len(tsegs) > 1:
            quals = tsegs[:-1]
            def ok(h):
                a = h[2].self_adt
                if a is None: return False
                p = a.path[:-1]; i = 0
                for q in quals:
                    while i < len(p) and p[i] != q: i += 1
                    if i == len(p): return False
                    i += 1
                return True
            c2 = [h for h in cands if ok(h)]
            if c2: cands = c2
            elif quals[0] in ('std', 'core', 'alloc') or quals[0] not in self.files: cands = []      # e.g. std::path::Path is not hir::Path
        if len(cands) > 1 and impl_mod:
            c2 = [h for h in cands if h[1].startswith(impl_mod + '::<impl at') or ('/' + impl_mod.split('::')[-1] + '.rs') in h[1]]
            if c2: cands = c2
        if len(cands) > 1 and trait_full and '<' in trait_full:
            inner = trait_full[trait_full.index('<') + 1:-1] if trait_full.endswith('>') else ''
            want = [arg_key(x) for x in mt.split_top(inner)] if inner else []
            def okargs(h):
                ta = h[2].trait_args
                if not ta or 'angle_bracketed' not in ta: return False
                have = [ty_key(a['type']) for a in ta['angle_bracketed']['args'] if 'type' in a]
                return [x.replace(' ', '') for x in have] == [x.replace(' ', '') for x in want]
            c2 = [h for h in cands if okargs(h)]
            if c2: cands = c2
        if len(cands) > 1:
            c2 = [h for h in cands if h[0] == from_crate]
            if len(c2) >= 1 and len(set(h[1] for h in c2)) == 1: cands = c2[:1]
        if not cands: return None
        if len(set(h[1] for h in cands)) > 1:
            # items nested inside a method body (e.g. serde's __SerializeWith helper impls) carry the outer name as a prefix
            outer = [h for h in cands if all(o[1] == h[1] or o[1].startswith(h[1] + '::') for o in cands)]
            if outer: cands = outer[:1]
        if len(set(h[1] for h in cands)) > 1:
            raise Unsupported('ambiguous method %s::%s (trait %s): %s' % (sty, meth, trait, [h[1] for h in cands][:5]))
        return cands[0][:2]

    def promoted(self, ref, n):
        """the promoted constant #n of body `ref`: printed right after that body in the dump"""
        f = self.files[ref[0]]
        oi = f.__dict__.setdefault('order_index', None)
        if oi is None: oi = f.order_index = {k: i for i, k in enumerate(f.order)}
        i = oi.get(ref[1])
        if i is None: return None
        want = '::promoted[%d]' % n
        for k in f.order[i + 1:i + 40]:
            if f.spans[k][2] == 'fn': break
            if k.split('@@')[0].endswith(want): return (ref[0], k)
        return None

    def call_subst(self, callee, ref):
        """type-parameter substitution for executing the (polymorphic) body `ref` when called as `callee`"""
        c = mt.strip_lifetimes(callee); out = {}
        im = self.impl_of.get(ref)
        if im is not None and getattr(im, 'generics', None) and im.self_ty and c.startswith('<'):
            d = mt.depths(c)
            for i in range(len(c)):
                if c.startswith(' as ', i) and d[i] == 1:
                    sty = c[1:i]; break
            else: sty = None
            if sty is None:
                close = [i for i, ch in enumerate(c) if ch == '>' and d[i + 1] == 0]
                sty = c[1:close[0]] if close else None
            t = im.self_ty
            while t and 'borrowed_ref' in t: t = t['borrowed_ref']['type']
            if sty and t and 'resolved_path' in t:
                decl = [a['type'] for a in ((t['resolved_path'].get('args') or {}).get('angle_bracketed', {}).get('args', [])) if 'type' in a]
                actual = type_args_of(sty.lstrip('&').replace('mut ', '', 1) if sty.startswith('&') else sty)
                for dj, act in zip(decl, actual):
                    if 'generic' in dj and dj['generic'] in im.generics: out[dj['generic']] = act
        elif im is not None and getattr(im, 'generics', None) and im.self_ty and not c.startswith('<'):
            # inherent: `Type::<A>::method` / `module::Type::<A>::method`
            g = c.rsplit('::', 1)[0]
            actual = type_args_of(g.replace('::<', '<')) if g.endswith('>') else []
            t = im.self_ty
            if t and 'resolved_path' in t:
                decl = [a['type'] for a in ((t['resolved_path'].get('args') or {}).get('angle_bracketed', {}).get('args', [])) if 'type' in a]
                for dj, act in zip(decl, actual):
                    if 'generic' in dj: out[dj['generic']] = act
        # function-level generics from the turbofish
        if c.endswith('>') and '::<' in c:
            d = mt.depths(c); j = len(c) - 1; k = j
            while k >= 0 and not (c[k] == '<' and d[k] == d[j + 1]): k -= 1
            if k >= 2 and c[k - 2:k] == '::':
                actual = [x for x in mt.split_top(c[k + 1:j]) if not x.startswith("'")]
                fname = split_path(mt.strip_generics(c))[-1]
                cands = self.tt.fn_generics.get((ref[0], fname), [])
                cands = [g for g in cands if len(g) == len(actual)] or [g for g in cands if len(g) <= len(actual)]
                if len(set(map(tuple, cands))) == 1:
                    for name, act in zip(cands[0], actual): out.setdefault(name, act)
        return out

    def const_ref(self, name, from_crate):
        g = mt.strip_generics(mt.strip_lifetimes(name))
        hits = self.consts.get(g)
        if not hits:
            segs = split_path(g)
            for k in range(1, len(segs)):
                t = '::'.join(segs[k:])
                hits = self.consts.get(t)
                if hits: break
            if not hits:
                tail = segs[-1]
                hits = [h for n, hs in self.consts.items() if n == tail or n.endswith('::' + tail) for h in hs]
                if len(segs) >= 2:
                    h2 = [h for h in hits if h[1].endswith('::'.join(segs[-2:]))]
                    if h2: hits = h2
        if not hits: return None
        if len(hits) > 1:
            h2 = [h for h in hits if h[0] == from_crate]
            if len(h2) == 1: return h2[0]
            if segs_first_is_crate(g, self.files):
                h3 = [h for h in hits if h[0] == split_path(g)[0]]
                if len(h3) == 1: return h3[0]
            raise Unsupported('ambiguous const %s: %s' % (name, hits[:5]))
        return hits[0]

def type_args_of(t):
    """top-level generic arguments of a printed type `Name<A, B>` (also `path::Name::<A>`) -> [A, B]"""
    t = t.strip()
    if not t.endswith('>'): return []
    d = mt.depths(t); j = len(t) - 1; k = j
    while k >= 0 and not (t[k] == '<' and d[k] == d[j + 1]): k -= 1
    if k <= 0: return []
    return [x for x in mt.split_top(t[k + 1:j]) if not x.startswith("'")]

def apply_subst(text, subst):
    if not subst: return text
    for name, val in subst.items():
        text = re.sub(r'(?<![\w:])%s(?![\w])' % re.escape(name), val, text)
    return text

def segs_first_is_crate(g, files):
    s = split_path(g); return bool(s) and s[0] in files

def split_path(g):
    """split a generics-stripped path at top-level `::`"""
    out = []; cur = ''; depth = 0; i = 0
    while i < len(g):
        ch = g[i]
        if ch in '<([{': depth += 1
        elif ch in ')]}' or (ch == '>' and g[i - 1] not in '-='): depth -= 1
        if depth == 0 and g.startswith('::', i):
            out.append(cur); cur = ''; i += 2; continue
        cur += ch; i += 1
    if cur: out.append(cur)
    return out

def arg_key(t):
    t = mt.strip_generics(mt.strip_lifetimes(t.strip()))
    refs = ''
    while t.startswith('&'):
        refs += '&'; t = t[1:].strip()
        if t.startswith('mut '): t = t[4:]
    return refs + split_path(t)[-1]

def type_head(tytext):
    """(refs, path segments without generics) of a printed type"""
    t = mt.strip_lifetimes(tytext.strip()); refs = 0
    while t.startswith('&'):
        refs += 1; t = t[1:].strip()
        if t.startswith('mut '): t = t[4:]
    return refs, split_path(mt.strip_generics(t))

# ----------------------------------------------------------------------------- unary-constraint propagation
def unary_set(c):
    """if c constrains a single uninterpreted Int/Bool constant to a finite set: (var, frozenset, positive) else None"""
    k = c.decl().kind()
    if k == z3.Z3_OP_EQ:
        a, b = c.arg(0), c.arg(1)
        if z3.is_int_value(b) and a.decl().kind() == z3.Z3_OP_UNINTERPRETED and a.num_args() == 0: return (a, frozenset([b.as_long()]), True)
        if z3.is_int_value(a) and b.decl().kind() == z3.Z3_OP_UNINTERPRETED and b.num_args() == 0: return (b, frozenset([a.as_long()]), True)
        return None
    if k == z3.Z3_OP_UNINTERPRETED and c.num_args() == 0 and z3.is_bool(c): return (c, frozenset([1]), True)
    if k == z3.Z3_OP_NOT:
        r = unary_set(c.arg(0))
        return None if r is None else (r[0], r[1], not r[2])
    if k == z3.Z3_OP_OR:
        var = None; vals = set()
        for i in range(c.num_args()):
            r = unary_set(c.arg(i))
            if r is None or not r[2]: return None
            if var is None: var = r[0]
            elif not var.eq(r[0]): return None
            vals |= r[1]
        return (var, frozenset(vals), True) if var is not None else None
    if k == z3.Z3_OP_AND:
        var = None; neg = set()
        for i in range(c.num_args()):
            r = unary_set(c.arg(i))
            if r is None or r[2]: return None
            if var is None: var = r[0]
            elif not var.eq(r[0]): return None
            neg |= r[1]
        return (var, frozenset(neg), False) if var is not None else None
    return None

def _vars_of(c, acc):
    if c.decl().kind() == z3.Z3_OP_UNINTERPRETED and c.num_args() == 0: acc.add(c.get_id()); return
    for i in range(c.num_args()): _vars_of(c.arg(i), acc)

# ----------------------------------------------------------------------------- executor
class Exec:
    def __init__(s, W, assumptions, trace):
        s.W = W; s.trace = list(trace); s.tpos = 0; s.pending = []; s.pc = []
        s.steps = 0; s.stack = []; s.assumptions = assumptions
        s.solver = W.solver
        s.solver.push()
        s.upc = []
        s.dom = {}; s.entangled = set()
        for a in assumptions: s._add(a)
        s.fresh = 0; s.notes = {}; s.tsubst = [{}]; s.refs = []

    def close(s): s.solver.pop()

    # ---- finite domains: unary constraints on plain z3 constants are kept as Python sets (s.dom) and handed to z3 only
    #      when the variable first occurs in a relational constraint or query ("materialised").  Pure propagation: the
    #      answers are exactly those z3 would give, without building thousands of `d == k` terms.
    def _ucache(s, c):
        cache = s.W.__dict__.setdefault('ucache', {})
        k = c.get_id(); e = cache.get(k)
        if e is None or not e[0].eq(c):
            u = unary_set(c); vs = set()
            if u is None: _vars_of(c, vs)
            e = (c, u, vs); cache[k] = e
        return e[1], e[2]

    def dom_constraint(s, vid):
        var, kind, vals = s.dom[vid]
        if z3.is_bool(var):
            allowed = ({0, 1} & vals) if kind == 'in' else ({0, 1} - vals)
            if allowed == {0, 1}: return None
            if not allowed: return z3.BoolVal(False)
            return var if allowed == {1} else z3.Not(var)
        if kind == 'in':
            vs = sorted(vals)
            if not vs: return z3.BoolVal(False)
            if vs[-1] - vs[0] + 1 == len(vs): return z3.And(var >= vs[0], var <= vs[-1]) if len(vs) > 1 else var == vs[0]
            return z3.Or(*[var == x for x in vs])
        return z3.And(*[var != x for x in sorted(vals)]) if vals else None

    def materialise(s, vids):
        for vid in vids:
            if vid in s.dom and vid not in s.entangled:
                c = s.dom_constraint(vid)
                if c is not None: s.solver.add(c); s.pc.append(c)
            s.entangled.add(vid)

    def _apply_unary(s, u):
        var, vals, pos = u; vid = var.get_id(); cur = s.dom.get(vid)
        if pos:
            if cur is None: s.dom[vid] = (var, 'in', set(vals))
            elif cur[1] == 'in': cur[2].intersection_update(vals)
            else: s.dom[vid] = (var, 'in', set(vals) - cur[2])
        else:
            if cur is None: s.dom[vid] = (var, 'notin', set(vals))
            elif cur[1] == 'in': cur[2].difference_update(vals)
            else: cur[2].update(vals)

    def _add(s, c):
        """add constraint c to the path condition"""
        if c is True: return
        u, vs = s._ucache(c)
        if u is not None and u[0].get_id() not in s.entangled:
            s._apply_unary(u); s.upc.append(c); return
        s.materialise(vs if u is None else [u[0].get_id()])
        s.pc.append(c); s.solver.add(c)

    def restrict(s, var, values):
        """var in values (finite set) - no z3 term is built unless the variable gets entangled later"""
        vid = var.get_id()
        if vid in s.entangled:
            c = z3.Or(*[var == x for x in sorted(values)]); s.pc.append(c); s.solver.add(c); return
        s._apply_unary((var, frozenset(values), True))

    def _fd_feasible(s, u):
        var, vals, pos = u; cur = s.dom.get(var.get_id())
        if z3.is_bool(var):
            allowed = {0, 1}
            if cur is not None: allowed = (allowed & cur[2]) if cur[1] == 'in' else (allowed - cur[2])
            return bool((allowed & vals) if pos else (allowed - vals))
        if cur is None: return bool(vals) if pos else True
        if cur[1] == 'in': return bool(cur[2] & vals) if pos else bool(cur[2] - vals)
        return bool(vals - cur[2]) if pos else True

    def feasible(s, c):
        u, vs = s._ucache(c)
        if u is not None and u[0].get_id() not in s.entangled:
            s.W.fast_decisions = getattr(s.W, 'fast_decisions', 0) + 1
            return s._fd_feasible(u)
        s.materialise(vs if u is None else [u[0].get_id()])
        s.W.queries += 1; t = time.time()
        r = s.solver.check(c)
        s.W.solver_time += time.time() - t
        if r == z3.unknown: raise Unsupported('z3 unknown')
        return r == z3.sat

    def full_pc(s):
        """path condition as z3 formulas, including the finite-domain part"""
        out = list(s.pc)
        for vid in s.dom:
            if vid in s.entangled: continue
            c = s.dom_constraint(vid)
            if c is not None: out.append(c)
        return out

    def choose_fd(s, var, groups, has_rest):
        """switch on a plain (un-entangled) z3 constant.  groups: [(frozenset of values, payload)]; if has_rest the last
        group's value set is ignored and stands for every other value."""
        vid = var.get_id(); cur = s.dom.get(vid)
        listed = set()
        for vals, _ in (groups[:-1] if has_rest else groups): listed |= vals
        def feas(i):
            if has_rest and i == len(groups) - 1: return s._fd_feasible((var, frozenset(listed), False))
            return s._fd_feasible((var, groups[i][0], True))
        def take(i):
            if has_rest and i == len(groups) - 1: s._apply_unary((var, frozenset(listed), False))
            else: s._apply_unary((var, groups[i][0], True))
            return groups[i][1]
        if s.tpos < len(s.trace):
            k = s.trace[s.tpos]; s.tpos += 1; return take(k)
        fe = [i for i in range(len(groups)) if feas(i)]
        s.W.fast_decisions = getattr(s.W, 'fast_decisions', 0) + len(groups)
        if not fe: raise Infeasible()
        prefix = s.trace[:s.tpos]
        for alt in fe[1:]: s.pending.append(prefix + [alt])
        s.trace.append(fe[0]); s.tpos += 1
        return take(fe[0])

    def assume(s, c):
        """add a path-local constraint (e.g. range of a freshly created symbolic value)"""
        if c is True: return
        if c is False: raise Infeasible()
        s._add(c)

    def choose(s, options, exhaustive=False):
        """options: [(cond, payload)]; returns the payload of the option taken on this path"""
        if s.tpos < len(s.trace):
            k = s.trace[s.tpos]; s.tpos += 1
            c, t = options[k]
            s._add(c)
            return t
        cand = [i for i, (c, _) in enumerate(options) if c is not False]
        feas = []
        for n, i in enumerate(cand):
            c = options[i][0]
            if c is True: feas.append(i)
            elif exhaustive and not feas and n == len(cand) - 1: feas.append(i)
            elif s.feasible(c): feas.append(i)
        if not feas: raise Infeasible()
        prefix = s.trace[:s.tpos]
        for alt in feas[1:]: s.pending.append(prefix + [alt])
        k = feas[0]; s.trace.append(k); s.tpos += 1
        c, t = options[k]
        s._add(c)
        return t

    def branch_bool(s, v):
        if not is_sym(v): return bool(v)
        v = z3.simplify(v)
        if z3.is_true(v): return True
        if z3.is_false(v): return False
        return s.choose([(v, True), (z3.Not(v), False)], exhaustive=True)

    def concretize(s, v, what='value'):
        """fork over the feasible concrete values of an integer term (small domains only)"""
        if not is_sym(v): return v
        v = z3.simplify(v)
        if z3.is_int_value(v): return v.as_long()
        vals = []
        if s.tpos < len(s.trace):
            # replay: the option list must be rebuilt identically -> enumerate again (deterministic order)
            pass
        s.solver.push()
        try:
            while len(vals) <= 64:
                if s.solver.check() != z3.sat: break
                m = s.solver.model(); x = m.eval(v, True).as_long(); vals.append(x); s.solver.add(v != x)
        finally:
            s.solver.pop()
        if len(vals) > 64: raise Unsupported('concretize: domain too large for ' + what)
        vals.sort()
        return s.choose([(v == x, x) for x in vals], exhaustive=True)

    def fresh_int(s, name, lo=None, hi=None):
        s.fresh += 1
        v = z3.Int('%s!%d' % (name, s.fresh))
        if lo is not None: s.assume(v >= lo)
        if hi is not None: s.assume(v <= hi)
        return v

    # ---------------------------------------------------------------- places
    def slot(s, frame, p):
        k = p[0]
        if k == 'local': return frame, p[1]
        if k == 'deref':
            c, kk = s.slot(frame, p[1]); r = c[kk]
            if isinstance(r, Ref): return r.c, r.k
            if isinstance(r, Agg) and r.ty == 'Box':
                rr = unbox_ref(r); return rr.c, rr.k
            if isinstance(r, (PyVec, Str, PyMap, PySet)): return c, kk          # unsized / by-handle values
            if isinstance(r, Opaque) and hasattr(r, 'bs'): return c, kk            # byte-string constant (&[u8; N]): by handle
            raise Unsupported('deref of %r' % (r,))
        if k == 'downcast':
            c, kk = s.slot(frame, p[1]); v = c[kk]
            if isinstance(v, LazyEnum): return s.lazy_variant(v, p[2]), None
            return c, kk
        if k == 'field':
            base = p[1]
            if base[0] == 'downcast':
                c, kk = s.slot(frame, base[1]); v = c[kk]
                if isinstance(v, LazyEnum): return s.lazy_variant(v, base[2]), p[2]
            else:
                c, kk = s.slot(frame, base); v = c[kk]
            if isinstance(v, (Agg, ClosureVal)):
                if p[2] >= len(v.fields): raise Unsupported('field %d of %r' % (p[2], v))
                return v.fields, p[2]
            if isinstance(v, LazyEnum) and v.adt.kind == 'struct': return s.lazy_variant(v, v.adt.name), p[2]
            raise Unsupported('field .%d of %r (in %s)' % (p[2], v, s.stack[-1] if s.stack else '?'))
        if k == 'index':
            c, kk = s.slot(frame, p[1]); v = c[kk]; i = frame[p[2]]
            items = v.items if isinstance(v, PyVec) else (v.chars if isinstance(v, Str) else v.fields)
            if is_sym(i): i = s.concretize(i, 'index')
            if i >= len(items) or i < 0: raise Panic('index out of bounds')
            return items, i
        if k == 'cindex':
            c, kk = s.slot(frame, p[1]); v = c[kk]
            items = v.items if isinstance(v, PyVec) else v.fields
            i = len(items) - p[2] if p[4] else p[2]
            if i >= len(items): raise Panic('constant index out of bounds')
            return items, i
        raise Unsupported('place %r' % (p,))

    def lazy_variant(s, v, vname):
        idx = v.adt.vindex(vname)
        f = v.variants.get(idx)
        if f is None:
            f = v.spec.fields(s, v, idx); v.variants[idx] = f
        return f

    def read(s, frame, p):
        c, k = s.slot(frame, p)
        if k is None: raise Unsupported('read of bare downcast')
        try: return c[k]
        except KeyError: raise Unsupported('read of unset local %r in %s' % (p, s.stack[-1] if s.stack else '?'))

    def write(s, frame, p, v):
        c, k = s.slot(frame, p); c[k] = v

    def deref_ref(s, v):
        while isinstance(v, Ref): v = v.get()
        return v

    def deref(s, v):
        while True:
            if isinstance(v, Ref): v = v.get()
            elif isinstance(v, Agg) and v.ty == 'Box': v = unbox(v)
            else: return v

    # ---------------------------------------------------------------- constants / operands
    def const(s, c, body, hint=None):
        k = c[0]
        if k == 'int': return c[1]
        if k == 'bool': return c[1]
        if k == 'char': return c[1]
        if k == 'str': return Str(c[1])
        if k == 'bytes': return Opaque('bytes', bs=list(c[1]))
        if k == 'unit': return UNIT
        if k == 'float':
            t = c[1]; sort = z3.Float32() if t.endswith('f32') else z3.Float64(); body = t[:-3]
            if body in ('inf', '-inf', 'NaN'): return {'inf': z3.fpPlusInfinity, '-inf': z3.fpMinusInfinity, 'NaN': z3.fpNaN}[body](sort)
            return z3.FPVal(float(body), sort)
        if k == 'zst':
            t = c[1]
            if t.startswith('{closure@'): return ClosureVal(t[9:t.index('}')], [])
            return s.path_const(t, body, hint, zst=True)
        if k == 'path': return s.path_const(c[1], body, hint)
        raise Unsupported('const %r' % (c,))

    def path_const(s, text, body, hint=None, zst=False):
        W = s.W
        if s.tsubst[-1]: text = apply_subst(text, s.tsubst[-1])
        g = mt.strip_generics(mt.strip_lifetimes(text))
        if g.startswith('fn(') or g.startswith('for<'):
            m = re.search(r'\{([^{}]+)\}$', g)
            if m: return FnItem(m.group(1))
        mp = re.search(r'::promoted\[(\d+)\]$', text)
        if mp and s.refs:
            pr = W.promoted(s.refs[-1], int(mp.group(1)))
            if pr is not None: return s.eval_const(pr)
        ref = W.const_ref(text, body.crate)
        if ref is not None: return s.eval_const(ref)
        m = re.fullmatch(r'(?:core::|std::)?(f32|f64)::(?:<impl f(?:32|64)>::)?(MAX|MIN|INFINITY|NEG_INFINITY|NAN)', g)
        if m:
            sort = z3.Float32() if m.group(1) == 'f32' else z3.Float64()
            mx = 3.4028234663852886e38 if m.group(1) == 'f32' else 1.7976931348623157e308
            return {'MAX': z3.FPVal(mx, sort), 'MIN': z3.FPVal(-mx, sort), 'INFINITY': z3.fpPlusInfinity(sort), 'NEG_INFINITY': z3.fpMinusInfinity(sort), 'NAN': z3.fpNaN(sort)}[m.group(2)]
        m = re.fullmatch(r'core::num::<impl (\w+)>::(MAX|MIN)', g)
        if m: return INT_RANGES[m.group(1)][1 if m.group(2) == 'MAX' else 0]
        if re.fullmatch(r'(std|core)::(u8|u16|u32|u64|usize|i8|i16|i32|i64|isize|char)::(MAX|MIN)', g):
            t, w = g.split('::')[1:]; return INT_RANGES[t][1 if w == 'MAX' else 0]
        if W.resolve(text, body.crate) is not None: return FnItem(text)
        # unit variant / unit struct / tuple-variant constructor used as a function
        if '(' in g and g.endswith(')') and not g.startswith('<'):
            # constant aggregate e.g.  Result::<Infallible, Error>::Err(std::fmt::Error)
            return Opaque('constagg', text=g)
        segs = split_path(g)
        try:
            fv = W.tt.find_variant(segs, body.crate, s.hint_adt(hint, body))
        except TypeTabError as e:
            raise Unsupported(str(e))
        if fv is not None:
            adt, idx = fv
            if adt.variants[idx].kind == 'plain': return Agg(adt.key if adt.crate != 'std' else adt.name, idx, [])
            return FnItem(text)
        return FnItem(text)

    def hint_adt(s, hint, body):
        if not hint: return None
        refs, segs = type_head(hint)
        if not segs or not re.fullmatch(r'\w+', segs[-1]): return None
        try: return s.W.tt.find_adt(segs, body.crate)
        except TypeTabError: return None

    def eval_const(s, ref):
        W = s.W
        if ref in W.const_vals: return W.const_vals[ref]
        b = W.body(ref)
        if b.value is not None:
            v = s.operand({}, b.value, b)
        else:
            v = s.run_body(ref, [])
        W.const_vals[ref] = v; return v

    def operand(s, frame, o, body, hint=None):
        k = o[0]
        if k == 'copy': return copyval(s.read(frame, o[1]))
        if k == 'move': return s.read(frame, o[1])
        return s.const(o[1], body, hint)

    def operand_ty(s, o, body):
        if o[0] == 'const':
            c = o[1]
            if c[0] == 'int': return c[2]
            if c[0] == 'bool': return 'bool'
            if c[0] == 'char': return 'char'
            return None
        p = o[1]
        if p[0] == 'local': return body.local_ty.get(p[1])
        if p[0] == 'field': return p[3]
        return None

    def disc(s, v):
        if isinstance(v, Agg): return v.idx
        if isinstance(v, LazyEnum): return v.d
        if isinstance(v, Ref): return s.disc(v.get())
        return v

    # ---------------------------------------------------------------- rvalues
    def rvalue(s, frame, rv, body, dest_ty=None):
        k = rv[0]
        if k == 'use': return s.operand(frame, rv[1], body, dest_ty)
        if k == 'ref':
            c, kk = s.slot(frame, rv[1])
            if kk is None: raise Unsupported('ref of bare downcast')
            return Ref(c, kk)
        if k == 'disc':
            dv = s.read(frame, rv[1])
            if isinstance(dv, Ref): dv = dv.get()
            if isinstance(dv, Agg) and dv.ty == 'Ordering': return dv.idx - 1      # std::cmp::Ordering has the explicit discriminants -1 / 0 / 1 (the workspace enums have none)
            return s.disc(dv)
        if k == 'bin': return s.binop(rv[1], s.operand(frame, rv[2], body), s.operand(frame, rv[3], body), rv, body, dest_ty)
        if k == 'un':
            v = s.operand(frame, rv[2], body)
            if rv[1] == 'Not':
                if isinstance(v, bool) or z3.is_bool(v) if is_sym(v) else isinstance(v, bool): return znot(v)
                raise Unsupported('bitwise Not on integer')
            if rv[1] == 'Neg':
                if isinstance(v, Opaque): return Opaque('float', text='neg')
                if is_sym(v) and z3.is_fp(v): return z3.fpNeg(v)
                return -v
            if rv[1] == 'PtrMetadata':
                v = s.deref(v); return s.length(v)
        if k == 'len': return s.length(s.deref(s.read(frame, rv[1])))
        if k == 'cast':
            v = s.operand(frame, rv[1], body); kind = rv[3]
            if kind == 'IntToInt': return s.int_cast(v, s.operand_ty(rv[1], body), rv[2])
            if kind == 'Transmute':
                while isinstance(v, Agg) and v.ty in ('Unique', 'NonNull') and isinstance(v.fields[0], (Agg, Ref)): v = v.fields[0]
                if isinstance(v, (int,)) and rv[2].strip() in ('char',): return v
                return v
            if kind.startswith('PointerCoercion') or kind in ('PtrToPtr', 'Subtype'): return v
            if kind == 'FloatToFloat':
                if isinstance(v, Opaque): return v
                if isinstance(v, float):
                    import struct as _st
                    if rv[2].strip() != 'f32': return v
                    try: return _st.unpack('f', _st.pack('f', v))[0]
                    except OverflowError: return float('inf') if v > 0 else float('-inf')
                if not (is_sym(v) and z3.is_fp(v)): raise Unsupported('FloatToFloat cast of %r' % (v,))
                return z3.fpToFP(z3.RNE(), v, z3.Float32() if rv[2].strip() == 'f32' else z3.Float64())
            if kind == 'FloatToInt' and isinstance(v, float):
                # Rust `as`: saturating, NaN -> 0
                lo, hi = INT_RANGES[rv[2].strip()]
                if v != v: return 0
                if v == float('inf') or v >= hi: return hi
                if v == float('-inf') or v <= lo: return lo
                return int(v)
            if kind == 'IntToFloat' and isinstance(v, int) and not isinstance(v, bool): return float(v)
            raise Unsupported('cast ' + kind)
        if k == 'tuple': return Agg('tuple', 0, [s.operand(frame, x, body) for x in rv[1]])
        if k == 'array': return Agg('array', 0, [s.operand(frame, x, body) for x in rv[1]])
        if k == 'repeat':
            n = rv[2]; m = re.match(r'(?:const )?(\d+)(?:_usize)?$', n)
            if not m: raise Unsupported('repeat len ' + n)
            v = s.operand(frame, rv[1], body); return Agg('array', 0, [copyval(v) for _ in range(int(m.group(1)))])
        if k == 'closure': return ClosureVal(rv[1], [s.operand(frame, o, body) for _, o in rv[2]])
        if k == 'adt': return s.adt_value(rv, frame, body, dest_ty)
        if k == 'sibox': return mkbox(None)
        if k == 'nullop':
            if rv[1] in ('UbChecks', 'ContractChecks'): return False
            if rv[1] == 'OverflowChecks': return True
        raise Unsupported('rvalue %r' % (rv,))

    def adt_value(s, rv, frame, body, dest_ty):
        path, kind, flds = rv[1], rv[2], rv[3]
        key = (id(body), path, dest_ty)
        info = s.W.res_cache.get(('adt',) + key)
        if info is None:
            g = mt.strip_generics(mt.strip_lifetimes(path))
            segs = split_path(g)
            try: fv = s.W.tt.find_variant(segs, body.crate, s.hint_adt(dest_ty, body))
            except TypeTabError as e: raise Unsupported(str(e))
            if fv is None:
                # external struct (Range, RangeInclusive, TextRange, ...): fields in printed order
                info = (segs[-1], 0, None)
            else:
                adt, idx = fv; v = adt.variants[idx]
                info = (adt.key if adt.crate != 'std' else adt.name, idx, [f[0] for f in v.fields] if v.kind == 'struct' else None)
            s.W.res_cache[('adt',) + key] = info
        ty, idx, fnames = info
        if kind == 'named':
            vals = {n: s.operand(frame, o, body) for n, o in flds}
            if fnames is not None:
                if set(fnames) != set(vals): raise Unsupported('aggregate fields %s vs %s for %s' % (sorted(vals), fnames, path))
                return Agg(ty, idx, [vals[n] for n in fnames])
            return Agg(ty, idx, list(vals.values()))
        return Agg(ty, idx, [s.operand(frame, o, body) for o in flds])

    def length(s, v):
        if isinstance(v, PyVec): return len(v.items)
        if isinstance(v, Str): return s.W.strlen(s, v)
        if isinstance(v, Agg): return len(v.fields)
        if isinstance(v, Opaque) and hasattr(v, 'bs'): return len(v.bs)
        raise Unsupported('len of %r' % (v,))

    def int_cast(s, v, src, dst):
        dst = dst.strip()
        if dst not in INT_RANGES: raise Unsupported('int cast to ' + dst)
        if isinstance(v, Agg) and v.ty == 'Ordering': v = v.idx - 1          # Less = -1, Equal = 0, Greater = 1 (explicit discriminants; the workspace enums have none)
        if isinstance(v, (Agg, LazyEnum)): v = s.disc(v)
        if isinstance(v, bool): v = int(v)
        if is_sym(v) and z3.is_bool(v): v = z3.If(v, 1, 0)
        lo, hi = INT_RANGES[dst]
        if not is_sym(v): return wrap_int(int(v), dst)
        if src and src.strip() in INT_RANGES:
            slo, shi = INT_RANGES[src.strip()]
            if slo >= lo and shi <= hi: return v
        if s.feasible(z3.Or(v < lo, v > hi)):
            m = hi - lo + 1
            return (v - lo) % m + lo
        return v

    def binop(s, op, a, b, rv, body, dest_ty):
        if isinstance(a, (Agg, LazyEnum)) or isinstance(b, (Agg, LazyEnum)):
            for x_ in (a, b):      # only field-less enum values stand for their discriminant; a struct / payload variant in a scalar operation is a harness or model error: fail closed
                if isinstance(x_, Agg) and x_.fields and x_.ty not in ('Box',): raise Unsupported('binary operation %s on the aggregate %s' % (op, x_.ty))
            a, b = s.disc(a), s.disc(b)
        if (is_sym(a) and z3.is_fp(a)) or (is_sym(b) and z3.is_fp(b)):
            # IEEE-754 semantics through z3's floating-point theory
            if op in ('Eq', 'Ne', 'Lt', 'Le', 'Gt', 'Ge'):
                r_ = {'Eq': z3.fpEQ, 'Ne': z3.fpNEQ, 'Lt': z3.fpLT, 'Le': z3.fpLEQ, 'Gt': z3.fpGT, 'Ge': z3.fpGEQ}[op](a, b); return r_
            if op in ('Add', 'Sub', 'Mul', 'Div'):
                return {'Add': z3.fpAdd, 'Sub': z3.fpSub, 'Mul': z3.fpMul, 'Div': z3.fpDiv}[op](z3.RNE(), a, b)
            raise Unsupported('float binop ' + op)
        if isinstance(a, Opaque) or isinstance(b, Opaque):
            if getattr(a, 'what', '') == 'float' or getattr(b, 'what', '') == 'float': return Opaque('float', text=op)
            raise Unsupported('binop on opaque %r %r' % (a, b))
        sym = is_sym(a) or is_sym(b)
        if op in ('Eq', 'Ne', 'Lt', 'Le', 'Gt', 'Ge'):
            if isinstance(a, Ref) or isinstance(b, Ref): raise Unsupported('pointer comparison')
            if sym:
                za, zb = zi(a), zi(b)
                if z3.is_bool(za) != z3.is_bool(zb):
                    za = z3.If(za, 1, 0) if z3.is_bool(za) else za; zb = z3.If(zb, 1, 0) if z3.is_bool(zb) else zb
                a, b = za, zb
            r = {'Eq': lambda: a == b, 'Ne': lambda: a != b, 'Lt': lambda: a < b, 'Le': lambda: a <= b, 'Gt': lambda: a > b, 'Ge': lambda: a >= b}[op]()
            return r
        if op in ('AddWithOverflow', 'SubWithOverflow', 'MulWithOverflow'):
            ty = s.operand_ty(rv[2], body) or s.operand_ty(rv[3], body)
            if ty is None and dest_ty: ty = mt.split_top(dest_ty.strip()[1:-1])[0]
            if ty not in INT_RANGES: raise Unsupported('checked arith type %r' % (ty,))
            lo, hi = INT_RANGES[ty]
            if sym: a, b = zi(a), zi(b)
            r = a + b if op[0] == 'A' else (a - b if op[0] == 'S' else a * b)
            if sym: return Agg('tuple', 0, [r, z3.Or(r < lo, r > hi)])
            return Agg('tuple', 0, [wrap_int(r, ty), r < lo or r > hi])
        if op in ('Add', 'Sub', 'Mul', 'AddUnchecked', 'SubUnchecked', 'MulUnchecked'):
            ty = s.operand_ty(rv[2], body) or s.operand_ty(rv[3], body) or (dest_ty.strip() if dest_ty else None)
            if ty not in INT_RANGES: raise Unsupported('arith type %r' % (ty,))
            lo, hi = INT_RANGES[ty]
            if sym: a, b = zi(a), zi(b)
            r = a + b if op[0] == 'A' else (a - b if op[0] == 'S' else a * b)
            if not sym: return wrap_int(r, ty)
            if s.feasible(z3.Or(r < lo, r > hi)): raise Unsupported('unchecked %s may wrap' % op)
            return r
        if op in ('BitAnd', 'BitOr', 'BitXor') :
            if sym:
                if z3.is_bool(zi(a)) and z3.is_bool(zi(b)):
                    return {'BitAnd': z3.And, 'BitOr': z3.Or, 'BitXor': z3.Xor}[op](zi(a), zi(b))
                raise Unsupported('symbolic bit op on integers')
            if isinstance(a, bool) and isinstance(b, bool): return {'BitAnd': a and b, 'BitOr': a or b, 'BitXor': a != b}[op]
            return {'BitAnd': a & b, 'BitOr': a | b, 'BitXor': a ^ b}[op]
        if op in ('Shl', 'Shr', 'ShlUnchecked', 'ShrUnchecked', 'Div', 'Rem'):
            if sym: raise Unsupported('symbolic ' + op)
            ty = s.operand_ty(rv[2], body)
            if op.startswith('Shl'): return wrap_int(a << b, ty) if ty in INT_RANGES else a << b
            if op.startswith('Shr'): return a >> b
            if b == 0: raise Panic('division by zero')
            q = abs(a) // abs(b) * (1 if (a >= 0) == (b >= 0) else -1)
            return q if op == 'Div' else a - q * b
        if op == 'Cmp':
            if sym: raise Unsupported('symbolic Cmp')
            return Agg('Ordering', 0 if a < b else (1 if a == b else 2), [])
        raise Unsupported('binop ' + op)

    # ---------------------------------------------------------------- calls
    def call(s, callee, args, crate='compiler'):
        """call by printed path (used by harness entry points and models)"""
        ref = s.W.resolve(callee, crate)
        if ref is not None: return s.run_body(ref, args, s.W.call_subst(callee, ref))
        return s.W.model(s, callee, args, crate)

    def call_value(s, f, args):
        """call a closure / fn item value with already unpacked arguments"""
        f0 = f
        f = s.deref(f) if isinstance(f, (Ref, Agg)) and not isinstance(f, ClosureVal) else f
        if isinstance(f, ClosureVal):
            ref = s.W.closures.get(f.span)
            if ref is None: raise Unsupported('closure body not found: ' + f.span)
            b = s.W.body(ref)
            selfty = b.param_ty[0] if b.param_ty else ''
            if selfty.startswith('&'):
                holder = [f]; selfarg = Ref(holder, 0)
            else: selfarg = f
            return s.run_body(ref, [selfarg] + list(args))
        if isinstance(f, FnItem):
            return s.call_fnitem(f, args)
        raise Unsupported('call of non-function value %r' % (f0,))

    def call_fnitem(s, f, args, crate='compiler'):
        for cr in [crate] + [c for c in s.W.files if c != crate]:
            ref = s.W.resolve(f.path, cr)
            if ref is not None: return s.run_body(ref, list(args), s.W.call_subst(f.path, ref))
        # tuple-variant / tuple-struct constructor used as a function
        g = mt.strip_generics(mt.strip_lifetimes(f.path)); segs = split_path(g)
        try: fv = s.W.tt.find_variant(segs, crate)
        except TypeTabError as e: raise Unsupported(str(e))
        if fv is not None:
            adt, idx = fv; return Agg(adt.key if adt.crate != 'std' else adt.name, idx, list(args))
        return s.W.model(s, f.path, list(args), crate)

    def run_body(s, ref, args, subst=None):
        s.tsubst.append(subst or {}); s.refs.append(ref)
        try: return s._run_body(ref, args)
        finally: s.tsubst.pop(); s.refs.pop()

    def _run_body(s, ref, args):
        W = s.W
        stub = W.stubs.get(ref[1]) if W.stubs else None
        if stub is not None:                 # environment stub declared by the obligation (listed in its evidence)
            W.models_used.add('STUB:' + ref[1]); return stub(s, args)
        body = W.body(ref)
        if ref not in W.bodies_run: W.bodies_run.add(ref)
        frame = {}
        if len(args) != len(body.params):
            raise Unsupported('arity mismatch calling %s: %d args for %d params' % (ref[1], len(args), len(body.params)))
        for p, v in zip(body.params, args): frame[p] = v
        s.stack.append(ref[1])
        if len(s.stack) > 400: raise Limit('call depth > 400 in ' + ref[1])
        bb = 0; lt = body.local_ty
        block = mt.block
        while True:
            try:
                stmts, term, _ = block(body, bb)
            except mt.MirParseError as e:
                raise Unsupported('MIR parse error in %s bb%d: %s' % (ref[1], bb, e))
            for st in stmts:
                k = st[0]
                if k == 'nop': continue
                if k == 'assign':
                    p = st[1]
                    dty = lt.get(p[1]) if p[0] == 'local' else (p[3] if p[0] == 'field' else None)
                    v = s.rvalue(frame, st[2], body, dty)
                    if p[0] == 'local': frame[p[1]] = v
                    else: s.write(frame, p, v)
                elif k == 'setdisc':
                    tgt = s.read(frame, st[1])
                    if isinstance(tgt, Agg): tgt.idx = st[2]
                    else: raise Unsupported('SetDiscriminant on %r' % (tgt,))
            s.steps += len(stmts) + 1
            if s.steps > W.step_limit: raise Limit('step limit %d' % W.step_limit)
            k = term[0]
            if k == 'goto': bb = term[1]; continue
            if k == 'return':
                s.stack.pop(); return frame.get(0, UNIT)
            if k == 'switch':
                v = s.operand(frame, term[1], body)
                if isinstance(v, (Agg, LazyEnum)): v = s.disc(v)
                if not is_sym(v):
                    iv = int(v); dest = term[3]
                    for kk, tb in term[2]:
                        if kk == iv: dest = tb; break
                    if dest is None: raise Infeasible()
                    bb = dest; continue
                if z3.is_bool(v):
                    opts = []; seen = []
                    for kk, tb in term[2]:
                        c = z3.Not(v) if kk == 0 else v
                        opts.append((c, tb)); seen.append(kk)
                    if term[3] is not None:
                        if 0 not in seen: opts.append((z3.Not(v), term[3]))
                        elif 1 not in seen: opts.append((v, term[3]))
                    bb = s.choose(opts, exhaustive=True); continue
                if v.num_args() == 0 and v.decl().kind() == z3.Z3_OP_UNINTERPRETED and v.get_id() not in s.entangled:
                    gs = {}; order = []
                    for kk, tb in term[2]:
                        if tb not in gs: gs[tb] = set(); order.append(tb)
                        gs[tb].add(kk)
                    glist = [(frozenset(gs[tb]), tb) for tb in order]
                    if term[3] is not None: glist.append((frozenset(), term[3]))
                    bb = s.choose_fd(v, glist, term[3] is not None); continue
                # group by target block: one fork per target
                groups = {}; order = []
                for kk, tb in term[2]:
                    if tb not in groups: groups[tb] = []; order.append(tb)
                    groups[tb].append(v == kk)
                allc = [c for cs in groups.values() for c in cs]
                opts = [(z3.Or(*groups[tb]) if len(groups[tb]) > 1 else groups[tb][0], tb) for tb in order]
                if term[3] is not None:
                    opts.append((z3.Not(z3.Or(*allc)) if len(allc) > 1 else z3.Not(allc[0]), term[3]))
                bb = s.choose(opts, exhaustive=term[3] is not None); continue
            if k == 'call':
                dest, cal, argv, ret = term[1], term[2], term[3], term[4]
                a = [s.operand(frame, o, body) for o in argv]
                if cal[0] == 'op':
                    r = s.call_value(s.operand(frame, cal[1], body), a)
                else:
                    ctext = apply_subst(cal[1], s.tsubst[-1]) if s.tsubst[-1] else cal[1]
                    tgt = W.resolve(ctext, body.crate)
                    if tgt is not None: r = s.run_body(tgt, a, W.call_subst(ctext, tgt))
                    else: r = W.model(s, ctext, a, body.crate)
                if ret is None: raise Unsupported('diverging call returned: ' + cal[1])
                if dest is not None:
                    if dest[0] == 'local': frame[dest[1]] = r
                    else: s.write(frame, dest, r)
                bb = ret; continue
            if k == 'drop':
                bb = term[2]
                if bb is None: raise Unsupported('drop without return edge')
                continue
            if k == 'assert':
                v = s.operand(frame, term[1], body)
                if not term[2]: v = znot(v)
                if not s.branch_bool(v): raise Panic('MIR assert failed: ' + term[3][:80])
                bb = term[4]; continue
            if k == 'unreachable': raise Infeasible()
            raise Unsupported('terminator %r' % (term,))

# ----------------------------------------------------------------------------- exploration
class PathResult:
    __slots__ = ('pc', 'kind', 'value', 'steps', 'trace', 'notes')
    def __init__(s, pc, kind, value, steps, trace, notes): s.pc, s.kind, s.value, s.steps, s.trace, s.notes = pc, kind, value, steps, trace, notes

def explore(W, entry, assumptions, path_limit=10**7, time_limit=None, on_path=None):
    """runs entry(ex) along every feasible path.  Returns (results, complete?)"""
    out = []; work = [[]]; t0 = time.time()
    while work:
        if len(out) >= path_limit or (time_limit and time.time() - t0 > time_limit):
            return out, False
        tr = work.pop()
        ex = Exec(W, assumptions, tr)
        try:
            try:
                r = entry(ex); res = PathResult(ex.full_pc(), 'ok', r, ex.steps, list(ex.trace), ex.notes)
            except Infeasible:
                res = None
            except Panic as e:
                res = PathResult(ex.full_pc(), 'panic', str(e), ex.steps, list(ex.trace), ex.notes)
                res.notes['stack'] = list(ex.stack[-6:])
            except RecursionError:
                raise Limit('python recursion limit')
        finally:
            W.steps_total += ex.steps
            ex.close()
        if res is not None:
            if on_path: on_path(res)
            out.append(res)
        work.extend(ex.pending)
    return out, True

def model_of(assumptions, pc, extra=()):
    sol = z3.Solver(); sol.add(*assumptions); sol.add(*pc); sol.add(*extra)
    if sol.check() != z3.sat: return None
    return sol.model()

"""Strict parser for the textual MIR printed by `rustc -Zunpretty=mir`.

The dump is split into bodies (fn / const / static / promoted); a body is parsed on first
use into tuples (places, operands, rvalues, statements, terminators).  Anything that does
not match the grammar raises MirParseError - the caller turns that into an inconclusive
run, never into a pass.  No regular expression is used to take statements apart: all
splitting is done by a quote/bracket-aware scanner (`depths`), so a `->`, a `'a` lifetime or
a `"` inside a printed type or constant cannot shift a bracket count.
"""
import re

class MirParseError(Exception):
    pass

# ----------------------------------------------------------------------------- scanner
_OPEN = '([{<'
_CLOSE = ')]}>'

def depths(s):
    """depth[i] = bracket depth *before* s[i]; -1 for characters inside a string/char literal."""
    n = len(s); d = [0] * (n + 1); depth = 0; i = 0
    while i < n:
        ch = s[i]
        if ch == '"':
            j = i + 1
            while j < n and s[j] != '"':
                j += 2 if s[j] == '\\' else 1
            if j >= n: raise MirParseError('unterminated string in: ' + s[:120])
            d[i] = depth
            for k in range(i + 1, j + 1): d[k] = -1
            d[j] = -1
            i = j + 1; d[i] = depth
            continue
        if ch == "'":
            # char literal  'x'  '\n'  '\u{1F600}'  '\''   vs lifetime  'a  '_  'static
            j = None
            if i + 1 < n and s[i + 1] == '\\':
                k = i + 2
                if k < n and s[k] == 'u' and k + 1 < n and s[k + 1] == '{':
                    e = s.find('}', k)
                    if e != -1 and e + 1 < n and s[e + 1] == "'": j = e + 1
                elif k < n and s[k] == 'x':
                    if k + 3 < n and s[k + 3] == "'": j = k + 3
                elif k + 1 < n and s[k + 1] == "'": j = k + 1
            elif i + 2 < n and s[i + 2] == "'" and s[i + 1] != "'":
                j = i + 2
            if j is not None:
                d[i] = depth
                for k in range(i + 1, j + 1): d[k] = -1
                i = j + 1; d[i] = depth
                continue
            d[i] = depth; i += 1; d[i] = depth
            continue
        d[i] = depth
        if ch in '([{': depth += 1
        elif ch in ')]}': depth -= 1
        elif ch == '<':
            depth += 1
        elif ch == '>':
            if i > 0 and s[i - 1] in '-=':
                pass
            else:
                depth -= 1
        if depth < 0: raise MirParseError('unbalanced brackets in: ' + s[:160])
        i += 1
        d[i] = depth
    if depth != 0: raise MirParseError('unbalanced brackets (end) in: ' + s[:160])
    return d

def split_top(s, sep=','):
    d = depths(s); parts = []; cur = 0
    for i, ch in enumerate(s):
        if ch == sep and d[i] == 0:
            parts.append(s[cur:i]); cur = i + 1
    last = s[cur:]
    if last.strip(): parts.append(last)
    return [p.strip() for p in parts]

def find_top(s, needle, start=0, d=None):
    d = d or depths(s)
    i = s.find(needle, start)
    while i != -1:
        if d[i] == 0: return i
        i = s.find(needle, i + 1)
    return -1

def rfind_top(s, needle, d=None):
    d = d or depths(s)
    i = s.rfind(needle)
    while i != -1:
        if d[i] == 0: return i
        i = s.rfind(needle, 0, i)
    return -1

def strip_generics(t):
    """remove every `::<...>` group and lifetimes like <'_> ; keeps `<T as Trait>` qualified-self brackets."""
    out = []; i = 0; n = len(t)
    while i < n:
        if t.startswith('::<', i) and not t.startswith('::<impl ', i):
            depth = 0; j = i + 2
            while j < n:
                ch = t[j]
                if ch in '<([{': depth += 1
                elif ch in ')]}': depth -= 1
                elif ch == '>' and t[j - 1] not in '-=':
                    depth -= 1
                if depth == 0: break
                j += 1
            i = j + 1
        else:
            out.append(t[i]); i += 1
    return ''.join(out)

_LIFETIME = re.compile(r"(for<[^>]*> )|('[a-z_][A-Za-z0-9_]* ?)")
def strip_lifetimes(t):
    t = t.replace("::<'_>", '').replace("<'_>", '').replace("<'_, ", '<').replace("<'static, ", '<')
    return _LIFETIME.sub('', t)

# ----------------------------------------------------------------------------- places / operands
BINOPS = {'Add', 'Sub', 'Mul', 'Div', 'Rem', 'BitXor', 'BitAnd', 'BitOr', 'Shl', 'Shr', 'Eq', 'Lt', 'Le', 'Ne', 'Ge', 'Gt', 'Cmp',
          'Offset', 'AddWithOverflow', 'SubWithOverflow', 'MulWithOverflow', 'AddUnchecked', 'SubUnchecked', 'MulUnchecked',
          'ShlUnchecked', 'ShrUnchecked'}
UNOPS = {'Not', 'Neg', 'PtrMetadata'}
CAST_KINDS = ('IntToInt', 'Transmute', 'PtrToPtr', 'FnPtrToPtr', 'FloatToInt', 'IntToFloat', 'FloatToFloat', 'PointerExposeProvenance',
              'PointerWithExposedProvenance', 'Subtype')
_INT_LIT = re.compile(r'(-?\d+)_([ui](?:8|16|32|64|128|size))$')
_FLOAT_LIT = re.compile(r'-?[\d.]+(?:[eE][-+]?\d+)?f(?:32|64)$|^-?(?:inf|NaN)f(?:32|64)$')
_LOCAL = re.compile(r'_(\d+)$')

def parse_place(t):
    t = t.strip()
    m = _LOCAL.match(t)
    if m: return ('local', int(m.group(1)))
    if t.endswith(']'):
        d = depths(t)
        # find the matching '[' of the final ']'
        j = len(t) - 1; k = j
        while k >= 0 and not (t[k] == '[' and d[k] == d[j + 1]): k -= 1
        if k > 0:
            base, inner = t[:k], t[k + 1:j]
            m = _LOCAL.match(inner)
            if m: return ('index', parse_place(base), int(m.group(1)))
            m = re.match(r'(-?)(\d+) of (\d+)$', inner)
            if m: return ('cindex', parse_place(base), int(m.group(2)), int(m.group(3)), m.group(1) == '-')
            m = re.match(r'(\d+):(-?)(\d+)$', inner)
            if m: return ('subslice', parse_place(base), int(m.group(1)), int(m.group(3)), m.group(2) == '-')
    if t.startswith('(') and t.endswith(')'):
        d = depths(t)
        if d[len(t) - 1] != 1: raise MirParseError('place parens: ' + t)
        inner = t[1:-1]
        if inner.startswith('*'): return ('deref', parse_place(inner[1:]))
        di = depths(inner)
        k = rfind_top(inner, ' as ', di)
        c = find_top(inner, ': ', 0, di)
        if k != -1 and c == -1:
            var = inner[k + 4:].strip()
            if re.match(r'\w+$', var): return ('downcast', parse_place(inner[:k]), var)
        if c != -1:
            head = inner[:c]
            dot = head.rfind('.')
            if dot != -1 and head[dot + 1:].isdigit():
                return ('field', parse_place(head[:dot]), int(head[dot + 1:]), inner[c + 2:].strip())
    raise MirParseError('place: ' + t)

def _unescape(body, is_bytes):
    out = []; i = 0; n = len(body)
    while i < n:
        ch = body[i]
        if ch == '\\':
            nx = body[i + 1]
            if nx == 'x': out.append(int(body[i + 2:i + 4], 16)); i += 4
            elif nx == 'u':
                e = body.index('}', i); out.append(int(body[i + 3:e], 16)); i = e + 1
            else:
                tab = {'n': 10, 't': 9, 'r': 13, '\\': 92, '"': 34, "'": 39, '0': 0}
                if nx not in tab: raise MirParseError('escape \\' + nx)
                out.append(tab[nx]); i += 2
        else:
            out.append(ord(ch)); i += 1
    return out

def parse_const(t):
    t = t.strip()
    if t == 'true': return ('bool', True)
    if t == 'false': return ('bool', False)
    if t == '()': return ('unit',)
    m = _INT_LIT.match(t)
    if m: return ('int', int(m.group(1)), m.group(2))
    if _FLOAT_LIT.match(t): return ('float', t)
    if t.startswith('"') and t.endswith('"'): return ('str', _unescape(t[1:-1], False))
    if t.startswith('b"') and t.endswith('"'): return ('bytes', _unescape(t[2:-1], True))
    if t.startswith("'") and t.endswith("'") and len(t) >= 3:
        cs = _unescape(t[1:-1], False)
        if len(cs) == 1: return ('char', cs[0])
    if t.startswith("b'") and t.endswith("'"):
        cs = _unescape(t[2:-1], True)
        if len(cs) == 1: return ('int', cs[0], 'u8')
    if t.startswith('ZeroSized: '): return ('zst', t[11:].strip())
    if t.startswith('{alloc'): return ('alloc', t)
    if t.startswith('{transmute('):
        m = re.match(r'\{transmute\(0x([0-9a-f]+)\): (.+)\}$', t)
        if m: return ('transmute', int(m.group(1), 16), m.group(2))
    if re.match(r'[A-Za-z_<\[(&{]', t): return ('path', t)
    raise MirParseError('const: ' + t)

def parse_operand(t):
    t = t.strip()
    if t.startswith('copy '): return ('copy', parse_place(t[5:]))
    if t.startswith('move '): return ('move', parse_place(t[5:]))
    if t.startswith('no_retag copy '): return ('copy', parse_place(t[14:]))
    if t.startswith('no_retag move '): return ('move', parse_place(t[14:]))
    if t.startswith('const '): return ('const', parse_const(t[6:]))
    if re.match(r'[A-Za-z_<{]', t): return ('const', ('path', t))     # fn item passed by name
    raise MirParseError('operand: ' + t)

def parse_rvalue(t):
    t = t.strip()
    if t.startswith(('copy ', 'move ', 'const ', 'no_retag ')):
        d = depths(t)
        k = find_top(t, ' as ', 0, d)
        if k == -1: return ('use', parse_operand(t))
        if not t.endswith(')'): raise MirParseError('cast: ' + t)
        p = t.rfind(' (')
        kind = t[p + 2:-1]
        if not (kind in CAST_KINDS or kind.startswith('PointerCoercion')): raise MirParseError('cast kind: ' + t)
        return ('cast', parse_operand(t[:k]), t[k + 4:p].strip(), kind)
    if t.startswith('&'):
        for pre, kind in (('&raw const ', 'rawc'), ('&raw mut ', 'rawm'), ('&mut ', 'mut'), ('&fake shallow ', 'fake'), ('&fake ', 'fake'), ('&', 'shared')):
            if t.startswith(pre): return ('ref', parse_place(t[len(pre):]), kind)
    m = re.match(r'([A-Za-z]+)\(', t)
    if m and t.endswith(')'):
        name = m.group(1); inner = t[len(name) + 1:-1]
        if name in BINOPS:
            a = split_top(inner)
            if len(a) != 2: raise MirParseError('binop arity: ' + t)
            return ('bin', name, parse_operand(a[0]), parse_operand(a[1]))
        if name in UNOPS: return ('un', name, parse_operand(inner))
        if name == 'discriminant': return ('disc', parse_place(inner))
        if name == 'Len': return ('len', parse_place(inner))
        if name == 'CopyForDeref': return ('use', ('copy', parse_place(inner)))
        if name == 'ShallowInitBox':
            a = split_top(inner); return ('sibox', parse_operand(a[0]), a[1])
        if name in ('SizeOf', 'AlignOf', 'UbChecks', 'ContractChecks', 'OverflowChecks', 'OffsetOf'): return ('nullop', name, inner)
    if t.startswith('('):
        d = depths(t)
        if t.endswith(')') and d[len(t) - 1] == 1:
            inner = t[1:-1].strip()
            if inner.endswith(','): inner = inner[:-1]
            return ('tuple', [parse_operand(x) for x in split_top(inner)] if inner else [])
    if t.startswith('['):
        d = depths(t)
        if t.endswith(']') and d[len(t) - 1] == 1:
            inner = t[1:-1]
            k = rfind_top(inner, '; ')
            if k != -1: return ('repeat', parse_operand(inner[:k]), inner[k + 2:].strip())
            return ('array', [parse_operand(x) for x in split_top(inner)] if inner.strip() else [])
    if t.startswith('{closure@') or t.startswith('{coroutine@'):
        e = t.index('}')
        span = t[t.index('@') + 1:e]
        rest = t[e + 1:].strip()
        caps = []
        if rest:
            if not (rest.startswith('{') and rest.endswith('}')): raise MirParseError('closure aggregate: ' + t)
            for part in split_top(rest[1:-1]):
                k = part.index(': ')
                caps.append((part[:k].strip(), parse_operand(part[k + 2:])))
        return ('closure', span, caps)
    # ADT aggregates:  Path   Path(op, ..)   Path { f: op, .. }
    d = depths(t)
    if t.endswith(' }') or t.endswith('{}'):
        k = rfind_top(t, ' {', d)
        if k == -1: raise MirParseError('struct aggregate: ' + t)
        inner = t[k + 2:-1].strip(); fields = []
        for part in split_top(inner):
            c = part.index(': ')
            fields.append((part[:c].strip(), parse_operand(part[c + 2:])))
        return ('adt', t[:k].strip(), 'named', fields)
    if t.endswith(')'):
        j = len(t) - 1; k = j
        while k >= 0 and not (t[k] == '(' and d[k] == 0): k -= 1
        if k <= 0: raise MirParseError('tuple aggregate: ' + t)
        inner = t[k + 1:j]
        return ('adt', t[:k].strip(), 'tuple', [parse_operand(x) for x in split_top(inner)] if inner.strip() else [])
    if re.match(r'[A-Za-z_<]', t): return ('adt', t, 'unit', [])
    raise MirParseError('rvalue: ' + t)

def _parse_targets(t):
    # "[return: bb1, unwind continue]" / "[return: bb1, unwind: bb7]" / "unwind continue"
    t = t.strip(); ret = None
    if t.startswith('['):
        for part in t[1:-1].split(', '):
            if part.startswith('return: bb'): ret = int(part[10:])
            elif part.startswith('success: bb'): ret = int(part[11:])
    return ret

def parse_statement(t):
    if t.endswith(';'): t = t[:-1]
    if t.startswith(('StorageLive(', 'StorageDead(', 'nop', 'FakeRead(', 'PlaceMention(', 'Retag(', 'AscribeUserType(', 'Coverage::',
                     'ConstEvalCounter', 'BackwardIncompatibleDropHint(', 'Deinit(', 'assume(')): return ('nop',)
    d = depths(t)
    k = find_top(t, ' = ', 0, d)
    if k == -1: raise MirParseError('statement: ' + t)
    lhs, rhs = t[:k], t[k + 3:]
    if lhs.startswith('discriminant('): return ('setdisc', parse_place(lhs[13:-1]), int(rhs))
    return ('assign', parse_place(lhs), parse_rvalue(rhs))

def parse_terminator(t):
    if t.endswith(';'): t = t[:-1]
    if t == 'return': return ('return',)
    if t == 'unreachable': return ('unreachable',)
    if t in ('resume', 'UnwindResume', 'abort', 'terminate', 'UnwindTerminate') or t.startswith('terminate('): return ('resume',)
    if t.startswith('goto -> bb'): return ('goto', int(t[10:]))
    if t.startswith('falseEdge -> [real: bb') or t.startswith('falseUnwind -> [real: bb'):
        return ('goto', int(re.match(r'\w+ -> \[real: bb(\d+)', t).group(1)))
    d = depths(t)
    arrow = rfind_top(t, ' -> ', d)
    if t.startswith('switchInt('):
        op = parse_operand(t[10:arrow - 1] if t[arrow - 1] == ')' else t[10:arrow])
        targets = []; other = None
        for part in t[arrow + 5:-1].split(', '):
            k, bb = part.split(': ')
            if k == 'otherwise': other = int(bb[2:])
            else: targets.append((int(k), int(bb[2:])))
        return ('switch', op, targets, other)
    if t.startswith('drop('):
        return ('drop', parse_place(t[5:arrow - 1]), _parse_targets(t[arrow + 4:]))
    if t.startswith('assert('):
        inner = t[7:arrow - 1]
        parts = split_top(inner)
        cond = parts[0]; expected = True
        if cond.startswith('!'): expected = False; cond = cond[1:]
        return ('assert', parse_operand(cond), expected, parts[1] if len(parts) > 1 else '', _parse_targets(t[arrow + 4:]))
    if arrow == -1: raise MirParseError('terminator: ' + t)
    head = t[:arrow]; ret = _parse_targets(t[arrow + 4:])
    dh = depths(head)
    k = find_top(head, ' = ', 0, dh)
    dest = None
    if k != -1:
        dest = parse_place(head[:k]); head = head[k + 3:]; dh = depths(head)
    if not head.endswith(')'): raise MirParseError('call: ' + t)
    j = len(head) - 1; o = j
    while o >= 0 and not (head[o] == '(' and dh[o] == 0): o -= 1
    if o <= 0: raise MirParseError('call parens: ' + t)
    callee = head[:o].strip(); args = head[o + 1:j]
    argv = [parse_operand(x) for x in split_top(args)] if args.strip() else []
    if callee.startswith(('move ', 'copy ')): cal = ('op', parse_operand(callee))
    else: cal = ('path', callee)
    return ('call', dest, cal, argv, ret)

# ----------------------------------------------------------------------------- bodies
class Body:
    __slots__ = ('name', 'kind', 'params', 'ret_ty', 'local_ty', 'blocks', 'raw', 'crate', 'param_ty', 'value')

class MirFile:
    """index of one crate's dump; bodies are parsed lazily and strictly."""
    def __init__(self, crate, text):
        self.crate = crate; self.text = text
        self.spans = {}          # name -> (start, end) offsets (first occurrence wins; duplicates are identical re-prints)
        self.order = []
        pos = 0; n = len(text)
        hdr = re.compile(r'^(fn|const|static(?: mut)?) (.*)$', re.M)
        for m in hdr.finditer(text):
            line = m.group(0)
            kind = m.group(1).split()[0]
            rest = m.group(2)
            if kind == 'fn':
                k = rest.find('(')
                name = rest[:k]
            else:
                # "NAME: TYPE = {"   or  "NAME: TYPE = const X;"
                d = None
                k = rest.find(': ')
                # names may contain "<impl at file:1:2: 3:4>" -> find ': ' at top depth
                try:
                    if rest.endswith('{'): rest = rest + '}'
                    d = depths(rest); k = find_top(rest, ': ', 0, d)
                    while k != -1 and rest[k - 1].isdigit() and rest[k + 2].isdigit(): k = find_top(rest, ': ', k + 1, d)
                except MirParseError:
                    continue
                name = rest[:k]
            if line.endswith('{'):
                end = text.find('\n}\n', m.end())
                end = n if end == -1 else end + 3
            else:
                end = m.end() + 1
            if name not in self.spans:
                self.spans[name] = (m.start(), end, kind); self.order.append(name)
            elif (kind == 'fn' or 'promoted[' in name) and text[m.start():end] != text[self.spans[name][0]:self.spans[name][1]]:
                # bodies of macro-generated impls share one `<impl at ..>` name: keep every distinct body under name@@k (file order preserved)
                k = 1
                while '%s@@%d' % (name, k) in self.spans: k += 1
                key = '%s@@%d' % (name, k)
                if not any(text[m.start():end] == text[self.spans[x][0]:self.spans[x][1]] for x in [name] + ['%s@@%d' % (name, j) for j in range(1, k)]):
                    self.spans[key] = (m.start(), end, kind); self.order.append(key)
        self.parsed = {}

    def names(self): return self.order

    def body(self, name):
        b = self.parsed.get(name)
        if b is None:
            st, en, kind = self.spans[name]
            b = parse_body(self.text[st:en], kind, self.crate)
            self.parsed[name] = b
        return b

def parse_body(text, kind, crate):
    lines = text.split('\n')
    head = lines[0]
    b = Body(); b.kind = kind; b.crate = crate; b.raw = text; b.local_ty = {}; b.blocks = {}; b.params = []; b.param_ty = []; b.value = None
    if head.endswith('{'): head = head[:-1].rstrip() + ' {}'
    if kind == 'fn':
        k = head.find('(')
        b.name = head[3:k]
        d = depths(head)
        # closing paren of the parameter list
        j = k + 1
        while not (head[j] == ')' and d[j + 1] == 0): j += 1
        for part in split_top(head[k + 1:j]):
            c = part.index(': ')
            n_ = int(part[1:c].lstrip('_')) if part.startswith('_') else None
            if n_ is None: raise MirParseError('param: ' + part)
            b.params.append(n_); b.local_ty[n_] = part[c + 2:].strip(); b.param_ty.append(part[c + 2:].strip())
        rest = head[j + 1:].strip()
        if not rest.startswith('-> ') or not rest.endswith('{}'): raise MirParseError('fn header: ' + head)
        b.ret_ty = rest[3:-2].strip(); b.local_ty[0] = b.ret_ty
    else:
        rest = head[len(kind) + 1:] if not head.startswith('static mut') else head[11:]
        d = depths(rest); k = find_top(rest, ': ', 0, d)
        while k != -1 and rest[k - 1].isdigit() and rest[k + 2].isdigit(): k = find_top(rest, ': ', k + 1, d)
        b.name = rest[:k]
        e = find_top(rest, ' = ', k, d)
        b.ret_ty = rest[k + 2:e].strip(); b.local_ty[0] = b.ret_ty
        init = rest[e + 3:].strip()
        if init != '{}':
            if not init.endswith(';'): raise MirParseError('const header: ' + head)
            b.value = parse_operand(init[:-1]); return b
    cur = None; stmts = None
    for ln in lines[1:]:
        l = ln.strip()
        if not l or l == '}' and cur is None: continue
        if cur is None:
            if l.startswith('let '):
                body_ = l[4:]
                if body_.startswith('mut '): body_ = body_[4:]
                c = body_.index(': ')
                b.local_ty[int(body_[1:c])] = body_[c + 2:].rstrip(';').strip()
                continue
            if l.startswith(('debug ', 'scope ', '}', '//', 'coroutine_')): continue
            m = re.match(r'bb(\d+)(?: \(cleanup\))?: \{$', l)
            if m: cur = int(m.group(1)); stmts = []; continue
            raise MirParseError('body line: ' + l)
        if l == '}':
            if not stmts: raise MirParseError('empty block bb%d in %s' % (cur, b.name))
            b.blocks[cur] = (stmts[:-1], stmts[-1]); cur = None; continue
        if l.startswith('//'): continue
        stmts.append(l)
    return b

def block(b, n, _cache={}):
    """parsed (statements, terminator) of block n of body b - parsed on first execution."""
    key = (id(b), n)
    r = _cache.get(key)
    if r is None:
        raw_stmts, raw_term = b.blocks[n]
        r = ([parse_statement(s) for s in raw_stmts], parse_terminator(raw_term), b)
        _cache[key] = r
    return r

"""Library models: calls that leave the workspace MIR (std, indexmap, im, la-arena, rowan, ena ...) resolved by name.

Every model is a few lines; each one used in a run is reported in the evidence (`W.models_used`) and is part of the
trusted base.  An unknown callee raises Unsupported => inconclusive run.
"""
import re
import z3
from . import mirtext as mt
from .engine import (Agg, LazyEnum, Str, PyVec, Ref, Cell_, Opaque, ClosureVal, FnItem, PyMap, PySet, UNIT, NONE, some, ok, err,
                     is_sym, zi, znot, zand, zor, mkstr, pystr, copyval, mkbox, unbox, unbox_ref, Unsupported, Panic, Infeasible,
                     World, Exec, INT_RANGES, wrap_int, split_path)

EXACT = {}       # generics-stripped name -> fn(ex, callee, a)
PATTERNS = []    # (compiled regex, on 'f'|'g', fn)

def exact(*names):
    def deco(fn):
        for n in names: EXACT[n] = fn
        return fn
    return deco

def pattern(rx, on='f', prio=5):
    """prio 9 = generic fallback (tried after every specific model)"""
    def deco(fn):
        PATTERNS.append((re.compile(rx), on, fn, prio)); PATTERNS.sort(key=lambda t: t[3]); return fn
    return deco

def norm(callee):
    f = mt.strip_lifetimes(callee)
    f = f.replace('std::string::String', 'String').replace('std::option::Option', 'Option').replace('std::result::Result', 'Result')
    f = f.replace('std::vec::Vec', 'Vec').replace('std::boxed::Box', 'Box').replace('std::collections::', '').replace('indexmap::IndexMap', 'IndexMap')
    f = f.replace('std::ops::', '').replace('std::iter::', '').replace('std::cmp::', '').replace('std::clone::', '').replace('std::convert::', '')
    f = f.replace('std::default::', '').replace('core::ops::', '').replace('hash_map::', '').replace('hash_set::', '').replace('std::cell::', '')
    return f, mt.strip_generics(f)

def world_model(W, ex, callee, a, crate):
    h = W.__dict__.setdefault('model_cache', {}).get(callee)
    if h is None:
        f, g = norm(callee)
        fn = None
        for ov in getattr(W, 'overrides', []):           # per-check environment stubs, consulted first
            r = ov(f, g)
            if r is not None: fn = r; break
        if fn is None: fn = EXACT.get(g)
        if fn is None:
            for rx, on, cand, _p in PATTERNS:
                if rx.search(f if on == 'f' else g): fn = cand; break
        if fn is None: raise Unsupported('no model for call: ' + callee)
        h = (fn, f, g); W.model_cache[callee] = h
    W.models_used.add(h[0].__name__)
    ex.cur_crate = crate
    return h[0](ex, h[1], a)
World.model = world_model

# ----------------------------------------------------------------------------- helpers
def closure_arg(ex, f, a, pos):
    """the function value passed at argument position pos (closure value, fn item, or ZST closure named in generics)"""
    return a[pos]

def callf(ex, fv, *args):
    return ex.call_value(fv, list(args))

def callf_ref(ex, fv, *args):
    return ex.call_value(fv, list(args))

def generic_args(f):
    """top-level generic arguments of the last `::<...>` group of a normalized callee"""
    k = f.rfind('::<')
    if k == -1: return []
    d = mt.depths(f); j = k + 2; e = j
    for i in range(j + 1, len(f)):
        if f[i] == '>' and d[i + 1] == d[j] and f[i - 1] not in '-=': e = i; break
    return mt.split_top(f[j + 1:e])

def self_type(f):
    """`<T as Trait>::m` -> T text ; `T::m` -> T text"""
    if f.startswith('<'):
        d = mt.depths(f)
        for i in range(len(f)):
            if f.startswith(' as ', i) and d[i] == 1: return f[1:i]
    return None

def inner_type(t, outer):
    """`Vec<X>` -> X"""
    t = t.strip()
    while t.startswith('&'):
        t = t[1:].strip()
        if t.startswith('mut '): t = t[4:]
    if t.startswith(outer + '<') and t.endswith('>'): return t[len(outer) + 1:-1]
    return None

def veq(ex, x, y):
    """structural equality of two values -> python bool or z3 Bool (used for map keys and std PartialEq models)"""
    x, y = ex.deref(x), ex.deref(y)
    if isinstance(x, LazyEnum) or isinstance(y, LazyEnum):
        if x is y: return True
        le = x if isinstance(x, LazyEnum) else y
        if all(v.kind == 'plain' for v in le.adt.variants) and isinstance(x, (LazyEnum, Agg)) and isinstance(y, (LazyEnum, Agg)):
            dx, dy = ex.disc(x), ex.disc(y)
            return (zi(dx) == zi(dy)) if (is_sym(dx) or is_sym(dy)) else dx == dy
        raise Unsupported('structural equality on lazy input value')
    if isinstance(x, Str) and isinstance(y, Str): return str_eq(x.chars, y.chars)
    if isinstance(x, Agg) and isinstance(y, Agg):
        if x.idx != y.idx or len(x.fields) != len(y.fields): return False
        return zand(*[veq(ex, p, q) for p, q in zip(x.fields, y.fields)])
    if isinstance(x, PyVec) and isinstance(y, PyVec):
        if len(x.items) != len(y.items): return False
        return zand(*[veq(ex, p, q) for p, q in zip(x.items, y.items)])
    if isinstance(x, PyMap) and isinstance(y, PyMap):
        # map equality (BTreeMap / IndexMap / HashMap: same key set, equal values) - concrete string keys only
        if len(x.keys) != len(y.keys): return False
        try: dx = {pystr(ex.deref(k)): v for k, v in zip(x.keys, x.vals)}; dy = {pystr(ex.deref(k)): v for k, v in zip(y.keys, y.vals)}
        except Exception: raise Unsupported('map equality with non-concrete / non-string keys')
        if set(dx) != set(dy): return False
        return zand(*[veq(ex, dx[k], dy[k]) for k in dx])
    if isinstance(x, Opaque) or isinstance(y, Opaque): return x is y
    if isinstance(x, (int, bool)) and isinstance(y, (int, bool)): return x == y
    if is_sym(x) or is_sym(y): return zi(x) == zi(y)
    if x is None and y is None: return True
    raise Unsupported('veq on %r / %r' % (x, y))

def str_eq(x, y):
    if len(x) != len(y): return False
    parts = []
    for p, q in zip(x, y):
        if is_sym(p) or is_sym(q): parts.append(zi(p) == zi(q))
        elif p != q: return False
    return zand(*parts)

def deep_clone(ex, v):
    if isinstance(v, Str): return Str(v.chars)
    if isinstance(v, PyVec): return PyVec([deep_clone(ex, x) for x in v.items])
    if isinstance(v, Agg):
        if v.ty == 'Box': return mkbox(deep_clone(ex, unbox(v)))
        return Agg(v.ty, v.idx, [deep_clone(ex, x) for x in v.fields])
    if isinstance(v, PyMap):
        m = PyMap(v.kind); m.keys = [deep_clone(ex, k) for k in v.keys]; m.vals = [deep_clone(ex, x) for x in v.vals]; return m
    if isinstance(v, PySet): return PySet([deep_clone(ex, k) for k in v.elems], v.kind)
    if isinstance(v, Cell_): return Cell_(v.v)
    return v      # ints, z3 terms, Refs (shared borrows are Copy), Opaque, closures, lazy inputs (immutable)

def clone_typed(ex, v, ty):
    """clone `v: &ty` the way `<ty as Clone>::clone` would: workspace impls are executed from MIR, std containers recurse"""
    v = ex.deref_ref(v)
    ty = ty.strip()
    for outer in ('Vec', 'Box', 'Option'):
        it = inner_type(ty, outer)
        if it is not None:
            if outer == 'Vec': return PyVec([clone_typed(ex, Ref(v.items, i), it) for i in range(len(v.items))])
            if outer == 'Box': return mkbox(clone_typed(ex, unbox_ref(v), it))
            if outer == 'Option':
                if isinstance(v, LazyEnum): return v
                return v if v.idx == 0 else some(clone_typed(ex, Ref(v.fields, 0), it))
    if re.match(r'[\w:]+(<.*>)?$', ty) and ty not in ('String', 'str'):
        ref = ex.W.resolve('<%s as Clone>::clone' % ty, getattr(ex, 'cur_crate', 'compiler'))
        if ref is not None:
            h = [v]; return ex.run_body(ref, [Ref(h, 0)])
    return deep_clone(ex, v)

def key_index(ex, m, k):
    """index of key k in PyMap/PySet key list (forks on symbolic comparisons), or -1"""
    keys = m.keys if isinstance(m, PyMap) else m.elems
    for i, kk in enumerate(keys):
        if ex.branch_bool(veq(ex, kk, k)): return i
    return -1

def utf8_len_char(ex, c):
    if not is_sym(c): return 1 if c < 0x80 else 2 if c < 0x800 else 3 if c < 0x10000 else 4
    return ex.choose([(c < 0x80, 1), (z3.And(c >= 0x80, c < 0x800), 2), (z3.And(c >= 0x800, c < 0x10000), 3), (c >= 0x10000, 4)], exhaustive=True)

def utf8_bytes_char(ex, c):
    n = utf8_len_char(ex, c)
    if not is_sym(c): return list(chr(c).encode('utf-8', 'surrogatepass'))
    if n == 1: return [c]
    if n == 2: return [0xC0 + c / 64, 0x80 + c % 64]
    if n == 3: return [0xE0 + c / 4096, 0x80 + (c / 64) % 64, 0x80 + c % 64]
    return [0xF0 + c / 262144, 0x80 + (c / 4096) % 64, 0x80 + (c / 64) % 64, 0x80 + c % 64]

def world_strlen(W, ex, v):
    return sum(utf8_len_char(ex, c) for c in v.chars)
World.strlen = world_strlen

def to_bytes(ex, v):
    out = []
    for c in v.chars: out.extend(utf8_bytes_char(ex, c))
    return out

class Iter:
    """lazy iterator pipeline over a list of produced values"""
    def __init__(s, base, stages=None):
        s.base = base; s.pos = 0; s.back = len(base); s.stages = list(stages or []); s.count = 0; s.rev = False; s.peeked = None
    def clone(s):
        it = Iter(s.base, s.stages); it.pos, it.back, it.count, it.rev = s.pos, s.back, s.count, s.rev; return it
    def raw(s, ex, fb):
        """next raw element (index, value) of the underlying sequence, or None"""
        if s.pos >= s.back: return None
        if fb: s.back -= 1; i = s.back
        else: i = s.pos; s.pos += 1
        return i, s.base[i]
    def pull(s, ex, from_back=False):
        if s.peeked is not None and not from_back:
            v = s.peeked; s.peeked = None; return v
        fb = from_back != s.rev
        while True:
            rw = s.raw(ex, fb)
            if rw is None: return NONE()
            i, v = rw; keep = True
            for st in s.stages:
                k = st[0]
                if k == 'map': v = callf(ex, st[1], v)
                elif k == 'filter':
                    h = [v]
                    if not ex.branch_bool(callf(ex, st[1], Ref(h, 0))): keep = False; break
                elif k == 'filter_map':
                    r = callf(ex, st[1], v)
                    if r.idx == 0: keep = False; break
                    v = r.fields[0]
                elif k == 'enumerate' and len(st) > 2 and st[2]:
                    # .rev().enumerate(): the numbering follows the reversed order (NOT the base index); a further rev() / next_back() is not modelled
                    if not s.rev or from_back: raise Unsupported('rev / next_back after rev().enumerate()')
                    v = Agg('tuple', 0, [st[1][0], v]); st[1][0] += 1
                elif k == 'enumerate':
                    if i is None or any(x[0] in ('filter', 'filter_map') for x in s.stages[:s.stages.index(st)]):
                        if fb: raise Unsupported('rev over filtered enumerate')
                        v = Agg('tuple', 0, [st[1][0], v]); st[1][0] += 1
                    else: v = Agg('tuple', 0, [i, v])
                elif k == 'cloned': v = clone_typed(ex, v, st[1]) if st[1] else deep_clone(ex, ex.deref(v))
                elif k == 'copied': v = copyval(ex.deref(v))
                elif k == 'inspect':
                    h = [v]; callf(ex, st[1], Ref(h, 0))
                else: raise Unsupported('iterator stage ' + k)
            if keep: return some(v)
    def drain(s, ex):
        out = []
        while True:
            r = s.pull(ex)
            if r.idx == 0: return out
            out.append(r.fields[0])

class ChainIter(Iter):
    def __init__(s, a, b): Iter.__init__(s, []); s.a, s.b = a, b
    def raw(s, ex, fb):
        order = (s.b, s.a) if fb else (s.a, s.b)
        for it in order:
            r = it.pull(ex, fb) if it is not None else NONE()
            if r.idx == 1: return None, r.fields[0]
        return None
    def clone(s): c = ChainIter(s.a.clone(), s.b.clone()); c.stages = list(s.stages); c.rev = s.rev; return c

class ZipIter(Iter):
    def __init__(s, a, b): Iter.__init__(s, []); s.a, s.b = a, b
    def raw(s, ex, fb):
        if fb: raise Unsupported('rev over zip')
        x = s.a.pull(ex)
        if x.idx == 0: return None
        y = s.b.pull(ex)
        if y.idx == 0: return None
        return None, Agg('tuple', 0, [x.fields[0], y.fields[0]])
    def clone(s): c = ZipIter(s.a.clone(), s.b.clone()); c.stages = list(s.stages); return c

def as_iter(ex, v, byref=None):
    """turn a value into an Iter (IntoIterator semantics)"""
    if isinstance(v, Iter): return v
    by = isinstance(v, Ref) if byref is None else byref
    t = ex.deref(v)
    if isinstance(t, Iter): return t
    if isinstance(t, PyVec): return Iter([Ref(t.items, i) for i in range(len(t.items))] if by else list(t.items))
    if isinstance(t, Agg) and t.ty == 'array': return Iter([Ref(t.fields, i) for i in range(len(t.fields))] if by else list(t.fields))
    if isinstance(t, Agg) and t.ty in ('Range', 'RangeInclusive'):
        lo, hi = t.fields[0], t.fields[1]
        if is_sym(lo) or is_sym(hi): raise Unsupported('symbolic range bounds')
        return Iter(list(range(lo, hi + (1 if t.ty == 'RangeInclusive' else 0))))
    if isinstance(t, PySet): return Iter(hash_order(ex, t, [(Ref(t.elems, i) if by else t.elems[i]) for i in range(len(t.elems))]))
    if isinstance(t, PyMap):
        prs = [Agg('tuple', 0, [Ref(t.keys, i), Ref(t.vals, i)]) if by else Agg('tuple', 0, [t.keys[i], t.vals[i]]) for i in range(len(t.keys))]
        return Iter(map_order(ex, t, prs))
    if isinstance(t, Agg) and t.ty == 'Option':
        return Iter([Ref(t.fields, 0) if by else t.fields[0]] if t.idx == 1 else [])
    if isinstance(t, Str): return Iter(list(t.chars))
    raise Unsupported('as_iter of %r' % (t,))

def sort_key(ex, k):
    k = ex.deref(k)
    if isinstance(k, Str): return (0, pystr(k))
    if isinstance(k, int): return (1, k)
    if isinstance(k, Agg): return (2, tuple(sort_key(ex, f) for f in k.fields), k.idx)
    raise Unsupported('ordering of key %r' % (k,))

def map_order(ex, m, items):
    if m.kind == 'btree':
        idx = sorted(range(len(items)), key=lambda i: sort_key(ex, m.keys[i])); return [items[i] for i in idx]
    if m.kind == 'hash': return hash_order(ex, m, items)
    return items

def hash_order(ex, cont, items):
    """iteration order of a std hash container: insertion order, or - when W.hash_order == 'symbolic' - every permutation"""
    if getattr(cont, 'kind', 'hash') == 'btree':
        idx = sorted(range(len(items)), key=lambda i: sort_key(ex, cont.elems[i])); return [items[i] for i in idx]
    if getattr(cont, 'kind', 'hash') != 'hash' or ex.W.hash_order != 'symbolic' or len(items) < 2: return items
    rest = list(items); out = []
    while len(rest) > 1:
        k = ex.choose([(True, i) for i in range(len(rest))]); out.append(rest.pop(k))
    out.extend(rest); return out

"""E1 engine: Kani/CBMC proof harnesses over the real crates of the current /repo tree.

    run_harnesses(crate, inject, harnesses, extra_args, timeout_s, mem_gb) -> {harness: {status, detail, time_s, checks, cover, ...}}

What happens (all under build.Lock('kani'), one Kani job at a time machine-wide; parallelism is *inside* the job, `-j`):
  1. the current tree is rsynced to the fixed scratch path build.sync_scratch('kani') (originals restored every time);
  2. `#[cfg(kani)] #[path = "<abs harness>"] mod verif_kani;` is appended to the named source files of the copy;
  3. files whose content differs from what the (persistent) target dir was last built from get a fresh mtime; all other
     files keep the mtime of the original, so cargo rebuilds exactly what changed (cargo's freshness test is mtime based
     and rsync moves mtimes *backwards* when the tree is switched back to an older state - without this step a build of a
     previous tree could be reused silently);
  4. one invocation builds and verifies: `cargo kani -j N --output-format terse --harness ... --harness-timeout T` under
     `ulimit -v` and `timeout` (if nothing gets verified the build is repeated without the cap to report the compile error);
  5. the output is parsed per harness.  Classification (never optimistic):
        success      = "VERIFICATION:- SUCCESSFUL", 0 failed checks, every cover property SATISFIED, no CBMC error/OOM/timeout text
        failure      = "VERIFICATION:- FAILED" + a concrete "Failed Checks:" line that is not an unwinding assertion,
                       not an unsupported-construct / reachability artefact, and no CBMC error / out-of-memory text
        inconclusive = everything else (unwinding assertion failed, cover not satisfied, OOM, timeout, missing result...)
  6. a harness classified 'failure' is re-run alone with `-Z concrete-playback --concrete-playback=print`; the printed unit
     test is compiled into a copy of the harness module and executed natively with `cargo kani playback`; `replayed` says
     whether the native run fails with a panic as well.
"""
import os, re, sys, json, time, shutil, hashlib, subprocess
from . import build

VERIF = build.VERIF
HARNESS_DIR = os.path.join(VERIF, 'harness')
ENGINE = 'E1 Kani 0.68 / CBMC 6.11'
MOD_NAME = 'verif_kani'

class KaniError(Exception):
    pass

# ----------------------------------------------------------------------------------------------------------- versions
_ver = None
def versions():
    global _ver
    if _ver is None:
        try:
            out = subprocess.run(['cargo', 'kani', '--version'], capture_output=True, text=True, env=build.ENV).stdout
        except Exception as e:
            out = 'unavailable: %s' % e
        _ver = ' / '.join(l.strip() for l in out.splitlines() if l.strip())
    return _ver

# ----------------------------------------------------------------------------------------------------------- injection
def _mod_line(harness_path):
    return '\n#[cfg(kani)]\n#[path = "%s"]\nmod %s;\n' % (harness_path, MOD_NAME)

def module_path(rel):
    """Rust module path (inside its crate) of the child module injected into source file `rel`"""
    m = re.match(r'crates/[^/]+/src/(.*)\.rs$', rel)
    if not m: raise KaniError('cannot derive a module path from %r' % rel)
    parts = m.group(1).split('/')
    if parts[-1] in ('lib', 'main', 'mod'): parts = parts[:-1]
    return '::'.join(parts + [MOD_NAME])

def _inject(src, inject):
    """append the mod line to the scratch copies; keeps the original mtime (step 3 decides what is stale)"""
    for rel, hpath in inject.items():
        p = os.path.join(src, rel)
        if not os.path.isfile(p): raise KaniError('source file to inject into does not exist in the current tree: ' + rel)
        if not os.path.isfile(hpath): raise KaniError('harness file missing: ' + hpath)
        st = os.stat(p)
        text = open(p).read()
        line = _mod_line(hpath)
        if MOD_NAME + ';' in text:                       # rsync restores originals, so this means the repo itself has such a module
            if line in text: continue
            raise KaniError('%s already declares a module named %s' % (rel, MOD_NAME))
        with open(p, 'a') as fh: fh.write(line)
        os.utime(p, ns=(st.st_atime_ns, st.st_mtime_ns))

def _sha(p):
    h = hashlib.sha256()
    with open(p, 'rb') as fh: h.update(fh.read())
    return h.hexdigest()

def _tree_manifest(src, inject):
    man = {}
    for root, dirs, files in os.walk(src):
        dirs[:] = sorted(d for d in dirs if d not in build.EXCLUDE)
        for f in sorted(files):
            if not f.endswith(('.rs', '.toml', '.lock')): continue
            p = os.path.join(root, f)
            if os.path.isfile(p) and not os.path.islink(p): man[os.path.relpath(p, src)] = _sha(p)
    for rel, hpath in inject.items(): man['<harness>' + hpath] = _sha(hpath)
    return man

def _freshen(src, target_dir, inject):
    """give a new mtime to every file that differs from what target_dir was last built from; returns the manifest to store after a good build"""
    man = _tree_manifest(src, inject)
    mpath = os.path.join(target_dir, 'verif-manifest.json')
    try: old = json.load(open(mpath))
    except Exception: old = None
    now = time.time()
    stale = []
    if old is None or set(k for k in old if not k.startswith('<harness>')) - set(man):
        stale = [k for k in man if not k.startswith('<harness>')]          # unknown build state or a file vanished: everything is stale
    else:
        for k, v in man.items():
            if old.get(k) != v:
                if k.startswith('<harness>'):
                    stale += [rel for rel, hp in inject.items() if '<harness>' + hp == k]
                else: stale.append(k)
    for rel in set(stale):
        p = os.path.join(src, rel)
        if os.path.exists(p): os.utime(p, (now, now))
    try: os.remove(mpath)                        # the target dir is in an unknown state until the build below has finished
    except FileNotFoundError: pass
    return man, mpath, len(set(stale))

# ----------------------------------------------------------------------------------------------------------- running
def _run(cmd, cwd, timeout_s, mem_gb=None, log=None):
    """run under `timeout` (and `ulimit -v`); returns (rc, output, seconds). rc 124/137 = timeout"""
    pre = 'ulimit -v %d; ' % int(mem_gb * 1024 * 1024) if mem_gb else ''
    sh = pre + 'exec timeout -k 10 %d ' % int(timeout_s) + ' '.join(_q(c) for c in cmd)
    t0 = time.time()
    r = subprocess.run(['bash', '-c', sh], cwd=cwd, env=build.ENV, stdout=subprocess.PIPE, stderr=subprocess.STDOUT, text=True, errors='replace')
    dt = time.time() - t0
    if log:
        with open(log, 'w') as fh: fh.write('$ ' + sh + '\n' + r.stdout + '\n[exit %d after %.1fs]\n' % (r.returncode, dt))
    return r.returncode, r.stdout, dt

def _q(s):
    return "'" + s.replace("'", "'\\''") + "'" if re.search(r'[^\w@%+=:,./-]', s) else s

def target_dir(crate):
    return os.path.join(build.CACHE, 'target-kani-' + crate)

def _base_cmd(crate, harnesses, extra_args):
    cmd = ['cargo', 'kani', '-p', crate, '--target-dir', target_dir(crate)]
    for h in harnesses: cmd += ['--harness', h]
    return cmd + list(extra_args)

# ----------------------------------------------------------------------------------------------------------- parsing
ERR_PAT = re.compile(r'(?im)out of memory|bad_alloc|memory exhausted|memory allocation of \d+ bytes failed|std::length_error|CBMC failed|CBMC timed out|'
                     r'cbmc.*(killed|crashed|signal)|\bSIGKILL\b|\bSIGSEGV\b|\bSIGABRT\b|harness timed out|timed out after|internal compiler error|'
                     r'^error(\[E\d+\])?: |^thread .* panicked')
CHECK_PARA = re.compile(r'^Check \d+: .*\n(?:[ \t]+- .*\n?)+', re.M)
ARTEFACT_FAIL = re.compile(r'(?i)unwinding assertion|is not currently supported by Kani|unsupported|reachability check|recursion unwinding')

def _new_result():
    return {'status': 'inconclusive', 'detail': 'no result found in Kani output', 'time_s': 0.0, 'checks': 0, 'failed': 0, 'unreachable_checks': 0,
            'cover': {'total': 0, 'satisfied': 0, 'unsatisfied': [], 'items': {}}, 'failed_checks': [], 'verdict_line': None}

def _classify(res, block):
    """fill status/detail of one harness result from its output block"""
    verdict = res['verdict_line']
    cov = res['cover']
    problems = []
    m = ERR_PAT.search(CHECK_PARA.sub('', block))          # descriptions of individual checks may contain any text; look outside them
    if m: problems.append('engine error text in output: %r' % m.group(0))
    if re.search(r'- Status: ERROR', block): problems.append('a check has Status: ERROR')
    if verdict is None: problems.append('no VERIFICATION verdict line')
    if res['summary_seen'] is False: problems.append('no check summary')
    unwinding = [f for f in res['failed_checks'] if re.search(r'(?i)unwinding assertion|recursion unwinding', f)]
    if unwinding or re.search(r'unwinding failures', block): problems.append('unwinding assertion failed (bound too small): %s' % '; '.join(unwinding[:2]))
    if cov['total'] == 0 and res['summary_seen']: problems.append('vacuity guard: the harness has no kani::cover! reachability witness')
    if cov['total'] != cov['satisfied']:
        problems.append('vacuity guard: %d of %d cover properties satisfied%s' % (cov['satisfied'], cov['total'], (' (not satisfied: %s)' % '; '.join(cov['unsatisfied'])) if cov['unsatisfied'] else ''))
    if verdict == 'SUCCESSFUL':
        if res['failed'] != 0: problems.append('verdict SUCCESSFUL but %d failed checks' % res['failed'])
        if res['checks'] == 0: problems.append('0 checks')
        if problems: res['status'], res['detail'] = 'inconclusive', '; '.join(problems)
        else: res['status'], res['detail'] = 'success', '%d checks, %d/%d covers satisfied' % (res['checks'], cov['satisfied'], cov['total'])
        return
    if verdict == 'FAILED':
        real = [f for f in res['failed_checks'] if not ARTEFACT_FAIL.search(f)]
        hard = [p for p in problems if not p.startswith('vacuity guard:')]           # a genuine failure usually also leaves covers undetermined
        if real and not hard and res['failed'] > 0:
            res['status'], res['detail'] = 'failure', 'Failed Checks: ' + ' | '.join(real[:4])
        else:
            if not real: problems.append('FAILED without a concrete failed property' if not res['failed_checks'] else 'only artefact checks failed: ' + '; '.join(res['failed_checks'][:3]))
            res['status'], res['detail'] = 'inconclusive', '; '.join(problems)
        return
    res['status'], res['detail'] = 'inconclusive', '; '.join(problems) or 'unrecognised output'

def _parse_block(block):
    """one harness' result text (terse 'VERIFICATION RESULT:' block or the regular per-harness section)"""
    res = _new_result(); res['summary_seen'] = False
    m = re.search(r'\*\* (\d+) of (\d+) failed(?: \(([^)]*)\))?', block)
    if m:
        res['summary_seen'] = True; res['failed'] = int(m.group(1)); res['checks'] = int(m.group(2))
        mu = re.search(r'(\d+) unreachable', m.group(3) or '')
        if mu: res['unreachable_checks'] = int(mu.group(1))
    m = re.search(r'\*\* (\d+) of (\d+) cover properties satisfied(?: \(([^)]*)\))?', block)
    if m: res['cover']['satisfied'] = int(m.group(1)); res['cover']['total'] = int(m.group(2)); res['cover']['note'] = m.group(3) or ''
    # regular format: individual checks
    for cm in re.finditer(r'Check \d+: (\S+)\s*\n\s*- Status: (\w+)\s*\n\s*- Description: "((?:[^"\\]|\\.)*)"', block):
        name, status, desc = cm.groups()
        if '.cover.' in name or status in ('SATISFIED', 'UNSATISFIABLE'):
            res['cover']['items'][desc] = status
            if status != 'SATISFIED': res['cover']['unsatisfied'].append('%s [%s]' % (desc, status))
    for fm in re.finditer(r'Failed Checks: (.*)\n(?:\s*File: "([^"]*)", line (\d+), in (\S+))?', block):
        d = fm.group(1).strip()
        if fm.group(2): d += ' @ %s:%s in %s' % (os.path.basename(fm.group(2)), fm.group(3), fm.group(4))
        res['failed_checks'].append(d)
    m = re.search(r'VERIFICATION:- (SUCCESSFUL|FAILED)', block)
    if m: res['verdict_line'] = m.group(1)
    m = re.search(r'Verification Time: ([0-9.]+)s', block)
    if m: res['time_s'] = float(m.group(1))
    _classify(res, block)
    return res

def parse_output(text, harnesses):
    """-> {short harness name: result}; understands terse (-j, 'Thread N:') and regular output"""
    blocks = {}                                   # full harness name -> text
    if re.search(r'^Thread \d+: ', text, re.M):
        cur = {}                                  # thread -> harness being checked
        parts = re.split(r'^(Thread \d+: .*)$', text, flags=re.M)
        i = 1
        while i < len(parts):
            head, body = parts[i], parts[i + 1] if i + 1 < len(parts) else ''
            m = re.match(r'Thread (\d+): Checking harness (.+?)\.\.\.\s*$', head)
            if m:
                cur[m.group(1)] = m.group(2)
                blocks.setdefault(m.group(2), '')
                blocks[m.group(2)] += body if 'VERIFICATION' not in body else ''      # stray text (e.g. CBMC errors) printed while it runs
            else:
                t = re.match(r'Thread (\d+):', head).group(1)
                if t in cur: blocks[cur[t]] = blocks.get(cur[t], '') + head + body
            i += 2
    else:
        parts = re.split(r'^Checking harness (.+?)\.\.\.\s*$', text, flags=re.M)
        for i in range(1, len(parts), 2):
            body = parts[i + 1]
            body = re.split(r'^(?:Manual Harness Summary:|Complete - )', body, flags=re.M)[0]
            blocks[parts[i]] = blocks.get(parts[i], '') + body
    out = {}
    seen = {}
    for full, blk in blocks.items():
        short = full.split('::')[-1]
        seen.setdefault(short, []).append(full)
        out[short] = _parse_block(blk); out[short]['full_name'] = full
    for h in harnesses:
        if h not in out:
            r = _new_result(); r['summary_seen'] = False; r['detail'] = 'harness did not run (not found, build failure, or the run was cut short)'
            out[h] = r
        elif len(seen[h]) > 1:
            out[h]['status'] = 'inconclusive'; out[h]['detail'] = 'ambiguous harness name, matched ' + ', '.join(seen[h])
    extra = sorted(set(out) - set(harnesses))
    if extra:
        for h in harnesses:
            out[h].setdefault('notes', []).append('the harness filters also matched: ' + ', '.join(extra))
    return {h: out[h] for h in harnesses}

def parse_playback_tests(text):
    """the unit tests printed by --concrete-playback=print -> [(check kind, check description, test name, test source)]"""
    out = []
    for m in re.finditer(r'```\s*\n((?:\s*///[^\n]*\n)*)\s*(#\[test\]\s*\n\s*fn (kani_concrete_playback_\w+)\(\)\s*\{.*?\n\}\s*)\n```', text, re.S):
        doc, src, name = m.group(1), m.group(2), m.group(3)
        k = re.search(r'Check for `(\w+)`: (.*)', doc)
        out.append((k.group(1) if k else '?', k.group(2).strip() if k else '', name, src))
    return out

# ----------------------------------------------------------------------------------------------------------- main entry
def run_harnesses(crate, inject, harnesses, extra_args=(), timeout_s=900, mem_gb=12, jobs=None, playback=True, log_tag=None):
    """crate: cargo package name; inject: {source file relative to the repo root: absolute harness .rs path};
    harnesses: short harness function names (substring filters of `cargo kani --harness`; must be unambiguous);
    extra_args: e.g. ['-Z', 'stubbing']; timeout_s: wall limit per harness (the whole run gets timeout_s * ceil(n/jobs) + 120); mem_gb: address-space cap of every cbmc process.
    Returns {harness: result dict}; see module doc for the classification."""
    harnesses = list(harnesses)
    if not harnesses: return {}
    jobs = jobs or min(len(harnesses), 6)
    tdir = target_dir(crate)
    os.makedirs(tdir, exist_ok=True)
    logdir = os.path.join(build.CACHE, 'kani-logs'); os.makedirs(logdir, exist_ok=True)
    tag = log_tag or (crate + '-' + hashlib.sha1(' '.join(harnesses).encode()).hexdigest()[:8])
    meta = {'crate': crate, 'engine': ENGINE, 'versions': versions(), 'jobs': jobs, 'mem_gb': mem_gb, 'timeout_s': timeout_s, 'stubs': []}
    t_wait = time.time()
    with build.Lock('kani'):
        meta['lock_wait_s'] = round(time.time() - t_wait, 1)
        src = build.sync_scratch('kani')
        _inject(src, inject)
        man, mpath, nstale = _freshen(src, tdir, inject)
        meta['stale_files'] = nstale
        base = _base_cmd(crate, harnesses, extra_args)
        # ---- build + verify in ONE invocation (a separate `--only-codegen` pass costs ~1.6 s per harness twice: kani-driver
        #      re-links every harness).  timeout_s is per harness (Kani's --harness-timeout); the outer `timeout` guards the run.
        cmd = base + ['-j', str(jobs), '--output-format', 'terse']
        if not any(a == '--harness-timeout' for a in extra_args): cmd += ['-Z', 'unstable-options', '--harness-timeout', '%ds' % int(timeout_s)]
        rounds = (len(harnesses) + jobs - 1) // jobs
        rc, out, dt = _run(cmd, src, timeout_s=timeout_s * rounds + 600, mem_gb=mem_gb, log=os.path.join(logdir, tag + '.verify.log'))
        meta['build_s'] = 0.0
        if 'Checking harness' not in out:
            # nothing was verified: compile error, or rustc itself hit the address-space cap.  Build again without the cap to tell which.
            rc0, out0, dt0 = _run(base + ['--only-codegen'], src, timeout_s=1800, log=os.path.join(logdir, tag + '.build.log'))
            meta['build_s'] = round(dt0, 1)
            if rc0 != 0 or re.search(r'^error(\[E\d+\])?: ', out0, re.M):       # (stdout/stderr interleave, so do not look for the 'Finished' line)
                errs = [l for l in out0.splitlines() if l.startswith('error')]
                raise build.BuildError('cargo kani build failed for %s (exit %d): %s\n%s' % (crate, rc0, ' | '.join(errs[:5]), out0[-1500:]))
            rc, out, dt = _run(cmd, src, timeout_s=timeout_s * rounds + 600, mem_gb=mem_gb, log=os.path.join(logdir, tag + '.verify.log'))
        if 'Checking harness' in out: json.dump(man, open(mpath, 'w'))              # the target dir now reflects this tree
        mb = re.search(r"Finished `dev` profile[^\n]* in ([0-9.]+)s", out)
        if mb and not meta['build_s']: meta['build_s'] = float(mb.group(1))
        meta['verify_s'] = round(dt, 1); meta['verify_rc'] = rc
        meta['stubs'] = sorted(set(re.findall(r'- Stub: (.+)', out)))
        results = parse_output(out, harnesses)
        timed_out = rc in (124, 137)
        for h, r in results.items():
            r['meta'] = meta
            if timed_out and r['status'] != 'success' and r['verdict_line'] is None:
                r['status'] = 'inconclusive'; r['detail'] = 'timeout after %ds (run cut short)' % timeout_s
        # ---- failures: concrete playback (one by one, regular output)
        done = {}                                   # failed-check text (without harness-specific location) -> harness already replayed
        for h, r in results.items():
            if r['status'] != 'failure': continue
            sig = re.sub(r' @ .*$', '', (r['failed_checks'] or ['?'])[0])
            if not playback: r['replay'] = {'replayed': False, 'detail': 'playback disabled'}
            elif sig in done and results[done[sig]]['replay'].get('replayed'):
                r['replay'] = {'replayed': False, 'same_as': done[sig], 'detail': 'not replayed separately: same failed check as %s, which reproduces natively' % done[sig]}
            else:
                r['replay'] = _playback(crate, inject, src, h, r, extra_args, timeout_s, mem_gb, logdir, tag)
                done.setdefault(sig, h)
    return results

def _playback(crate, inject, src, h, r, extra_args, timeout_s, mem_gb, logdir, tag):
    """re-run harness h alone with concrete playback, then execute the generated test natively. caller holds the lock."""
    rep = {'replayed': False, 'detail': '', 'test': None, 'native_output': ''}
    cmd = _base_cmd(crate, [h], extra_args) + ['-Z', 'concrete-playback', '--concrete-playback=print']
    # kani-driver itself needs a lot of address space to digest CBMC's JSON trace ('memory allocation of N bytes failed' at 10 GB): one harness, larger cap
    rc, out, dt = _run(cmd, src, timeout_s=timeout_s + 600, mem_gb=max(3 * mem_gb, 30), log=os.path.join(logdir, '%s.%s.playback-gen.log' % (tag, h)))
    again = parse_output(out, [h])[h]
    rep['rerun_status'] = again['status']; rep['rerun_detail'] = again['detail']
    if again['cover']['items']: r['cover']['items'] = again['cover']['items']
    if again['status'] != 'failure':
        rep['detail'] = 'the failure did not recur in the single-harness re-run: ' + again['detail']; return rep
    tests = [t for t in parse_playback_tests(out) if t[0] != 'cover']
    if not tests:
        rep['detail'] = 'Kani printed no concrete playback test for a failed check'; return rep
    kind, desc, name, test_src = tests[0]
    rep['test'] = test_src; rep['check'] = '%s: %s' % (kind, desc)
    rep['concrete_values'] = [[int(x) for x in v.split(',') if x.strip()] for v in re.findall(r'vec!\[([\d, ]*)\],', test_src)]
    # which injected file holds this harness?  try each harness file that mentions the name
    cands = [(rel, hp) for rel, hp in inject.items() if re.search(r'\b%s\b' % re.escape(h), open(hp).read())] or list(inject.items())
    rel, hp = cands[0]
    pdir = os.path.join(os.path.dirname(src), 'playback'); os.makedirs(pdir, exist_ok=True)
    copy = os.path.join(pdir, os.path.basename(hp))
    with open(copy, 'w') as fh: fh.write(open(hp).read() + '\n// ---- concrete playback test generated by Kani for ' + h + '\n' + test_src + '\n')
    p = os.path.join(src, rel)
    text = open(p).read()
    open(p, 'w').write(text.replace(_mod_line(hp), _mod_line(copy)))
    try:
        cmd = ['env', 'CARGO_TARGET_DIR=' + target_dir(crate) + '-playback', 'cargo', 'kani', 'playback', '-Z', 'concrete-playback', '-p', crate, '--lib', '--', name]
        rc, out2, dt2 = _run(cmd, src, timeout_s=1800, log=os.path.join(logdir, '%s.%s.playback-run.log' % (tag, h)))
    finally:
        open(p, 'w').write(text)
    rep['native_output'] = out2[-3000:]
    failed = re.search(r'test \S*%s \.\.\. FAILED' % re.escape(name), out2)
    passed = re.search(r'test \S*%s \.\.\. ok' % re.escape(name), out2)
    pm = re.search(r"panicked at ([^\n]*)\n([^\n]*)", out2)
    if failed:
        rep['replayed'] = True
        rep['detail'] = 'native run of the generated test fails: ' + (pm.group(0).replace('\n', ' ') if pm else 'test FAILED')
        want = re.sub(r'^\W+|\W+$', '', desc)
        rep['same_check'] = bool(want) and want in out2            # the native panic message is the failed check's description
    elif passed:
        rep['detail'] = 'the generated test PASSES natively: CBMC counterexample does not reproduce (engine artefact or stub-dependent)'
    else:
        rep['detail'] = 'native playback did not run the test (exit %d): %s' % (rc, out2[-400:])
    return rep

# ----------------------------------------------------------------------------------------------------------- helper for obligations
def cover_messages(harness_path):
    """descriptions of the kani::cover! sites of a harness file (terse output has counts only)"""
    return re.findall(r'kani::cover!\((?:[^;]*?),\s*"((?:[^"\\]|\\.)*)"\s*\)\s*;', open(harness_path).read(), re.S)

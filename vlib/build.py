"""Scratch copies of /repo's *current working tree* and everything derived from them (MIR dumps, rustdoc JSON, native
replay drivers, Kani runs).  Derived artefacts are cached under /verif/.cache keyed by a content hash of the tree, so a
changed source file always gives a new key (nothing is reused across different trees)."""
import os, sys, hashlib, subprocess, fcntl, shutil, time, json

REPO = os.environ.get('VERIF_REPO', '/repo')
VERIF = os.path.dirname(os.path.dirname(os.path.abspath(__file__)))
CACHE = os.path.join(VERIF, '.cache')
SCRATCH = os.environ.get('VERIF_SCRATCH', '/tmp/vf-scratch')
CRATES = ['lexer', 'diagnostics', 'common_defs', 'cst', 'ast', 'parser', 'compiler']
EXCLUDE = ('target', '.git', 'webapp', 'node_modules')
ENV = dict(os.environ, CARGO_NET_OFFLINE='true', CARGO_TERM_COLOR='never')

class BuildError(Exception):
    pass

def _files():
    out = []
    for root, dirs, files in os.walk(REPO):
        dirs[:] = sorted(d for d in dirs if d not in EXCLUDE)
        for f in sorted(files):
            p = os.path.join(root, f)
            if os.path.islink(p) or not os.path.isfile(p): continue
            out.append(p)
    return out

_hash = None
def tree_hash():
    global _hash
    if _hash is None:
        h = hashlib.sha256()
        for p in _files():
            rel = os.path.relpath(p, REPO)
            if not (rel.endswith(('.rs', '.toml', '.lock', '.gom')) or '/src/' in rel): continue
            h.update(rel.encode()); h.update(b'\0')
            with open(p, 'rb') as fh: h.update(fh.read())
            h.update(b'\0')
        _hash = h.hexdigest()[:20]
    return _hash

class Lock:
    def __init__(s, name):
        os.makedirs(CACHE, exist_ok=True); s.path = os.path.join(CACHE, name + '.lock')
    def __enter__(s):
        s.fh = open(s.path, 'w'); fcntl.flock(s.fh, fcntl.LOCK_EX); return s
    def __exit__(s, *a):
        fcntl.flock(s.fh, fcntl.LOCK_UN); s.fh.close()

def sync_scratch(kind):
    """rsync the current tree to a fixed scratch path per kind (so cargo's incremental state stays valid); caller holds the lock"""
    dst = os.path.join(SCRATCH, kind, 'src')
    os.makedirs(dst, exist_ok=True)
    # no -t: a file whose content changed gets the current time (cargo's freshness test is mtime based and the scratch path is reused
    # across different trees); unchanged files keep their time, so incremental builds still work
    cmd = ['rsync', '-rlpgoD', '--delete', '--checksum']
    for e in EXCLUDE: cmd += ['--exclude', e]
    cmd += [REPO + '/', dst + '/']
    r = subprocess.run(cmd, capture_output=True, text=True)
    if r.returncode != 0: raise BuildError('rsync failed: ' + r.stderr[-400:])
    return dst

def _content_manifest(src):
    man = {}
    for root, dirs, files in os.walk(src):
        dirs[:] = sorted(d for d in dirs if d not in EXCLUDE)
        for f in sorted(files):
            if not f.endswith(('.rs', '.toml', '.lock')): continue
            p = os.path.join(root, f)
            if os.path.isfile(p) and not os.path.islink(p):
                h = hashlib.sha256(); h.update(open(p, 'rb').read()); man[os.path.relpath(p, src)] = h.hexdigest()
    return man

def freshen(src, target_dir):
    """Stale-build guard for a cargo target directory that is shared by several scratch workspaces.
    cargo derives the same crate hashes for workspaces with the same layout and judges freshness by mtime, so a workspace whose
    files are older than the last build of ANOTHER tree would silently reuse that tree's rlibs (observed: the /repo binary rebuilt
    after a pruned cache carried the patch of a scratch worktree). Every file whose content differs from what `target_dir` was last
    built from gets a new mtime; the manifest is written by `freshen_done` only after a successful build."""
    man = _content_manifest(src); mpath = os.path.join(target_dir, 'verif-manifest.json')
    try: old = json.load(open(mpath))
    except Exception: old = None
    now = time.time()
    stale = list(man) if (old is None or set(old) - set(man)) else [k for k, v in man.items() if old.get(k) != v]
    for rel in stale:
        p = os.path.join(src, rel)
        if os.path.exists(p): os.utime(p, (now, now))
    try: os.remove(mpath)
    except FileNotFoundError: pass
    return man, mpath

def freshen_done(man, mpath):
    os.makedirs(os.path.dirname(mpath), exist_ok=True); json.dump(man, open(mpath, 'w'))

def _prune(d, keep=4):
    try: ents = sorted((os.path.getmtime(os.path.join(d, e)), e) for e in os.listdir(d))
    except FileNotFoundError: return
    for _, e in ents[:-keep]: shutil.rmtree(os.path.join(d, e), ignore_errors=True)

def mir_dir(log=None):
    """directory holding <crate>.mir and doc/<crate>.json for the current tree"""
    key = tree_hash() + '-da'; out = os.path.join(CACHE, 'mir', key)      # -da: dumped with debug assertions on (dev profile: debug_assert! is a panic edge)
    if os.path.exists(os.path.join(out, 'OK')):
        os.utime(out); return out
    with Lock('mir'):
        if os.path.exists(os.path.join(out, 'OK')): return out
        t0 = time.time()
        src = sync_scratch('mir')
        tmp = out + '.tmp'; shutil.rmtree(tmp, ignore_errors=True); os.makedirs(os.path.join(tmp, 'doc'))
        env = dict(ENV, CARGO_TARGET_DIR=os.path.join(CACHE, 'target-mir'))
        man, mpath = freshen(src, env['CARGO_TARGET_DIR'])
        for c in CRATES:
            lib = {'common_defs': 'common-defs'}.get(c, c)
            os.utime(os.path.join(src, 'crates', lib, 'src', 'lib.rs'))
            r = subprocess.run(['cargo', '+nightly', 'rustc', '--offline', '-p', c, '--lib', '--', '-Zunpretty=mir', '-C', 'debug-assertions=on', '-Zub-checks=no',
                                '-C', 'overflow-checks=on'], cwd=src, env=env, capture_output=True, text=True)
            if r.returncode != 0 or not r.stdout.strip():
                raise BuildError('MIR dump of %s failed (the tree does not compile?):\n%s' % (c, r.stderr[-1500:]))
            open(os.path.join(tmp, c + '.mir'), 'w').write(r.stdout)
        for c in CRATES:
            r = subprocess.run(['cargo', '+nightly', 'rustdoc', '--offline', '-p', c, '--lib', '--', '-Zunstable-options', '--output-format', 'json',
                                '--document-private-items'], cwd=src, env=env, capture_output=True, text=True)
            if r.returncode != 0: raise BuildError('rustdoc JSON of %s failed:\n%s' % (c, r.stderr[-1500:]))
            shutil.copy(os.path.join(env['CARGO_TARGET_DIR'], 'doc', c + '.json'), os.path.join(tmp, 'doc', c + '.json'))
        freshen_done(man, mpath)
        open(os.path.join(tmp, 'OK'), 'w').write(json.dumps({'hash': key, 'secs': time.time() - t0}))
        shutil.rmtree(out, ignore_errors=True); os.rename(tmp, out)
        shutil.rmtree(src, ignore_errors=True)
        _prune(os.path.join(CACHE, 'mir'))
    return out

def native(kind='driver'):
    """scratch copy for native builds (replay driver, compiler binary); returns (src dir, env)"""
    src = sync_scratch(kind)
    env = dict(ENV, CARGO_TARGET_DIR=os.path.join(CACHE, 'target-' + kind))
    return src, env

_compiler_bin = None
def compiler_bin():
    """the real compiler CLI built from the current tree (stable toolchain, dev profile)"""
    global _compiler_bin
    if _compiler_bin: return _compiler_bin
    key = tree_hash(); out = os.path.join(CACHE, 'bin', key, 'compiler')
    if not os.path.exists(out):
        with Lock('native'):
            if not os.path.exists(out):
                src, env = native('native')
                # The target directory is shared by every scratch workspace, and so is the path of the final `debug/compiler`.
                # If cargo finds this workspace fresh it does not re-link, and the file there may be the last link of ANOTHER
                # tree (seen after the binary cache had been pruned). Touching the bin root forces a re-link from this workspace.
                os.utime(os.path.join(src, 'crates', 'compiler', 'src', 'main.rs'))
                man, mpath = freshen(src, env['CARGO_TARGET_DIR'])
                r = subprocess.run(['cargo', 'build', '--offline', '-p', 'compiler', '--bin', 'compiler'], cwd=src, env=env, capture_output=True, text=True)
                if r.returncode != 0: raise BuildError('compiler build failed:\n' + r.stderr[-1500:])
                freshen_done(man, mpath)
                os.makedirs(os.path.dirname(out), exist_ok=True)
                shutil.copy(os.path.join(env['CARGO_TARGET_DIR'], 'debug', 'compiler'), out)
                _prune(os.path.join(CACHE, 'bin'))
    _compiler_bin = out; return out

def run_driver(name, stdin_text, timeout=600):
    """build (cached per tree) and run the native replay driver binary `name` from /verif/driver against the current tree"""
    dh = hashlib.sha256()
    for root, _, files in sorted(os.walk(os.path.join(VERIF, 'driver'))):
        for f in sorted(files): dh.update(open(os.path.join(root, f), 'rb').read())
    key = tree_hash() + '-' + dh.hexdigest()[:10]; out = os.path.join(CACHE, 'bin', key, name)
    if not os.path.exists(out):
        with Lock('native'):
            if not os.path.exists(out):
                src, env = native('native')
                ddir = os.path.join(SCRATCH, 'native', 'driver'); shutil.rmtree(ddir, ignore_errors=True)
                shutil.copytree(os.path.join(VERIF, 'driver'), ddir)
                shutil.copy(os.path.join(src, 'Cargo.lock'), os.path.join(ddir, 'Cargo.lock'))
                man, mpath = freshen(src, env['CARGO_TARGET_DIR'])
                r = subprocess.run(['cargo', 'build', '--offline', '--bin', name], cwd=ddir, env=env, capture_output=True, text=True)
                if r.returncode != 0: raise BuildError('driver build failed:\n' + r.stderr[-2500:])
                freshen_done(man, mpath)
                os.makedirs(os.path.dirname(out), exist_ok=True)
                shutil.copy(os.path.join(env['CARGO_TARGET_DIR'], 'debug', name), out)
    r = subprocess.run([out], input=stdin_text, capture_output=True, text=True, timeout=timeout)
    return r.returncode, r.stdout, r.stderr

# ----------------------------------------------------------------------------- model probes: a std-only crate of /verif, dumped with the same flags and built natively
def probe_build():
    """returns (dir with modelprobe.mir, native binary) for /verif/modelprobe; cached by the hash of its sources"""
    import hashlib
    pdir = os.path.join(VERIF, 'modelprobe'); h = hashlib.sha256()
    for f in ('Cargo.toml', 'src/lib.rs', 'src/main.rs'): h.update(open(os.path.join(pdir, f), 'rb').read())
    key = h.hexdigest()[:16]; out = os.path.join(CACHE, 'probe', key)
    if os.path.exists(os.path.join(out, 'OK')): return out, os.path.join(out, 'modelprobe')
    with Lock('probe'):
        if os.path.exists(os.path.join(out, 'OK')): return out, os.path.join(out, 'modelprobe')
        src = os.path.join(SCRATCH, 'probe-src'); shutil.rmtree(src, ignore_errors=True); shutil.copytree(pdir, src, ignore=shutil.ignore_patterns('target'))
        env = dict(ENV, CARGO_TARGET_DIR=os.path.join(CACHE, 'target-probe'))
        r = subprocess.run(['cargo', '+nightly', 'rustc', '--offline', '--lib', '--', '-Zunpretty=mir', '-C', 'debug-assertions=on', '-Zub-checks=no', '-C', 'overflow-checks=on'], cwd=src, env=env, capture_output=True, text=True)
        if r.returncode != 0 or not r.stdout.strip(): raise BuildError('MIR dump of modelprobe failed:\n' + r.stderr[-1500:])
        tmp = out + '.tmp'; shutil.rmtree(tmp, ignore_errors=True); os.makedirs(tmp)
        open(os.path.join(tmp, 'modelprobe.mir'), 'w').write(r.stdout)
        env2 = dict(ENV, CARGO_TARGET_DIR=os.path.join(CACHE, 'target-probe-native'))
        r = subprocess.run(['cargo', 'build', '--offline', '--bin', 'modelprobe'], cwd=src, env=env2, capture_output=True, text=True)
        if r.returncode != 0: raise BuildError('native build of modelprobe failed:\n' + r.stderr[-1500:])
        shutil.copy(os.path.join(env2['CARGO_TARGET_DIR'], 'debug', 'modelprobe'), os.path.join(tmp, 'modelprobe'))
        open(os.path.join(tmp, 'OK'), 'w').write(key)
        shutil.rmtree(out, ignore_errors=True); os.rename(tmp, out); shutil.rmtree(src, ignore_errors=True)
    return out, os.path.join(out, 'modelprobe')

"""helpers shared by E2 (mirsym) obligations"""
import os, sys, time
import z3
sys.path.insert(0, os.path.dirname(os.path.dirname(os.path.abspath(__file__))))
import mirsym as ms
from mirsym.engine import Unsupported, Limit
from . import build

_worlds = {}
def world(crates=('compiler', 'common_defs', 'diagnostics')):
    key = tuple(crates)
    if key not in _worlds:
        _worlds[key] = ms.load_world(build.mir_dir(), list(crates))
    return _worlds[key]

def fresh_world(crates=('compiler', 'common_defs', 'diagnostics')):
    """a private World (own solver, counters, caches) sharing the already parsed MIR files"""
    base = world(crates)
    W = ms.World.__new__(ms.World)
    W.__dict__.update(base.__dict__)
    W.res_cache = dict(base.res_cache); W.const_vals = {}; W.solver = z3.Solver(); W.queries = 0; W.solver_time = 0.0
    W.bodies_run = set(); W.models_used = set(); W.steps_total = 0; W.model_cache = {}; W.overrides = []; W.stubs = {}; W.hash_order = 'insertion'
    return W

def account(r, W, results=None, complete=True):
    """copy engine statistics into the obligation result; an incomplete exploration is inconclusive"""
    r.engine = 'E2 mirsym (MIR symbolic execution + z3 %s)' % z3.get_version_string()
    r.queries += W.queries; r.solver_s += W.solver_time; r.steps += W.steps_total
    fs = sorted(set(r.functions) | {n for _, n in W.bodies_run}); r.functions = fs
    r.models = sorted(set(r.models) | set(W.models_used))
    if results is not None: r.paths += len(results)
    if not complete: raise Limit('exploration stopped at a path/time limit')

def explore(r, W, entry, assumptions, path_limit=200000, time_limit=None):
    res, done = ms.explore(W, entry, assumptions, path_limit=path_limit, time_limit=time_limit)
    account(r, W, res, done)
    W.queries = 0; W.solver_time = 0.0; W.steps_total = 0
    return res

def check(formulas, timeout_ms=60000):
    """one solver query outside path exploration; returns a model or None; unknown => Unsupported"""
    s = z3.Solver(); s.set('timeout', timeout_ms); s.add(*formulas)
    t = time.time(); res = s.check(); dt = time.time() - t
    if res == z3.unknown: raise Unsupported('z3 unknown: ' + s.reason_unknown())
    return (s.model() if res == z3.sat else None), dt

def mval(m, v):
    x = m.eval(v, True)
    if z3.is_int_value(x): return x.as_long()
    if z3.is_true(x): return True
    if z3.is_false(x): return False
    return str(x)

def concrete_str(m, chars):
    return ''.join(chr(c if isinstance(c, int) else mval(m, c)) for c in chars)

"""Obligation runner: runs the obligations of one property, classifies findings against known_findings.json, writes the
evidence file and the replay files, and maps the outcome to the exit code contract:
   0 = every obligation decided, no violation outside the known-findings file
   1 = a replayed violation (prints `VIOLATION property=<id> replay=<path>`)
   2 = inconclusive (engine limit, unsupported construct, non-reproducing counterexample, build failure) - never a pass
"""
import os, sys, json, time, traceback, multiprocessing as mp

VERIF = os.path.dirname(os.path.dirname(os.path.abspath(__file__)))

class Finding:
    """a violation class found by an obligation. key = role predicate name (stable across solver models)"""
    def __init__(s, key, what, witness, replayed, replay_detail=''):
        s.key, s.what, s.witness, s.replayed, s.replay_detail = key, what, witness, replayed, replay_detail
    def to_json(s): return {'key': s.key, 'what': s.what, 'witness': s.witness, 'replayed': s.replayed, 'replay_detail': s.replay_detail}

class ObResult:
    def __init__(s, ob_id):
        s.ob_id = ob_id; s.status = 'pass'; s.findings = []; s.inconclusive = None
        s.paths = 0; s.queries = 0; s.solver_s = 0.0; s.steps = 0; s.wall_s = 0.0
        s.functions = []; s.models = []; s.bounds = ''; s.samples = []; s.cases = 0; s.nontrivial = 0
        s.notes = []; s.engine = ''; s.title = ''; s.assumptions = []
    def to_json(s):
        d = dict(s.__dict__); d['findings'] = [f.to_json() for f in s.findings]; return d

class Ob:
    """one obligation: id, human title, engine, and a function run(tier, seed) -> ObResult (executed in a worker process)"""
    def __init__(s, ob_id, title, fn, tiers=('quick', 'thorough'), weight=1, args=None):
        s.id, s.title, s.fn, s.tiers, s.weight, s.args = ob_id, title, fn, tiers, weight, args or {}

def _run_ob(arg):
    ob, tier, seed = arg
    t0 = time.time(); r = ObResult(ob.id); r.title = ob.title
    try:
        ob.fn(r, tier, seed, **ob.args)
    except Exception as e:                      # engine limits / unsupported constructs / build errors => inconclusive
        r.inconclusive = '%s: %s' % (type(e).__name__, str(e)[:600])
        r.notes.append(traceback.format_exc()[-1500:])
    r.wall_s = time.time() - t0
    if r.inconclusive: r.status = 'inconclusive'
    elif r.findings: r.status = 'violation'
    return r

def load_known():
    p = os.path.join(VERIF, 'known_findings.json')
    if not os.path.exists(p): return []
    return json.load(open(p))['findings']

def run_property(pid, obligations, tier, seed, level='other', explanation='', assumptions=(), trusted_base=(), jobs=None):
    t0 = time.time()
    obs = [o for o in obligations if tier in o.tiers]
    order = sorted(obs, key=lambda o: -o.weight)
    if seed: order = order[seed % len(order):] + order[:seed % len(order)] if order else order
    jobs = jobs or min(len(order), int(os.environ.get('VERIF_JOBS', '16'))) or 1
    if jobs > 1:
        with mp.get_context('fork').Pool(jobs) as pool:
            results = pool.map(_run_ob, [(o, tier, seed) for o in order], chunksize=1)
    else:
        results = [_run_ob((o, tier, seed)) for o in order]
    results.sort(key=lambda r: r.ob_id)
    known = [k for k in load_known() if k['property'] == pid]
    class _Known(dict):
        # an entry's 'obligation' is an id prefix (obligations may be sharded: O19.3-inj-unicode-3-3-s0 ...)
        def get(s, ok, default=None):
            for k in known:
                if k.get('status', 'open') == 'open' and ok[0].startswith(k['obligation']) and ok[1] == k['key']: return k
            return default
        def __contains__(s, ok): return s.get(ok) is not None
    open_keys = _Known()
    exit_code = 0; lines = []; violations = 0; known_hits = 0; printed_known = set()
    os.makedirs(os.path.join(VERIF, 'replays'), exist_ok=True)
    for r in results:
        if r.status == 'inconclusive':
            lines.append('INCONCLUSIVE property=%s obligation=%s reason=%s' % (pid, r.ob_id, r.inconclusive)); exit_code = max(exit_code, 2)
            if os.environ.get('VERIF_DEBUG'): lines.extend(r.notes[-1:])
            continue
        for f in r.findings:
            k = open_keys.get((r.ob_id, f.key))
            if k is not None:
                known_hits += 1
                if id(k) in printed_known: continue
                printed_known.add(id(k))
                lines.append('KNOWN-FINDING: property=%s obligation=%s %s (witness: %s)' % (pid, r.ob_id, k['what'], json.dumps(f.witness)[:200])); continue
            if not f.replayed:
                lines.append('INCONCLUSIVE property=%s obligation=%s counterexample did not reproduce natively: %s %s' % (pid, r.ob_id, f.what, f.replay_detail[:300]))
                exit_code = max(exit_code, 2); continue
            violations += 1
            path = os.path.join(VERIF, 'replays', '%s-%s-%s.json' % (pid, r.ob_id, f.key.replace('/', '_')[:40]))
            json.dump({'property': pid, 'obligation': r.ob_id, 'finding': f.to_json()}, open(path, 'w'), indent=1)
            lines.append('VIOLATION property=%s replay=%s' % (pid, path)); lines.append('  ' + f.what[:400])
    if violations: exit_code = 1
    # ---- evidence
    decided = [r for r in results if r.status != 'inconclusive']
    samples = []
    for r in results:
        for s_ in r.samples[:3]: samples.append({'obligation': r.ob_id, 'case': s_})
    ev = {
        'property_id': pid, 'tier': tier, 'seed': int(seed), 'level': level,
        'coverage': {
            'explanation': explanation or 'bounded solver-checked obligations over the real code (see per_obligation)',
            'obligations': len(results), 'discharged': len([r for r in results if r.status == 'pass']),
            'obligations_with_known_findings': len([r for r in results if r.status == 'violation' and all((r.ob_id, f.key) in open_keys for f in r.findings)]),
            'inconclusive': len(results) - len(decided),
            'checker_cmd': './check %s --tier %s' % (pid, tier),
            'trusted_base': list(trusted_base),
            'evaluations': sum(r.paths for r in results), 'distinct_nontrivial': sum(r.nontrivial for r in results),
            'rule': 'evaluations = feasible symbolic paths (E2) or CBMC property checks (E1) explored; distinct_nontrivial = paths/cases that reached the obligation\'s assertion with a satisfiable path condition (vacuity witnesses), counted by the engine',
            'samples': samples[:40], 'exhaustive': False,
            'solver_queries': sum(r.queries for r in results), 'solver_time_s': round(sum(r.solver_s for r in results), 2),
            'mir_steps': sum(r.steps for r in results),
            'per_obligation': [{'id': r.ob_id, 'title': r.title, 'engine': r.engine, 'status': r.status, 'functions_encoded': r.functions[:60], 'n_functions': len(r.functions),
                                'library_models': r.models, 'bounds': r.bounds, 'paths': r.paths, 'cases': r.cases, 'nontrivial': r.nontrivial, 'solver_queries': r.queries,
                                'solver_time_s': round(r.solver_s, 2), 'wall_s': round(r.wall_s, 1), 'findings': [f.to_json() for f in r.findings],
                                'inconclusive': r.inconclusive, 'notes': r.notes[:6], 'assumes': r.assumptions} for r in results],
        },
        'assumptions': list(assumptions), 'wall_s': round(time.time() - t0, 1), 'violations': violations, 'known_findings_hit': known_hits,
    }
    os.makedirs(os.path.join(VERIF, 'evidence'), exist_ok=True)
    json.dump(ev, open(os.path.join(VERIF, 'evidence', pid + '.json'), 'w'), indent=1, default=str)
    for l in lines: print(l)
    print('%s tier=%s obligations=%d pass=%d known=%d violations=%d inconclusive=%d paths=%d queries=%d wall=%.1fs' % (
        pid, tier, len(results), len([r for r in results if r.status == 'pass']), known_hits, violations, len(results) - len(decided),
        sum(r.paths for r in results), sum(r.queries for r in results), time.time() - t0))
    return exit_code

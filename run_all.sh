#!/bin/bash
# runs every claimed check once (tier from $1, default quick; optional list of property ids after it) and prints one line per property
cd /verif; T=${1:-quick}; shift
P="$@"; [ -z "$P" ] && P=$(python3 -c "import json; print(' '.join(c['property_id'] for c in json.load(open('MANIFEST.json'))['checks']))")
for p in $P; do
  s=$(date +%s); ./check $p --tier $T > /tmp/runall-$T-$p.log 2>&1; rc=$?; e=$(date +%s)
  echo "$p rc=$rc $((e-s))s $(tail -1 /tmp/runall-$T-$p.log | cut -c1-150)"
done

#!/bin/bash
# usage: seed_verify.sh <seed>  - confirms in a scratch worktree: applies, builds, the 59 stable tests still pass, the demo fails with the change and passes without it
S=$1; D=/verif/seeded/$S; WT=/tmp/seedvf-$S; TG=/tmp/seedvf-$S-target
export CARGO_NET_OFFLINE=true CARGO_TARGET_DIR=$TG
git -C /repo worktree remove --force $WT >/dev/null 2>&1; rm -rf $WT $TG
git -C /repo worktree add -q $WT HEAD || exit 9
P=$D/patch.diff
LOG=$D/verify.log; : > $LOG
run_demo() { # $1 = tree
  if [ -e $D/demo.sh ]; then
    (cd $1 && cargo build --offline -q -p compiler --bin compiler >>$LOG 2>&1); cp -r $D /tmp/seedvf-$S-demo; (cd /tmp/seedvf-$S-demo && bash ./demo.sh $TG/debug/compiler >>$LOG 2>&1); rc=$?; rm -rf /tmp/seedvf-$S-demo; return $rc
  else
    crate=compiler; grep -q "parser::\|lexer::" $D/demo_test.rs && ! grep -q "compiler::" $D/demo_test.rs && crate=parser
    mkdir -p $1/crates/$crate/tests; cp $D/demo_test.rs $1/crates/$crate/tests/seed_demo_test.rs; [ -e $D/input.gom ] && cp $D/input.gom $1/crates/$crate/tests/
    (cd $1 && timeout 600 cargo test --offline -q -p $crate --test seed_demo_test >>$LOG 2>&1); rc=$?; rm -f $1/crates/$crate/tests/seed_demo_test.rs; return $rc
  fi
}
echo "== demo on unchanged tree" >> $LOG; run_demo $WT; base=$?
git -C $WT apply $P || { echo "$S PATCH-DOES-NOT-APPLY"; exit 9; }
echo "== tests with change" >> $LOG
(cd $WT && cargo test --workspace --no-fail-fast --offline 2>&1 | grep -E "^test .* (FAILED|ok)$" | awk '{print $NF}' | sort | uniq -c | tr '\n' ' ') > /tmp/seedvf-$S-tests.txt; cat /tmp/seedvf-$S-tests.txt >> $LOG
echo "== demo with change" >> $LOG; run_demo $WT; mut=$?
echo "$S tests: $(cat /tmp/seedvf-$S-tests.txt) demo-unchanged-rc=$base demo-changed-rc=$mut"
git -C /repo worktree remove --force $WT; rm -rf $TG /tmp/seedvf-$S-tests.txt

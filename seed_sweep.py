#!/usr/bin/env python3
"""Re-runs, for every seeded change, the obligation recorded as catching it (seeded/<id>/meta.json: detected_by) against a scratch worktree
with the patch applied.  usage: seed_sweep.py [-j N] [seed-prefix ...]   - prints one line per seed, exit 1 if a seed is no longer caught"""
import json, glob, os, re, subprocess, sys, concurrent.futures as cf
V = '/verif'; BASES = ['HEAD', '1e663ca', '2c1e760', 'c0e616f', '8bedccd', '136c6c4', '04ae786', 'd94588c', '3d7b38f', '4e17f08', 'a4e4220', '2615da6', '76de7d4']
def plan(meta):
    det = meta.get('detected_by', '')
    m = re.search(r'\b(C\d\d)\s+(O\d+\.\d+[A-Za-z0-9_.+-]*)', det)
    if not m: return None
    prop, ob = m.group(1), m.group(2)
    ob = re.sub(r'[-_](s?\d+)$', '', ob) if re.search(r'-(s?\d\d?)$', ob) and not re.search(r'-(d\d|[234]-flat|\d-unit)$', ob) else ob
    return prop, ob.rstrip('.-')
def run(seed):
    d = os.path.join(V, 'seeded', seed); meta = json.load(open(os.path.join(d, 'meta.json'))); pl = plan(meta)
    if pl is None: return seed, 'NO-PLAN', ''
    prop, ob = pl
    patch = os.path.join(d, 'patch-src-only.diff') if os.path.exists(os.path.join(d, 'patch-src-only.diff')) else os.path.join(d, 'patch.diff')
    wt = '/tmp/sweepwt-' + seed; base_used = None
    for b in BASES:
        subprocess.run(['git', '-C', '/repo', 'worktree', 'remove', '--force', wt], capture_output=True); subprocess.run(['rm', '-rf', wt])
        if subprocess.run(['git', '-C', '/repo', 'worktree', 'add', '-q', wt, b], capture_output=True).returncode != 0: continue
        if subprocess.run(['git', '-C', wt, 'apply', patch], capture_output=True).returncode == 0: base_used = b; break
    if base_used is None:
        subprocess.run(['git', '-C', '/repo', 'worktree', 'remove', '--force', wt], capture_output=True); return seed, 'PATCH-DOES-NOT-APPLY', ''
    env = dict(os.environ, VERIF_REPO=wt, VERIF_SCRATCH='/tmp/vf-scratch-sweep-' + seed)
    try:
        p = subprocess.run(['./check', prop, '--only', ob], cwd=V, env=env, capture_output=True, text=True, timeout=3000)
        nv = len([l for l in p.stdout.splitlines() if l.startswith('VIOLATION')])
        res = 'caught' if p.returncode == 1 and nv else ('INCONCLUSIVE' if p.returncode == 2 else 'NOT-CAUGHT rc=%d' % p.returncode)
        tail = (p.stdout.strip().splitlines() or [''])[-1][:120]
    except subprocess.TimeoutExpired: res, tail = 'TIMEOUT', ''
    finally:
        subprocess.run(['git', '-C', '/repo', 'worktree', 'remove', '--force', wt], capture_output=True); subprocess.run(['rm', '-rf', '/tmp/vf-scratch-sweep-' + seed])
    return seed, res, '%s --only %s base=%s | %s' % (prop, ob, base_used, tail)
if __name__ == '__main__':
    args = sys.argv[1:]; j = 2
    if args[:1] == ['-j']: j = int(args[1]); args = args[2:]
    seeds = sorted(os.path.basename(os.path.dirname(f)) for f in glob.glob(os.path.join(V, 'seeded', 'S*', 'meta.json')))
    if args: seeds = [s for s in seeds if any(s.startswith(a) for a in args)]
    bad = 0
    with cf.ThreadPoolExecutor(j) as ex:
        for seed, res, info in ex.map(run, seeds):
            print('%-44s %-22s %s' % (seed, res, info), flush=True); bad += res != 'caught'
    sys.exit(1 if bad else 0)

#!/bin/sh
# offline set-up: warm the MIR / rustdoc-JSON cache for the current /repo tree (derived data only; keyed by tree hash)
cd "$(dirname "$0")" && python3-vt -c "
import sys; sys.path.insert(0,'.')
from vlib import build
print('mir cache:', build.mir_dir())
"

#!/bin/bash
# usage: seed_import.sh <dir with patch.diff + demo> <S###-name> <PROP> "<needs to manifest>"
SRC=$1; N=$2; P=$3; NEEDS=$4; D=/verif/seeded/$N
mkdir -p $D; cp -r $SRC/. $D/; echo "$P $P" > $D/.plan
python3 - "$D" "$N" "$P" "$NEEDS" <<'PY'
import json,sys
d,n,p,needs=sys.argv[1:5]
json.dump({"id":n,"breaks_property":p,"needs_to_manifest":needs,"origin":"written by an independent sub-agent (round 12) that was given only the property text, a list of code locations already changed by earlier seeds, and its own scratch worktree of /repo (nothing from /verif)"},open(d+'/meta.json','w'),indent=1)
PY
echo imported $D

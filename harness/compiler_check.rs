// E1 harness, injected as a child module of crates/compiler/src/typer/check.rs (sees the private literal functions).
// Obligations O10.1 (integer literal acceptance and value) and O10.5 (float range test) -- /verif/DESIGN.md, C10.
//
// O10.1  `Typer::parse_integer_literal_with_ty` for each of the 8 integer types and every digit string of exactly N digits,
//        N = 1 .. D+1 (D = number of decimal digits of the type's maximum), one harness per (type, N), contents symbolic:
//             Some(p)  <=>  value <= MAX(type);   then p is the Prim variant of that type and carries exactly the value,
//                           and no diagnostic was pushed;
//             None     <=>  value >  MAX(type);   then exactly one error diagnostic was pushed.
//        Precondition (stated in evidence): the text matches [0-9]+ -- what the lexer's integer token classes deliver after
//        `lower` has stripped the suffix; goml has no negative literals (`-1` is a prefix operator applied to `1`).
//        For the unsigned types additionally `-`digits: always rejected with one diagnostic.
//        Oracle: in range <=> the zero-padded digit string is lexicographically <= the digits of MAX; value = wrapping
//        Horner sum in u64 (exact for every in-range literal); independent of `str::parse` and of the target type's arithmetic.
// O10.5  `Typer::ensure_float_literal_fits` for a symbolic f64 bit pattern and target float32 / float64 / a non-float type:
//             a diagnostic is pushed  <=>  the value is not finite, or the target is float32 and |value| > f32::MAX.
//        Oracle on the IEEE-754 bit pattern (integer comparisons only), the code under test uses float comparisons.
//
// Stubs (`-Z stubbing`, each confirmed from Kani's output and listed in evidence):
//   alloc::fmt::format            -> empty String  (only the *text* of diagnostics is built with it; no text is asserted)
//   std::hash::RandomState::new   -> fixed keys    (`Typer::new`/`HirTable::new` create empty hash maps; nothing is inserted)
use super::*;

fn fixed_rs() -> std::hash::RandomState {
    // SAFETY of the stub: RandomState is two u64 keys
    unsafe { std::mem::transmute((0u64, 0u64)) }
}
fn stub_format(_a: std::fmt::Arguments<'_>) -> String {
    String::new()
}

fn new_typer() -> Typer {
    Typer::new(crate::hir::HirTable::new(crate::hir::PackageId(1)))
}

fn ty_tag(ty: &tast::Ty) -> u8 {
    match ty {
        tast::Ty::TInt8 => 1,
        tast::Ty::TInt16 => 2,
        tast::Ty::TInt32 => 3,
        tast::Ty::TInt64 => 4,
        tast::Ty::TUint8 => 5,
        tast::Ty::TUint16 => 6,
        tast::Ty::TUint32 => 7,
        tast::Ty::TUint64 => 8,
        _ => 0,
    }
}

/// (variant tag, value) of an integer Prim; a negative value becomes a number >= 2^63 and can never equal the oracle's
fn tag_val(p: &Prim) -> (u8, u64) {
    match p {
        Prim::Int8 { value } => (1, *value as i64 as u64),
        Prim::Int16 { value } => (2, *value as i64 as u64),
        Prim::Int32 { value } => (3, *value as i64 as u64),
        Prim::Int64 { value } => (4, *value as u64),
        Prim::UInt8 { value } => (5, *value as u64),
        Prim::UInt16 { value } => (6, *value as u64),
        Prim::UInt32 { value } => (7, *value as u64),
        Prim::UInt64 { value } => (8, *value),
        _ => (0, 0),
    }
}

/// decimal order of two digit strings of equal length = lexicographic order:  -1 / 0 / 1
fn cmp_digits(d: &[u8], m: &[u8]) -> i8 {
    let mut r = 0i8;
    let mut i = 0usize;
    while i < d.len() {
        if r == 0 {
            if d[i] < m[i] {
                r = -1;
            } else if d[i] > m[i] {
                r = 1;
            }
        }
        i += 1;
    }
    r
}

/// value of the digits modulo 2^64 (exact whenever the literal is in range of a <= 64-bit type)
fn horner_wrapping(d: &[u8]) -> u64 {
    let mut v: u64 = 0;
    let mut i = 0usize;
    while i < d.len() {
        v = v.wrapping_mul(10).wrapping_add((d[i] - b'0') as u64);
        i += 1;
    }
    v
}

struct LitOut {
    some: bool,
    in_range: bool,
    is_max: bool,
    is_max_plus_1: bool,
    first: u8,
    val: u64,
}

/// `maxs` / `max1s`: the decimal digits of MAX(type) and MAX(type)+1 zero-padded to N digits, or empty when N digits
/// cannot reach MAX (then every N-digit literal is in range).  The in-range test is a digit-string comparison, the value
/// is a wrapping Horner sum: neither uses `str::parse` nor the arithmetic of the type under test.
fn run_lit<const N: usize>(ty: tast::Ty, maxs: &[u8], max1s: &[u8]) -> LitOut {
    let mut typer = new_typer();
    let mut diags = Diagnostics::new();
    let mut bytes = [0u8; N];
    let mut i = 0usize;
    while i < N {
        let b: u8 = kani::any();
        kani::assume(b >= b'0' && b <= b'9');
        bytes[i] = b;
        i += 1;
    }
    assert!(maxs.len() == max1s.len() && (maxs.len() == 0 || maxs.len() == N));
    let bounded = maxs.len() == N;
    let in_range = !bounded || cmp_digits(&bytes, maxs) <= 0;
    let is_max = bounded && cmp_digits(&bytes, maxs) == 0;
    let is_max_plus_1 = bounded && cmp_digits(&bytes, max1s) == 0;
    let val = horner_wrapping(&bytes);
    let s = unsafe { std::str::from_utf8_unchecked(&bytes) };

    let r = typer.parse_integer_literal_with_ty(&mut diags, s, &ty);

    match &r {
        Some(p) => {
            let (t, v) = tag_val(p);
            assert!(t == ty_tag(&ty), "O10.1 accepted literal has the Prim variant of another type");
            assert!(in_range, "O10.1 out-of-range literal accepted");
            assert!(v == val, "O10.1 accepted literal does not denote the written value");
            assert!(diags.len() == 0, "O10.1 diagnostic pushed for an accepted literal");
        }
        None => {
            assert!(!in_range, "O10.1 in-range literal rejected");
            assert!(diags.len() == 1, "O10.1 rejected literal without exactly one diagnostic");
            assert!(diags.has_errors(), "O10.1 rejection diagnostic is not an error");
        }
    }
    let out = LitOut { some: r.is_some(), in_range, is_max, is_max_plus_1, first: bytes[0], val };
    std::mem::forget((typer, diags, r));
    out
}

// ---- reachability witnesses, attached only where satisfiable (every cover of every harness must be SATISFIED)
fn cov_accepted(o: &LitOut) {
    kani::cover!(o.some && o.in_range, "accepted literal");
}
fn cov_leading_zero(o: &LitOut) {
    kani::cover!(o.some && o.first == b'0' && o.val > 0, "accepted literal with a leading zero");
}
fn cov_rejected(o: &LitOut) {
    kani::cover!(!o.some, "rejected literal");
}
fn cov_boundary(o: &LitOut) {
    kani::cover!(o.some && o.is_max, "accepted: exactly the maximum of the type");
    kani::cover!(!o.some && o.is_max_plus_1, "rejected: maximum + 1");
}

macro_rules! lit {
    ($name:ident, $n:literal, $ty:ident, $maxs:literal, $max1s:literal, $unwind:literal, [$($cov:ident),*]) => {
        #[kani::proof]
        #[kani::unwind($unwind)]
        #[kani::stub(std::hash::RandomState::new, fixed_rs)]
        #[kani::stub(alloc::fmt::format, stub_format)]
        fn $name() {
            let o = run_lit::<$n>(tast::Ty::$ty, $maxs, $max1s);
            $( $cov(&o); )*
        }
    };
}

/// unsigned target, text = `-` followed by N digits: always rejected, one error diagnostic
fn run_neg<const N: usize, const M: usize>(ty: tast::Ty) {
    let mut typer = new_typer();
    let mut diags = Diagnostics::new();
    let mut bytes = [0u8; M]; // M = N + 1
    bytes[0] = b'-';
    let mut i = 1usize;
    while i < M {
        let b: u8 = kani::any();
        kani::assume(b >= b'0' && b <= b'9');
        bytes[i] = b;
        i += 1;
    }
    let s = unsafe { std::str::from_utf8_unchecked(&bytes) };
    let r = typer.parse_integer_literal_with_ty(&mut diags, s, &ty);
    assert!(r.is_none(), "O10.1 negative text accepted at an unsigned type");
    assert!(diags.len() == 1 && diags.has_errors(), "O10.1 negative text at an unsigned type: not exactly one error diagnostic");
    kani::cover!(bytes[M - 1] == b'0', "negative literal ending in 0");
    kani::cover!(bytes[1] == b'9', "negative literal with leading 9");
    let _ = N;
    std::mem::forget((typer, diags, r));
}

macro_rules! neg {
    ($name:ident, $n:literal, $ty:ident, $unwind:literal) => {
        #[kani::proof]
        #[kani::unwind($unwind)]
        #[kani::stub(std::hash::RandomState::new, fixed_rs)]
        #[kani::stub(alloc::fmt::format, stub_format)]
        fn $name() {
            run_neg::<$n, { $n + 1 }>(tast::Ty::$ty);
        }
    };
}

// lit!(name, digits, type, MAX and MAX+1 zero-padded to that many digits (empty: N digits cannot reach MAX), unwind = digits + 2, [witness groups])
lit!(lit_i8_d01, 1, TInt8, b"", b"", 3, [cov_accepted]);
lit!(lit_i8_d02, 2, TInt8, b"", b"", 4, [cov_accepted, cov_leading_zero]);
lit!(lit_i8_d03, 3, TInt8, b"127", b"128", 5, [cov_accepted, cov_leading_zero, cov_rejected, cov_boundary]);
lit!(lit_i8_d04, 4, TInt8, b"0127", b"0128", 6, [cov_accepted, cov_leading_zero, cov_rejected, cov_boundary]);

lit!(lit_i16_d01, 1, TInt16, b"", b"", 3, [cov_accepted]);
lit!(lit_i16_d02, 2, TInt16, b"", b"", 4, [cov_accepted, cov_leading_zero]);
lit!(lit_i16_d03, 3, TInt16, b"", b"", 5, [cov_accepted, cov_leading_zero]);
lit!(lit_i16_d04, 4, TInt16, b"", b"", 6, [cov_accepted, cov_leading_zero]);
lit!(lit_i16_d05, 5, TInt16, b"32767", b"32768", 7, [cov_accepted, cov_leading_zero, cov_rejected, cov_boundary]);
lit!(lit_i16_d06, 6, TInt16, b"032767", b"032768", 8, [cov_accepted, cov_leading_zero, cov_rejected, cov_boundary]);

lit!(lit_i32_d01, 1, TInt32, b"", b"", 3, [cov_accepted]);
lit!(lit_i32_d02, 2, TInt32, b"", b"", 4, [cov_accepted, cov_leading_zero]);
lit!(lit_i32_d03, 3, TInt32, b"", b"", 5, [cov_accepted, cov_leading_zero]);
lit!(lit_i32_d04, 4, TInt32, b"", b"", 6, [cov_accepted, cov_leading_zero]);
lit!(lit_i32_d05, 5, TInt32, b"", b"", 7, [cov_accepted, cov_leading_zero]);
lit!(lit_i32_d06, 6, TInt32, b"", b"", 8, [cov_accepted, cov_leading_zero]);
lit!(lit_i32_d07, 7, TInt32, b"", b"", 9, [cov_accepted, cov_leading_zero]);
lit!(lit_i32_d08, 8, TInt32, b"", b"", 10, [cov_accepted, cov_leading_zero]);
lit!(lit_i32_d09, 9, TInt32, b"", b"", 11, [cov_accepted, cov_leading_zero]);
lit!(lit_i32_d10, 10, TInt32, b"2147483647", b"2147483648", 12, [cov_accepted, cov_leading_zero, cov_rejected, cov_boundary]);
lit!(lit_i32_d11, 11, TInt32, b"02147483647", b"02147483648", 13, [cov_accepted, cov_leading_zero, cov_rejected, cov_boundary]);

lit!(lit_i64_d01, 1, TInt64, b"", b"", 3, [cov_accepted]);
lit!(lit_i64_d02, 2, TInt64, b"", b"", 4, [cov_accepted, cov_leading_zero]);
lit!(lit_i64_d03, 3, TInt64, b"", b"", 5, [cov_accepted, cov_leading_zero]);
lit!(lit_i64_d04, 4, TInt64, b"", b"", 6, [cov_accepted, cov_leading_zero]);
lit!(lit_i64_d05, 5, TInt64, b"", b"", 7, [cov_accepted, cov_leading_zero]);
lit!(lit_i64_d06, 6, TInt64, b"", b"", 8, [cov_accepted, cov_leading_zero]);
lit!(lit_i64_d07, 7, TInt64, b"", b"", 9, [cov_accepted, cov_leading_zero]);
lit!(lit_i64_d08, 8, TInt64, b"", b"", 10, [cov_accepted, cov_leading_zero]);
lit!(lit_i64_d09, 9, TInt64, b"", b"", 11, [cov_accepted, cov_leading_zero]);
lit!(lit_i64_d10, 10, TInt64, b"", b"", 12, [cov_accepted, cov_leading_zero]);
lit!(lit_i64_d11, 11, TInt64, b"", b"", 13, [cov_accepted, cov_leading_zero]);
lit!(lit_i64_d12, 12, TInt64, b"", b"", 14, [cov_accepted, cov_leading_zero]);
lit!(lit_i64_d13, 13, TInt64, b"", b"", 15, [cov_accepted, cov_leading_zero]);
lit!(lit_i64_d14, 14, TInt64, b"", b"", 16, [cov_accepted, cov_leading_zero]);
lit!(lit_i64_d15, 15, TInt64, b"", b"", 17, [cov_accepted, cov_leading_zero]);
lit!(lit_i64_d16, 16, TInt64, b"", b"", 18, [cov_accepted, cov_leading_zero]);
lit!(lit_i64_d17, 17, TInt64, b"", b"", 19, [cov_accepted, cov_leading_zero]);
lit!(lit_i64_d18, 18, TInt64, b"", b"", 20, [cov_accepted, cov_leading_zero]);
lit!(lit_i64_d19, 19, TInt64, b"9223372036854775807", b"9223372036854775808", 21, [cov_accepted, cov_leading_zero, cov_rejected, cov_boundary]);
lit!(lit_i64_d20, 20, TInt64, b"09223372036854775807", b"09223372036854775808", 22, [cov_accepted, cov_leading_zero, cov_rejected, cov_boundary]);

lit!(lit_u8_d01, 1, TUint8, b"", b"", 3, [cov_accepted]);
lit!(lit_u8_d02, 2, TUint8, b"", b"", 4, [cov_accepted, cov_leading_zero]);
lit!(lit_u8_d03, 3, TUint8, b"255", b"256", 5, [cov_accepted, cov_leading_zero, cov_rejected, cov_boundary]);
lit!(lit_u8_d04, 4, TUint8, b"0255", b"0256", 6, [cov_accepted, cov_leading_zero, cov_rejected, cov_boundary]);

lit!(lit_u16_d01, 1, TUint16, b"", b"", 3, [cov_accepted]);
lit!(lit_u16_d02, 2, TUint16, b"", b"", 4, [cov_accepted, cov_leading_zero]);
lit!(lit_u16_d03, 3, TUint16, b"", b"", 5, [cov_accepted, cov_leading_zero]);
lit!(lit_u16_d04, 4, TUint16, b"", b"", 6, [cov_accepted, cov_leading_zero]);
lit!(lit_u16_d05, 5, TUint16, b"65535", b"65536", 7, [cov_accepted, cov_leading_zero, cov_rejected, cov_boundary]);
lit!(lit_u16_d06, 6, TUint16, b"065535", b"065536", 8, [cov_accepted, cov_leading_zero, cov_rejected, cov_boundary]);

lit!(lit_u32_d01, 1, TUint32, b"", b"", 3, [cov_accepted]);
lit!(lit_u32_d02, 2, TUint32, b"", b"", 4, [cov_accepted, cov_leading_zero]);
lit!(lit_u32_d03, 3, TUint32, b"", b"", 5, [cov_accepted, cov_leading_zero]);
lit!(lit_u32_d04, 4, TUint32, b"", b"", 6, [cov_accepted, cov_leading_zero]);
lit!(lit_u32_d05, 5, TUint32, b"", b"", 7, [cov_accepted, cov_leading_zero]);
lit!(lit_u32_d06, 6, TUint32, b"", b"", 8, [cov_accepted, cov_leading_zero]);
lit!(lit_u32_d07, 7, TUint32, b"", b"", 9, [cov_accepted, cov_leading_zero]);
lit!(lit_u32_d08, 8, TUint32, b"", b"", 10, [cov_accepted, cov_leading_zero]);
lit!(lit_u32_d09, 9, TUint32, b"", b"", 11, [cov_accepted, cov_leading_zero]);
lit!(lit_u32_d10, 10, TUint32, b"4294967295", b"4294967296", 12, [cov_accepted, cov_leading_zero, cov_rejected, cov_boundary]);
lit!(lit_u32_d11, 11, TUint32, b"04294967295", b"04294967296", 13, [cov_accepted, cov_leading_zero, cov_rejected, cov_boundary]);

lit!(lit_u64_d01, 1, TUint64, b"", b"", 3, [cov_accepted]);
lit!(lit_u64_d02, 2, TUint64, b"", b"", 4, [cov_accepted, cov_leading_zero]);
lit!(lit_u64_d03, 3, TUint64, b"", b"", 5, [cov_accepted, cov_leading_zero]);
lit!(lit_u64_d04, 4, TUint64, b"", b"", 6, [cov_accepted, cov_leading_zero]);
lit!(lit_u64_d05, 5, TUint64, b"", b"", 7, [cov_accepted, cov_leading_zero]);
lit!(lit_u64_d06, 6, TUint64, b"", b"", 8, [cov_accepted, cov_leading_zero]);
lit!(lit_u64_d07, 7, TUint64, b"", b"", 9, [cov_accepted, cov_leading_zero]);
lit!(lit_u64_d08, 8, TUint64, b"", b"", 10, [cov_accepted, cov_leading_zero]);
lit!(lit_u64_d09, 9, TUint64, b"", b"", 11, [cov_accepted, cov_leading_zero]);
lit!(lit_u64_d10, 10, TUint64, b"", b"", 12, [cov_accepted, cov_leading_zero]);
lit!(lit_u64_d11, 11, TUint64, b"", b"", 13, [cov_accepted, cov_leading_zero]);
lit!(lit_u64_d12, 12, TUint64, b"", b"", 14, [cov_accepted, cov_leading_zero]);
lit!(lit_u64_d13, 13, TUint64, b"", b"", 15, [cov_accepted, cov_leading_zero]);
lit!(lit_u64_d14, 14, TUint64, b"", b"", 16, [cov_accepted, cov_leading_zero]);
lit!(lit_u64_d15, 15, TUint64, b"", b"", 17, [cov_accepted, cov_leading_zero]);
lit!(lit_u64_d16, 16, TUint64, b"", b"", 18, [cov_accepted, cov_leading_zero]);
lit!(lit_u64_d17, 17, TUint64, b"", b"", 19, [cov_accepted, cov_leading_zero]);
lit!(lit_u64_d18, 18, TUint64, b"", b"", 20, [cov_accepted, cov_leading_zero]);
lit!(lit_u64_d19, 19, TUint64, b"", b"", 21, [cov_accepted, cov_leading_zero]);
lit!(lit_u64_d20, 20, TUint64, b"18446744073709551615", b"18446744073709551616", 22, [cov_accepted, cov_leading_zero, cov_rejected, cov_boundary]);
lit!(lit_u64_d21, 21, TUint64, b"018446744073709551615", b"018446744073709551616", 23, [cov_accepted, cov_leading_zero, cov_rejected, cov_boundary]);

// neg!(name, digits, type, unwind)
neg!(neg_u8_d01, 1, TUint8, 4);
neg!(neg_u8_d03, 3, TUint8, 6);
neg!(neg_u16_d01, 1, TUint16, 4);
neg!(neg_u16_d05, 5, TUint16, 8);
neg!(neg_u32_d01, 1, TUint32, 4);
neg!(neg_u32_d10, 10, TUint32, 13);
neg!(neg_u64_d01, 1, TUint64, 4);
neg!(neg_u64_d20, 20, TUint64, 23);

// ------------------------------------------------------------------------------------------------ O10.5 float range test
const F32_MAX_AS_F64_BITS: u64 = 0x47EF_FFFF_E000_0000; // f32::MAX = (2 - 2^-23) * 2^127 exactly representable in f64
const ABS_MASK: u64 = 0x7FFF_FFFF_FFFF_FFFF;
const EXP_MASK: u64 = 0x7FF0_0000_0000_0000;

#[kani::proof]
#[kani::unwind(3)]
#[kani::stub(std::hash::RandomState::new, fixed_rs)]
#[kani::stub(alloc::fmt::format, stub_format)]
fn float_fits() {
    let mut typer = new_typer();
    let mut diags = Diagnostics::new();
    let bits: u64 = kani::any();
    let value = f64::from_bits(bits);
    let which: u8 = kani::any();
    kani::assume(which < 3);
    // ManuallyDrop: the drop glue of a `tast::Ty` whose variant is symbolic is a recursion CBMC cannot bound
    let ty = std::mem::ManuallyDrop::new(match which {
        0 => tast::Ty::TFloat32,
        1 => tast::Ty::TFloat64,
        _ => tast::Ty::TInt32,
    });
    assert!((f32::MAX as f64).to_bits() == F32_MAX_AS_F64_BITS);

    typer.ensure_float_literal_fits(&mut diags, value, &ty);

    // oracle on the bit pattern: for finite values, |x| > |y|  <=>  abs-bits(x) > abs-bits(y)
    let non_finite = bits & EXP_MASK == EXP_MASK;
    let too_big_for_f32 = (bits & ABS_MASK) > F32_MAX_AS_F64_BITS;
    let expect = non_finite || (which == 0 && too_big_for_f32);
    assert!((diags.len() == 1) == expect, "O10.5 float range diagnostic disagrees with the IEEE-754 oracle");
    assert!(diags.len() <= 1, "O10.5 more than one diagnostic");
    assert!(diags.has_errors() == expect, "O10.5 the diagnostic is not an error");
    kani::cover!(which == 0 && !expect && (bits & ABS_MASK) == F32_MAX_AS_F64_BITS, "float32: exactly f32::MAX accepted");
    kani::cover!(which == 0 && expect && (bits & ABS_MASK) == F32_MAX_AS_F64_BITS + 1, "float32: next f64 above f32::MAX rejected");
    kani::cover!(which == 0 && expect && !non_finite && bits >> 63 == 1, "float32: negative out of range rejected");
    kani::cover!(which == 1 && !expect && too_big_for_f32, "float64: large finite value accepted");
    kani::cover!(which == 1 && expect, "float64: non-finite rejected");
    kani::cover!(non_finite && bits & !EXP_MASK & ABS_MASK != 0, "NaN rejected");
    kani::cover!(which == 2 && !expect, "non-float target: finite value passes");
    std::mem::forget((typer, diags));
}

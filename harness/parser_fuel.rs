// E1 harness, injected as a child module of crates/parser/src/parser.rs (sees the private fields `fuel`,
// `stuck_reported`, `diagnostics`).  Obligation O4.1 (/verif/DESIGN.md, C04): the parser's anti-hang mechanism.
//
//   fuel_step_*  one-step inductive form, from ANY reachable fuel state (fuel <= 256 symbolic, flag symbolic) over <= 3
//   fuel_advance arbitrary tokens (kinds symbolic, trivia included): a `peek`/`nth(0)` with fuel left returns the real
//                next non-trivia kind and costs exactly one unit (fuel_step_live); with no fuel left it returns `eof`, and
//                pushes the "did not consume" diagnostic iff none was pushed in this streak (fuel_step_dead); `advance`
//                restores 256 and clears the flag (fuel_advance).  Together with fuel_init (state after `Parser::new`)
//                this implies, for every n, what fuel_streak checks by brute force for n <= 258.
//   fuel_streak  from `Parser::new` over <= 3 arbitrary tokens: n <= 258 consecutive calls, each symbolically `peek` or
//                `nth(0)`: the first 256 return the real kind, later ones `eof`; exactly one diagnostic iff n > 256;
//                then `advance`: fuel is back, flag cleared, the next `peek` sees the next token.
// Nothing is modelled; `Parser::{new,peek,nth,advance,eof}`, `Input::*`, `Diagnostics::push` are the real ones.
use super::*;
use text_size::{TextRange, TextSize};

macro_rules! kinds {
    ($($v:ident),* $(,)?) => {
        const ALL: &[TokenKind] = &[$(TokenKind::$v),*];
        fn ordinal(k: TokenKind) -> usize { match k { $(TokenKind::$v => TokenKind::$v as usize),* } }
    };
}
// `Eof` is left out of the *token* alphabet: the lexer never emits it (it is the parser's "no token" value).
kinds!(
    LParen, RParen, LBrace, RBrace, LBracket, RBracket, Eq, Semi, Comma, ColonColon, Colon, Arrow, FatArrow, Plus, Minus, Star, Slash,
    Dot, AndAnd, OrOr, Pipe, Bang, Less, Greater, GreaterEq, LessEq, EqEq, NotEq, Pound, ExternKeyword, PackageKeyword, ImportKeyword,
    FnKeyword, TraitKeyword, ImplKeyword, ForKeyword, EnumKeyword, StructKeyword, TypeKeyword, MatchKeyword, IfKeyword, ElseKeyword,
    LetKeyword, InKeyword, ReturnKeyword, GoKeyword, WhileKeyword, DynKeyword, TrueKeyword, FalseKeyword, WildcardKeyword, UnitKeyword,
    BoolKeyword, Int8Keyword, Int16Keyword, Int32Keyword, Int64Keyword, Uint8Keyword, Uint16Keyword, Uint32Keyword, Uint64Keyword,
    Float32Keyword, Float64Keyword, StringKeyword, ArrayKeyword, Ident, Float32Lit, Float64Lit, Float, Int8Lit, Int16Lit, Int32Lit,
    Int64Lit, UInt8Lit, UInt16Lit, UInt32Lit, UInt64Lit, Int, Str, MultilineStr, Whitespace, Comment, Error, Eof,
);

fn any_token_kind() -> TokenKind {
    let i: usize = kani::any();
    kani::assume(i < ALL.len() - 1); // every kind but the last (Eof)
    let k = ALL[i];
    assert!(ordinal(k) == i);
    k
}

const MAXTOK: usize = 3;

struct Toks {
    kinds: [TokenKind; MAXTOK],
    n: usize,
}

/// a parser over n <= 3 tokens of arbitrary kinds (texts and ranges are irrelevant to fuel)
fn any_parser() -> (Parser<'static>, Toks) {
    let n: usize = kani::any();
    kani::assume(n <= MAXTOK);
    let kinds = [any_token_kind(), any_token_kind(), any_token_kind()];
    let mut v: Vec<Token<'static>> = Vec::with_capacity(MAXTOK);
    let mut i = 0;
    while i < MAXTOK {
        if i < n {
            v.push(Token { kind: kinds[i], text: "x", range: TextRange::empty(TextSize::from(i as u32)) });
        }
        i += 1;
    }
    let p = Parser::new(Path::new("f"), v);
    (p, Toks { kinds, n })
}

/// reference: kind of the k-th (0-based) non-trivia token, `Eof` if there is none  (what the grammar functions expect to see)
fn expected_kind(t: &Toks, k: usize) -> TokenKind {
    let mut seen = 0usize;
    let mut i = 0usize;
    while i < MAXTOK {
        if i < t.n && !t.kinds[i].is_trivia() {
            if seen == k {
                return t.kinds[i];
            }
            seen += 1;
        }
        i += 1;
    }
    TokenKind::Eof
}

fn non_trivia(t: &Toks) -> usize {
    let mut c = 0usize;
    let mut i = 0usize;
    while i < MAXTOK {
        if i < t.n && !t.kinds[i].is_trivia() {
            c += 1;
        }
        i += 1;
    }
    c
}

#[kani::proof]
#[kani::unwind(5)]
fn fuel_init() {
    let (p, t) = any_parser();
    assert!(p.fuel.get() == 256, "O4.1 a new parser has 256 units of fuel");
    assert!(!p.stuck_reported.get(), "O4.1 a new parser has not reported");
    assert!(p.diagnostics.len() == 0);
    assert!(p.events.len() == 0);
    kani::cover!(t.n == MAXTOK, "largest token list");
    kani::cover!(t.n == 0, "empty token list");
    std::mem::forget(p);
}

/// look-ahead while fuel is left: real kind, exactly one unit, no diagnostic
#[kani::proof]
#[kani::unwind(5)]
fn fuel_step_live() {
    let (mut p, t) = any_parser();
    let f: u32 = kani::any();
    kani::assume(f >= 1 && f <= 256);
    p.fuel.set(f); // reachable states with fuel left: the flag is clear (it is only ever set where the fuel is 0, and advance clears it)
    let use_nth: bool = kani::any();
    let got = if use_nth { p.nth(0) } else { p.peek() };
    assert!(got == expected_kind(&t, 0), "O4.1 with fuel left the real next kind is returned");
    assert!(p.fuel.get() == f - 1, "O4.1 a look-ahead costs exactly one unit");
    assert!(p.diagnostics.len() == 0, "O4.1 no diagnostic while fuel is left");
    assert!(!p.stuck_reported.get(), "O4.1 flag set although fuel was left");
    kani::cover!(f == 256 && use_nth, "first nth of a streak");
    kani::cover!(f == 1 && !use_nth, "last peek with fuel");
    kani::cover!(got == TokenKind::Eof && t.n == MAXTOK, "only trivia in a full token list");
    kani::cover!(t.n == MAXTOK && t.kinds[0].is_trivia() && t.kinds[1].is_trivia() && !t.kinds[2].is_trivia(), "two trivia tokens skipped");
    std::mem::forget(p);
}

/// look-ahead without fuel: eof, and the "did not consume" diagnostic exactly once per streak
#[kani::proof]
#[kani::unwind(5)]
fn fuel_step_dead() {
    let (mut p, t) = any_parser();
    let flag: bool = kani::any();
    p.fuel.set(0);
    p.stuck_reported.set(flag);
    let use_nth: bool = kani::any();
    let got = if use_nth { p.nth(0) } else { p.peek() };
    assert!(got == TokenKind::Eof, "O4.1 without fuel the parser pretends end of file");
    assert!(p.fuel.get() == 0, "O4.1 fuel changed although it was exhausted");
    assert!(p.stuck_reported.get(), "O4.1 exhaustion is flagged");
    assert!(p.diagnostics.len() == if flag { 0 } else { 1 }, "O4.1 exactly one diagnostic per streak");
    assert!(p.diagnostics.has_errors() == !flag, "O4.1 the diagnostic is an error");
    kani::cover!(!flag && use_nth, "exhaustion reported by nth");
    kani::cover!(!flag && !use_nth, "exhaustion reported by peek");
    kani::cover!(flag, "exhaustion already reported");
    kani::cover!(t.n == MAXTOK && expected_kind(&t, 0) != TokenKind::Eof, "eof pretended although a token is there");
    std::mem::forget(p);
}

/// advance restores the fuel and clears the flag from every state; the next look-ahead sees the next token
#[kani::proof]
#[kani::unwind(5)]
fn fuel_advance() {
    let (mut p, t) = any_parser();
    let f: u32 = kani::any();
    kani::assume(f <= 256);
    let flag: bool = kani::any();
    kani::assume(!flag || f == 0);
    p.fuel.set(f);
    p.stuck_reported.set(flag);
    p.events.reserve(4);
    p.advance();
    assert!(p.fuel.get() == 256, "O4.1 advance restores the fuel");
    assert!(!p.stuck_reported.get(), "O4.1 advance clears the flag");
    assert!(p.events.len() == 1, "O4.1 advance records one event");
    let next = p.peek();
    assert!(next == expected_kind(&t, 1), "O4.1 after advance the next non-trivia token is seen");
    assert!(p.fuel.get() == 255);
    kani::cover!(next != TokenKind::Eof, "a second token after advance");
    kani::cover!(flag, "advance after a reported exhaustion");
    kani::cover!(f == 256 && t.n == 0, "advance at end of input with full fuel");
    std::mem::forget(p);
}

/// one look-ahead of the streak (only if i < n); `i` stays a compile-time constant along the unrolled sequence
#[inline(never)]
fn streak_call(p: &mut Parser<'static>, i: u32, n: u32, want: TokenKind) {
    if i < n {
        let use_nth: bool = kani::any();
        let got = if use_nth { p.nth(0) } else { p.peek() };
        if i < 256 {
            assert!(got == want, "O4.1 the first 256 look-aheads return the real kind");
        } else {
            assert!(got == TokenKind::Eof, "O4.1 later look-aheads return eof");
        }
    }
}
// The 258 calls are written out by macro instead of a loop: a `#[kani::unwind(260)]` would also unwind the *inner* loops
// (`Input::eat_trivia`, `Input::nth`, at most 4 iterations here) 260 times per call.
macro_rules! x4 { ($p:ident, $i:ident, $n:ident, $w:ident) => {
    streak_call(&mut $p, $i, $n, $w); $i += 1; streak_call(&mut $p, $i, $n, $w); $i += 1;
    streak_call(&mut $p, $i, $n, $w); $i += 1; streak_call(&mut $p, $i, $n, $w); $i += 1;
} }
macro_rules! x16 { ($p:ident, $i:ident, $n:ident, $w:ident) => { x4!($p, $i, $n, $w); x4!($p, $i, $n, $w); x4!($p, $i, $n, $w); x4!($p, $i, $n, $w); } }
macro_rules! x64 { ($p:ident, $i:ident, $n:ident, $w:ident) => { x16!($p, $i, $n, $w); x16!($p, $i, $n, $w); x16!($p, $i, $n, $w); x16!($p, $i, $n, $w); } }
macro_rules! x256 { ($p:ident, $i:ident, $n:ident, $w:ident) => { x64!($p, $i, $n, $w); x64!($p, $i, $n, $w); x64!($p, $i, $n, $w); x64!($p, $i, $n, $w); } }

#[kani::proof]
#[kani::unwind(5)]
fn fuel_streak() {
    let (mut p, t) = any_parser();
    let n: u32 = kani::any();
    kani::assume(n <= 258);
    let want = expected_kind(&t, 0);
    let mut i = 0u32;
    x256!(p, i, n, want);
    streak_call(&mut p, i, n, want);
    i += 1;
    streak_call(&mut p, i, n, want);
    i += 1;
    assert!(i == 258);
    assert!(p.diagnostics.len() == if n > 256 { 1 } else { 0 }, "O4.1 exactly one diagnostic per streak, none before exhaustion");
    assert!(p.stuck_reported.get() == (n > 256));
    kani::cover!(n == 258, "longest streak");
    kani::cover!(n == 256, "streak that just does not exhaust the fuel");
    kani::cover!(n == 257 && t.n == MAXTOK && non_trivia(&t) == 0, "exhausted on a trivia-only list");
    p.advance();
    assert!(p.fuel.get() == 256 && !p.stuck_reported.get(), "O4.1 advance restores fuel and clears the flag");
    let next = p.peek();
    assert!(next == expected_kind(&t, 1), "O4.1 after advance the next token is seen");
    kani::cover!(n > 256 && next != TokenKind::Eof, "progress after exhaustion");
    std::mem::forget(p);
}

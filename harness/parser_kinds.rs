// E1 harness, injected as a child module of crates/parser/src/syntax.rs.
// Obligation O12.3 (/verif/DESIGN.md, C12): TokenKind and MySyntaxKind share discriminants only by convention
// (`self as u16` one way, `transmute::<u16, MySyntaxKind>` the other way).  For every TokenKind k the lexer can emit
// (every variant except `Eof`; symbolic), `MyLang::kind_from_raw(k.to_syntax_kind())`
//   * does not trip the range assertion guarding the transmute,
//   * is the *same-named* MySyntaxKind,
//   * is a trivia kind (Whitespace/Comment) iff k.is_trivia(),
// and kind_to_raw . kind_from_raw is the identity on the whole range the transmute accepts.
// The name table is one macro list expanded into an exhaustive `match` (no wildcard): adding, removing or renaming a
// TokenKind variant is a build error => inconclusive run, never a silent skip.
use super::*;
use rowan::Language;

macro_rules! kinds {
    ($($v:ident),* $(,)?) => {
        const ALL: &[TokenKind] = &[$(TokenKind::$v),*];
        /// the MySyntaxKind with the same name; `Eof` has none
        fn same_named(k: TokenKind) -> Option<MySyntaxKind> {
            match k { $(TokenKind::$v => Some(MySyntaxKind::$v),)* TokenKind::Eof => None }
        }
    };
}
kinds!(
    LParen, RParen, LBrace, RBrace, LBracket, RBracket, Eq, Semi, Comma, ColonColon, Colon, Arrow, FatArrow, Plus, Minus, Star, Slash,
    Dot, AndAnd, OrOr, Pipe, Bang, Less, Greater, GreaterEq, LessEq, EqEq, NotEq, Pound, ExternKeyword, PackageKeyword, ImportKeyword,
    FnKeyword, TraitKeyword, ImplKeyword, ForKeyword, EnumKeyword, StructKeyword, TypeKeyword, MatchKeyword, IfKeyword, ElseKeyword,
    LetKeyword, InKeyword, ReturnKeyword, GoKeyword, WhileKeyword, DynKeyword, TrueKeyword, FalseKeyword, WildcardKeyword, UnitKeyword,
    BoolKeyword, Int8Keyword, Int16Keyword, Int32Keyword, Int64Keyword, Uint8Keyword, Uint16Keyword, Uint32Keyword, Uint64Keyword,
    Float32Keyword, Float64Keyword, StringKeyword, ArrayKeyword, Ident, Float32Lit, Float64Lit, Float, Int8Lit, Int16Lit, Int32Lit,
    Int64Lit, UInt8Lit, UInt16Lit, UInt32Lit, UInt64Lit, Int, Str, MultilineStr, Whitespace, Comment, Error,
);

#[kani::proof]
fn kind_mapping() {
    let i: usize = kani::any();
    kani::assume(i < ALL.len());
    let k = ALL[i];
    let raw = k.to_syntax_kind();
    assert!(raw.0 as usize == i, "harness kind table is in declaration order (raw value = position)");
    let back = MyLang::kind_from_raw(raw); // the real function: range assertion + transmute
    match same_named(k) {
        Some(want) => assert!(back == want, "O12.3 token kind maps to a differently named syntax kind"),
        None => assert!(false, "Eof is not in the table"),
    }
    let trivia_syntax = matches!(back, MySyntaxKind::Whitespace | MySyntaxKind::Comment);
    assert!(trivia_syntax == k.is_trivia(), "O12.3 is_trivia not preserved");
    assert!(MyLang::kind_to_raw(back) == raw, "O12.3 raw value not preserved");
    kani::cover!(k.is_trivia(), "a trivia kind");
    kani::cover!(matches!(k, TokenKind::Error), "last emitted kind (Error)");
    kani::cover!(matches!(k, TokenKind::LParen), "first kind");
    kani::cover!(matches!(k, TokenKind::Float32Lit), "a literal kind");
}

/// the transmute is guarded: every raw value within the asserted range round-trips, so it names a declared variant
#[kani::proof]
fn kind_raw_roundtrip() {
    let raw: u16 = kani::any();
    kani::assume(raw <= MySyntaxKind::ATTRIBUTE as u16);
    let k = MyLang::kind_from_raw(rowan::SyntaxKind(raw));
    assert!(k as u16 == raw, "O12.3 kind_from_raw changes the raw value");
    assert!(MyLang::kind_to_raw(k).0 == raw, "O12.3 kind_to_raw . kind_from_raw is not the identity");
    // every emitted token kind is below the first node kind
    assert!((TokenKind::Error as u16) < (MySyntaxKind::TombStone as u16), "token kinds end before node kinds start");
    kani::cover!(raw == MySyntaxKind::ATTRIBUTE as u16, "largest raw value");
    kani::cover!(raw == 0, "smallest raw value");
}

// Note (not an obligation): `TokenKind::Eof` -- never emitted by the lexer, used by the parser as "no token" -- has the
// raw value of `MySyntaxKind::TombStone`; it has no same-named syntax kind and is excluded above.

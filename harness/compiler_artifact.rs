// E1 harness, injected as a child module of crates/compiler/src/artifact.rs.
// Obligations O15.1 and O15.2 -- /verif/DESIGN.md, C15.
//
// O15.1  `CoreUnit::validate()` accepts only (and, for a current-version embedded interface, all) units satisfying the conjunction
//            format_version == FORMAT_VERSION  &&  compiler_abi == COMPILER_ABI  &&  package == interface.package
//            &&  interface.interface_hash == interface.compute_hash()  &&  deps == interface.deps
//        for symbolic version numbers (full u32), package names in {A, B}, `interface_hash` in {H, X}, and dependency maps
//          validate_fixed_maps : both maps have the one key "A", the recorded hashes are symbolic in {A, B}   (quick tier)
//          validate_any_maps   : each map is empty or has one entry with symbolic key and value in {A, B}    (thorough tier)
// O15.2  `InterfaceUnit::validate_hash()`  <=>  interface_hash == compute_hash();
//        `InterfaceUnit::new` / `CoreUnit::new` stamp both version constants, keep the package name and the dependency map,
//        and produce units that validate (for CoreUnit::new: iff the package names agree).
//          iface_new (symbolic package, 0/1 dependency), core_new_nodeps (symbolic packages), core_new_onedep (one concrete entry)
//
// Stubs (`-Z stubbing`, confirmed from Kani's output, listed in evidence):
//   InterfaceUnit::compute_hash  -> constant "H"   (the real one is serde_json + SHA-256 + hex: out of CBMC's reach; that
//                                                   every interface field reaches the hash is obligation O15.4, engine E2)
//   std::hash::RandomState::new  -> fixed keys     (IndexMap::new of the empty export tables; nothing is inserted)
// The oracle calls `compute_hash()` itself instead of hard-coding "H", so the same harness is meaningful when the
// counterexample of a failure is replayed natively (where no stub is applied).
use super::*;

fn fixed_rs() -> std::hash::RandomState {
    unsafe { std::mem::transmute((0u64, 0u64)) }
}
fn stub_hash(_u: &InterfaceUnit) -> String {
    String::from("H")
}
fn ab() -> String {
    if kani::any() { String::from("A") } else { String::from("B") }
}

fn empty_exports() -> PackageExports {
    let g = GlobalTypeEnv::new_empty();
    PackageExports { type_env: g.type_env, trait_env: g.trait_env, value_env: g.value_env }
}
fn empty_hir_interface() -> crate::hir::PackageInterface {
    crate::hir::PackageInterface {
        id: crate::hir::PackageId(1),
        name: crate::hir::PackageName(String::from("A")),
        exports: indexmap::IndexMap::new(),
        enum_variants: indexmap::IndexMap::new(),
    }
}

fn any_unit(ideps: BTreeMap<String, String>, cdeps: BTreeMap<String, String>) -> CoreUnit {
    let mut interface = InterfaceUnit {
        format_version: kani::any(),
        compiler_abi: kani::any(),
        package: ab(),
        exports: empty_exports(),
        hir_interface: empty_hir_interface(),
        deps: ideps,
        interface_hash: String::from("X"),
    };
    // the "right hash" case takes the value from compute_hash() itself ("H" under the stub, the real SHA-256 in a native
    // replay), so that a counterexample that needs a valid hash reproduces natively
    if kani::any() {
        interface.interface_hash = interface.compute_hash();
    }
    CoreUnit {
        format_version: kani::any(),
        compiler_abi: kani::any(),
        package: ab(),
        interface,
        core_ir: crate::core::File { toplevels: Vec::new() },
        deps: cdeps,
        sources: Vec::new(),
    }
}

struct Conj {
    got: bool,
    c: [bool; 5],
}
fn check_validate(unit: &CoreUnit) -> Conj {
    let c1 = unit.format_version == FORMAT_VERSION;
    let c2 = unit.compiler_abi == COMPILER_ABI;
    let c3 = unit.package == unit.interface.package;
    let c4 = unit.interface.interface_hash == unit.interface.compute_hash();
    let c5 = unit.deps == unit.interface.deps;
    let got = unit.validate();
    // soundness: nothing is accepted unless all five conditions hold
    assert!(!got || (c1 && c2 && c3 && c4 && c5), "O15.1 validate() accepts a unit that violates one of its five conditions");
    // completeness: the five conditions suffice -- stated for units whose embedded interface carries the current version
    // constants, so that a future, stricter validate() that also checks `interface.format_version` / `interface.compiler_abi`
    // (today it does not) is not reported as a violation
    let iface_current = unit.interface.format_version == FORMAT_VERSION && unit.interface.compiler_abi == COMPILER_ABI;
    assert!(!(c1 && c2 && c3 && c4 && c5 && iface_current) || got, "O15.1 validate() rejects a unit that satisfies all five conditions");
    Conj { got, c: [c1, c2, c3, c4, c5] }
}
fn only_fails(k: &Conj, i: usize) -> bool {
    !k.got && !k.c[i] && (i == 0 || k.c[0]) && (i == 1 || k.c[1]) && (i == 2 || k.c[2]) && (i == 3 || k.c[3]) && (i == 4 || k.c[4])
}

#[kani::proof]
#[kani::unwind(6)]
#[kani::stub(std::hash::RandomState::new, fixed_rs)]
#[kani::stub(InterfaceUnit::compute_hash, stub_hash)]
fn validate_fixed_maps() {
    let mut ideps = BTreeMap::new();
    ideps.insert(String::from("A"), ab());
    let mut cdeps = BTreeMap::new();
    cdeps.insert(String::from("A"), ab());
    let unit = any_unit(ideps, cdeps);
    let k = check_validate(&unit);
    kani::cover!(k.got, "a unit that validates");
    kani::cover!(only_fails(&k, 0), "rejected only for the format version");
    kani::cover!(only_fails(&k, 1), "rejected only for the compiler ABI");
    kani::cover!(only_fails(&k, 2), "rejected only for the package name");
    kani::cover!(only_fails(&k, 3), "rejected only for the interface hash");
    kani::cover!(only_fails(&k, 4), "rejected only for the dependency hashes");
    kani::cover!(unit.format_version == u32::MAX, "largest version number");
    std::mem::forget(unit);
}

#[kani::proof]
#[kani::unwind(6)]
#[kani::stub(std::hash::RandomState::new, fixed_rs)]
#[kani::stub(InterfaceUnit::compute_hash, stub_hash)]
fn validate_any_maps() {
    let mut ideps = BTreeMap::new();
    if kani::any() {
        ideps.insert(ab(), ab());
    }
    let mut cdeps = BTreeMap::new();
    if kani::any() {
        cdeps.insert(ab(), ab());
    }
    let i_n = ideps.len();
    let c_n = cdeps.len();
    let unit = any_unit(ideps, cdeps);
    let k = check_validate(&unit);
    kani::cover!(i_n == 0 && c_n == 0 && k.got, "validates with two empty maps");
    kani::cover!(i_n != c_n && only_fails(&k, 4), "rejected only because the maps differ in size");
    std::mem::forget(unit);
}

#[kani::proof]
#[kani::unwind(6)]
#[kani::stub(std::hash::RandomState::new, fixed_rs)]
#[kani::stub(InterfaceUnit::compute_hash, stub_hash)]
fn iface_validate_hash() {
    let which: u8 = kani::any();
    kani::assume(which < 4);
    let interface = InterfaceUnit {
        format_version: kani::any(),
        compiler_abi: kani::any(),
        package: ab(),
        exports: empty_exports(),
        hir_interface: empty_hir_interface(),
        deps: BTreeMap::new(),
        interface_hash: match which {
            0 => String::from("H"),
            1 => String::from("X"),
            2 => String::from("HH"),
            _ => String::new(),
        },
    };
    let same = interface.interface_hash == interface.compute_hash();
    assert!(interface.validate_hash() == same, "O15.2 validate_hash() is not `interface_hash == compute_hash()`");
    kani::cover!(interface.validate_hash(), "hash accepted");
    kani::cover!(!interface.validate_hash() && which == 2, "rejected: stored hash has the right one as a prefix");
    kani::cover!(!interface.validate_hash() && which == 3, "rejected: empty stored hash");
    std::mem::forget(interface);
}

#[kani::proof]
#[kani::unwind(6)]
#[kani::stub(std::hash::RandomState::new, fixed_rs)]
#[kani::stub(InterfaceUnit::compute_hash, stub_hash)]
fn iface_new() {
    let mut deps = BTreeMap::new();
    let with_dep: bool = kani::any();
    if with_dep {
        deps.insert(String::from("A"), ab());
    }
    let pkg_is_a: bool = kani::any();
    let iface = InterfaceUnit::new(if pkg_is_a { String::from("A") } else { String::from("B") }, empty_exports(), empty_hir_interface(), deps);
    assert!(iface.format_version == FORMAT_VERSION && iface.compiler_abi == COMPILER_ABI, "O15.2 InterfaceUnit::new does not stamp the version constants");
    assert!(iface.interface_hash == iface.compute_hash(), "O15.2 InterfaceUnit::new does not store the computed hash");
    assert!(iface.validate_hash(), "O15.2 a freshly constructed InterfaceUnit does not validate");
    assert!(iface.package == if pkg_is_a { "A" } else { "B" }, "O15.2 InterfaceUnit::new changes the package name");
    assert!(iface.deps.len() == if with_dep { 1 } else { 0 }, "O15.2 InterfaceUnit::new changes the dependency map");
    kani::cover!(with_dep && !pkg_is_a, "interface of package B with one dependency");
    kani::cover!(!with_dep, "interface without dependencies");
    std::mem::forget(iface);
}

/// `CoreUnit::new` over an interface without dependencies (cloning a non-empty BTreeMap is out of CBMC's reach: see core_new_onedep)
#[kani::proof]
#[kani::unwind(6)]
#[kani::stub(std::hash::RandomState::new, fixed_rs)]
#[kani::stub(InterfaceUnit::compute_hash, stub_hash)]
fn core_new_nodeps() {
    let ipkg_is_a: bool = kani::any();
    let iface = InterfaceUnit::new(if ipkg_is_a { String::from("A") } else { String::from("B") }, empty_exports(), empty_hir_interface(), BTreeMap::new());
    let cpkg_is_a: bool = kani::any();
    let core = CoreUnit::new(if cpkg_is_a { String::from("A") } else { String::from("B") }, iface, crate::core::File { toplevels: Vec::new() });
    assert!(core.format_version == FORMAT_VERSION && core.compiler_abi == COMPILER_ABI, "O15.2 CoreUnit::new does not stamp the version constants");
    assert!(core.deps.len() == 0 && core.interface.deps.len() == 0, "O15.2 CoreUnit::new invents dependencies");
    assert!(core.package == if cpkg_is_a { "A" } else { "B" }, "O15.2 CoreUnit::new changes the package name");
    assert!(core.validate() == (cpkg_is_a == ipkg_is_a), "O15.2 a freshly constructed CoreUnit validates iff the package names agree");
    kani::cover!(core.validate(), "fresh unit validates");
    kani::cover!(!core.validate(), "fresh unit with mismatching package names is rejected");
    std::mem::forget(core);
}

/// `CoreUnit::new` copies the interface's dependency hashes (one concrete entry)
#[kani::proof]
#[kani::unwind(6)]
#[kani::stub(std::hash::RandomState::new, fixed_rs)]
#[kani::stub(InterfaceUnit::compute_hash, stub_hash)]
fn core_new_onedep() {
    let mut deps = BTreeMap::new();
    deps.insert(String::from("A"), String::from("H"));
    let iface = InterfaceUnit::new(String::from("B"), empty_exports(), empty_hir_interface(), deps);
    let core = CoreUnit::new(String::from("B"), iface, crate::core::File { toplevels: Vec::new() });
    assert!(core.format_version == FORMAT_VERSION && core.compiler_abi == COMPILER_ABI, "O15.2 CoreUnit::new does not stamp the version constants");
    assert!(core.deps.len() == 1, "O15.2 CoreUnit::new does not copy the interface's dependency hashes");
    assert!(core.deps == core.interface.deps, "O15.2 CoreUnit::new does not copy the interface's dependency hashes");
    assert!(core.validate(), "O15.2 a freshly constructed CoreUnit does not validate");
    kani::cover!(core.validate(), "fresh unit with a dependency validates");
    std::mem::forget(core);
}

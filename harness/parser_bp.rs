// E1 harness, injected as a child module of crates/parser/src/expr.rs (sees the private binding-power functions).
// Obligation O11.1 (/verif/DESIGN.md, C11): the Pratt tables implement the precedence levels of the property statement
//     unary `-` `!`  >  `* /`  >  `+ -`  >  `< > <= >=`  >  `== !=`  >  `&&`  >  `||`,   field access and calls tightest,
//     binary operators left-associative,
// for *every* TokenKind (symbolic; the kind list is an exhaustive `match`, so a new TokenKind variant is a build error,
// i.e. an inconclusive run, never a silent skip).  Nothing is modelled; `infix_binding_power`, `prefix_binding_power`,
// `postfix_binding_power` are the real functions.
//
// How the Pratt loop in `expr_bp` uses the numbers (read off the code, expr.rs:443-489): while parsing the right operand
// of operator `a` (min_bp = r(a)) the next operator `b` is taken into that operand iff  !(l(b) < r(a)).
//   b binds tighter than a   <=>  l(b) >= r(a)
//   a finishes first          <=>  l(b) <  r(a)
use super::*;

macro_rules! kinds {
    ($($v:ident),* $(,)?) => {
        const ALL: &[TokenKind] = &[$(TokenKind::$v),*];
        /// exhaustive on purpose (no wildcard arm): fails to compile when the lexer gains or loses a token kind
        fn ordinal(k: TokenKind) -> usize { match k { $(TokenKind::$v => TokenKind::$v as usize),* } }
    };
}
kinds!(
    LParen, RParen, LBrace, RBrace, LBracket, RBracket, Eq, Semi, Comma, ColonColon, Colon, Arrow, FatArrow, Plus, Minus, Star, Slash,
    Dot, AndAnd, OrOr, Pipe, Bang, Less, Greater, GreaterEq, LessEq, EqEq, NotEq, Pound, ExternKeyword, PackageKeyword, ImportKeyword,
    FnKeyword, TraitKeyword, ImplKeyword, ForKeyword, EnumKeyword, StructKeyword, TypeKeyword, MatchKeyword, IfKeyword, ElseKeyword,
    LetKeyword, InKeyword, ReturnKeyword, GoKeyword, WhileKeyword, DynKeyword, TrueKeyword, FalseKeyword, WildcardKeyword, UnitKeyword,
    BoolKeyword, Int8Keyword, Int16Keyword, Int32Keyword, Int64Keyword, Uint8Keyword, Uint16Keyword, Uint32Keyword, Uint64Keyword,
    Float32Keyword, Float64Keyword, StringKeyword, ArrayKeyword, Ident, Float32Lit, Float64Lit, Float, Int8Lit, Int16Lit, Int32Lit,
    Int64Lit, UInt8Lit, UInt16Lit, UInt32Lit, UInt64Lit, Int, Str, MultilineStr, Whitespace, Comment, Error, Eof,
);

fn any_kind() -> TokenKind {
    let i: usize = kani::any();
    kani::assume(i < ALL.len());
    let k = ALL[i];
    assert!(ordinal(k) == i, "harness kind table is in declaration order");
    k
}

/// precedence level of a binary operator according to the property statement (higher = tighter); None = not a binary operator
fn level(k: TokenKind) -> Option<u8> {
    match k {
        T![||] => Some(1),
        T![&&] => Some(2),
        T![==] | T![!=] => Some(3),
        T![<] | T![>] | T![<=] | T![>=] => Some(4),
        T![+] | T![-] => Some(5),
        T![*] | T![/] => Some(6),
        // level 7 = unary prefix operators
        T![.] => Some(8),
        _ => None,
    }
}

/// O11.1 (a): the three tables are defined exactly on the operator tokens of the statement; everything else is None
#[kani::proof]
fn bp_domains() {
    let k = any_kind();
    let inf = infix_binding_power(k);
    let pre = prefix_binding_power(k);
    let post = postfix_binding_power(k);
    assert!(inf.is_some() == level(k).is_some(), "infix table defined exactly on the 13 binary operators");
    assert!(pre.is_some() == matches!(k, T![-] | T![!]), "prefix table defined exactly on - and !");
    assert!(post.is_some() == matches!(k, T!['(']), "postfix table defined exactly on (");
    if let Some((l, r)) = inf {
        assert!(l < r, "binary operators are left-associative (l < r)");
        assert!(l >= 1, "a binary operator is taken at min_bp = 0");
    }
    kani::cover!(inf.is_some(), "a binary operator");
    kani::cover!(pre.is_some() && inf.is_some(), "minus: both prefix and binary");
    kani::cover!(pre.is_some() && inf.is_none(), "bang: prefix only");
    kani::cover!(post.is_some(), "call parenthesis");
    kani::cover!(inf.is_none() && pre.is_none() && post.is_none(), "a non-operator kind");
    kani::cover!(matches!(k, TokenKind::Eof), "last kind of the list reached");
}

/// O11.1 (b): every ordered pair of binary operators groups as the level table says
#[kani::proof]
fn bp_binary_pairs() {
    let a = any_kind();
    let b = any_kind();
    let (Some(la), Some(lb)) = (level(a), level(b)) else { return; };
    let (Some((l_a, r_a)), Some((l_b, r_b))) = (infix_binding_power(a), infix_binding_power(b)) else {
        assert!(false, "binary operator without binding power");
        return;
    };
    // x a y b z
    if lb > la {
        assert!(l_b >= r_a, "tighter operator on the right is taken into the right operand");
        assert!(r_a < l_b && l_a < r_b, "DESIGN O11.1: r(i) < l(j) and l(i) < r(j) for level i < j");
    } else {
        assert!(l_b < r_a, "same or looser operator on the right: the left operation finishes first (left associativity)");
    }
    if la == lb {
        assert!(l_a == l_b && r_a == r_b, "operators of one level share their binding powers");
    }
    kani::cover!(lb > la, "pair: right operator tighter");
    kani::cover!(lb < la, "pair: right operator looser");
    kani::cover!(la == lb && ordinal(a) != ordinal(b), "pair: two different operators of one level");
    kani::cover!(la == 8 || lb == 8, "pair involving field access");
}

/// O11.1 (c): prefix operators and the call parenthesis against every binary operator
#[kani::proof]
fn bp_prefix_postfix() {
    let p = any_kind();
    let b = any_kind();
    let Some(lb) = level(b) else { return; };
    let Some((l_b, r_b)) = infix_binding_power(b) else {
        assert!(false, "binary operator without binding power");
        return;
    };
    let Some((l_call, ())) = postfix_binding_power(T!['(']) else {
        assert!(false, "no call binding power");
        return;
    };
    if matches!(p, T![-] | T![!]) {
        let Some(r_p) = prefix_binding_power(p) else {
            assert!(false, "prefix operator without binding power");
            return;
        };
        // `p x b y`: the operand of the prefix operator is parsed with min_bp = r_p
        if lb == 8 {
            assert!(l_b >= r_p, "prefix operator applies to the whole field access: -a.b = -(a.b)");
        } else {
            assert!(l_b < r_p, "prefix operator binds tighter than every binary operator except `.`");
        }
        // `p f ( args )`: the operand of the prefix operator is the whole call chain (calls bind tightest)
        assert!(l_call >= r_p, "call binds tighter than a prefix operator: !f(x) = !(f(x))");
        kani::cover!(lb == 8, "prefix vs field access");
        kani::cover!(lb == 6, "prefix vs multiplicative");
    }
    // `x b f ( args )`: f is parsed with min_bp = r_b
    if lb == 8 {
        assert!(l_call < r_b, "a.f(x) calls the field access: (a.f)(x)");
    } else {
        assert!(l_call >= r_b, "call binds tighter than every binary operator except `.`");
    }
    kani::cover!(lb == 1, "call vs ||");
    kani::cover!(lb == 8, "call vs field access");
}

// E1 harness, injected as a child module of crates/lexer/src/lib.rs (sees the private `lex_multiline_str`).
// Obligations O12.1 (safety) and O12.2 (agreement with the grammar) -- see /verif/DESIGN.md, C12.
//
// Input: the source text is `\\` + R where R is *every* string of exactly L bytes over the characters
//   { '\\', '\n', '\r', ' ', '\t', 'a', 'é' (2 bytes), '→' (3 bytes) };  one harness per L (contents symbolic, length constant).
// The logos lexer is put in the state in which the real callback runs: the regex `\\{2}` has matched the first two
// bytes, so `remainder()` is R.  Nothing is modelled: `lex_multiline_str`, `Lexer::remainder`, `Lexer::bump` are the real ones.
//
// Oracle (derived from the token grammar and from how ast/src/lower.rs consumes the token, not from the scanner):
//   lower.rs splits the token text with `str::lines()` and requires every line to be  [ \t]* \\ \\ .*  .
//   A multi-line string token is the longest prefix  C0 \n C1 ... \n Ck  (k >= 1) of such "continuation" lines
//   (C0 is the line that starts with the two matched backslashes).  It ends before the newline that precedes the first
//   non-continuation line, or at end of input; if the newline after Ck is the very last byte of the input it is kept
//   (`lines()` ignores one trailing newline).  Fewer than two continuation lines: no token (None), nothing consumed.
// The oracle is a single left-to-right pass with a 3-state recogniser; the scanner under test uses nested index loops.
use super::*;

const MAXL: usize = 10;

#[derive(Clone, Copy, PartialEq, Eq)]
enum St {
    Ws,   // at the start of a line, inside [ \t]*
    B1,   // one backslash seen after the leading blanks
    Body, // line confirmed as a continuation line, inside .*
}

/// (token expected?, expected end offset of the token in the whole source, number of continuation lines)
fn oracle(src: &[u8]) -> (bool, usize, usize) {
    let n = src.len();
    let mut st = St::Ws;
    let mut lines = 0usize; // confirmed continuation lines
    let mut last_end = 0usize; // end (exclusive, before the newline) of the last completed continuation line
    let mut dead = false;
    let mut i = 0usize;
    while i < n {
        let b = src[i];
        if !dead {
            match st {
                St::Ws => {
                    if b == b' ' || b == b'\t' {
                    } else if b == b'\\' {
                        st = St::B1;
                    } else {
                        dead = true;
                    }
                }
                St::B1 => {
                    if b == b'\\' {
                        st = St::Body;
                        lines += 1;
                    } else {
                        dead = true;
                    }
                }
                St::Body => {
                    if b == b'\n' {
                        last_end = i;
                        st = St::Ws;
                    }
                }
            }
        }
        i += 1;
    }
    if lines < 2 {
        return (false, 0, lines);
    }
    let end = if !dead && st == St::Body {
        n // the last continuation line is ended by end of input
    } else if !dead && st == St::Ws && last_end + 1 == n {
        n // `Ck \n <eof>`: the final newline is kept
    } else {
        last_end // a non-continuation line (possibly blank, possibly a lone `\`) follows: stop before its newline
    };
    (true, end, lines)
}

/// every string over the alphabet with exactly `l` bytes: bytes symbolic, constrained by a UTF-8 recogniser for the 7 characters
fn any_text(buf: &mut [u8; MAXL + 2], l: usize) {
    buf[0] = b'\\';
    buf[1] = b'\\';
    let mut st = 0u8;
    let mut i = 0usize;
    while i < l {
        let b: u8 = kani::any();
        match st {
            0 => {
                if b == b'\\' || b == b'\n' || b == b'\r' || b == b' ' || b == b'\t' || b == b'a' {
                } else if b == 0xC3 {
                    st = 1; // 'é' = C3 A9
                } else if b == 0xE2 {
                    st = 2; // '→' = E2 86 92
                } else {
                    kani::assume(false);
                }
            }
            1 => {
                kani::assume(b == 0xA9);
                st = 0;
            }
            2 => {
                kani::assume(b == 0x86);
                st = 3;
            }
            _ => {
                kani::assume(b == 0x92);
                st = 0;
            }
        }
        buf[2 + i] = b;
        i += 1;
    }
    kani::assume(st == 0);
}

struct Out {
    bytes: [u8; MAXL + 2],
    n: usize,       // length of the whole source = L + 2
    some: bool,     // scanner returned Some
    end: usize,     // end offset of the token in the source (2 + consumed)
    lines: usize,   // continuation lines counted by the oracle
}

fn run<const L: usize>() -> Out {
    let mut buf = [0u8; MAXL + 2];
    any_text(&mut buf, L);
    let bytes = &buf[..L + 2];
    // SAFETY of the harness itself: `any_text` admits exactly the UTF-8 encodings of strings over the alphabet.
    let s = unsafe { std::str::from_utf8_unchecked(bytes) };
    let mut lex = logos::Lexer::<TokenKind>::new(s);
    lex.bump(2); // what the generated DFA has done when it calls the callback for `\\{2}`
    let before = lex.remainder().len();
    assert!(before == L);

    let r = lex_multiline_str(&mut lex); // any panic inside (index, char-boundary assertion of `bump`) fails the harness

    let after = lex.remainder().len();
    // ---- O12.1 safety
    assert!(after <= before, "O12.1 remainder grew");
    let consumed = before - after;
    if r.is_none() {
        assert!(consumed == 0, "O12.1 None but input consumed");
    } else {
        assert!(consumed >= 1 && consumed <= L, "O12.1 Some: 1 <= consumed <= len");
        assert!(s.is_char_boundary(2 + consumed), "O12.1 cut inside a character");
    }
    // ---- O12.2 grammar agreement
    let (want, end, lines) = oracle(bytes);
    assert!(r.is_some() == want, "O12.2 token/no-token disagrees with the grammar");
    if want {
        assert!(2 + consumed == end, "O12.2 token end disagrees with the grammar");
    }
    Out { bytes: buf, n: L + 2, some: r.is_some(), end: 2 + consumed, lines }
}

// ---- reachability witnesses (vacuity guard).  Each group is attached only to the lengths at which it is satisfiable,
//      so that *every* cover property of *every* harness must come back SATISFIED.
fn cov_rejected(o: &Out) {
    kani::cover!(!o.some, "rejected input");
}
fn cov_rejected_nl(o: &Out) {
    kani::cover!(!o.some && o.bytes[2] == b'\n', "rejected: newline present but the next line is not a continuation");
}
fn cov_accept(o: &Out) {
    kani::cover!(o.some, "accepted: two-line token");
    kani::cover!(o.some && o.end == o.n, "accepted: token runs to end of input");
}
fn cov_accept4(o: &Out) {
    kani::cover!(o.some && o.end == o.n && o.bytes[o.n - 1] == b'\n', "accepted: final newline kept at end of input");
    kani::cover!(o.some && o.bytes[3] == b' ', "accepted: continuation line with a leading blank");
}
fn cov_accept5(o: &Out) {
    kani::cover!(o.some && o.end < o.n, "accepted: stops before a non-continuation line");
    kani::cover!(o.some && o.bytes[2] == 0xC3, "accepted: two-byte character inside the token");
}
fn cov_accept6(o: &Out) {
    kani::cover!(o.some && o.lines >= 3, "accepted: three lines");
    kani::cover!(o.some && o.bytes[2] == 0xE2, "accepted: three-byte character inside the token");
}

macro_rules! mls {
    ($name:ident, $l:literal, $unwind:literal, [$($cov:ident),*]) => {
        #[kani::proof]
        #[kani::unwind($unwind)]
        fn $name() {
            let o = run::<$l>();
            $( $cov(&o); )*
        }
    };
}
// unwind = L + 3: the longest loop is the oracle's / the generator's pass over L + 2 bytes
mls!(mls_len00, 0, 3, [cov_rejected]);
mls!(mls_len01, 1, 4, [cov_rejected, cov_rejected_nl]);
mls!(mls_len02, 2, 5, [cov_rejected, cov_rejected_nl]);
mls!(mls_len03, 3, 6, [cov_rejected, cov_rejected_nl, cov_accept]);
mls!(mls_len04, 4, 7, [cov_rejected, cov_rejected_nl, cov_accept, cov_accept4]);
mls!(mls_len05, 5, 8, [cov_rejected, cov_rejected_nl, cov_accept, cov_accept4, cov_accept5]);
mls!(mls_len06, 6, 9, [cov_rejected, cov_rejected_nl, cov_accept, cov_accept4, cov_accept5, cov_accept6]);
mls!(mls_len07, 7, 10, [cov_rejected, cov_rejected_nl, cov_accept, cov_accept4, cov_accept5, cov_accept6]);
mls!(mls_len08, 8, 11, [cov_rejected, cov_rejected_nl, cov_accept, cov_accept4, cov_accept5, cov_accept6]);
mls!(mls_len09, 9, 12, [cov_rejected, cov_rejected_nl, cov_accept, cov_accept4, cov_accept5, cov_accept6]);
mls!(mls_len10, 10, 13, [cov_rejected, cov_rejected_nl, cov_accept, cov_accept4, cov_accept5, cov_accept6]);

// E1 harness, injected as a child module of crates/compiler/src/go/compile.rs (sees the private `go_literal_from_primitive`).
// Obligations O10.2 (literal printing) and O10.3 (numeric type mapping) -- /verif/DESIGN.md, C10.
//
// O10.2  `go_literal_from_primitive(&Prim::<T>{value}, &Ty::<T>)` for every value of int8/uint8/int16/uint16, and for the 32- and
//        64-bit types every value with |v| <= 100 000 (symbolic) plus the concrete boundary values 10^k-1, 10^k, 10^k+1 (both
//        signs), MIN, MIN+1, MAX-1, MAX of every digit length:
//        the result is `goast::Expr::Int { value: text, ty }` where
//          * `text` is a Go decimal integer literal: optional `-`, then digits, no `+`, and no leading zero unless the
//            text is exactly `0` (a leading zero would make it an octal literal in Go),
//          * re-reading `text` (harness-side decimal reader, overflow-checked, independent of `to_string`) gives back
//            exactly the value,
//          * `ty` is the Go type of the same width and signedness.
//        float32/float64: `Expr::Float` carrying exactly the value (f32 -> f64 widening is exact); bool, unit: same-valued node.
// O10.3  `tast_ty_to_go_type` on each of the 13 scalar types (enumerated): same-named `GoType`.
// Nothing is modelled or stubbed.
use super::*;

/// Go decimal literal reader: (negative?, magnitude); None = not a well-formed decimal literal that fits 64 bits
fn reread(b: &[u8]) -> Option<(bool, u64)> {
    let n = b.len();
    if n == 0 {
        return None;
    }
    let neg = b[0] == b'-';
    let start = if neg { 1 } else { 0 };
    if start >= n {
        return None;
    }
    if b[start] == b'0' && n - start > 1 {
        return None; // leading zero: octal in Go
    }
    let mut acc: u64 = 0;
    let mut ok = true;
    let mut i = start;
    while i < n {
        let c = b[i];
        if c < b'0' || c > b'9' {
            ok = false;
        } else {
            let d = (c - b'0') as u64;
            // acc * 10 + d <= u64::MAX, decided by comparisons only
            if acc > u64::MAX / 10 || (acc == u64::MAX / 10 && d > u64::MAX % 10) {
                ok = false;
            } else if ok {
                acc = acc * 10 + d;
            }
        }
        i += 1;
    }
    if ok { Some((neg, acc)) } else { None }
}

struct IntOut {
    neg: bool,
    mag: u64,
    len: usize,
}

fn check_int(e: &goast::Expr, want_neg: bool, want_mag: u64, maxlen: usize) -> IntOut {
    match e {
        goast::Expr::Int { value, .. } => {
            let b = value.as_bytes();
            assert!(b.len() >= 1 && b.len() <= maxlen, "O10.2 literal text longer than the type's widest value");
            match reread(b) {
                Some((neg, mag)) => {
                    assert!(!(neg && mag == 0), "O10.2 negative zero literal");
                    assert!(neg == want_neg && mag == want_mag, "O10.2 printed literal re-reads as a different value");
                    IntOut { neg, mag, len: b.len() }
                }
                None => {
                    assert!(false, "O10.2 printed text is not a Go decimal literal (sign, digits, no leading zero)");
                    IntOut { neg: false, mag: 0, len: 0 }
                }
            }
        }
        _ => {
            assert!(false, "O10.2 integer primitive not printed as Expr::Int");
            IntOut { neg: false, mag: 0, len: 0 }
        }
    }
}

fn expr_ty(e: &goast::Expr) -> Option<&goty::GoType> {
    match e {
        goast::Expr::Int { ty, .. } | goast::Expr::Float { ty, .. } | goast::Expr::Bool { ty, .. } | goast::Expr::Unit { ty } => Some(ty),
        _ => None,
    }
}

macro_rules! golit_signed {
    ($name:ident, $t:ty, $prim:ident, $tast:ident, $goty:ident, $bound:expr, $maxlen:literal, $unwind:literal) => {
        #[kani::proof]
        #[kani::unwind($unwind)]
        fn $name() {
            let v: $t = kani::any();
            kani::assume((v.unsigned_abs() as u64) <= $bound);
            let e = go_literal_from_primitive(&Prim::$prim { value: v }, &tast::Ty::$tast);
            let o = check_int(&e, v < 0, v.unsigned_abs() as u64, $maxlen);
            assert!(matches!(expr_ty(&e), Some(goty::GoType::$goty)), "O10.2 literal carries the wrong Go type");
            kani::cover!((v.unsigned_abs() as u64) == $bound && o.neg, "most negative value of the range");
            kani::cover!((v.unsigned_abs() as u64) == $bound - 1 && !o.neg, "largest value of the range");
            kani::cover!(v == 0 && o.len == 1, "zero");
            kani::cover!(v == -1 && o.mag == 1, "minus one");
            std::mem::forget(e);
        }
    };
}
macro_rules! golit_unsigned {
    ($name:ident, $t:ty, $prim:ident, $tast:ident, $goty:ident, $bound:expr, $maxlen:literal, $unwind:literal) => {
        #[kani::proof]
        #[kani::unwind($unwind)]
        fn $name() {
            let v: $t = kani::any();
            kani::assume((v as u64) <= $bound);
            let e = go_literal_from_primitive(&Prim::$prim { value: v }, &tast::Ty::$tast);
            let o = check_int(&e, false, v as u64, $maxlen);
            assert!(matches!(expr_ty(&e), Some(goty::GoType::$goty)), "O10.2 literal carries the wrong Go type");
            kani::cover!((v as u64) == $bound, "largest value of the range");
            kani::cover!(v == 0 && o.len == 1, "zero");
            kani::cover!(v == 10 && o.len == 2, "ten");
            std::mem::forget(e);
        }
    };
}
/// boundary values of every digit length: `v` ranges over a constant table through a symbolic index, so the code is
/// executed symbolically once and the solver only has to consider the listed values
macro_rules! golit_edges {
    ($name:ident, $t:ty, $prim:ident, $tast:ident, $goty:ident, $maxlen:literal, $unwind:literal, [$($v:expr),*]) => {
        #[kani::proof]
        #[kani::unwind($unwind)]
        fn $name() {
            let vals: &[$t] = &[$($v),*];
            let i: usize = kani::any();
            kani::assume(i < vals.len());
            let v = vals[i];
            let e = go_literal_from_primitive(&Prim::$prim { value: v }, &tast::Ty::$tast);
            let neg = (v as i128) < 0;
            let mag = (v as i128).unsigned_abs() as u64;
            let o = check_int(&e, neg, mag, $maxlen);
            assert!(matches!(expr_ty(&e), Some(goty::GoType::$goty)), "O10.2 literal carries the wrong Go type");
            kani::cover!(v == <$t>::MIN, "smallest value of the type");
            kani::cover!(v == <$t>::MAX, "largest value of the type");
            kani::cover!(o.len == $maxlen, "the longest text of the type");
            kani::cover!(i == vals.len() - 1, "last table entry");
            std::mem::forget(e);
        }
    };
}
// full range for the 8- and 16-bit types (every value).  For 32- and 64-bit types CBMC cannot finish the full range (the
// proof obligation "decimal printing (division) inverts decimal reading (multiplication)" is a hard arithmetic
// equivalence: > 900 s already at 32 bits): symbolic values up to a decimal bound + the concrete boundary values of every
// digit length.  (name, rust type, Prim variant, tast type, Go type, bound on |v|, longest text, unwind = longest text + 2)
golit_signed!(golit_i8, i8, Int8, TInt8, TInt8, 128u64, 4, 6);
golit_signed!(golit_i16, i16, Int16, TInt16, TInt16, 32768u64, 6, 8);
golit_unsigned!(golit_u8, u8, UInt8, TUint8, TUint8, 255u64, 3, 5);
golit_unsigned!(golit_u16, u16, UInt16, TUint16, TUint16, 65535u64, 5, 7);
golit_signed!(golit_i32_b5, i32, Int32, TInt32, TInt32, 100_000u64, 7, 9);
golit_signed!(golit_i64_b5, i64, Int64, TInt64, TInt64, 100_000u64, 7, 9);
golit_unsigned!(golit_u32_b5, u32, UInt32, TUint32, TUint32, 100_000u64, 6, 8);
golit_unsigned!(golit_u64_b5, u64, UInt64, TUint64, TUint64, 100_000u64, 6, 8);
golit_signed!(golit_i32_b6, i32, Int32, TInt32, TInt32, 1_000_000u64, 8, 10);
golit_signed!(golit_i64_b6, i64, Int64, TInt64, TInt64, 1_000_000u64, 8, 10);
golit_unsigned!(golit_u32_b6, u32, UInt32, TUint32, TUint32, 1_000_000u64, 7, 9);
golit_unsigned!(golit_u64_b6, u64, UInt64, TUint64, TUint64, 1_000_000u64, 7, 9);
golit_signed!(golit_i32_b7, i32, Int32, TInt32, TInt32, 10_000_000u64, 9, 11);
golit_signed!(golit_i64_b7, i64, Int64, TInt64, TInt64, 10_000_000u64, 9, 11);
golit_unsigned!(golit_u32_b7, u32, UInt32, TUint32, TUint32, 10_000_000u64, 8, 10);
golit_unsigned!(golit_u64_b7, u64, UInt64, TUint64, TUint64, 10_000_000u64, 8, 10);
golit_edges!(golit_i32_edges, i32, Int32, TInt32, TInt32, 11, 13, [i32::MIN, (-2147483647), (-1000000001), (-1000000000), (-999999999), (-100000001), (-100000000), (-99999999), (-10000001), (-10000000), (-9999999), (-1000001), (-1000000), (-999999), (-100001), (-100000), (-99999), (-10001), (-10000), (-9999), (-1001), (-1000), (-999), (-101), (-100), (-99), (-11), (-10), (-9), (-1), 0, 1, 9, 10, 11, 99, 100, 101, 999, 1000, 1001, 9999, 10000, 10001, 99999, 100000, 100001, 999999, 1000000, 1000001, 9999999, 10000000, 10000001, 99999999, 100000000, 100000001, 999999999, 1000000000, 1000000001, 2147483646, 2147483647]);
golit_edges!(golit_i64_edges, i64, Int64, TInt64, TInt64, 20, 22, [i64::MIN, (-9223372036854775807), (-1000000000000000001), (-1000000000000000000), (-999999999999999999), (-100000000000000001), (-100000000000000000), (-99999999999999999), (-10000000000000001), (-10000000000000000), (-9999999999999999), (-1000000000000001), (-1000000000000000), (-999999999999999), (-100000000000001), (-100000000000000), (-99999999999999), (-10000000000001), (-10000000000000), (-9999999999999), (-1000000000001), (-1000000000000), (-999999999999), (-100000000001), (-100000000000), (-99999999999), (-10000000001), (-10000000000), (-9999999999), (-1000000001), (-1000000000), (-999999999), (-100000001), (-100000000), (-99999999), (-10000001), (-10000000), (-9999999), (-1000001), (-1000000), (-999999), (-100001), (-100000), (-99999), (-10001), (-10000), (-9999), (-1001), (-1000), (-999), (-101), (-100), (-99), (-11), (-10), (-9), (-1), 0, 1, 9, 10, 11, 99, 100, 101, 999, 1000, 1001, 9999, 10000, 10001, 99999, 100000, 100001, 999999, 1000000, 1000001, 9999999, 10000000, 10000001, 99999999, 100000000, 100000001, 999999999, 1000000000, 1000000001, 9999999999, 10000000000, 10000000001, 99999999999, 100000000000, 100000000001, 999999999999, 1000000000000, 1000000000001, 9999999999999, 10000000000000, 10000000000001, 99999999999999, 100000000000000, 100000000000001, 999999999999999, 1000000000000000, 1000000000000001, 9999999999999999, 10000000000000000, 10000000000000001, 99999999999999999, 100000000000000000, 100000000000000001, 999999999999999999, 1000000000000000000, 1000000000000000001, 9223372036854775806, 9223372036854775807]);
golit_edges!(golit_u32_edges, u32, UInt32, TUint32, TUint32, 10, 12, [0, 1, 9, 10, 11, 99, 100, 101, 999, 1000, 1001, 9999, 10000, 10001, 99999, 100000, 100001, 999999, 1000000, 1000001, 9999999, 10000000, 10000001, 99999999, 100000000, 100000001, 999999999, 1000000000, 1000000001, 4294967294, 4294967295]);
golit_edges!(golit_u64_edges, u64, UInt64, TUint64, TUint64, 20, 22, [0, 1, 9, 10, 11, 99, 100, 101, 999, 1000, 1001, 9999, 10000, 10001, 99999, 100000, 100001, 999999, 1000000, 1000001, 9999999, 10000000, 10000001, 99999999, 100000000, 100000001, 999999999, 1000000000, 1000000001, 9999999999, 10000000000, 10000000001, 99999999999, 100000000000, 100000000001, 999999999999, 1000000000000, 1000000000001, 9999999999999, 10000000000000, 10000000000001, 99999999999999, 100000000000000, 100000000000001, 999999999999999, 1000000000000000, 1000000000000001, 9999999999999999, 10000000000000000, 10000000000000001, 99999999999999999, 100000000000000000, 100000000000000001, 999999999999999999, 1000000000000000000, 1000000000000000001, 9999999999999999999, 10000000000000000000, 10000000000000000001, 18446744073709551614, 18446744073709551615]);

#[kani::proof]
#[kani::unwind(3)]
fn golit_float_bool_unit() {
    let f: f32 = kani::any();
    kani::assume(f.is_finite());
    let e = go_literal_from_primitive(&Prim::Float32 { value: f }, &tast::Ty::TFloat32);
    match &e {
        goast::Expr::Float { value, ty } => {
            assert!(*value as f32 == f && value.is_finite(), "O10.2 float32 literal changed by printing");
            assert!(matches!(ty, goty::GoType::TFloat32), "O10.2 float32 literal carries the wrong Go type");
        }
        _ => assert!(false, "O10.2 float32 primitive not printed as Expr::Float"),
    }
    let d: f64 = kani::any();
    kani::assume(d.is_finite());
    let e2 = go_literal_from_primitive(&Prim::Float64 { value: d }, &tast::Ty::TFloat64);
    match &e2 {
        goast::Expr::Float { value, ty } => {
            assert!(value.to_bits() == d.to_bits(), "O10.2 float64 literal changed by printing");
            assert!(matches!(ty, goty::GoType::TFloat64), "O10.2 float64 literal carries the wrong Go type");
        }
        _ => assert!(false, "O10.2 float64 primitive not printed as Expr::Float"),
    }
    let b: bool = kani::any();
    let e3 = go_literal_from_primitive(&Prim::Bool { value: b }, &tast::Ty::TBool);
    assert!(matches!(&e3, goast::Expr::Bool { value, ty: goty::GoType::TBool } if *value == b), "O10.2 bool literal");
    let e4 = go_literal_from_primitive(&Prim::Unit { value: () }, &tast::Ty::TUnit);
    assert!(matches!(&e4, goast::Expr::Unit { ty: goty::GoType::TUnit }), "O10.2 unit literal");
    kani::cover!(f == f32::MAX, "f32::MAX");
    kani::cover!(d == f64::MIN_POSITIVE, "smallest normal f64");
    kani::cover!(b, "true");
    std::mem::forget((e, e2, e3, e4));
}

/// O10.3: the 13 scalar types one by one (concrete variants: a symbolic variant would make CBMC unfold the recursive arms
/// and the drop glue of `tast::Ty`)
macro_rules! scalar {
    ($n:ident, $tast:ident, $goty:ident) => {
        let t = tast::Ty::$tast;
        let g = tast_ty_to_go_type(&t);
        assert!(matches!(g, goty::GoType::$goty), "O10.3 scalar type mapped to a Go type of different width, signedness or kind");
        $n += 1;
        std::mem::forget((t, g));
    };
}
#[kani::proof]
#[kani::unwind(3)]
fn go_type_scalars() {
    let mut n = 0u8;
    scalar!(n, TUnit, TUnit);
    scalar!(n, TBool, TBool);
    scalar!(n, TInt8, TInt8);
    scalar!(n, TInt16, TInt16);
    scalar!(n, TInt32, TInt32);
    scalar!(n, TInt64, TInt64);
    scalar!(n, TUint8, TUint8);
    scalar!(n, TUint16, TUint16);
    scalar!(n, TUint32, TUint32);
    scalar!(n, TUint64, TUint64);
    scalar!(n, TFloat32, TFloat32);
    scalar!(n, TFloat64, TFloat64);
    scalar!(n, TString, TString);
    kani::cover!(n == 13, "all 13 scalar types mapped");
}

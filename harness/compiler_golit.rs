// E1 harness, injected as a child module of crates/compiler/src/go/compile.rs (sees the private `go_literal_from_primitive`).
// Obligations O10.2 (literal printing) and O10.3 (numeric type mapping) -- /verif/DESIGN.md, C10.
//
// O10.2  `go_literal_from_primitive(&Prim::<T>{value}, &Ty::<T>)` for every value of each integer type (symbolic, full range):
//        the result is `goast::Expr::Int { value: text, ty }` where
//          * `text` is a Go decimal integer literal: optional `-`, then digits, no `+`, and no leading zero unless the
//            text is exactly `0` (a leading zero would make it an octal literal in Go),
//          * re-reading `text` (harness-side decimal reader, overflow-checked, independent of `to_string`) gives back
//            exactly the value,
//          * `ty` is the Go type of the same width and signedness.
//        float32/float64: `Expr::Float` carrying exactly the value (f32 -> f64 widening is exact); bool, unit: same-valued node.
// O10.3  `tast_ty_to_go_type` on each of the 13 scalar types (symbolic choice): same-named `GoType`.
// Nothing is modelled or stubbed.
use super::*;

/// Go decimal literal reader: (negative?, magnitude); None = not a well-formed decimal literal that fits 64 bits
fn reread(b: &[u8]) -> Option<(bool, u64)> {
    let n = b.len();
    if n == 0 {
        return None;
    }
    let neg = b[0] == b'-';
    let start = if neg { 1 } else { 0 };
    if start >= n {
        return None;
    }
    if b[start] == b'0' && n - start > 1 {
        return None; // leading zero: octal in Go
    }
    let mut acc: u64 = 0;
    let mut ok = true;
    let mut i = start;
    while i < n {
        let c = b[i];
        if c < b'0' || c > b'9' {
            ok = false;
        } else {
            let d = (c - b'0') as u64;
            // acc * 10 + d <= u64::MAX, decided by comparisons only
            if acc > u64::MAX / 10 || (acc == u64::MAX / 10 && d > u64::MAX % 10) {
                ok = false;
            } else if ok {
                acc = acc * 10 + d;
            }
        }
        i += 1;
    }
    if ok { Some((neg, acc)) } else { None }
}

struct IntOut {
    neg: bool,
    mag: u64,
    len: usize,
}

fn check_int(e: &goast::Expr, want_neg: bool, want_mag: u64, maxlen: usize) -> IntOut {
    match e {
        goast::Expr::Int { value, .. } => {
            let b = value.as_bytes();
            assert!(b.len() >= 1 && b.len() <= maxlen, "O10.2 literal text longer than the type's widest value");
            match reread(b) {
                Some((neg, mag)) => {
                    assert!(!(neg && mag == 0), "O10.2 negative zero literal");
                    assert!(neg == want_neg && mag == want_mag, "O10.2 printed literal re-reads as a different value");
                    IntOut { neg, mag, len: b.len() }
                }
                None => {
                    assert!(false, "O10.2 printed text is not a Go decimal literal (sign, digits, no leading zero)");
                    IntOut { neg: false, mag: 0, len: 0 }
                }
            }
        }
        _ => {
            assert!(false, "O10.2 integer primitive not printed as Expr::Int");
            IntOut { neg: false, mag: 0, len: 0 }
        }
    }
}

fn expr_ty(e: &goast::Expr) -> Option<&goty::GoType> {
    match e {
        goast::Expr::Int { ty, .. } | goast::Expr::Float { ty, .. } | goast::Expr::Bool { ty, .. } | goast::Expr::Unit { ty } => Some(ty),
        _ => None,
    }
}

macro_rules! golit_signed {
    ($name:ident, $t:ty, $prim:ident, $tast:ident, $goty:ident, $maxlen:literal, $unwind:literal) => {
        #[kani::proof]
        #[kani::unwind($unwind)]
        fn $name() {
            let v: $t = kani::any();
            let e = go_literal_from_primitive(&Prim::$prim { value: v }, &tast::Ty::$tast);
            let o = check_int(&e, v < 0, v.unsigned_abs() as u64, $maxlen);
            assert!(matches!(expr_ty(&e), Some(goty::GoType::$goty)), "O10.2 literal carries the wrong Go type");
            kani::cover!(v == <$t>::MIN && o.neg && o.len == $maxlen, "most negative value, longest text");
            kani::cover!(v == <$t>::MAX && !o.neg, "largest value");
            kani::cover!(v == 0 && o.len == 1, "zero");
            kani::cover!(v == -1 && o.mag == 1, "minus one");
            std::mem::forget(e);
        }
    };
}
macro_rules! golit_unsigned {
    ($name:ident, $t:ty, $prim:ident, $tast:ident, $goty:ident, $maxlen:literal, $unwind:literal) => {
        #[kani::proof]
        #[kani::unwind($unwind)]
        fn $name() {
            let v: $t = kani::any();
            let e = go_literal_from_primitive(&Prim::$prim { value: v }, &tast::Ty::$tast);
            let o = check_int(&e, false, v as u64, $maxlen);
            assert!(matches!(expr_ty(&e), Some(goty::GoType::$goty)), "O10.2 literal carries the wrong Go type");
            kani::cover!(v == <$t>::MAX && o.len == $maxlen, "largest value, longest text");
            kani::cover!(v == 0 && o.len == 1, "zero");
            kani::cover!(v == 10 && o.len == 2, "ten");
            std::mem::forget(e);
        }
    };
}
// (name, rust type, Prim variant, tast type, Go type, longest text, unwind = longest text + 2)
golit_signed!(golit_i8, i8, Int8, TInt8, TInt8, 4, 6);
golit_signed!(golit_i16, i16, Int16, TInt16, TInt16, 6, 8);
golit_signed!(golit_i32, i32, Int32, TInt32, TInt32, 11, 13);
golit_signed!(golit_i64, i64, Int64, TInt64, TInt64, 20, 22);
golit_unsigned!(golit_u8, u8, UInt8, TUint8, TUint8, 3, 5);
golit_unsigned!(golit_u16, u16, UInt16, TUint16, TUint16, 5, 7);
golit_unsigned!(golit_u32, u32, UInt32, TUint32, TUint32, 10, 12);
golit_unsigned!(golit_u64, u64, UInt64, TUint64, TUint64, 20, 22);

#[kani::proof]
#[kani::unwind(3)]
fn golit_float_bool_unit() {
    let f: f32 = kani::any();
    kani::assume(f.is_finite());
    let e = go_literal_from_primitive(&Prim::Float32 { value: f }, &tast::Ty::TFloat32);
    match &e {
        goast::Expr::Float { value, ty } => {
            assert!(*value as f32 == f && value.is_finite(), "O10.2 float32 literal changed by printing");
            assert!(matches!(ty, goty::GoType::TFloat32), "O10.2 float32 literal carries the wrong Go type");
        }
        _ => assert!(false, "O10.2 float32 primitive not printed as Expr::Float"),
    }
    let d: f64 = kani::any();
    kani::assume(d.is_finite());
    let e2 = go_literal_from_primitive(&Prim::Float64 { value: d }, &tast::Ty::TFloat64);
    match &e2 {
        goast::Expr::Float { value, ty } => {
            assert!(value.to_bits() == d.to_bits(), "O10.2 float64 literal changed by printing");
            assert!(matches!(ty, goty::GoType::TFloat64), "O10.2 float64 literal carries the wrong Go type");
        }
        _ => assert!(false, "O10.2 float64 primitive not printed as Expr::Float"),
    }
    let b: bool = kani::any();
    let e3 = go_literal_from_primitive(&Prim::Bool { value: b }, &tast::Ty::TBool);
    assert!(matches!(&e3, goast::Expr::Bool { value, ty: goty::GoType::TBool } if *value == b), "O10.2 bool literal");
    let e4 = go_literal_from_primitive(&Prim::Unit { value: () }, &tast::Ty::TUnit);
    assert!(matches!(&e4, goast::Expr::Unit { ty: goty::GoType::TUnit }), "O10.2 unit literal");
    kani::cover!(f == f32::MAX, "f32::MAX");
    kani::cover!(d == f64::MIN_POSITIVE, "smallest normal f64");
    kani::cover!(b, "true");
    std::mem::forget((e, e2, e3, e4));
}

#[kani::proof]
#[kani::unwind(3)]
fn go_type_scalars() {
    let which: u8 = kani::any();
    kani::assume(which < 13);
    // ManuallyDrop: drop glue of a value whose variant is symbolic is an unbounded recursion for CBMC
    let ty = std::mem::ManuallyDrop::new(match which {
        0 => tast::Ty::TUnit,
        1 => tast::Ty::TBool,
        2 => tast::Ty::TInt8,
        3 => tast::Ty::TInt16,
        4 => tast::Ty::TInt32,
        5 => tast::Ty::TInt64,
        6 => tast::Ty::TUint8,
        7 => tast::Ty::TUint16,
        8 => tast::Ty::TUint32,
        9 => tast::Ty::TUint64,
        10 => tast::Ty::TFloat32,
        11 => tast::Ty::TFloat64,
        _ => tast::Ty::TString,
    });
    let g = std::mem::ManuallyDrop::new(tast_ty_to_go_type(&ty));
    let ok = match (which, &*g) {
        (0, goty::GoType::TUnit)
        | (1, goty::GoType::TBool)
        | (2, goty::GoType::TInt8)
        | (3, goty::GoType::TInt16)
        | (4, goty::GoType::TInt32)
        | (5, goty::GoType::TInt64)
        | (6, goty::GoType::TUint8)
        | (7, goty::GoType::TUint16)
        | (8, goty::GoType::TUint32)
        | (9, goty::GoType::TUint64)
        | (10, goty::GoType::TFloat32)
        | (11, goty::GoType::TFloat64)
        | (12, goty::GoType::TString) => true,
        _ => false,
    };
    assert!(ok, "O10.3 scalar type mapped to a Go type of different width, signedness or kind");
    kani::cover!(which == 9, "uint64");
    kani::cover!(which == 2, "int8");
    kani::cover!(which == 10, "float32");
    kani::cover!(which == 12, "string");
}

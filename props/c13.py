"""C13 - determinism: claimed for package discovery order (E2)."""
from vlib.core import Ob
from props import pkg_ob
def obligations():
    return [Ob('O13.1-discovery-2', 'discovery_order independent of hash iteration order, Main + 2 packages', pkg_ob.ob_discovery, ('quick', 'thorough'), 1, dict(pkgs=['A', 'B'])),
            Ob('O13.1-discovery-3', 'discovery_order independent of hash iteration order, Main + 3 packages', pkg_ob.ob_discovery, ('quick', 'thorough'), 20, dict(pkgs=['A', 'B', 'C'])),
            Ob('O13.2-topo-order-2', 'topo_sort_packages result independent of hash iteration order', pkg_ob.ob_topo, ('quick', 'thorough'), 5, dict(pkgs=['A', 'B'], self_imports=False))] + __import__('props.traitimpl_ob', fromlist=['x']).obligations() + __import__('props.resolve_ob', fromlist=['x']).obligations_c13() + __import__('props.pat_ob', fromlist=['x']).obligations_c13() + __import__('props.c15', fromlist=['x']).obligations_c13() + __import__('props.matchdet_ob', fromlist=['x']).obligations_c13() + __import__('props.mono_ob', fromlist=['x']).obligations_c13()
META = {
    'level': 'other',
    'explanation': 'Bounded solver-checked obligation over the real package discovery (MIR of discover_packages_with_layout / topo_sort_packages of the current tree): the import graph is symbolic (every import bit a solver variable) and the iteration order of every std HashSet/HashMap is a symbolic permutation; for each graph all feasible executions must return the same discovery / build order. A dependence on iteration order is replayed by running the real CLI repeatedly (each process draws fresh hash keys) on a project generated from the counterexample.',
    'assumptions': ['load_package stubbed by the symbolic graph', 'O13.3 adds the diagnostics of the trait-implementation check (define_trait_impl) under symbolic hash order; the IndexMap discipline of the other passes and interface hashes are outside the claim'],
    'trusted_base': ['mirsym MIR interpreter', 'hash container models with symbolic iteration order', 'z3'],
}

"""C09 O9.7 - building Core from the typed AST keeps every effect of a block's statements: compile_match::compile_expr on blocks whose
statements are `let _ = V;`, `let x = V;` or `V;` with V a call or a literal (tuple / array) whose components are calls."""
import os, subprocess, tempfile, shutil
from vlib import e2, build
from vlib.core import Ob, Finding
import mirsym as ms
from mirsym.engine import Agg, PyVec, Str, Ref, Opaque, Cell_, Unsupported, unbox, mkbox, mkstr
from props.c06 import Ctx

CRATES = ('compiler', 'common_defs', 'diagnostics', 'parser')
VALUES = ('call', 'tuple', 'array', 'nested-tuple', 'int', 'match-wild', 'match-var')
STMTS = ('let-wild', 'let-var', 'expr', 'let-tuple', 'let-tuple-wild')

def core_trace(c, e):
    """calls of a core::Expr in evaluation order; a match without arms is its default"""
    CE = c.CE
    def T(e):
        if isinstance(e, Agg) and e.ty == 'Box': e = unbox(e)
        n = CE.variants[e.idx].name; f = dict(zip([x[0] for x in CE.variants[e.idx].fields], e.fields))
        if n in ('EVar', 'EPrim'): return []
        if n == 'ECall':
            fn = unbox(f['func']) if isinstance(f['func'], Agg) and f['func'].ty == 'Box' else f['func']
            out = T(fn)
            for a in f['args'].items: out += T(a)
            return out + [('call', ms.pystr(fn.fields[0]) if CE.variants[fn.idx].name == 'EVar' else '<value>')]
        if n in ('ETuple', 'EArray'): return [x for it in f['items'].items for x in T(it)]
        if n == 'EConstr': return [x for it in f['args'].items for x in T(it)]
        if n == 'ELet': return T(f['value']) + T(f['body'])
        if n == 'EProj': return T(f['tuple'])
        if n == 'EConstrGet': return T(f['expr'])
        if n == 'EMatch':
            arms = [T(a.fields[1]) for a in f['arms'].items]; d = T(f['default'].fields[0]) if f['default'].idx == 1 else None
            if not arms and d is not None: return T(f['expr']) + d
            if len(arms) == 1 and d is None: return T(f['expr']) + arms[0]      # a single irrefutable arm
            return T(f['expr']) + [('match', tuple(map(tuple, arms)), tuple(d) if d is not None else None)]
        if n == 'EIf': return T(f['cond']) + [('if', tuple(T(f['then_branch'])), tuple(T(f['else_branch'])))]
        raise Unsupported('core trace: ' + n)
    return T(e)

def stmt_src(kind, val, i):
    if val in ('match-wild', 'match-var'): v = 'match f%d() { %s => 7 }' % (i, '_' if val == 'match-wild' else 'w%d' % i)
    else: v = {'call': 'f%d()' % i, 'tuple': '(f%d(), g%d())' % (i, i), 'array': '[f%d(), g%d()]' % (i, i), 'nested-tuple': '((f%d(), 1), g%d())' % (i, i), 'int': '7'}[val]
    if kind in ('let-tuple', 'let-tuple-wild') and val in ('tuple', 'nested-tuple'): return 'let (a%d, %s) = %s;' % (i, 'b%d' % i if kind == 'let-tuple' else '_', v)
    if kind in ('let-tuple', 'let-tuple-wild'): kind = 'let-var'
    return {'let-wild': 'let _ = %s;' % v, 'let-var': 'let x%d = %s;' % (i, v), 'expr': '%s;' % v}[kind]

def replay(stmts):
    fns = ''.join('fn f%d() -> int32 { string_println("f%d"); %d }\nfn g%d() -> int32 { string_println("g%d"); %d }\n' % (i, i, i, i, i, i) for i in range(len(stmts)))
    src = fns + 'fn main() -> unit {\n  %s\n  ()\n}\n' % '\n  '.join(stmt_src(k, v, i) for i, (k, v) in enumerate(stmts))
    d = tempfile.mkdtemp(prefix='vf-c09c-')
    try:
        open(os.path.join(d, 'main.gom'), 'w').write(src)
        p = subprocess.run([build.compiler_bin(), 'run', '--dump-go', os.path.join(d, 'main.gom')], capture_output=True, text=True, timeout=60)
    finally: shutil.rmtree(d, ignore_errors=True)
    go = p.stdout; body = go[go.find('func main0'):].split('func main()')[0] if 'func main0' in go else ''
    want = []
    for i, (k, v) in enumerate(stmts):
        if v != 'int': want.append('f%d(' % i)
        if v in ('match-wild', 'match-var'): continue
        if v in ('tuple', 'array', 'nested-tuple'): want.append('g%d(' % i)
    missing = [w for w in want if w not in body]
    pos = [body.find(w) for w in want if w in body]
    if not missing and pos != sorted(pos): return True, 'goml main `%s`: the emitted main0 calls %s in the order %s' % (' '.join(stmt_src(k, v, i) for i, (k, v) in enumerate(stmts)), [w[:-1] for w in want], [w[:-1] for _, w in sorted(zip(pos, want))])
    return bool(body) and bool(missing), 'goml main `%s`: the emitted main0 %s' % (' '.join(stmt_src(k, v, i) for i, (k, v) in enumerate(stmts)), ('does not call ' + ', '.join(m[:-1] for m in missing)) if missing else ('calls all of them' if body else 'was not emitted: ' + (p.stderr or go)[:160]))

def ob_core_block_effects(r, tier, seed, nstmts=2):
    W = e2.fresh_world(CRATES); c = Ctx(W); tt = W.tt
    DI = tt.find_adt(['diagnostics', 'Diagnostics'], 'diagnostics')
    r.bounds = 'a block of %d statements, each (solver decision) `let _ = V;`, `let x = V;`, `let (a, b) = V;`, `let (a, _) = V;` (tuple values only) or `V;` with V one of %s (components are calls of distinct functions), followed by `()`; compile_match::compile_expr builds the Core of the block' % (nstmts, list(VALUES))
    r.assumptions = ['gensym names; GlobalTypeEnv::new_empty (no enums / structs: constructor literals are outside this obligation)',
                     'oracle: the calls of the Core expression, in evaluation order, are the calls of the statements in source order, each exactly once']
    i32 = c.tyint(); un = c.ty('TUnit')
    def call(name): return c.texpr('ECall', func=mkbox(c.texpr('EVar', name=mkstr(name), ty=c.ty('TFunc', PyVec([]), mkbox(i32)), astptr=ms.NONE())), args=PyVec([]), ty=i32)
    one = lambda: c.texpr('EPrim', value=c.prim('Int32', 1), ty=i32)
    def value(v, i):
        if v == 'call': return call('f%d' % i), i32, ['f%d' % i]
        if v == 'int': return c.texpr('EPrim', value=c.prim('Int32', 7), ty=i32), i32, []
        if v in ('match-wild', 'match-var'):
            # match f() { _ => 7 } / { w => 7 }: the scrutinee is evaluated (once) although no arm inspects it
            ARM = tt.find_adt(['tast', 'Arm'], 'compiler')
            pat = c.tpat('PWild', ty=i32) if v == 'match-wild' else c.tpat('PVar', name=mkstr('w%d' % i), ty=i32, astptr=ms.NONE())
            arm = Agg(ARM.key, 0, [{'pat': pat, 'body': c.texpr('EPrim', value=c.prim('Int32', 7), ty=i32)}[f[0]] for f in ARM.variants[0].fields])
            return c.texpr('EMatch', expr=mkbox(call('f%d' % i)), arms=PyVec([arm]), ty=i32, astptr=ms.NONE()), i32, ['f%d' % i]
        if v == 'tuple': t = c.tytuple([i32, i32]); return c.texpr('ETuple', items=PyVec([call('f%d' % i), call('g%d' % i)]), ty=t), t, ['f%d' % i, 'g%d' % i]
        if v == 'array': t = c.ty('TArray', 2, mkbox(i32)); return c.texpr('EArray', items=PyVec([call('f%d' % i), call('g%d' % i)]), ty=t), t, ['f%d' % i, 'g%d' % i]
        ti = c.tytuple([i32, i32]); t = c.tytuple([ti, i32])
        return c.texpr('ETuple', items=PyVec([c.texpr('ETuple', items=PyVec([call('f%d' % i), one()]), ty=ti), call('g%d' % i)]), ty=t), t, ['f%d' % i, 'g%d' % i]
    def entry(ex):
        stmts = []; exprs = []; want = []
        for i in range(nstmts):
            k = ex.choose([(True, s_) for s_ in STMTS]); v = ex.choose([(True, v_) for v_ in VALUES])
            val, vt, calls = value(v, i); stmts.append((k, v)); want += [('call', n) for n in calls]
            if k == 'expr': exprs.append(val)
            elif k == 'let-wild': exprs.append(c.texpr('ELet', pat=c.tpat('PWild', ty=vt), value=mkbox(val), ty=un))
            elif k in ('let-tuple', 'let-tuple-wild') and v in ('tuple', 'nested-tuple'):
                sub = vt.fields[0].items      # component types of the tuple type
                p0 = c.tpat('PVar', name=mkstr('a%d' % i), ty=sub[0], astptr=ms.NONE())
                p1 = c.tpat('PVar', name=mkstr('b%d' % i), ty=sub[1], astptr=ms.NONE()) if k == 'let-tuple' else c.tpat('PWild', ty=sub[1])
                exprs.append(c.texpr('ELet', pat=c.tpat('PTuple', items=PyVec([p0, p1]), ty=vt), value=mkbox(val), ty=un))
            else: exprs.append(c.texpr('ELet', pat=c.tpat('PVar', name=mkstr('x%d' % i), ty=vt, astptr=ms.NONE()), value=mkbox(val), ty=un))
        exprs.append(c.texpr('EPrim', value=c.prim('Unit', ms.UNIT), ty=un))
        ex.notes['stmts'] = list(stmts)
        blk = c.texpr('EBlock', exprs=PyVec(exprs), ty=un)
        genv = ex.call('env::GlobalTypeEnv::new_empty', [])
        h = {0: blk, 1: genv, 2: Agg('compiler::env::Gensym', 0, [Cell_(0)]), 3: Agg(DI.key, 0, [PyVec([])])}
        core = ex.call('compile_match::compile_expr', [Ref(h, 0), Ref(h, 1), Ref(h, 2), Ref(h, 3)])
        return stmts, want, core_trace(c, core)
    res = e2.explore(r, W, entry, [])
    for p in res:
        r.cases += 1
        if p.kind != 'ok':
            if not any(f.key == 'panic' for f in r.findings): r.findings.append(Finding('panic', 'compile_expr panics on the block %s: %s' % ((p.notes or {}).get('stmts'), p.value), {}, False, 'not replayed'))
            continue
        stmts, want, got = p.value
        if want: r.nontrivial += 1
        if got != want:
            key = 'effect-lost-in-core' if len(got) < len(want) else 'effects-changed-in-core'
            if any(f.key == key for f in r.findings): continue
            try: ok_, detail = replay(stmts)
            except Exception as e_: ok_, detail = False, 'replay failed: %s' % str(e_)[:160]
            r.findings.append(Finding(key, 'block `%s ()`: the statements call %s, the Core built by compile_expr calls %s' % (' '.join(stmt_src(k, v, i) for i, (k, v) in enumerate(stmts)), [n for _, n in want], [x[1] if x[0] == 'call' else x[0] for x in got]), {'statements': [list(s_) for s_ in stmts]}, ok_, detail))
        elif len(r.samples) < 3 and want: r.samples.append({'block': ' '.join(stmt_src(k, v, i) for i, (k, v) in enumerate(stmts)), 'calls': [n for _, n in want]})

def obligations():
    return [Ob('O9.7-core-block-effects', 'building Core keeps every effect of the statements of a block, once, in order', ob_core_block_effects, ('quick', 'thorough'), 5, {}),
            Ob('O9.7-core-block-effects-3', 'same, 3 statements', ob_core_block_effects, ('thorough',), 30, dict(nstmts=3))]

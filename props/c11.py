"""C11 - precedence, associativity, literal fidelity: operator grouping of the real parser vs the documented level table (E2) + tables/escapes."""
from props import parser_ob
def obligations():
    parser_ob.ACCEPT_KEYS = None
    obs = parser_ob.obligations_c11_parser() + parser_ob.obligations_trivia('O11.8')
    try:
        from props import e1_obs
        obs += e1_obs.c11_obligations()
    except ImportError: pass
    return obs
META = {
    'level': 'other',
    'explanation': 'Bounded solver-checked obligations over the real expression parser: expr/expr_bp/atom and build_tree (MIR of the current tree) are executed on token shapes whose operators are solver variables over all binary/prefix operators; the CST read from the recorder must equal the tree built by a reference precedence climber that knows only the level table of the property statement, for every operator choice (z3 decides, per path and level vector, whether an operator choice exists and the shapes are compared).',
    'assumptions': ['CST level only: the call/prefix re-association in ast::lower (apply_trailing_args) is a separate obligation', 'literal spellings: see E1 obligations'],
    'trusted_base': ['mirsym MIR interpreter', 'std/rowan models', 'z3', 'reference climber (40 lines)'],
}

# ----------------------------------------------------------------------------- O11.3 string literal fidelity: lexer-accepted text -> ast value -> Go literal
import z3, json, os, subprocess, tempfile, shutil
from vlib import e2, build
from vlib.core import Ob, Finding
import mirsym as ms
from mirsym.engine import Agg, PyVec, Str, Ref, Opaque, Unsupported, Panic, mkstr, unbox

LCRATES = ('ast', 'cst', 'parser', 'lexer', 'diagnostics', 'common_defs', 'compiler')
ESC = {'"': 34, '\\': 92, 'b': 8, 'n': 10, 'f': 12, 'r': 13, 't': 9, '/': 47}      # the escapes of the lexer's Str regex and what they denote (JSON)
UNI = ['0041', '00e9', '2192', '0001', '00E9', 'AbCd', 'd800', 'DFFF']      # the last two are lone surrogates: no character to be faithful to, but lowering must survive them
def _is_surr(h): return 0xD800 <= int(h, 16) <= 0xDFFF

def go_decode(ex, chars):
    """reference decoder of the *content* of a Go interpreted string literal -> code points, or None if it is not a legal literal"""
    def pin(c):
        # a symbolic character whose value is determined by the path condition is read as that value
        if not ms.is_sym(c): return c
        c2 = z3.simplify(c)
        if z3.is_int_value(c2): return c2.as_long()
        ex.solver.push()
        try:
            if ex.solver.check() != z3.sat: return c
            v = ex.solver.model().eval(c, True).as_long()
        finally: ex.solver.pop()
        return v if not ex.feasible(c != v) else c
    chars = [pin(c) for c in chars]
    out = []; i = 0; n = len(chars)
    def is_(c, v):
        if not ms.is_sym(c): return c == v
        return not ex.feasible(c != v)
    def may(c, v): return (c == v) if not ms.is_sym(c) else ex.feasible(c == v)
    while i < n:
        c = chars[i]
        if may(c, 34) or may(c, 10) or may(c, 0): return None      # raw quote / newline inside the literal; a raw NUL is rejected by the Go compiler
        if may(c, 92):
            if ms.is_sym(c) and not is_(c, 92): return None        # could be a backslash or not: ambiguous => not a faithful rendering
            if i + 1 >= n or ms.is_sym(chars[i + 1]): return None
            e = chr(chars[i + 1]); tab = {'a': 7, 'b': 8, 'f': 12, 'n': 10, 'r': 13, 't': 9, 'v': 11, '\\': 92, '"': 34}
            if e in tab: out.append(tab[e]); i += 2; continue
            if e in 'xuU':
                k = {'x': 2, 'u': 4, 'U': 8}[e]; hx = chars[i + 2:i + 2 + k]
                if len(hx) < k or any(ms.is_sym(h) for h in hx): return None
                try: out.append(int(''.join(map(chr, hx)), 16))
                except ValueError: return None
                i += 2 + k; continue
            return None
        out.append(c); i += 1
    return out

def ob_string_literal(r, tier, seed, items, pattern=False):
    W = e2.fresh_world(LCRATES)
    EX = W.tt.find_adt(['cst', 'nodes', 'Expr'], 'cst') if W.tt.by_name.get('Expr') else None
    cands = [a for a in W.tt.by_name.get('Expr', []) if a.crate == 'cst']
    if len(cands) != 1: raise Unsupported('cst::Expr not found')
    CEX = cands[0]; SE = [a for a in W.tt.by_name.get('StrExpr', []) if a.crate == 'cst'][0]
    AEX = W.tt.find_adt(['ast', 'ast', 'Expr'], 'ast')
    r.bounds = 'string tokens "<i1>..<i%d>" where each item is lazily a plain character (any Unicode scalar except \\" \\\\ and controls), one of the escapes \\\\" \\\\\\\\ \\\\b \\\\n \\\\f \\\\r \\\\t \\\\/ or \\\\uXXXX with XXXX in %s' % (items, UNI)
    r.assumptions = ['the token text is one the lexer accepts (its Str regex)', 'cst::StrExpr::value / SyntaxToken text access are stubbed by the symbolic token text; MySyntaxNodePtr opaque',
                     'oracle: the escapes denote what they denote in the grammar the regex was taken from (JSON); the emitted Go literal, read by a reference decoder of Go interpreted string literals, must give exactly those characters']
    def token_stub(ex, a): return ms.some(Opaque('token', text=cur['text']))
    cur = {}
    for nm in list(W.methods.get('value', [])):
        if 'nodes.rs' in nm[1] and nm[2] is not None and nm[2].self_key in ('StrExpr', 'StringPat'): W.stubs[nm[1]] = token_stub
    def ov(f, g):
        if g.endswith('SyntaxToken<MyLang> as ToString>::to_string') or g.endswith('SyntaxToken<parser::syntax::MyLang> as ToString>::to_string') or ('SyntaxToken' in g and g.endswith('::to_string')):
            def m_token_to_string(ex, f_, a): return Str(ex.deref(a[0]).text.chars)
            return m_token_to_string
        if g.endswith(' as CstNode>::syntax'):
            def m_cst_syntax(ex, f_, a):
                n = ex.deref(a[0])
                while isinstance(n, Agg) and n.fields and isinstance(n.fields[0], Agg): n = n.fields[0]      # Expr::StrExpr(StrExpr { syntax })
                return Ref(n.fields, 0)
            return m_cst_syntax
        if 'SyntaxNodePtr' in g and g.endswith('::new'):
            def m_nodeptr_new(ex, f_, a): return Opaque('astptr')
            return m_nodeptr_new
        if g.endswith('::text_range'):
            def m_text_range(ex, f_, a): return Agg('TextRange', 0, [0, 1])
            return m_text_range
        return None
    W.overrides = [ov]
    def entry(ex):
        chars = [34]; want = []; desc = []
        for i in range(items):
            k = ex.choose([(True, 'plain')] + [(True, 'esc' + e) for e in ESC] + [(True, 'u' + u) for u in UNI])
            if k == 'plain':
                c = ex.fresh_int('c%d' % i); ex.assume(z3.And(c >= 32, c <= 0x10FFFF, z3.Or(c < 0xD800, c > 0xDFFF), c != 34, c != 92))
                chars.append(c); want.append(c); desc.append('<char>'); ex.notes.setdefault('cvars', {})[i] = c
            elif k.startswith('esc'):
                chars += [92, ord(k[3])]; want.append(ESC[k[3]]); desc.append('\\' + k[3])
            else:
                chars += [92, 117] + [ord(h) for h in k[1:]]; want.append(None if _is_surr(k[1:]) else int(k[1:], 16)); desc.append('\\u' + k[1:])
        chars.append(34)
        ex.notes['desc'] = list(desc)
        cur['text'] = Str(chars)
        node = Agg(CEX.key, CEX.vindex('StrExpr'), [Agg(SE.key, 0, [Opaque('syntaxnode')])])
        LC = [a for a in W.tt.by_name.get('LowerCtx', []) if a.crate == 'ast'][0]
        DI = W.tt.find_adt(['diagnostics', 'Diagnostics'], 'diagnostics')
        ctxv = Agg(LC.key, 0, [Agg(DI.key, 0, [PyVec([])]) if (f[1] and 'resolved_path' in f[1] and f[1]['resolved_path']['path'].endswith('Diagnostics')) else Opaque('ctx.' + str(f[0])) for f in LC.variants[0].fields])
        h = {0: ctxv}
        if pattern:
            CPT = [a for a in W.tt.by_name.get('Pattern', []) if a.crate == 'cst'][0]; SP = [a for a in W.tt.by_name.get('StringPat', []) if a.crate == 'cst'][0]
            APT = [a for a in W.tt.by_name.get('Pat', []) if a.crate == 'ast'][0]
            pnode = Agg(CPT.key, CPT.vindex('StringPat'), [Agg(SP.key, 0, [Opaque('syntaxnode')])])
            res = ex.call('lower::lower_pat', [Ref(h, 0), pnode], 'ast')
            if res.idx == 0: return desc, 'rejected', None, want
            e = res.fields[0]
            if APT.variants[e.idx].name != 'PString': return desc, 'not-a-string', None, want
        else:
            res = ex.call('lower::lower_expr_with_args', [Ref(h, 0), node, PyVec([])], 'ast')
            if res.idx == 0: return desc, 'rejected', None, want
            e = res.fields[0]
            if AEX.variants[e.idx].name != 'EString': return desc, 'not-a-string', None, want
        value = e.fields[0]
        h2 = {0: value}
        lit = ex.call('pprint::go_pprint::escape_go_string', [Ref(h2, 0)], 'compiler')
        dec = go_decode(ex, lit.chars)
        return desc, 'ok', dec, want
    res = e2.explore(r, W, entry, [])
    found = {}
    for p in res:
        r.cases += 1
        if p.kind != 'ok':
            d_ = (p.notes or {}).get('desc')
            found.setdefault('panic', ('lowering / printing the string literal "%s" panics: %s' % (''.join(x if x != '<char>' else 'x' for x in (d_ or [])), p.value), d_)); continue
        desc, st, dec, want = p.value
        r.nontrivial += 1
        if st != 'ok': found.setdefault('valid-literal-rejected', ('a string token the lexer accepts is %s by lowering: items %s' % (st, desc), desc)); continue
        bad = dec is None or len(dec) != len(want)
        if not bad:
            pairs = [(a, b) for a, b in zip(dec, want) if b is not None]
            neq = [ms.zi(a) != ms.zi(b) for a, b in pairs if not (not ms.is_sym(a) and not ms.is_sym(b) and a == b)]
            conc = any((not ms.is_sym(a) and not ms.is_sym(b) and a != b) for a, b in pairs)
            if conc: bad = True
            elif neq:
                m, dt = e2.check(p.pc + [z3.Or(*neq)]); r.queries += 1; r.solver_s += dt
                bad = m is not None
        if bad:
            # concrete witness: the plain characters take the values of a model of this path (the failing class may be a narrow range)
            cv = (p.notes or {}).get('cvars') or {}
            if cv:
                m2, dt2 = e2.check(p.pc + ([z3.Or(*neq)] if (dec is not None and len(dec) == len(want) and not conc and neq) else [])); r.queries += 1; r.solver_s += dt2
                if m2 is not None:
                    desc = [chr(e2.mval(m2, cv[i])) if (d == '<char>' and i in cv and e2.mval(m2, cv[i]) is not None) else d for i, d in enumerate(desc)]
            key = 'escape-not-decoded' if any(d.startswith('\\') for d in desc) else 'literal-changed'
            found.setdefault(key, ('string literal "%s": the emitted Go literal denotes %s, the source denotes %s' % (''.join(d if d != '<char>' else 'x' for d in desc), dec if dec is None else [x if not ms.is_sym(x) else '?' for x in dec], [x if not ms.is_sym(x) else '?' for x in want]), desc))
        elif len(r.samples) < 3: r.samples.append({'items': desc})
    for key, (what, desc) in found.items():
        ok_, detail = True, 'values read from the real lower_expr_with_args / escape_go_string MIR'
        if key in ('escape-not-decoded', 'literal-changed') and desc is not None:
            ok_, detail = replay_string_literal(desc, as_pattern=pattern)
        if key == 'panic' and desc is not None:
            ok_, detail = replay_string_literal(desc, expect_panic=True)
        r.findings.append(Finding(key, what, {'items': desc}, ok_, detail))

def py_go_decode(lit):
    """concrete reference decoder of the content of a Go interpreted string literal -> code points (None if illegal)"""
    out = []; i = 0; tab = {'a': 7, 'b': 8, 'f': 12, 'n': 10, 'r': 13, 't': 9, 'v': 11, '\\': 92, '"': 34}
    while i < len(lit):
        c = lit[i]
        if c in '"\n\0': return None
        if c == '\\':
            if i + 1 >= len(lit): return None
            e = lit[i + 1]
            if e in tab: out.append(tab[e]); i += 2; continue
            if e in 'xuU':
                k = {'x': 2, 'u': 4, 'U': 8}[e]
                hx = lit[i + 2:i + 2 + k]
                if len(hx) != k or any(ch not in '0123456789abcdefABCDEF' for ch in hx): return None      # exactly k hex digits (int() would also take a shorter or signed text)
                out.append(int(hx, 16))
                if e == 'x' and out[-1] >= 0x80: return None      # \xNN is a byte, not a code point: a lone byte >= 0x80 is not the UTF-8 encoding of any character
                i += 2 + k; continue
            return None
        out.append(ord(c)); i += 1
    return out

def replay_string_literal(desc, expect_panic=False, as_pattern=False):
    """native: the goml literal built from the items (plain characters as `x`) through the real CLI; the emitted Go literal is decoded and compared"""
    src_lit = ''.join('x' if d == '<char>' else d for d in desc)
    want = []
    for d in desc:
        if d == '<char>': want.append(ord('x'))
        elif len(d) == 1 and d != '\\': want.append(ord(d))      # a concrete plain character taken from the solver's model
        elif d.startswith('\\u'): want.append(None if _is_surr(d[2:]) else int(d[2:], 16))
        else: want.append(ESC[d[1]])
    d_ = tempfile.mkdtemp(prefix='vf-c11-')
    try:
        prog = 'fn main() -> unit { string_println("%s") }\n' % src_lit
        if as_pattern: prog = 'fn f(s: string) -> int32 { match s { "%s" => 1, _ => 2 } }\nfn main() -> unit { string_println(int32_to_string(f("q"))) }\n' % src_lit
        open(os.path.join(d_, 'main.gom'), 'w').write(prog)
        out = subprocess.run([build.compiler_bin(), 'run', '--dump-go', os.path.join(d_, 'main.gom')], capture_output=True, text=True, timeout=60)
    finally: shutil.rmtree(d_, ignore_errors=True)
    if expect_panic:
        pan = [l for l in (out.stdout + out.stderr).splitlines() if 'panicked' in l]
        return bool(pan), 'goml `string_println("%s")`: %s' % (src_lit, pan[:1] if pan else 'no panic')
    if as_pattern:
        line = [l.strip() for l in out.stdout.splitlines() if l.strip().startswith('case "')]
        if not line: return False, 'native CLI did not emit the case: %s' % (out.stdout + out.stderr)[-200:]
        body = line[0][len('case "'):line[0].rindex('"')]
    else:
        line = [l.strip() for l in out.stdout.splitlines() if 'string_println("' in l and 'func ' not in l]
        if not line: return False, 'native CLI did not emit the call: %s' % (out.stdout + out.stderr)[-200:]
        body = line[0][line[0].index('string_println("') + len('string_println("'):line[0].rindex('")')]
    got = py_go_decode(body)
    if got is not None and len(got) == len(want): got = [g if w is not None else None for g, w in zip(got, want)]
    return got != want, 'goml `string_println("%s")` emits Go `%s`, which denotes %s; the source denotes %s' % (src_lit, line[0], got, want)

def _string_obs():
    return [Ob('O11.3-string-literal-1', 'string literal fidelity through lowering and Go printing: 1 item', ob_string_literal, ('quick', 'thorough'), 1, dict(items=1)),
            Ob('O11.3-string-literal-2', 'string literal fidelity: 2 items', ob_string_literal, ('quick', 'thorough'), 3, dict(items=2)),
            Ob('O11.3-string-literal-3', 'string literal fidelity: 3 items', ob_string_literal, ('thorough',), 30, dict(items=3)),
            Ob('O11.3-string-pattern-1', 'a string literal used as a PATTERN denotes the same characters: 1 item', ob_string_literal, ('quick', 'thorough'), 1, dict(items=1, pattern=True)),
            Ob('O11.3-string-pattern-2', 'string pattern fidelity: 2 items', ob_string_literal, ('quick', 'thorough'), 3, dict(items=2, pattern=True))]
_old_obligations = obligations
def obligations():
    from props import c11_lower
    return _old_obligations() + _string_obs() + c11_lower.obligations()

# ----------------------------------------------------------------------------- O11.6 multi-line string literals: every line's content is kept verbatim
def ob_multiline_literal(r, tier, seed, lines, items):
    W = e2.fresh_world(LCRATES)
    CEX = [a for a in W.tt.by_name.get('Expr', []) if a.crate == 'cst'][0]; ME = [a for a in W.tt.by_name.get('MultilineStrExpr', []) if a.crate == 'cst'][0]
    AEX = W.tt.find_adt(['ast', 'ast', 'Expr'], 'ast')
    ALPH = ['a', ' ', '\t', '\\', '"', 'é']
    r.bounds = 'multi-line string tokens of %d line(s); each line = indentation in {"", " ", "\\t "} + the marker \\\\\\\\ + %d content characters, each lazily one of %s (so contents may start or end with blanks and contain backslashes and quotes)' % (lines, items, [repr(c) for c in ALPH])
    r.assumptions = ['the token text is one the lexer produces for a multi-line string (every line: blanks, `\\\\\\\\`, content; checked for the scanner by O12.2/O11.5)', 'cst::MultilineStrExpr::value / SyntaxToken text access are stubbed by the token text; MySyntaxNodePtr opaque',
                     'oracle: the literal denotes the line contents after the marker, verbatim (no escape processing, trailing blanks kept), joined by newlines; the emitted Go literal, read by a reference decoder, must denote exactly that']
    cur = {}
    def token_stub(ex, a): return ms.some(Opaque('token', text=cur['text']))
    for nm in list(W.methods.get('value', [])):
        if 'nodes.rs' in nm[1] and nm[2] is not None and nm[2].self_key == 'MultilineStrExpr': W.stubs[nm[1]] = token_stub
    def ov(f, g):
        if 'SyntaxToken' in g and g.endswith('::to_string'):
            def m_token_to_string(ex, f_, a): return Str(list(ex.deref(a[0]).text.chars))
            return m_token_to_string
        if g.endswith(' as CstNode>::syntax'):
            def m_cst_syntax(ex, f_, a):
                n = ex.deref(a[0])
                while isinstance(n, Agg) and n.fields and isinstance(n.fields[0], Agg): n = n.fields[0]
                return Ref(n.fields, 0)
            return m_cst_syntax
        if 'SyntaxNodePtr' in g and g.endswith('::new'):
            def m_nodeptr_new(ex, f_, a): return Opaque('astptr')
            return m_nodeptr_new
        if g.endswith('::text_range'):
            def m_text_range(ex, f_, a): return Agg('TextRange', 0, [0, 1])
            return m_text_range
        return None
    W.overrides = [ov]
    def entry(ex):
        text = ''; want = []
        for li in range(lines):
            ind = ex.choose([(True, ''), (True, ' '), (True, '\t ')])
            content = ''.join(ex.choose([(True, c) for c in ALPH]) for _ in range(items))
            text += ('\n' if li else '') + ind + '\\\\' + content
            want.append(content)
        ex.notes['text'] = text
        cur['text'] = mkstr(text)
        node = Agg(CEX.key, CEX.vindex('MultilineStrExpr'), [Agg(ME.key, 0, [Opaque('syntaxnode')])])
        LC = [a for a in W.tt.by_name.get('LowerCtx', []) if a.crate == 'ast'][0]
        DI = W.tt.find_adt(['diagnostics', 'Diagnostics'], 'diagnostics')
        ctxv = Agg(LC.key, 0, [Agg(DI.key, 0, [PyVec([])]) if (f[1] and 'resolved_path' in f[1] and f[1]['resolved_path']['path'].endswith('Diagnostics')) else Opaque('ctx.' + str(f[0])) for f in LC.variants[0].fields])
        h = {0: ctxv}
        res = ex.call('lower::lower_expr_with_args', [Ref(h, 0), node, PyVec([])], 'ast')
        if res.idx == 0: return text, 'rejected', None, '\n'.join(want)
        e = res.fields[0]
        if AEX.variants[e.idx].name != 'EString': return text, 'not-a-string', None, '\n'.join(want)
        h2 = {0: e.fields[0]}
        lit = ex.call('pprint::go_pprint::escape_go_string', [Ref(h2, 0)], 'compiler')
        return text, 'ok', ms.pystr(lit), '\n'.join(want)
    res = e2.explore(r, W, entry, [])
    for p in res:
        r.cases += 1
        if p.kind != 'ok':
            if not any(f.key == 'panic' for f in r.findings): r.findings.append(Finding('panic', 'lowering the multi-line string %r panics: %s' % ((p.notes or {}).get('text'), p.value), {}, False, 'not replayed'))
            continue
        text, st, lit, want = p.value
        r.nontrivial += 1
        got = None if lit is None else py_go_decode(lit)
        if st != 'ok' or got is None or ''.join(map(chr, got)) != want:
            if any(f.key == 'multiline-literal-changed' for f in r.findings): continue
            ok_, detail = replay_multiline(text, want)
            r.findings.append(Finding('multiline-literal-changed', 'multi-line string %r denotes %r; lowering + printing give %s' % (text, want, st if st != 'ok' else repr(''.join(map(chr, got)) if got is not None else lit)), {'token': text, 'want': want}, ok_, detail))
        elif len(r.samples) < 3: r.samples.append({'token': text, 'value': want})

def replay_multiline(text, want):
    src = 'fn main() -> unit {\n  let s =\n%s\n  ;\n  string_println(s)\n}\n' % '\n'.join('    ' + l for l in text.split('\n'))
    d_ = tempfile.mkdtemp(prefix='vf-c11-')
    try:
        open(os.path.join(d_, 'main.gom'), 'w').write(src)
        out = subprocess.run([build.compiler_bin(), 'run', '--dump-go', os.path.join(d_, 'main.gom')], capture_output=True, text=True, timeout=60)
    finally: shutil.rmtree(d_, ignore_errors=True)
    m = re.search(r'string = "((?:[^"\\]|\\.)*)"', out.stdout) or re.search(r'string_println\("((?:[^"\\]|\\.)*)"\)', out.stdout)
    if not m: return False, 'native CLI: no string literal found: %s' % (out.stdout + out.stderr)[-200:]
    got = py_go_decode(m.group(1)); got = None if got is None else ''.join(map(chr, got))
    return got != want, 'goml source with that literal emits Go "%s", which denotes %r; the source denotes %r' % (m.group(1), got, want)

import re
_c11_obs2 = obligations
def obligations():
    return _c11_obs2() + [Ob('O11.6-multiline-literal-3', 'multi-line string fidelity: 3 lines, 1 content character', ob_multiline_literal, ('quick', 'thorough'), 5, dict(lines=3, items=1)),
                          Ob('O11.6-multiline-literal-2', 'multi-line string fidelity: 2 lines, 2 content characters', ob_multiline_literal, ('quick', 'thorough'), 10, dict(lines=2, items=2))]

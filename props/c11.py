"""C11 - precedence, associativity, literal fidelity: operator grouping of the real parser vs the documented level table (E2) + tables/escapes."""
from props import parser_ob
def obligations():
    parser_ob.ACCEPT_KEYS = None
    obs = parser_ob.obligations_c11_parser()
    try:
        from props import e1_obs
        obs += e1_obs.c11_obligations()
    except ImportError: pass
    return obs
META = {
    'level': 'other',
    'explanation': 'Bounded solver-checked obligations over the real expression parser: expr/expr_bp/atom and build_tree (MIR of the current tree) are executed on token shapes whose operators are solver variables over all binary/prefix operators; the CST read from the recorder must equal the tree built by a reference precedence climber that knows only the level table of the property statement, for every operator choice (z3 decides, per path and level vector, whether an operator choice exists and the shapes are compared).',
    'assumptions': ['CST level only: the call/prefix re-association in ast::lower (apply_trailing_args) is a separate obligation', 'literal spellings: see E1 obligations'],
    'trusted_base': ['mirsym MIR interpreter', 'std/rowan models', 'z3', 'reference climber (40 lines)'],
}

"""C02 - one facet only: every helper type (tuple struct, reference cell) that the emitted Go can name is declared.
The Go backend names a struct `TupleN_..` for every tuple type and `ref_..` for every reference type occurring anywhere in a goml type
(tast_ty_to_go_type), and declares exactly the types gathered by collect_runtime_types. O2.1 checks that the gathering reaches every
position of a type."""
import json, os, re, subprocess, tempfile, shutil
import z3
from vlib import e2, build
from vlib.core import Ob, Finding
import mirsym as ms
from mirsym.lazy import Spec, force
from mirsym.engine import Agg, PyVec, PySet, Str, Ref, Opaque, Unsupported, unbox, mkbox, mkstr, UNIT
from props.enc_ob import shape
from props.mono_ob import goml_ty

CRATES = ('compiler', 'common_defs', 'diagnostics')

def subterms(sh):
    out = [sh]
    if 'base' in sh: out += subterms(sh['base'])
    for x in sh.get('a', []): out += subterms(x)
    return out

def replay_cli(tsh):
    """real CLI: a function with a parameter of the type; every `TupleN_..` / `ref_..` identifier used in the Go text must be declared there"""
    src = 'struct A { v: int32 }\nfn mk() -> %s { mk() }\nfn use_it(x: %s) -> unit { () }\nfn main() -> unit { use_it(mk()) }\n' % (goml_ty(tsh), goml_ty(tsh))
    d = tempfile.mkdtemp(prefix='vf-c02-')
    try:
        open(os.path.join(d, 'main.gom'), 'w').write(src)
        p = subprocess.run([build.compiler_bin(), 'run', '--dump-go', os.path.join(d, 'main.gom')], capture_output=True, text=True, timeout=60)
    finally: shutil.rmtree(d, ignore_errors=True)
    go = p.stdout
    used = set(re.findall(r'\b(Tuple\d+_\w+|ref_\w+)\b', go)); declared = set(re.findall(r'^type (\w+) struct', go, re.M))
    missing = sorted(u for u in used if u not in declared and not re.search(r'^func %s\b' % re.escape(u), go, re.M))
    return bool(missing), 'goml `%s`: the emitted Go uses %s without declaring %s' % (src.replace('\n', ' | '), sorted(used), missing) if missing else 'all helper types declared: ' + (go[:120].replace('\n', ' | ') or p.stderr[:200])

def replay_cli_dyn(tsh):
    """real CLI: a function with a parameter of the type; every `dyn__..` type name used in the Go text must be declared there"""
    src = 'trait D { fn m(Self) -> int32; }\nfn mk() -> %s { mk() }\nfn use_it(x: %s) -> unit { () }\nfn main() -> unit { use_it(mk()) }\n' % (goml_ty(tsh), goml_ty(tsh))
    d = tempfile.mkdtemp(prefix='vf-c02-')
    try:
        open(os.path.join(d, 'main.gom'), 'w').write(src)
        p = subprocess.run([build.compiler_bin(), 'run', '--dump-go', os.path.join(d, 'main.gom')], capture_output=True, text=True, timeout=60)
    finally: shutil.rmtree(d, ignore_errors=True)
    go = p.stdout
    used = set(re.findall(r'\b(dyn__\w+)\b', go)); declared = set(re.findall(r'^type (\w+) struct', go, re.M))
    missing = sorted(u for u in used if u not in declared and not u.endswith('_vtable') or (u.endswith('_vtable') and u not in declared))
    return bool(missing), 'goml `%s`: the emitted Go uses %s without declaring %s' % (src.replace('\n', ' | '), sorted(used), missing) if missing else 'all dyn types declared: ' + (go[:120].replace('\n', ' | ') or p.stderr[:200])

POSITIONS = ['param', 'ret', 'let', 'if-then', 'if-else', 'match-arm', 'match-default', 'while-body', 'call-arg']
def ob_helper_types(r, tier, seed, top, inner, depth, vec_len=(1, 2), positions=('param',), mode='helper'):
    W = e2.fresh_world(CRATES); tt = W.tt; TY = tt.find_adt(['tast', 'Ty'], 'compiler')
    AFN = tt.find_adt(['anf', 'Fn'], 'compiler'); AFILE = tt.find_adt(['anf', 'File'], 'compiler'); AE = tt.find_adt(['anf', 'AExpr'], 'compiler')
    CE = tt.find_adt(['anf', 'CExpr'], 'compiler'); IE = tt.find_adt(['anf', 'ImmExpr'], 'compiler'); PR = tt.find_adt(['common', 'Prim'], 'compiler')
    r.bounds = 'a function in which a value of the type occurs at one of the positions %s (solver decision); ' % list(positions) + 'the type ranges over every concrete type of depth <= %d: top constructor in %s, inner in %s, leaves int32 / bool / struct A, component lists of %d..%d' % (depth, top, inner, vec_len[0], vec_len[1])
    r.assumptions = ['oracle: every tuple type and every reference type that occurs at any position of the parameter type is in the sets returned by collect_runtime_types (the types the backend declares)',
                     'the body is `()`; only the signature carries the type']
    class S2(Spec):
        def make_adt(s, ex, adt, d, path, subst):
            if adt.name == 'Ty': s.allowed['Ty'] = top if d == depth else inner
            return Spec.make_adt(s, ex, adt, d, path, subst)
    spec = S2(tt, allowed={'Ty': top}, leaves={'Ty': ['TInt32', 'TBool', 'TStruct'] if mode == 'helper' else ['TInt32', 'TDyn']}, strings=('A',) if mode == 'helper' else ('D',), vec_len=vec_len, int_choices=[2], depth=depth)
    if mode == 'dyn':
        r.assumptions = ['oracle: the trait of every `dyn Tr` type that occurs at any position of the type is in DynRequirements.traits returned by collect_dyn_requirements (the backend declares the Go struct dyn__Tr and its vtable type only for those)']
    def entry(ex):
        t = force(ex, spec.root(ex, 'tast::Ty', tag='t')); tsh = shape(t, TY)
        unit_ty = Agg(TY.key, TY.vindex('TUnit'), [])
        imm = Agg(IE.key, IE.vindex('ImmPrim'), [Agg(PR.key, PR.vindex('Unit'), [UNIT]), unit_ty])
        body = Agg(AE.key, AE.vindex('ACExpr'), [Agg(CE.key, CE.vindex('CImm'), [imm])])
        pos = ex.choose([(True, p_) for p_ in positions]) if len(positions) > 1 else positions[0]
        ARM = tt.find_adt(['anf', 'Arm'], 'compiler'); bool_ty = Agg(TY.key, TY.vindex('TBool'), []); i32 = Agg(TY.key, TY.vindex('TInt32'), [])
        A = lambda n, *f: Agg(AE.key, AE.vindex(n), list(f)); C = lambda n, **kw: Agg(CE.key, CE.vindex(n), [kw[fl[0]] for fl in CE.variants[CE.vindex(n)].fields])
        var = lambda n, ty: Agg(IE.key, IE.vindex('ImmVar'), [mkstr(n), ty])
        unit_a = body
        use = A('ALet', mkstr('tmp'), mkbox(C('CImm', imm=var('q', t))), mkbox(unit_a), unit_ty)        # let tmp: T = q in ()
        params = []; ret = unit_ty
        if pos == 'param': params = [Agg('tuple', 0, [mkstr('x'), t])]
        elif pos == 'ret': ret = t; body = A('ACExpr', C('CImm', imm=var('q', t)))
        elif pos == 'let': body = use
        elif pos in ('if-then', 'if-else'):
            body = A('ACExpr', C('EIf', cond=mkbox(var('c', bool_ty)), then=mkbox(use if pos == 'if-then' else unit_a), else_=mkbox(use if pos == 'if-else' else unit_a), ty=unit_ty))
        elif pos in ('match-arm', 'match-default'):
            lit = Agg(IE.key, IE.vindex('ImmPrim'), [Agg(PR.key, PR.vindex('Int32'), [1]), i32])
            body = A('ACExpr', C('EMatch', expr=mkbox(var('n', i32)), arms=PyVec([Agg(ARM.key, 0, [lit, use if pos == 'match-arm' else unit_a])]), default=ms.some(mkbox(use if pos == 'match-default' else unit_a)), ty=unit_ty))
        elif pos == 'while-body':
            body = A('ACExpr', C('EWhile', cond=mkbox(A('ACExpr', C('CImm', imm=var('c', bool_ty)))), body=mkbox(use), ty=unit_ty))
        elif pos == 'call-arg':
            fty = Agg(TY.key, TY.vindex('TFunc'), [PyVec([t]), mkbox(unit_ty)])
            body = A('ACExpr', C('ECall', func=var('g', fty), args=PyVec([var('q', t)]), ty=unit_ty))
        fn = Agg(AFN.key, 0, [{'name': mkstr('use_it'), 'params': PyVec(params), 'ret_ty': ret, 'body': body}[f[0]] for f in AFN.variants[0].fields])
        h = {0: Agg(AFILE.key, 0, [PyVec([fn])])}
        if mode == 'dyn':
            res = ex.call('go::compile::collect_dyn_requirements', [Ref(h, 0)])
            tr = res.fields[0]
            return tsh, ([ms.pystr(x) for x in (tr.elems if isinstance(tr, PySet) else tr.keys)], [], []), pos
        res = ex.call('go::compile::collect_runtime_types', [Ref(h, 0)])
        sets = [[shape(x, TY) for x in (s_.elems if isinstance(s_, PySet) else s_.keys)] for s_ in res.fields]
        return tsh, sets, pos
    res = e2.explore(r, W, entry, [])
    found = {}
    for p in res:
        r.cases += 1
        if p.kind != 'ok': found.setdefault('panic', ('collect_runtime_types panics: %s' % p.value, None)); continue
        tsh, (tuples, arrays, refs), pos = p.value
        if mode == 'dyn':
            need = [s_ for s_ in subterms(tsh) if s_['k'] == 'TDyn']
            if need: r.nontrivial += 1
            missd = [s_ for s_ in need if s_['name'] not in tuples]
            if missd:
                def hidden_under(sh, target, under=None):
                    if sh == target: return under
                    for x in sh.get('a', []):
                        r_ = hidden_under(x, target, sh['k'])
                        if r_ is not None: return r_
                    return None
                key = 'dyn-type-not-collected:under-' + str(hidden_under(tsh, missd[0])) + ('' if pos == 'param' else ':at-' + pos)
                found.setdefault(key, ('a value of type %s at position `%s` mentions dyn %s, which collect_dyn_requirements does not return (no Go declaration of dyn__%s is emitted)' % (goml_ty(tsh), pos, missd[0]['name'], missd[0]['name']), tsh if pos == 'param' else None))
            elif len(r.samples) < 3 and need: r.samples.append({'type': goml_ty(tsh), 'traits': tuples})
            continue
        need_t = [s_ for s_ in subterms(tsh) if s_['k'] == 'TTuple']; need_r = [s_ for s_ in subterms(tsh) if s_['k'] == 'TRef']
        if need_t or need_r: r.nontrivial += 1
        miss = [s_ for s_ in need_t if s_ not in tuples] + [s_ for s_ in need_r if s_ not in refs]
        if miss:
            # which constructor hides the missed type?
            def hidden_under(sh, target, under=None):
                if sh == target: return under
                for x in sh.get('a', []):
                    r_ = hidden_under(x, target, sh['k'])
                    if r_ is not None: return r_
                return None
            key = 'helper-type-not-collected:under-' + str(hidden_under(tsh, miss[0])) + ('' if pos == 'param' else ':at-' + pos)
            found.setdefault(key, ('a value of type %s at position `%s` mentions %s, which collect_runtime_types does not return (no Go declaration is emitted for it)' % (goml_ty(tsh), pos, goml_ty(miss[0])), tsh if pos == 'param' else None))
        elif len(r.samples) < 3 and (need_t or need_r): r.samples.append({'type': goml_ty(tsh), 'tuples': len(tuples), 'refs': len(refs)})
    for key, (what, w) in found.items():
        ok_, detail = True, 'sets returned by the real collect_runtime_types MIR'
        if w is not None:
            try: ok_, detail = replay_cli(w) if mode == 'helper' else replay_cli_dyn(w)
            except Exception as e: ok_, detail = False, 'replay failed: %s' % str(e)[:200]
        r.findings.append(Finding(key, what, {'type': w}, ok_, detail))

def obligations():
    comp = ['TTuple', 'TArray', 'TVec', 'TRef', 'TFunc']
    return [Ob('O2.4-dyn-types-d2', 'every dyn Trait type inside a signature type is collected for declaration: depth 2', ob_helper_types, ('quick', 'thorough'), 5, dict(top=comp + ['TDyn'], inner=comp + ['TInt32', 'TDyn'], depth=2, vec_len=(1, 1), mode='dyn')),
            Ob('O2.4-dyn-types-positions', 'dyn Trait types are collected wherever a value of the type occurs', ob_helper_types, ('quick', 'thorough'), 5, dict(top=['TTuple', 'TRef', 'TVec', 'TDyn'], inner=['TTuple', 'TVec', 'TDyn', 'TInt32'], depth=2, vec_len=(1, 1), positions=tuple(POSITIONS), mode='dyn')),
            Ob('O2.1-helper-types-positions', 'helper types are collected wherever a value of the type occurs: let / if / match arm / match default / while / call / return', ob_helper_types, ('quick', 'thorough'), 5, dict(top=['TTuple', 'TRef', 'TVec'], inner=['TTuple', 'TRef', 'TInt32'], depth=2, vec_len=(1, 1), positions=tuple(POSITIONS))),
            Ob('O2.1-helper-types-d2', 'every tuple / reference type inside a signature type is collected for declaration: depth 2', ob_helper_types, ('quick', 'thorough'), 5, dict(top=comp, inner=comp + ['TInt32'], depth=2, vec_len=(1, 1))),
            Ob('O2.1-helper-types-d3', 'same, depth 3 (inner constructors tuple / Vec / Ref / array)', ob_helper_types, ('thorough',), 60, dict(top=comp, inner=['TTuple', 'TVec', 'TRef', 'TArray', 'TInt32'], depth=3, vec_len=(1, 1)))]

META = {
    'level': 'other',
    'explanation': 'Bounded facets of C02 (O2.1 below; O2.2 and O2.3 in the assumptions list), decided on the real code: collect_runtime_types (MIR of the current tree) is executed on a function whose parameter type is a lazily built concrete type (constructor choices are solver decisions); every tuple and reference type occurring at any position of that type must be among the types it returns, because the backend names a Go struct for each of them (tast_ty_to_go_type) and declares only the returned ones. A miss is replayed through the CLI: the emitted Go text is scanned for helper type names that are used but not declared.',
    'assumptions': ['O2.2 adds a second facet: block-level DCE (same exploration as C09 O9.2) never leaves a use of a variable whose declaration it removed', 'O2.3 adds a third facet: import pruning keeps exactly the imports whose binding a remaining call uses', 'everything else in C02 (Go typing of expressions, unused variables, which helper needs which import, closures) is outside this claim: there is no Go front end in the sandbox to confirm counterexamples against'],
    'trusted_base': ['mirsym MIR interpreter', 'library models listed per obligation', 'z3'],
}

# ----------------------------------------------------------------------------- O2.2 dead-code elimination never removes a declaration that the remaining code still uses
def ob_dce_declarations(r, tier, seed, **kw):
    """same exploration as C09 O9.2 (block-level DCE as translation validation); under C02 only the `output uses a variable it no longer declares` findings count"""
    from props import c09
    c09.ob_block_dce(r, tier, seed, **kw)
    r.findings = [f for f in r.findings if f.key == 'undeclared-variable']
_c02_obl = obligations
def obligations():
    return _c02_obl() + [Ob('O2.2-dce-declarations-switch', 'DCE keeps the declaration of every variable the remaining code uses: value switch with default', ob_dce_declarations, ('quick', 'thorough'), 30, dict(nstmts=1, depth='switch', forms=('atom', 'call'))),
                         Ob('O2.2-dce-declarations-if', 'same: if / else', ob_dce_declarations, ('quick', 'thorough'), 20, dict(nstmts=1, depth=1, forms=('atom', 'call', 'div')))]

# ----------------------------------------------------------------------------- O2.3 import pruning keeps exactly the imports the remaining code uses
IMPORT_PATHS = ('math/bits', 'unicode/utf8', 'fmt', 'a/b/c')      # real packages first: the first witness of a finding is then one the CLI replay can show
POS_23 = ('expr-stmt', 'vardecl', 'return', 'if-cond', 'if-then', 'if-else', 'loop', 'call-arg', 'binop', 'switch-case', 'method', 'type-alias', 'unused')
def go_binding(path, alias): return alias if alias is not None else path.rsplit('/', 1)[-1]

def replay_imports(path, alias, pos):
    """real CLI: an extern function from the package, called from main; the emitted Go must import the package iff it uses it"""
    if pos == 'type-alias':
        src = 'extern type Duration\nextern "go" "time" "Duration" duration(nanos: int32) -> Duration\nfn main() -> unit { string_println("a") }\n'
        d = tempfile.mkdtemp(prefix='vf-c02i-')
        try:
            open(os.path.join(d, 'main.gom'), 'w').write(src)
            p = subprocess.run([build.compiler_bin(), 'run', '--dump-go', os.path.join(d, 'main.gom')], capture_output=True, text=True, timeout=60)
        finally: shutil.rmtree(d, ignore_errors=True)
        go = p.stdout; uses = 'time.Duration' in go; imports = '"time"' in go
        return uses != imports, 'goml `%s`: the emitted Go %s `time.Duration` and %s "time"' % (src.replace('\n', ' | '), 'names' if uses else 'does not name', 'imports' if imports else 'does not import')
    if alias is not None or path in ('a/b/c',): return True, 'import specs with an alias / of an invented package cannot be written in goml source; verdict of the real prune_unused_imports MIR'
    fn = {'fmt': ('Sprint', 'x: int32', 'string', '1'), 'math/bits': ('Reverse32', 'x: uint32', 'uint32', '1u32'), 'unicode/utf8': ('RuneCountInString', 's: string', 'int32', '"a"')}[path]
    src = 'extern "go" "%s" "%s" ext_f(%s) -> %s\nfn main() -> unit { let r = ext_f(%s); let _ = r; () }\n' % (path, fn[0], fn[1], fn[2], fn[3])
    d = tempfile.mkdtemp(prefix='vf-c02i-')
    try:
        open(os.path.join(d, 'main.gom'), 'w').write(src)
        p = subprocess.run([build.compiler_bin(), 'run', '--dump-go', os.path.join(d, 'main.gom')], capture_output=True, text=True, timeout=60)
    finally: shutil.rmtree(d, ignore_errors=True)
    go = p.stdout; b = path.rsplit('/', 1)[-1]
    uses = bool(re.search(r'\b%s\.%s\(' % (re.escape(b), fn[0]), go)); imports = ('"%s"' % path) in go
    return uses != imports, 'goml `%s`: the emitted Go %s `%s.%s(` and %s "%s"' % (src.replace('\n', ' | '), 'calls' if uses else 'does not call', b, fn[0], 'imports' if imports else 'does not import', path)

def ob_import_pruning(r, tier, seed):
    W = e2.fresh_world(CRATES); tt = W.tt
    GE = tt.find_adt(['goast', 'Expr'], 'compiler'); GS = tt.find_adt(['goast', 'Stmt'], 'compiler'); GT = tt.find_adt(['goty', 'GoType'], 'compiler'); BL = tt.find_adt(['goast', 'Block'], 'compiler')
    GB = tt.find_adt(['goast', 'GoBinaryOp'], 'compiler'); IT = tt.find_adt(['goast', 'Item'], 'compiler'); FI = tt.find_adt(['goast', 'File'], 'compiler'); FN = tt.find_adt(['goast', 'Fn'], 'compiler')
    TA = tt.find_adt(['goast', 'TypeAlias'], 'compiler')
    ID = tt.find_adt(['goast', 'ImportDecl'], 'compiler'); IS = tt.find_adt(['goast', 'ImportSpec'], 'compiler'); ST = tt.find_adt(['goast', 'Struct'], 'compiler'); ME = tt.find_adt(['goast', 'Method'], 'compiler'); RC = tt.find_adt(['goast', 'Receiver'], 'compiler')
    r.bounds = 'a Go file with one import declaration of two specs (paths among %s, the first optionally with the alias `q`) and one function / method whose body calls `<binding>.F(1)` of the first spec at one of the positions %s (`type-alias`: no call, but a declaration `type D = <binding>.T`; `unused`: no use); the second spec (fmt or math/bits) is never used' % (list(IMPORT_PATHS), list(POS_23))
    r.assumptions = ['Go binds an import to its alias or, without one, to the last element of its path (the package name is assumed to equal that element, as for the standard library)',
                     'oracle: go::dce::prune_unused_imports keeps an import spec iff some remaining call or type declaration uses its binding (Go rejects both an unused import and an undefined package name)']
    T = lambda n='TInt32': Agg(GT.key, GT.vindex(n), [])
    E = lambda n, **kw: Agg(GE.key, GE.vindex(n), [kw[f[0]] for f in GE.variants[GE.vindex(n)].fields])
    S = lambda n, **kw: Agg(GS.key, GS.vindex(n), [kw[f[0]] for f in GS.variants[GS.vindex(n)].fields])
    block = lambda stmts: Agg(BL.key, 0, [PyVec(stmts)])
    def entry(ex):
        path = ex.choose([(True, p_) for p_ in IMPORT_PATHS]); alias = ex.choose([(True, None), (True, 'q')]); pos = ex.choose([(True, p_) for p_ in POS_23])
        other = 'fmt' if path != 'fmt' else 'math/bits'
        b = go_binding(path, alias)
        fty = Agg(GT.key, GT.vindex('TFunc'), [PyVec([T()]), mkbox(T())])
        one = E('Int', value=mkstr('1'), ty=T())
        call = E('Call', func=mkbox(E('Var', name=mkstr(b + '.F'), ty=fty)), args=PyVec([one]), ty=T())
        local = E('Call', func=mkbox(E('Var', name=mkstr('g'), ty=fty)), args=PyVec([call]), ty=T())
        tru = E('Bool', value=True, ty=T('TBool'))
        expr_stmt = lambda e_: Agg(GS.key, GS.vindex('Expr'), [e_])
        stmts = {'expr-stmt': [expr_stmt(call)], 'vardecl': [S('VarDecl', name=mkstr('v'), ty=T(), value=ms.some(call))], 'return': [S('Return', expr=ms.some(call))],
                 'if-cond': [S('If', cond=E('BinaryOp', op=Agg(GB.key, GB.vindex('Less'), []), lhs=mkbox(call), rhs=mkbox(one), ty=T('TBool')), then=block([]), else_=ms.NONE())],
                 'if-then': [S('If', cond=tru, then=block([expr_stmt(call)]), else_=ms.NONE())], 'if-else': [S('If', cond=tru, then=block([]), else_=ms.some(block([expr_stmt(call)])))],
                 'loop': [S('Loop', body=block([expr_stmt(call), Agg(GS.key, GS.vindex('Break'), [])]))], 'call-arg': [expr_stmt(local)],
                 'binop': [S('VarDecl', name=mkstr('v'), ty=T(), value=ms.some(E('BinaryOp', op=Agg(GB.key, GB.vindex('Add'), []), lhs=mkbox(one), rhs=mkbox(call), ty=T())))],
                 'switch-case': [S('SwitchExpr', expr=one, cases=PyVec([Agg('tuple', 0, [one, block([expr_stmt(call)])])]), default=ms.NONE())],
                 'method': [expr_stmt(call)], 'type-alias': [S('Return', expr=ms.some(one))], 'unused': [S('Return', expr=ms.some(one))]}[pos]
        spec = lambda p_, a_: Agg(IS.key, 0, [ms.some(mkstr(a_)) if a_ is not None else ms.NONE(), mkstr(p_)])
        imp = Agg(IT.key, IT.vindex('Import'), [Agg(ID.key, 0, [PyVec([spec(path, alias), spec(other, None)])])])
        if pos == 'method':
            recv = Agg(RC.key, 0, [{'name': mkstr('s'), 'ty': T()}.get(f[0], T()) for f in RC.variants[0].fields])
            m = Agg(ME.key, 0, [{'receiver': recv, 'name': mkstr('m'), 'params': PyVec([]), 'body': block(stmts)}[f[0]] for f in ME.variants[0].fields])
            item = Agg(IT.key, IT.vindex('Struct'), [Agg(ST.key, 0, [{'name': mkstr('S'), 'fields': PyVec([]), 'methods': PyVec([m])}[f[0]] for f in ST.variants[0].fields])])
        else:
            item = Agg(IT.key, IT.vindex('Fn'), [Agg(FN.key, 0, [{'name': mkstr('f'), 'params': PyVec([]), 'ret_ty': ms.some(T()), 'body': block(stmts)}[f[0]] for f in FN.variants[0].fields])])
        items = [imp, item]
        if pos == 'type-alias':      # `type D = <binding>.T`: the only use of the package is a type name
            items.append(Agg(IT.key, IT.vindex('TypeAlias'), [Agg(TA.key, 0, [{'name': mkstr('D'), 'ty': Agg(GT.key, GT.vindex('TName'), [mkstr(b + '.T')])}[f[0]] for f in TA.variants[0].fields])]))
        out = ex.call('go::dce::prune_unused_imports', [Agg(FI.key, 0, [PyVec(items)])])
        kept = []
        for it in out.fields[0].items:
            if IT.variants[it.idx].name == 'Import':
                for sp_ in it.fields[0].fields[0].items: kept.append(ms.pystr(sp_.fields[1]))
        return path, alias, pos, other, kept
    res = e2.explore(r, W, entry, [])
    for p in res:
        r.cases += 1
        if p.kind != 'ok':
            if not any(f.key == 'panic' for f in r.findings): r.findings.append(Finding('panic', 'prune_unused_imports panics: %s' % p.value, {}, False, 'not replayed'))
            continue
        path, alias, pos, other, kept = p.value; r.nontrivial += 1
        want = [path] if pos != 'unused' else []
        if kept != want:
            key = ('used-import-pruned' if (path in want and path not in kept) else 'unused-import-kept') + (':type-alias' if pos == 'type-alias' else '')
            if any(f.key == key for f in r.findings): continue
            try: ok_, detail = replay_imports(path, alias, pos)
            except Exception as e_: ok_, detail = False, 'replay failed: %s' % str(e_)[:160]
            r.findings.append(Finding(key, 'import "%s"%s with %s (second import "%s" unused): prune_unused_imports keeps %s, expected %s' % (path, ' as q' if alias else '', ('a call `%s.F(1)` at position %s' % (go_binding(path, alias), pos)) if pos != 'type-alias' else 'the declaration `type D = %s.T` as its only use' % go_binding(path, alias), other, kept, want), {'path': path, 'alias': alias, 'position': pos}, ok_, detail))
        elif len(r.samples) < 3: r.samples.append({'import': path, 'alias': alias, 'position': pos, 'kept': kept})

_c02_obl2 = obligations
def obligations():
    return _c02_obl2() + [Ob('O2.3-import-pruning', 'prune_unused_imports keeps exactly the imports whose binding a remaining call uses', ob_import_pruning, ('quick', 'thorough'), 3, {})]

# ----------------------------------------------------------------------------- O2.5 every variable a lifted closure body reads is a field of its environment (else the apply function reads an undeclared Go variable)
def ob_capture_complete(r, tier, seed, **kw):
    """same exploration as C08 O8.1 (lift::collect_captured against the free variables of the body); under C02 only a free variable that is
    NOT captured counts: the apply function then mentions a variable that is declared nowhere in it (`undefined: x` in Go)"""
    from props import c08
    c08.ob_capture_set(r, tier, seed, **kw)
    keep = []
    for f in r.findings:
        w = f.witness or {}
        if f.key == 'panic' or set(w.get('free', [])) - set(w.get('captured', [])): keep.append(f)
    r.findings = keep
_c02_obl3 = obligations
def obligations():
    return _c02_obl3() + [Ob('O2.5-captures-complete-d2', 'every free variable of a closure body is captured (let / binary / call / tuple / while on top)', ob_capture_complete, ('quick', 'thorough'), 10, dict(depth=2, forms=['ELet', 'EBinary', 'ECall', 'ETuple', 'EWhile'])),
                          Ob('O2.5-captures-complete-more', 'same: if / match (scrutinee, arms, default) / unary / projection / array / go / field read on top', ob_capture_complete, ('quick', 'thorough'), 5, dict(depth=2, forms=['EIf', 'EMatch', 'EUnary', 'EProj', 'EArray', 'EGo', 'EConstrGet', 'EConstr'], inner=('EVar', 'ELet'), names=('x', 'z')))]

# ----------------------------------------------------------------------------- O2.6 string literals are printed as Go literals the Go scanner accepts
def ob_literal_valid_go(r, tier, seed, **kw):
    """same exploration as C11 O11.3 (lexer-accepted literal -> ast value -> escape_go_string -> reference decoder of Go interpreted string literals);
    under C02 only `the emitted literal is not a legal Go literal` counts (the decoder returns None), not a legal literal with another value"""
    from props import c11
    c11.ob_string_literal(r, tier, seed, **kw)
    r.findings = [f for f in r.findings if f.key == 'panic' or 'denotes None' in f.what]
_c02_obl4 = obligations
def obligations():
    return _c02_obl4() + [Ob('O2.6-string-literal-legal-go-1', 'every string literal is emitted as a legal Go interpreted string literal: 1 item', ob_literal_valid_go, ('quick', 'thorough'), 1, dict(items=1)),
                          Ob('O2.6-string-literal-legal-go-2', 'same: 2 items', ob_literal_valid_go, ('quick', 'thorough'), 3, dict(items=2))]

# ----------------------------------------------------------------------------- O2.7 every expression statement DCE leaves is one Go allows
def ob_stmt_expr_legal(r, tier, seed, **kw):
    """same exploration as C09 O9.2 with the Go builtins / conversions the backend emits for vec_push / vec_len among the initialisers; under C02 only
    `the output has an expression statement Go rejects` counts"""
    from props import c09
    c09.ob_block_dce(r, tier, seed, **kw)
    r.findings = [f for f in r.findings if f.key in ('illegal-expression-statement', 'panic')]
    for f in r.findings:
        if f.key != 'illegal-expression-statement': continue
        src = 'fn main() -> unit {\n    let v: Vec[int32] = vec_new();\n    let v2 = vec_push(v, 1);\n    let _ = vec_len(v2);\n    let _ = vec_push(v2, 2);\n    string_println("x")\n}\n'
        d = tempfile.mkdtemp(prefix='vf-c02s-')
        try:
            open(os.path.join(d, 'main.gom'), 'w').write(src)
            out = subprocess.run([build.compiler_bin(), 'run', '--dump-go', os.path.join(d, 'main.gom')], capture_output=True, text=True, timeout=60).stdout
        finally: shutil.rmtree(d, ignore_errors=True)
        bad = [l.strip() for l in out.splitlines() if re.match(r'^\s*(append|len|cap|int32)\(', l)]
        f.replayed = bool(bad); f.replay_detail = 'goml `%s`: the emitted Go has the statements %s' % (src.replace('\n', ' | '), bad)
_c02_obl7 = obligations
def obligations():
    return _c02_obl7() + [Ob('O2.7-expression-statements-legal', 'an unused initialiser kept for its effect is never left as an expression statement Go rejects (append / len / conversions)', ob_stmt_expr_legal, ('quick', 'thorough'), 10, dict(nstmts=2, depth=0, forms=('atom', 'call', 'builtin')))]

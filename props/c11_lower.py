"""C11 O11.4 - operator / call / field grouping of the *AST* (after ast::lower's apply_trailing_args re-association) against a reference
grammar that knows only the property statement: calls and field access bind tightest, then unary, then the binary levels."""
import json, os, subprocess, tempfile, shutil, itertools
import z3
from vlib import e2, build
from vlib.core import Ob, Finding
import mirsym as ms
from mirsym.engine import Agg, PyVec, Str, Panic, Unsupported
from mirsym.engine import unbox as _unbox
def unbox(v): return _unbox(v) if isinstance(v, Agg) and v.ty == 'Box' else v
from props import parser_ob, lower_ob

BIN = {'Plus': 'Add', 'Minus': 'Sub', 'Star': 'Mul', 'Slash': 'Div', 'AndAnd': 'And', 'OrOr': 'Or', 'Less': 'Less', 'Greater': 'Greater',
       'LessEq': 'LessEq', 'GreaterEq': 'GreaterEq', 'EqEq': 'Eq', 'NotEq': 'NotEq'}
UN = {'Minus': 'Neg', 'Bang': 'Not'}
SPELL = {'Plus': '+', 'Minus': '-', 'Star': '*', 'Slash': '/', 'AndAnd': '&&', 'OrOr': '||', 'Less': '<', 'Greater': '>', 'LessEq': '<=', 'GreaterEq': '>=',
         'EqEq': '==', 'NotEq': '!=', 'Bang': '!', 'LParen': '(', 'RParen': ')', 'Comma': ',', 'Dot': '.'}
BLEVELS = parser_ob.LEVELS[:-1]

SHAPES = ['p x ( x )', 'p x ( x ) ( x )', 'p x . x ( x )', 'p x . x ( x ) ( x )', 'p x ( x ) . x', 'p x ( x ) . x ( x )', 'x b p x ( x ) ( x )', 'p x ( x ) b x',
          'x ( x ) ( x , x )', 'x ( x ) ( )', 'p p x ( x )', 'x . x ( x ) . x ( x )', 'x b x ( x ) . x', 'p x . x . x', 'x ( p x ( x ) . x )', 'x b x . x ( x ) b x',
          'p x ( x ) ( x ) ( x )', 'p x ( ) . x . x', 'p x ( )', 'p x ( ) b x', 'p x . x ( )', 'p p x ( ) ( x )',
          '( x ) ( )', '( x ) ( x )', '( x ( x ) ) ( x , x )', '( x ( x ) ) ( )', '( x b x ) ( x )', '( p x ) ( x )', 'x b ( x ) ( )', '( x . x ) ( x ) ( )']

def ref_parse(toks, lvl):
    """toks: [(text, kindname, role)]; reference: postfix (call, field) tightest, then prefix, then binary levels (left-assoc)"""
    pos = [0]
    def peek(): return toks[pos[0]] if pos[0] < len(toks) else None
    def nxt(): t = toks[pos[0]]; pos[0] += 1; return t
    def postfix():
        if peek()[1] == 'LParen':              # grouping parentheses: the AST keeps no node for them
            nxt(); e = expr(0); assert nxt()[1] == 'RParen'
        else: e = ('path', nxt()[0])
        while peek() is not None and peek()[1] in ('LParen', 'Dot'):
            if nxt()[1] == 'Dot': e = ('field', e, nxt()[0])
            else:
                args = []
                while peek()[1] != 'RParen':
                    args.append(expr(0))
                    if peek()[1] == 'Comma': nxt()
                nxt(); e = ('call', e, tuple(args))
        return e
    def unary():
        if peek()[2] == 'prefix': op = nxt(); return ('un', UN[op[1]], unary())
        return postfix()
    def expr(minl):
        lhs = unary()
        while peek() is not None and peek()[2] == 'binary' and lvl[peek()[1]] >= minl:
            op = nxt(); rhs = expr(lvl[op[1]] + 1); lhs = ('bin', BIN[op[1]], lhs, rhs)
        return lhs
    e = expr(0)
    assert pos[0] == len(toks), (pos, toks)
    return e

def show(e):
    if e[0] == 'path': return e[1]
    if e[0] == 'field': return '(%s.%s)' % (show(e[1]), e[2])
    if e[0] == 'call': return '%s(%s)' % (show(e[1]) if e[1][0] in ('path', 'call', 'field') else '(' + show(e[1]) + ')', ', '.join(show(a) for a in e[2]))
    if e[0] == 'un': return '(%s %s)' % (e[1], show(e[2]))
    if e[0] == 'bin': return '(%s %s %s)' % (show(e[2]), e[1], show(e[3]))
    return repr(e)

def ob_ast_grouping(r, tier, seed, shape):
    lw = lower_ob.LW(); W = lw.W; tt = W.tt
    AEX = tt.find_adt(['ast', 'ast', 'Expr'], 'ast')
    FN = [a for a in tt.by_name['Fn'] if a.crate == 'ast'][0]
    UOP = [a for a in tt.by_name['UnaryOp'] if a.crate == 'common_defs'][0]; BOP = [a for a in tt.by_name['BinaryOp'] if a.crate == 'common_defs'][0]
    binops = [k for l in BLEVELS for k in l]; lvl = {k: i for i, l in enumerate(BLEVELS) for k in l}
    pre = [('FnKeyword', 'fn'), ('Ident', 'f'), ('LParen', '('), ('RParen', ')'), ('LBrace', '{')]; post = [('RBrace', '}')]
    specs = []; roles = []; syms = []
    names = iter('abcdefghij')
    for i, c in enumerate(shape.split()):
        if c == 'x': specs.append(('Ident', next(names))); roles.append('atom')
        elif c == 'b': k = z3.Int('op%d' % i); specs.append((k, 'h')); roles.append('binary'); syms.append((k, binops))
        elif c == 'p': k = z3.Int('op%d' % i); specs.append((k, 'h')); roles.append('prefix'); syms.append((k, parser_ob.PREFIX))
        else:
            kn = {'(': 'LParen', ')': 'RParen', ',': 'Comma', '.': 'Dot'}[c]; specs.append((kn, c)); roles.append('punct')
    allowed = {k.get_id(): [lw.TK.vindex(n) for n in ns] for k, ns in syms}
    r.bounds = 'expression shape `%s` inside `fn f() { .. }`: x = distinct identifiers, b = any of the 12 binary operators, p = any prefix operator (solver variables); real parser, real tree builder, real ast::lower' % shape
    r.assumptions = ['oracle: reference grammar from the property statement: call and field access tightest, then unary - !, then * /, + -, < > <= >=, == !=, &&, || (left-associative)',
                     'rowan red tree modelled on the recorder output of the real build_tree (validated by O4.4-lower-selftest)']
    def fd(adt, v, name, vi=0): return unbox(v.fields[[x[0] for x in adt.variants[vi].fields].index(name)])
    def ident(ex, v):
        # AstIdent(String)
        while isinstance(v, Agg): v = v.fields[0]
        return ms.pystr(v)
    def render(ex, v):
        v = unbox(v); vn = AEX.variants[v.idx].name; f = dict(zip([x[0] for x in AEX.variants[v.idx].fields], v.fields))
        if vn == 'EPath':
            segs = f['path'].fields[0].items; return ('path', '::'.join(ident(ex, s_) for s_ in segs))
        if vn == 'ECall': return ('call', render(ex, f['func']), tuple(render(ex, a) for a in f['args'].items))
        if vn == 'EUnary': return ('un', UOP.variants[f['op'].idx].name, render(ex, f['expr']))
        if vn == 'EBinary': return ('bin', BOP.variants[f['op'].idx].name, render(ex, f['lhs']), render(ex, f['rhs']))
        if vn == 'EField': return ('field', render(ex, f['expr']), ident(ex, f['field']))
        return ('other', vn)
    full = pre + specs + post
    def entry(ex):
        for k, ns in syms: ex.restrict(k, allowed[k.get_id()])
        lr, root, pd = lower_ob.run_lower(lw, ex, [k for k, _ in full], [t for _, t in full])
        has, nd, items, ditems = lower_ob.lower_summary(lw, ex, lr)
        if pd.items if hasattr(pd, 'items') else pd.fields[0].items: return ('parse-diagnostics',)
        if not has or nd or items != ['Fn']: return ('lower-diagnostics', nd, items)
        fv = lr.fields[0].fields[0]; it = dict(zip([x[0] for x in lw.AFILE.variants[0].fields], fv.fields))['toplevels'].items[0]
        body = fd(FN, it.fields[0], 'body')
        f = dict(zip([x[0] for x in AEX.variants[body.idx].fields], body.fields))
        if AEX.variants[body.idx].name != 'EBlock' or len(f['exprs'].items) != 1: return ('body-shape', AEX.variants[body.idx].name)
        return render(ex, f['exprs'].items[0])
    res = e2.explore(r, W, entry, [])
    from mirsym.engine import unary_set
    for p in res:
        r.cases += 1
        if p.kind != 'ok':
            m, _ = e2.check(p.pc); kn = [k if isinstance(k, str) else lw.kinds[e2.mval(m, k)] for k, _t in specs]
            if not any(f.key == 'grouping-panic' for f in r.findings):
                r.findings.append(Finding('grouping-panic', 'parse + lower of %s: %s' % (kn, p.value[:200]), {'kinds': kn}, False, 'not replayed'));
            continue
        per_var = []
        for k, ns in syms:
            lv = {}
            for L in (sorted(set(lvl[n] for n in ns)) if ns is not parser_ob.PREFIX else [None]):
                if L is None:
                    for n in ns:
                        m, dt = e2.check(p.pc + [k == lw.TK.vindex(n)]); r.queries += 1; r.solver_s += dt
                        if m is not None: lv[n] = ([k == lw.TK.vindex(n)], n)
                else:
                    cnd = [z3.Or(*[k == lw.TK.vindex(n) for n in ns if lvl[n] == L])]
                    m, dt = e2.check(p.pc + cnd); r.queries += 1; r.solver_s += dt
                    if m is not None: lv[L] = (cnd, lw.kinds[e2.mval(m, k)])
            per_var.append(lv)
        for combo in itertools.product(*[list(lv) for lv in per_var]):
            cond = [c for lv, L in zip(per_var, combo) for c in lv[L][0]]
            m, dt = e2.check(p.pc + cond); r.queries += 1; r.solver_s += dt
            if m is None: continue
            kn = [k if isinstance(k, str) else lw.kinds[e2.mval(m, k)] for k, _t in specs]
            r.nontrivial += 1
            toks = [(specs[i][1], kn[i], roles[i]) for i in range(len(specs))]
            want = ref_parse(toks, lvl)
            if want != p.value:
                if any(f.key == 'wrong-ast-grouping' for f in r.findings): break
                src = ' '.join(t if roles[i] in ('atom', 'punct') else SPELL[kn[i]] for i, (t, _k, _r) in enumerate(toks))
                ok_, detail = replay_native(src, want)
                got = show(p.value) if p.value and p.value[0] in ('path', 'call', 'un', 'bin', 'field') else repr(p.value)
                r.findings.append(Finding('wrong-ast-grouping', '`%s` is lowered as %s, the documented grammar gives %s' % (src, got, show(want)), {'source': src, 'got': got, 'want': show(want)}, ok_, detail))
                break
            if len(r.samples) < 3: r.samples.append({'kinds': kn, 'ast': show(p.value)})

def ast_debug_shape(txt):
    """grouping read off the Debug dump of the native ast (driver lower_text with debug=1): crude re-parser of `EUnary { op: Neg, expr: ECall {..` """
    return txt

def replay_native(src, want):
    """native: real lexer + parser + lower on the source text; the Debug rendering of the body is compared with the reference grouping"""
    text = 'fn f() { %s }\n' % src
    try:
        rc, out, errt = build.run_driver('vreplay', json.dumps({'fn': 'lower_expr_shape', 'args': [text]}) + '\n', timeout=60)
        nat = json.loads(out.splitlines()[0])
    except Exception as e:
        return False, 'native replay failed: %s' % str(e)[:200]
    if 'ok' not in nat: return False, json.dumps(nat)[:300]
    got = nat['ok']
    return got != show(want), 'native ast::lower on `%s` gives %s' % (src, got)

def obligations():
    obs = []
    for i, sh in enumerate(SHAPES):
        obs.append(Ob('O11.4-ast-grouping-%02d' % i, 'AST grouping after lowering: ' + sh, ob_ast_grouping, ('quick', 'thorough'), 5, dict(shape=sh)))
    return obs

# ----------------------------------------------------------------------------- O11.7 grouping of function *types*: `->` is right-associative
TYPE_SHAPES = ['A -> B', 'A -> B -> C', '( A -> B ) -> C', 'A -> ( B -> C )', 'A -> B -> C -> D', '( A , B ) -> C -> D', 'A -> ( B , C ) -> D', '( A -> B ) -> C -> D', 'A -> ( B -> C ) -> D']
def ref_type(toks):
    """reference grammar: type := atom ('->' type)? ; atom := Name | '(' type (',' type)* ')' (a tuple type) ; a parenthesised list on the left of an arrow is the parameter list"""
    pos = [0]
    def atom():
        t = toks[pos[0]]
        if t == '(':
            pos[0] += 1; items = [ty()]
            while toks[pos[0]] == ',': pos[0] += 1; items.append(ty())
            assert toks[pos[0]] == ')'; pos[0] += 1
            return ('tuple', tuple(items))      # goml: a parenthesised type is a tuple type, also with one component; left of `->` it is the parameter list
        pos[0] += 1; return ('con', t)
    def ty():
        a = atom()
        if pos[0] < len(toks) and toks[pos[0]] == '->':
            pos[0] += 1; r_ = ty()
            return ('fn', a[1] if a[0] == 'tuple' else (a,), r_)
        return a
    out = ty(); assert pos[0] == len(toks); return out
def show_type(t):
    if t[0] == 'con': return t[1]
    if t[0] == 'tuple': return '(' + ', '.join(show_type(x) for x in t[1]) + ')'
    if t[0] == 'fn': return '((' + ', '.join(show_type(x) for x in t[1]) + ') -> ' + show_type(t[2]) + ')'
    return repr(t)

def ob_type_grouping(r, tier, seed):
    lw = lower_ob.LW(); W = lw.W; tt = W.tt
    ATY = [a for a in tt.by_name['TypeExpr'] if a.crate == 'ast'][0]; FN = [a for a in tt.by_name['Fn'] if a.crate == 'ast'][0]
    r.bounds = 'the parameter type of `fn f(x: T) { }` for T each of the shapes %s (solver decision); real parser, real tree builder, real ast::lower' % TYPE_SHAPES
    r.assumptions = ['oracle: `->` in types is right-associative (`A -> B -> C` takes an A and returns a function), a parenthesised list is a tuple type (also with one component - goml has no grouping parentheses in types) and, left of an arrow, the parameter list',
                     'rowan red tree modelled on the recorder output of the real build_tree (validated by O4.4-lower-selftest)']
    def ident(v):
        while isinstance(v, Agg): v = v.fields[0]
        return ms.pystr(v)
    def render(v):
        v = unbox(v); vn = ATY.variants[v.idx].name; f = dict(zip([x[0] for x in ATY.variants[v.idx].fields], v.fields))
        if vn == 'TCon': return ('con', '::'.join(ident(s_) for s_ in f['path'].fields[0].items))
        if vn == 'TTuple': return ('tuple', tuple(render(x) for x in f['typs'].items))
        if vn == 'TFunc': return ('fn', tuple(render(x) for x in f['params'].items), render(f['ret_ty']))
        return ('other', vn)
    KN = {'(': 'LParen', ')': 'RParen', ',': 'Comma', '->': 'Arrow'}
    def entry(ex):
        sh = ex.choose([(True, s_) for s_ in TYPE_SHAPES]); ex.notes['shape'] = sh
        toks = sh.split()
        specs = [(KN[t], t) if t in KN else ('Ident', t) for t in toks]
        full = [('FnKeyword', 'fn'), ('Ident', 'f'), ('LParen', '('), ('Ident', 'x'), ('Colon', ':')] + specs + [('RParen', ')'), ('LBrace', '{'), ('RBrace', '}')]
        lr, root, pd = lower_ob.run_lower(lw, ex, [k for k, _ in full], [t for _, t in full])
        has, nd, items, ditems = lower_ob.lower_summary(lw, ex, lr)
        if pd.items if hasattr(pd, 'items') else pd.fields[0].items: return sh, ('parse-diagnostics',)
        if not has or nd or items != ['Fn']: return sh, ('lower-diagnostics', nd, items)
        fv = lr.fields[0].fields[0]; it = dict(zip([x[0] for x in lw.AFILE.variants[0].fields], fv.fields))['toplevels'].items[0]
        params = it.fields[0].fields[[x[0] for x in FN.variants[0].fields].index('params')]
        if len(params.items) != 1: return sh, ('params', len(params.items))
        return sh, render(params.items[0].fields[1])
    res = e2.explore(r, W, entry, [])
    for p in res:
        r.cases += 1
        if p.kind != 'ok':
            if not any(f.key == 'type-grouping-panic' for f in r.findings): r.findings.append(Finding('type-grouping-panic', 'parse + lower of the type %s: %s' % ((p.notes or {}).get('shape'), p.value[:200]), {}, False, 'not replayed'))
            continue
        sh, got = p.value; r.nontrivial += 1
        want = ref_type(sh.split())
        if got != want:
            if any(f.key == 'wrong-type-grouping' for f in r.findings): continue
            text = 'fn f(x: %s) { }\n' % sh
            ok_, detail = False, ''
            try:
                rc, out, errt = build.run_driver('vreplay', json.dumps({'fn': 'lower_type_shape', 'args': [text]}) + '\n', timeout=60)
                nat = json.loads(out.splitlines()[0])
                if 'ok' in nat: ok_ = nat['ok'] != show_type(want); detail = 'native ast::lower on `%s` gives the parameter type %s' % (text.strip(), nat['ok'])
                else: detail = json.dumps(nat)[:200]
            except Exception as e_: detail = 'native replay failed: %s' % str(e_)[:160]
            r.findings.append(Finding('wrong-type-grouping', 'the type `%s` is lowered as %s, the grammar gives %s' % (sh, show_type(got) if got and got[0] in ('con', 'tuple', 'fn') else repr(got), show_type(want)), {'type': sh}, ok_, detail))
        elif len(r.samples) < 3: r.samples.append({'type': sh, 'ast': show_type(got)})

_obl_114 = obligations
def obligations():
    return _obl_114() + [Ob('O11.7-type-grouping', 'function types group to the right; parenthesised lists are tuples / parameter lists', ob_type_grouping, ('quick', 'thorough'), 5, {})]

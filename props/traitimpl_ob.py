"""C13 O13.3 - diagnostics of the trait-implementation check do not depend on hash iteration order (typer::toplevel::define_trait_impl)."""
import json, os, subprocess, tempfile, shutil
import z3
from vlib import e2, build
from vlib.core import Ob, Finding
import mirsym as ms
from mirsym.engine import Agg, PyVec, PyMap, PySet, Str, Ref, Opaque, Unsupported, mkstr, some, UNIT

CRATES = ('compiler', 'common_defs', 'diagnostics', 'parser')

def replay_cli(nmethods, runs=30):
    names = ['aa', 'bb', 'cc', 'dd'][:nmethods]
    src = 'struct P { x: int32 }\ntrait T4 {\n%s}\nimpl T4 for P { }\nfn main() -> unit { () }\n' % ''.join('    fn %s(Self) -> int32;\n' % n for n in names)
    d = tempfile.mkdtemp(prefix='vf-c13-')
    try:
        open(os.path.join(d, 'main.gom'), 'w').write(src)
        outs = set()
        for _ in range(runs):
            p = subprocess.run([build.compiler_bin(), 'run', '--dump-go', os.path.join(d, 'main.gom')], capture_output=True, text=True, timeout=60)
            outs.add(p.stdout + p.stderr)
    finally: shutil.rmtree(d, ignore_errors=True)
    return len(outs) > 1, '%d runs of the real CLI on a trait with %d methods and an empty impl print %d different diagnostic lists' % (runs, nmethods, len(outs))

def ob_trait_impl_diag_order(r, tier, seed, nmethods):
    W = e2.fresh_world(CRATES); W.hash_order = 'symbolic'; tt = W.tt
    TY = tt.find_adt(['tast', 'Ty'], 'compiler'); DI = tt.find_adt(['diagnostics', 'Diagnostics'], 'diagnostics')
    PTE = tt.find_adt(['env', 'PackageTypeEnv'], 'compiler'); GTE = tt.find_adt(['env', 'GlobalTypeEnv'], 'compiler'); TE = tt.find_adt(['env', 'TraitEnv'], 'compiler'); TD = tt.find_adt(['env', 'TraitDef'], 'compiler')
    IB = [a for a in tt.by_name['ImplBlock'] if a.crate == 'compiler' and 'hir' in '::'.join(a.path)][0]
    names = ['aa', 'bb', 'cc', 'dd'][:nmethods]
    r.bounds = 'a trait with the %d methods %s and an implementation block that defines none of them; iteration order of every std HashSet/HashMap is a symbolic permutation' % (nmethods, names)
    r.assumptions = ['Ty::from_hir, validate_ty, resolve_trait_name replaced by stubs returning the struct type P / nothing / the local trait T4 (type expression resolution is not part of this obligation)',
                     'oracle: the list of diagnostic messages is the same on every feasible execution']
    cur = {}
    def field(adt, v, name): return v.fields[[f[0] for f in adt.variants[0].fields].index(name)]
    W.stubs['validate_ty'] = lambda ex, a: UNIT
    W.stubs['resolve_trait_name'] = lambda ex, a: some(Agg('tuple', 0, [mkstr('T4'), Ref(cur, 'genv')]))
    W.stubs['is_local_name'] = lambda ex, a: True
    W.stubs['is_local_nominal_type'] = lambda ex, a: True
    for nm in list(W.methods.get('from_hir', [])):
        if nm[2] is not None and nm[2].self_key == 'Ty': W.stubs[nm[1]] = lambda ex, a: Agg(TY.key, TY.vindex('TStruct'), [mkstr('P')])
    def entry(ex):
        genv = ex.call('env::GlobalTypeEnv::new_empty', [])
        tenv = field(GTE, genv, 'trait_env'); defs = field(TE, tenv, 'trait_defs')
        meths = PyMap('index'); meths.keys = [mkstr(n) for n in names]; meths.vals = [Opaque('scheme') for _ in names]
        defs.keys.append(mkstr('T4')); defs.vals.append(Agg(TD.key, 0, [meths]))
        cur['genv'] = genv
        penv = Agg(PTE.key, 0, [{'package': mkstr('Main'), 'current': genv, 'deps': PyMap('hash')}[f[0]] for f in PTE.variants[0].fields])
        ib = Agg(IB.key, 0, [{'attrs': PyVec([]), 'generics': PyVec([]), 'trait_name': some(Opaque('ident')), 'for_type': Opaque('typeexpr'), 'methods': PyVec([])}[f[0]] for f in IB.variants[0].fields])
        h = {0: penv, 1: Agg(DI.key, 0, [PyVec([])]), 2: ib, 3: Opaque('ident', name='T4'), 4: Opaque('hir_table')}
        ex.call('typer::toplevel::define_trait_impl', [Ref(h, 0), Ref(h, 1), Ref(h, 2), Ref(h, 3), Ref(h, 4)])
        DG = tt.find_adt(['diagnostics', 'Diagnostic'], 'diagnostics')
        return tuple(ms.pystr(field(DG, d, 'message')) for d in h[1].fields[0].items)
    def ov(f, g):
        if g.endswith('HirIdent::to_ident_name'):
            def m_ident_name(ex, f_, a): return mkstr('T4')
            return m_ident_name
        return None
    W.overrides = [ov]
    for nm in list(W.methods.get('to_ident_name', [])): W.stubs[nm[1]] = lambda ex, a: mkstr('T4')
    res = e2.explore(r, W, entry, [])
    outs = set()
    for p in res:
        r.cases += 1
        if p.kind != 'ok': raise Unsupported('define_trait_impl panicked: %s' % p.value)
        outs.add(p.value)
    r.nontrivial = len(res)
    if len(outs) > 1:
        ok_, detail = replay_cli(nmethods)
        ex2 = sorted(outs)[:2]
        r.findings.append(Finding('diagnostic-order-depends-on-hash-iteration', 'the "missing method" diagnostics of a trait implementation come out in HashSet iteration order: %d different orders, e.g. %s vs %s' % (len(outs), [m.rsplit(' ', 1)[1] for m in ex2[0]], [m.rsplit(' ', 1)[1] for m in ex2[1]]), {'orders': [list(o) for o in sorted(outs)][:4]}, ok_, detail))
    else: r.samples.append({'diagnostics': list(next(iter(outs))) if outs else []})

def obligations():
    return [Ob('O13.3-trait-impl-diagnostics-3', 'diagnostics of define_trait_impl independent of hash iteration order (3 missing methods)', ob_trait_impl_diag_order, ('quick', 'thorough'), 3, dict(nmethods=3)),
            Ob('O13.3-trait-impl-diagnostics-4', 'same, 4 missing methods', ob_trait_impl_diag_order, ('thorough',), 10, dict(nmethods=4))]

# ----------------------------------------------------------------------------- O16.7 orphan rule: an impl is accepted only if the trait or the (nominal) type is local
def ob_orphan_rule(r, tier, seed):
    W = e2.fresh_world(CRATES); tt = W.tt
    TY = tt.find_adt(['tast', 'Ty'], 'compiler'); DI = tt.find_adt(['diagnostics', 'Diagnostics'], 'diagnostics'); DG = tt.find_adt(['diagnostics', 'Diagnostic'], 'diagnostics')
    PTE = tt.find_adt(['env', 'PackageTypeEnv'], 'compiler'); GTE = tt.find_adt(['env', 'GlobalTypeEnv'], 'compiler'); TE = tt.find_adt(['env', 'TraitEnv'], 'compiler'); TD = tt.find_adt(['env', 'TraitDef'], 'compiler')
    IB = [a for a in tt.by_name['ImplBlock'] if a.crate == 'compiler' and 'hir' in '::'.join(a.path)][0]
    traits = ['Show', 'Lib::Show', 'Other::Show']; pkgs = ['Main', 'Lib']
    types = {'int32': lambda: Agg(TY.key, TY.vindex('TInt32'), []), 'tuple': lambda: Agg(TY.key, TY.vindex('TTuple'), [PyVec([Agg(TY.key, TY.vindex('TInt32'), [])])]),
             'Ref[P]': lambda: Agg(TY.key, TY.vindex('TRef'), [ms.mkbox(Agg(TY.key, TY.vindex('TStruct'), [mkstr('P')]))]), 'Vec[int32]': lambda: Agg(TY.key, TY.vindex('TVec'), [ms.mkbox(Agg(TY.key, TY.vindex('TInt32'), []))]),
             'P': lambda: Agg(TY.key, TY.vindex('TStruct'), [mkstr('P')]), 'Lib::P': lambda: Agg(TY.key, TY.vindex('TStruct'), [mkstr('Lib::P')]), 'Other::P': lambda: Agg(TY.key, TY.vindex('TStruct'), [mkstr('Other::P')])}
    r.bounds = 'current package in %s; impl of trait %s for a type in %s (empty impl block, trait without methods)' % (pkgs, traits, sorted(types))
    r.assumptions = ['Ty::from_hir, validate_ty, resolve_trait_name replaced by stubs returning the chosen type / nothing / the chosen trait name; is_local_name and is_local_nominal_type run for real',
                     'oracle (coherence): after an accepted impl a second impl block for the same trait and type must be answered with a diagnostic', 'oracle (orphan rule): the impl is rejected with an orphan-rule diagnostic iff the trait is not local AND the type is not a local nominal type; builtin and structural types (int32, tuples, Ref, Vec) are never local']
    cur = {}
    W.stubs['validate_ty'] = lambda ex, a: UNIT
    W.stubs['resolve_trait_name'] = lambda ex, a: some(Agg('tuple', 0, [mkstr(cur['trait']), Ref(cur, 'genv')]))
    for nm in list(W.methods.get('from_hir', [])):
        if nm[2] is not None and nm[2].self_key == 'Ty': W.stubs[nm[1]] = lambda ex, a: types[cur['type']]()
    for nm in list(W.methods.get('to_ident_name', [])): W.stubs[nm[1]] = lambda ex, a: mkstr(cur['trait'])
    def field(adt, v, name): return v.fields[[f[0] for f in adt.variants[0].fields].index(name)]
    def entry(ex):
        pk = ex.choose([(True, p_) for p_ in pkgs]); cur['trait'] = ex.choose([(True, t) for t in traits]); cur['type'] = ex.choose([(True, t) for t in sorted(types)])
        genv = ex.call('env::GlobalTypeEnv::new_empty', [])
        defs = field(TE, field(GTE, genv, 'trait_env'), 'trait_defs')
        defs.keys.append(mkstr(cur['trait'])); defs.vals.append(Agg(TD.key, 0, [PyMap('index')]))
        cur['genv'] = genv
        penv = Agg(PTE.key, 0, [{'package': mkstr(pk), 'current': genv, 'deps': PyMap('hash')}[f[0]] for f in PTE.variants[0].fields])
        ib = Agg(IB.key, 0, [{'attrs': PyVec([]), 'generics': PyVec([]), 'trait_name': some(Opaque('ident')), 'for_type': Opaque('typeexpr'), 'methods': PyVec([])}[f[0]] for f in IB.variants[0].fields])
        h = {0: penv, 1: Agg(DI.key, 0, [PyVec([])]), 2: ib, 3: Opaque('ident'), 4: Opaque('hir_table')}
        ex.call('typer::toplevel::define_trait_impl', [Ref(h, 0), Ref(h, 1), Ref(h, 2), Ref(h, 3), Ref(h, 4)])
        msgs = [ms.pystr(field(DG, d, 'message')) for d in h[1].fields[0].items]
        # a second implementation block of the same trait for the same type (e.g. in another file of the package): coherence demands a diagnostic
        ib2 = Agg(IB.key, 0, [{'attrs': PyVec([]), 'generics': PyVec([]), 'trait_name': some(Opaque('ident')), 'for_type': Opaque('typeexpr'), 'methods': PyVec([])}[f[0]] for f in IB.variants[0].fields])
        h[5] = ib2; h[6] = Agg(DI.key, 0, [PyVec([])])
        ex.call('typer::toplevel::define_trait_impl', [Ref(h, 0), Ref(h, 6), Ref(h, 5), Ref(h, 3), Ref(h, 4)])
        ex.notes['second'] = [ms.pystr(field(DG, d, 'message')) for d in h[6].fields[0].items]
        return pk, cur['trait'], cur['type'], msgs
    res = e2.explore(r, W, entry, [])
    def local_name(pk, n): return (n.split('::')[0] == pk) if '::' in n else pk in ('Main', 'Builtin')
    for p in res:
        r.cases += 1
        if p.kind != 'ok': raise Unsupported('define_trait_impl panicked: %s' % p.value)
        pk, tr, ty, msgs = p.value
        type_local = ty in ('P', 'Lib::P', 'Other::P') and local_name(pk, ty)
        want_orphan = (not local_name(pk, tr)) and (not type_local)
        got_orphan = any('orphan' in m for m in msgs)
        r.nontrivial += 1
        if want_orphan != got_orphan and not r.findings:
            r.findings.append(Finding('orphan-impl-accepted' if want_orphan else 'local-impl-rejected', 'package %s: `impl %s for %s` is %s; the orphan rule says it must be %s' % (pk, tr, ty, 'rejected as orphan' if got_orphan else 'accepted', 'rejected' if want_orphan else 'accepted'), {'package': pk, 'trait': tr, 'type': ty}, True,
                                      'diagnostics pushed by the real define_trait_impl MIR (with the real is_local_name / is_local_nominal_type): %s' % msgs[:2]))
        second = (p.notes or {}).get('second', [])
        if not got_orphan and not want_orphan and not second and not any(f.key == 'duplicate-impl-accepted' for f in r.findings):
            r.findings.append(Finding('duplicate-impl-accepted', 'package %s: a second `impl %s for %s` is accepted without a diagnostic - two implementations for one (trait, type) pair' % (pk, tr, ty), {'package': pk, 'trait': tr, 'type': ty}, True,
                                      'the real define_trait_impl MIR, called twice for the same trait and type, pushes no diagnostic the second time'))
    r.samples = []

def obligations_c16():
    return [Ob('O16.7-orphan-rule', 'define_trait_impl rejects exactly the impls whose trait and type are both foreign', ob_orphan_rule, ('quick', 'thorough'), 3, {})]

"""O13.9 (registered under C13): the decision tree built by the match compiler does not depend on the iteration order of a hash container.
Same exploration as C06 (real make_rows / compile_rows MIR) with the iteration order of every std HashMap / HashSet chosen by the solver;
two paths that built the same matrix must return the same tree."""
import os, re, subprocess, tempfile, shutil
from vlib import e2, build
from vlib.core import Ob, Finding
from props import c06

def replay_cli(descs, ncols, runs=24):
    """real CLI in fresh processes: --dump-core of a function matching a tuple of strings with the witness rows (+ a final catch-all)"""
    def pat(d): return d.replace('lit(', '').replace(')', '') if d.startswith('lit(') else '_'
    rows_ = []
    for k, d in enumerate(descs):
        cols = [x.strip() for x in d.strip('()').split(',')] if d.startswith('(') else ['_'] * ncols
        cols = [re.sub(r'lit\(("[^"]*")\)?', r'\1', x + (')' if x.startswith('lit(') and not x.endswith(')') else '')) for x in cols]
        rows_.append('    (%s) => %d,' % (', '.join(c_ if c_.startswith('"') else '_' for c_ in cols), 100 + k))
    params = ', '.join('a%d: string' % i for i in range(ncols)); tup = ', '.join('a%d' % i for i in range(ncols))
    src = 'fn f(%s) -> int32 {\n  match (%s) {\n%s\n    _ => 0,\n  }\n}\nfn main() -> unit { string_println(int32_to_string(f(%s))) }\n' % (params, tup, '\n'.join(rows_), ', '.join('"a"' for _ in range(ncols)))
    d = tempfile.mkdtemp(prefix='vf-c13m-'); outs = {}
    try:
        path = os.path.join(d, 'main.gom'); open(path, 'w').write(src)
        for _ in range(runs):
            p = subprocess.run([build.compiler_bin(), 'run', '--dump-core', path], capture_output=True, text=True, timeout=60)
            if '== Core' not in p.stdout and 'match' not in p.stdout: return False, 'the replay program does not compile: %s' % (p.stderr or p.stdout)[:200]
            outs[p.stdout] = outs.get(p.stdout, 0) + 1
    finally: shutil.rmtree(d, ignore_errors=True)
    return len(outs) > 1, 'goml `%s`: %d fresh processes print %d different Core dumps %s' % (src.replace('\n', ' | '), runs, len(outs), sorted(outs.values()))

def ob_match_order(r, tier, seed, sty, rows, depth):
    res = c06.ob_match(r, tier, seed, sty=sty, rows=rows, depth=depth, flat=True, hash_symbolic=True)
    r.bounds = 'every matrix of %d flat rows over a tuple of %d strings (each pattern a wildcard or one of the literals "a" "b" "c"); the iteration order of every std HashMap / HashSet the match compiler iterates is a solver-chosen permutation' % (rows, len(sty[1]))
    r.assumptions = ['oracle: two executions of make_rows + compile_rows on the same matrix return structurally equal trees (and the same number of diagnostics), whatever the iteration order',
                     'gensym names are deterministic given the order of requests, so they are compared as they are']
    by = {}
    for p in res:
        r.cases += 1
        if p.kind != 'ok':
            if not any(f.key == 'panic' for f in r.findings): r.findings.append(Finding('panic', 'match compiler panics under some iteration order: %s' % p.value, {}, True, 'real compile_rows MIR'))
            continue
        tree, ndiag, descs = p.value
        by.setdefault(tuple(descs), set()).add((tree, ndiag))
    r.nontrivial = len(by)
    bad = [(k, v) for k, v in by.items() if len(v) > 1]
    if bad:
        # prefer a witness the CLI can show: rows made of literals only
        bad.sort(key=lambda kv: (sum(x.count('_') for x in kv[0]), len(kv[0])))
        ok_, detail = False, ''
        for k, v in bad[:6]:
            try: ok_, detail = replay_cli(list(k), len(sty[1]))
            except Exception as e: ok_, detail = False, 'replay failed: %s' % str(e)[:200]
            if ok_: break
        k, v = bad[0] if not ok_ else (k, v)
        r.findings.append(Finding('decision-tree-depends-on-hash-order', 'rows %s: %d different decision trees depending on the iteration order of a hash container (%d of %d matrices affected)' % (list(k), len(v), len(bad), len(by)), {'rows': list(k)}, ok_, detail))
    else:
        r.samples = [{'rows': list(k)} for k in list(by)[:3]]

def obligations_c13():
    SS = ('t', ['s', 's'])
    return [Ob('O13.9-match-tree-order-2', 'the decision tree is independent of hash iteration order: (string, string), 2 rows', ob_match_order, ('quick', 'thorough'), 5, dict(sty=SS, rows=2, depth=1)),
            Ob('O13.9-match-tree-order-3', 'same: 3 rows', ob_match_order, ('thorough',), 60, dict(sty=SS, rows=3, depth=1)),
            Ob('O13.9-match-tree-order-sss', 'same: (string, string, string), 2 rows', ob_match_order, ('thorough',), 60, dict(sty=('t', ['s', 's', 's']), rows=2, depth=1))]

"""C16 - package isolation and coherence: claimed for the package graph functions (E2)."""
from vlib.core import Ob
from props import pkg_ob
def obligations():
    return [Ob('O16.2-topo-2', 'topo_sort_packages: Err <=> cycle or missing package; Ok => complete topological order (Main + 2)', pkg_ob.ob_topo, ('quick', 'thorough'), 5, dict(pkgs=['A', 'B'], self_imports=False)),
            Ob('O16.2-topo-self', 'topo_sort_packages with self-imports and a missing package named Builtin (Main + A)', pkg_ob.ob_topo, ('quick', 'thorough'), 3, dict(pkgs=['A'], extra=('Builtin', 'Zmissing'), self_imports=True)),
            Ob('O16.2-topo-2-self', 'topo_sort_packages with self-imports (Main + 2)', pkg_ob.ob_topo, ('thorough',), 100, dict(pkgs=['A', 'B'], self_imports=True)),
            Ob('O16.2-topo-3', 'topo_sort_packages on Main + 3 packages (hash containers in insertion order: independence of the iteration order is decided on Main + 2, all permutations of Main + 3 exceed the path limit)', pkg_ob.ob_topo, ('thorough',), 50, dict(pkgs=['A', 'B', 'C'], self_imports=False, hash_order='insertion'))] + __import__('props.resolve_ob', fromlist=['x']).obligations_c16() + __import__('props.traitimpl_ob', fromlist=['x']).obligations_c16()
META = {
    'level': 'other',
    'explanation': 'Bounded solver-checked obligation over the real topo_sort_packages / visit_package (MIR of the current tree, recursion, HashSet temp/perm marks, HashMap lookups, sorting): every import graph over the stated packages (each import bit a solver variable, a missing import target allowed) and every hash iteration order; Err must be returned iff a cycle or a missing package is reachable (reference DFS oracle), every Ok order must be a complete topological order.',
    'assumptions': ['compile_error message formatting stubbed', 'O16.3 / O16.4 add the visibility predicate of name resolution (package_allowed) and the locality predicate of the orphan rule (is_local_nominal_type) as kernels; O16.5 / O16.6: load_package and discover_packages_with_layout accept a directory / project iff the declared package names agree (file system and parsing stubbed); outside: duplicate impl detection, whole-program placement of impls'],
    'trusted_base': ['mirsym MIR interpreter', 'hash container models', 'z3', 'reference DFS (oracle)'],
}

# ----------------------------------------------------------------------------- O16.8 a dependency that is not on the link line is an error on the separate-compilation path as well
def ob_link_missing_package(r, tier, seed, **kw):
    """the C15 O15.3 exploration of pipeline::separate::link_cores (symbolic sets of cores, dependency maps that may name a package without a core);
    under C16 the findings whose witness has a dependency on a package that is not provided count: `missing packages are reported as errors`"""
    from props import c15
    c15.ob_link_gate(r, tier, seed, **kw)
    keep = []
    for f in r.findings:
        w = f.witness or {}; prov = set((w.get('provided') or {}).keys())
        if f.key == 'panic' or any(d not in prov for ds in (w.get('provided') or {}).values() for d in ds): keep.append(f)
    r.findings = keep
_c16_obl8 = obligations
def obligations():
    return _c16_obl8() + [Ob('O16.8-link-missing-package', 'link_cores rejects a set of cores in which a package depends on a package that is not provided', ob_link_missing_package, ('quick', 'thorough'), 2, dict(pkgs=['Main', 'A']))]

"""E1 obligations: Kani/CBMC proof harnesses (/verif/harness/*.rs) over the real crates, exposed as vlib.core.Ob lists.

    c04_obligations()  O4.1 parser fuel, O4.3 multi-line scanner never panics
    c10_obligations()  O10.1 integer literal acceptance/value, O10.2 literal printing, O10.3 scalar type mapping, O10.5 float range test
    c11_obligations()  O11.1 binding-power tables, O11.5 multi-line string token text
    c12_obligations()  O12.1/O12.2 multi-line scanner safety + grammar agreement, O12.3 token-kind/syntax-kind mapping
    c15_obligations()  O15.1 CoreUnit::validate conjunction, O15.2 validate_hash and constructors

Harnesses are grouped per (crate, property): all obligations of one group share ONE `cargo kani` invocation per ./check run
(one build, `-j` parallel CBMC runs); the group result is handed to the other obligations of the same run through a small
result file keyed by run + tree hash + harness hashes + tier (never across different trees).  VERIF_KANI_NOCACHE=1 disables it.
"""
import os, re, json, time, hashlib
from vlib import kani, build
from vlib.core import Ob, Finding

H = kani.HARNESS_DIR
ENGINE = kani.ENGINE
def _h(name): return os.path.join(H, name)

INT_TYPES = [('i8', 'int8', 3), ('i16', 'int16', 5), ('i32', 'int32', 10), ('i64', 'int64', 19),
             ('u8', 'uint8', 3), ('u16', 'uint16', 5), ('u32', 'uint32', 10), ('u64', 'uint64', 20)]       # (suffix, goml name, decimal digits of MAX)

def _lit(t, ns): return ['lit_%s_d%02d' % (t, n) for n in ns]
def _all_lit(t):
    d = dict((a, c) for a, _, c in INT_TYPES)[t]
    return _lit(t, range(1, d + 2))
def _quick_lit(t):
    d = dict((a, c) for a, _, c in INT_TYPES)[t]
    if d == 3: return _lit(t, range(1, d + 2))                    # 8-bit: every length 1..D+1
    if d == 5: return _lit(t, (1, d, d + 1))                      # 16-bit: shortest and the two lengths that reach the maximum
    return _lit(t, (d, d + 1))                                    # 32/64-bit: the two lengths that reach the maximum
NEG = ['neg_%s_d%02d' % (t, n) for t, _, d in INT_TYPES if t.startswith('u') for n in (1, d)]
NEG_QUICK = ['neg_%s_d01' % t for t, _, d in INT_TYPES if t.startswith('u')]

GOLIT_FULL = ['golit_i8', 'golit_u8', 'golit_i16', 'golit_u16']
GOLIT_EDGES = ['golit_i32_edges', 'golit_i64_edges', 'golit_u32_edges', 'golit_u64_edges']
def _golit_bounded(b): return ['golit_%s_%s' % (t, b) for t in ('i32', 'i64', 'u32', 'u64')]

# ------------------------------------------------------------------------------------------------------------------ groups
GROUPS = {
    'lexer-mls': dict(crate='lexer', inject={'crates/lexer/src/lib.rs': _h('lexer_mls.rs')}, extra=[], mem_gb=8,
                      harnesses={'quick': ['mls_len%02d' % i for i in range(7, -1, -1)], 'thorough': ['mls_len%02d' % i for i in range(10, -1, -1)]},
                      jobs={'quick': 6, 'thorough': 11}, timeout={'quick': 300, 'thorough': 1200}),
    'parser-bp': dict(crate='parser', inject={'crates/parser/src/expr.rs': _h('parser_bp.rs')}, extra=[], mem_gb=8,
                      harnesses={'quick': ['bp_domains', 'bp_binary_pairs', 'bp_prefix_postfix'], 'thorough': ['bp_domains', 'bp_binary_pairs', 'bp_prefix_postfix']},
                      jobs={'quick': 3, 'thorough': 3}, timeout={'quick': 300, 'thorough': 300}),
    'parser-kinds': dict(crate='parser', inject={'crates/parser/src/syntax.rs': _h('parser_kinds.rs')}, extra=[], mem_gb=8,
                         harnesses={'quick': ['kind_mapping', 'kind_raw_roundtrip'], 'thorough': ['kind_mapping', 'kind_raw_roundtrip']},
                         jobs={'quick': 2, 'thorough': 2}, timeout={'quick': 300, 'thorough': 300}),
    'parser-fuel': dict(crate='parser', inject={'crates/parser/src/parser.rs': _h('parser_fuel.rs')}, extra=[], mem_gb=12,
                        harnesses={'quick': ['fuel_init', 'fuel_step_live', 'fuel_step_dead', 'fuel_advance'], 'thorough': ['fuel_init', 'fuel_step_live', 'fuel_step_dead', 'fuel_advance']},
                        jobs={'quick': 4, 'thorough': 4}, timeout={'quick': 600, 'thorough': 1200}),
    'compiler-c10': dict(crate='compiler', extra=['-Z', 'stubbing'], mem_gb=10,
                         inject={'crates/compiler/src/typer/check.rs': _h('compiler_check.rs'), 'crates/compiler/src/go/compile.rs': _h('compiler_golit.rs')},
                         # longest first (Kani's thread pool takes the harnesses in this order)
                         harnesses={'quick': _quick_lit('i64') + _quick_lit('u64') + ['golit_i64_edges'] + _quick_lit('i32') + _quick_lit('u32') + GOLIT_EDGES[0:1] + GOLIT_EDGES[2:]
                                             + _golit_bounded('b5') + GOLIT_FULL + _quick_lit('i16') + _quick_lit('u16') + _quick_lit('i8') + _quick_lit('u8')
                                             + ['golit_float_bool_unit', 'float_fits'] + NEG_QUICK + ['go_type_scalars'],
                                    'thorough': list(reversed(_all_lit('i64'))) + list(reversed(_all_lit('u64'))) + _golit_bounded('b7') + GOLIT_EDGES
                                                + list(reversed(_all_lit('i32'))) + list(reversed(_all_lit('u32'))) + GOLIT_FULL + _all_lit('i16') + _all_lit('u16')
                                                + _all_lit('i8') + _all_lit('u8') + ['golit_float_bool_unit', 'float_fits'] + NEG + ['go_type_scalars']},
                         jobs={'quick': 14, 'thorough': 14}, timeout={'quick': 600, 'thorough': 1500}),
    'compiler-c15': dict(crate='compiler', extra=['-Z', 'stubbing'], mem_gb=14,
                         inject={'crates/compiler/src/artifact.rs': _h('compiler_artifact.rs')},
                         harnesses={'quick': ['validate_fixed_maps', 'iface_validate_hash', 'iface_new', 'core_new_nodeps'],
                                    'thorough': ['validate_fixed_maps', 'iface_validate_hash', 'iface_new', 'core_new_nodeps']},
                         jobs={'quick': 4, 'thorough': 4}, timeout={'quick': 600, 'thorough': 1500}),
}

STUB_FORMAT = 'stub alloc::fmt::format -> empty String (only builds the text of diagnostics; no text is asserted)'
STUB_RS = 'stub std::hash::RandomState::new -> fixed keys (constructors create empty hash maps; nothing is inserted or looked up)'
STUB_HASH = 'stub InterfaceUnit::compute_hash -> constant "H" (serde_json+SHA-256+hex are out of CBMC\'s reach; field coverage of the hash is O15.4, engine E2)'

# ------------------------------------------------------------------------------------------------------------------ shared group run
def _run_id():
    """one id per ./check run: the pid (+ start time) of the root python process (pool workers are forked from it)"""
    import multiprocessing as mp
    pp = mp.parent_process()
    root = pp.pid if pp is not None else os.getpid()
    try: start = open('/proc/%d/stat' % root).read().rsplit(')', 1)[1].split()[19]
    except Exception: start = '0'
    return '%d-%s' % (root, start)

def _group_key(group, tier):
    g = GROUPS[group]
    h = hashlib.sha256()
    h.update(json.dumps([group, tier, g['crate'], sorted(g['inject'].items()), g['harnesses'][tier], g['extra'], g['mem_gb'], g['jobs'][tier], g['timeout'][tier],
                         kani.versions(), build.REPO, build.tree_hash()]).encode())
    for hp in sorted(g['inject'].values()):
        with open(hp, 'rb') as fh: h.update(fh.read())
    return h.hexdigest()[:24]

def group_run(group, tier):
    """results of every harness of `group` at `tier` for the current tree; computed once per ./check run"""
    g = GROUPS[group]
    cdir = os.path.join(build.CACHE, 'kani-results'); os.makedirs(cdir, exist_ok=True)
    path = os.path.join(cdir, '%s-%s-%s.json' % (group, tier, _run_id()))
    nocache = os.environ.get('VERIF_KANI_NOCACHE') == '1'
    with build.Lock('kani-group-' + group):
        key = _group_key(group, tier)
        if not nocache and os.path.exists(path) and time.time() - os.path.getmtime(path) < 3600:
            try:
                d = json.load(open(path))
                if d.get('key') == key: return d['results'], True
            except Exception: pass
        res = kani.run_harnesses(g['crate'], g['inject'], g['harnesses'][tier], extra_args=g['extra'], timeout_s=g['timeout'][tier], mem_gb=g['mem_gb'],
                                 jobs=g['jobs'][tier], log_tag='%s-%s' % (group, tier))
        for f in os.listdir(cdir):                                   # keep the directory small
            fp = os.path.join(cdir, f)
            if time.time() - os.path.getmtime(fp) > 6 * 3600: os.remove(fp)
        json.dump({'key': key, 'results': res}, open(path, 'w'), default=str)
        return res, False

# ------------------------------------------------------------------------------------------------------------------ witness decoding
def _vals(rep): return rep.get('concrete_values') or []

def _decode(h, rep):
    """turn Kani's concrete byte vectors (one per kani::any(), in call order) into the harness' input"""
    v = _vals(rep)
    try:
        m = re.match(r'(lit|neg)_([iu]\d+)_d(\d+)$', h)
        if m:
            n = int(m.group(3)); digits = ''.join(chr(x[0]) for x in v[-n:])            # the digits are the last n one-byte values (no other kani::any in the harness)
            return {'type': dict((a, b) for a, b, _ in INT_TYPES)[m.group(2)], 'literal': ('-' if m.group(1) == 'neg' else '') + digits}
        m = re.match(r'mls_len(\d+)$', h)
        if m:
            raw = bytes(x[0] for x in v[:int(m.group(1))])
            return {'source': '\\\\' + raw.decode('utf-8', 'replace'), 'remainder_bytes': list(raw)}
        m = re.match(r'golit_([iu])(\d+)', h)
        if m and v:
            if h.endswith('_edges'): return {'table_index': int.from_bytes(bytes(v[0]), 'little')}
            return {'type': ('int' if m.group(1) == 'i' else 'uint') + m.group(2), 'value': int.from_bytes(bytes(v[0]), 'little', signed=m.group(1) == 'i')}
        if h == 'float_fits' and len(v) >= 2:
            import struct
            bits = int.from_bytes(bytes(v[0]), 'little')
            return {'f64_bits': hex(bits), 'value': repr(struct.unpack('<d', bytes(v[0]))[0]), 'target': ['float32', 'float64', 'int32'][v[1][0] % 3]}
    except Exception as e:
        return {'raw': v, 'decode_error': str(e)}
    return {'raw': v}

def _role(h):
    """finding key prefix: the harness family (stable across counterexamples and input lengths)"""
    return re.sub(r'(_d\d+|_len\d+|_b\d+|_edges)$', '', h)

# ------------------------------------------------------------------------------------------------------------------ source-table guards
def _guard_sources(r, which):
    """enum-indexed obligations take their lists from the current source: a drift is an inconclusive run, never a silent skip"""
    def read(rel): return open(os.path.join(build.REPO, rel)).read()
    if which == 'c10':
        src = read('crates/compiler/src/typer/check.rs')
        m = re.search(r'fn parse_integer_literal_with_ty\(.*?\n    \}\n', src, re.S)
        arms = sorted(set(re.findall(r'tast::Ty::(T\w+) =>', m.group(0)))) if m else []
        want = sorted(['TInt8', 'TInt16', 'TInt32', 'TInt64', 'TUint8', 'TUint16', 'TUint32', 'TUint64'])
        if arms != want: raise Exception('integer types handled by parse_integer_literal_with_ty changed: %s (harnesses cover %s)' % (arms, want))
        prim = re.search(r'pub enum Prim \{(.*?)\n\}', read('crates/compiler/src/common.rs'), re.S)
        variants = re.findall(r'^\s*(\w+) \{', prim.group(1), re.M) if prim else []
        wantp = ['Unit', 'Bool', 'Int8', 'Int16', 'Int32', 'Int64', 'UInt8', 'UInt16', 'UInt32', 'UInt64', 'Float32', 'Float64', 'String']
        if variants != wantp: raise Exception('Prim variants changed: %s (harnesses cover %s)' % (variants, wantp))
        r.notes.append('source tables checked: 8 integer arms of parse_integer_literal_with_ty, 13 Prim variants')

# ------------------------------------------------------------------------------------------------------------------ obligation body
def run_ob(r, tier, seed, group, harnesses, functions, bounds, assumptions=(), guard=None, outside=''):
    """generic E1 obligation: a subset of a group's harnesses"""
    r.engine = ENGINE
    r.functions = list(functions)
    hs = harnesses[tier] if isinstance(harnesses, dict) else list(harnesses)
    r.bounds = (bounds[tier] if isinstance(bounds, dict) else bounds) + (' | outside: ' + outside if outside else '')
    if guard: _guard_sources(r, guard)
    results, shared = group_run(group, tier)
    missing = [h for h in hs if h not in results]
    if missing: raise Exception('harnesses not part of group %s at tier %s: %s' % (group, tier, missing))
    meta = next(iter(results.values()))['meta']
    r.assumptions = list(assumptions) + ['Kani stub applied: ' + s for s in meta.get('stubs', [])] + \
        ['CBMC bounded model checking: loops unwound to the #[kani::unwind] bound of each harness with unwinding assertions on (a too small bound fails the run)',
         'Kani/CBMC model of Rust semantics, allocator and std (trusted)']
    r.models = list(meta.get('stubs', []))
    r.notes.append('group %s: %d harnesses in one cargo kani run (-j %d), build %.0fs, verify %.0fs%s' % (
        group, len(results), meta.get('jobs', 0), meta.get('build_s', 0), meta.get('verify_s', 0), ' [result shared with another obligation of this run]' if shared else ''))
    covers = {}
    for hp in GROUPS[group]['inject'].values(): covers[os.path.basename(hp)] = kani.cover_messages(hp)
    inconclusive = []; order = sorted(hs); later_same = []
    if seed: order = order[seed % len(order):] + order[:seed % len(order)]
    for h in order:
        x = results[h]
        r.cases += x['checks']; r.paths += x['checks']; r.nontrivial += x['cover']['satisfied']; r.queries += 1; r.solver_s += x['time_s']
        if x['status'] == 'success':
            if len(r.samples) < 6:
                r.samples.append({'harness': x.get('full_name', h), 'status': 'success', 'cbmc_checks': x['checks'], 'covers_satisfied': '%d/%d' % (x['cover']['satisfied'], x['cover']['total']), 'cbmc_time_s': round(x['time_s'], 1)})
        elif x['status'] == 'failure':
            rep = x.get('replay', {})
            check = (x['failed_checks'] or ['?'])[0]
            msg = re.sub(r' @ .*$', '', check).strip('"')
            wit = {'harness': x.get('full_name', h), 'failed_checks': x['failed_checks'][:4], 'input': _decode(h, rep), 'playback_test': rep.get('test')}
            replayed = bool(rep.get('replayed')) and rep.get('same_check', True) is not False
            key = '%s/%s' % (_role(h), msg)
            if rep.get('same_as'):                   # same failed check as a harness that was replayed: one finding per role, the others are listed in it
                first = [f for f in r.findings if f.key == key]
                if first: first[0].witness.setdefault('also_failed', []).append(h); continue
                later_same.append((key, h))
            r.findings.append(Finding('%s/%s' % (_role(h), msg), '%s: %s; counterexample input %s' % (h, check, json.dumps(wit['input'])[:300]), wit, replayed,
                                      replay_detail=rep.get('detail', 'no playback')))
        else:
            inconclusive.append('%s: %s' % (h, x['detail']))
    for key, h in later_same:                    # (the replayed twin came later in the order) fold the unreplayed duplicate into it
        twins = [f for f in r.findings if f.key == key and f.replayed]
        dup = [f for f in r.findings if f.key == key and not f.replayed and f.witness.get('harness', '').endswith(h)]
        if twins and dup:
            twins[0].witness.setdefault('also_failed', []).append(h); r.findings.remove(dup[0])
    cov_list = [m for ms in covers.values() for m in ms]
    if cov_list: r.samples.append({'cover_sites_of_the_harness_files': cov_list[:24]})
    if inconclusive:
        if not any(f.replayed for f in r.findings):
            raise Exception('%d of %d harnesses inconclusive: %s' % (len(inconclusive), len(hs), ' || '.join(inconclusive)[:900]))
        r.notes.append('also inconclusive: ' + ' || '.join(inconclusive)[:600])

def _ob(oid, title, group, harnesses, functions, bounds, tiers=('quick', 'thorough'), weight=1, **kw):
    return Ob(oid, title, run_ob, tiers, weight, dict(group=group, harnesses=harnesses, functions=functions, bounds=bounds, **kw))

def _tiered(group, pred):
    return {t: [h for h in GROUPS[group]['harnesses'][t] if pred(h)] for t in ('quick', 'thorough')}

# ------------------------------------------------------------------------------------------------------------------ C12 / C04 / C11 : lexer + parser
MLS_FUNCS = ['lexer::lex_multiline_str', 'logos::Lexer::remainder', 'logos::Lexer::bump', 'logos::Lexer::new']
MLS_BOUNDS = {'quick': 'source = `\\\\` + every string of exactly L bytes, L = 0..7, over the characters {\\, \\n, \\r, space, tab, a, é (2 bytes), → (3 bytes)}; one harness per L, contents symbolic',
              'thorough': 'source = `\\\\` + every string of exactly L bytes, L = 0..10, over the characters {\\, \\n, \\r, space, tab, a, é (2 bytes), → (3 bytes)}; one harness per L, contents symbolic'}
MLS_ASSUME = ['the callback runs in the state the logos DFA leaves it in: the regex `\\\\{2}` has matched the first two bytes (harness: Lexer::new + bump(2))',
              'input is valid UTF-8 (a Rust &str) over the 8-character alphabet; bytes other than \\ \\n space tab are all treated alike by the unchanged scanner (read off the code); \\r is included because a scanner that treats CRLF specially is a plausible change']
MLS_OUT = 'remainders longer than the bound; the logos DFA itself; how lowering treats a `\\r` left at the end of a line'

def _mls_ob(oid, title):
    return _ob(oid, title, 'lexer-mls', GROUPS['lexer-mls']['harnesses'], MLS_FUNCS, MLS_BOUNDS, assumptions=MLS_ASSUME, outside=MLS_OUT, weight=3)

def c12_obligations():
    return [
        _mls_ob('O12.1+O12.2-mls', 'lex_multiline_str: no panic, None => nothing consumed, Some => 1 <= consumed <= len on a char boundary, and the token is exactly the '
                'maximal run of >= 2 lines `[ \\t]*\\\\\\\\.*` (final newline kept only at end of input) -- oracle from the token grammar / ast lower.rs, not from the scanner'),
        _ob('O12.3-kind-mapping', 'MyLang::kind_from_raw(k.to_syntax_kind()) is the same-named MySyntaxKind for every TokenKind the lexer emits; is_trivia and raw value preserved; '
            'kind_to_raw . kind_from_raw = id on the asserted range', 'parser-kinds', GROUPS['parser-kinds']['harnesses'],
            ['<MyLang as rowan::Language>::kind_from_raw', '<MyLang as rowan::Language>::kind_to_raw', '<TokenKind as ToSyntaxKind>::to_syntax_kind', 'TokenKind::is_trivia'],
            'every TokenKind variant except Eof (84 kinds, symbolic index into a table that an exhaustive match ties to the enum); every raw u16 <= MySyntaxKind::ATTRIBUTE',
            assumptions=['TokenKind::Eof is never emitted by the lexer (it has no #[token]/#[regex]); it aliases MySyntaxKind::TombStone and is excluded'], weight=1),
    ]

FUEL_FUNCS = ['parser::Parser::new', 'parser::Parser::peek', 'parser::Parser::nth', 'parser::Parser::advance', 'parser::input::Input::peek', 'parser::input::Input::nth',
              'parser::input::Input::skip', 'parser::input::Input::eof', 'parser::input::Input::eat_trivia', 'diagnostics::Diagnostics::push', 'diagnostics::Diagnostic::new']

def c04_obligations():
    return [
        _ob('O4.1-fuel', 'parser fuel: a look-ahead with fuel left returns the real next non-trivia kind and costs one unit; without fuel it returns eof and reports exactly once per streak; '
            'advance restores 256 and clears the flag (inductive: initial state after Parser::new + one step from every reachable fuel state, which implies the n <= 258 streak of DESIGN O4.1 for every n)',
            'parser-fuel', GROUPS['parser-fuel']['harnesses'], FUEL_FUNCS,
            'token lists of 0..3 tokens, every kind symbolic (84 kinds incl. trivia and Error); fuel state symbolic (0..256, flag); one symbolic peek/nth(0); advance from every state, then peek',
            assumptions=['fuel_step starts from an arbitrary state with fuel <= 256 and (flag => fuel = 0): an over-approximation of the reachable states (the flag is only set where fuel is 0)',
                         'token texts and ranges are irrelevant to the fuel mechanism (fixed text "x", empty ranges)'],
            outside='nth(k) for k > 0 (same fuel code path, different Input walk); Parser::eof does not consult fuel (see DESIGN O4.2); the literal 258-call run from Parser::new '
            '(harness fuel_streak: did not finish in 1500 s and is in no tier)', weight=5),
        _mls_ob('O4.3-mls-nopanic', 'lex_multiline_str never panics (index, overflow, char-boundary assertion of Lexer::bump) and returns within the unwinding bound -- same harnesses as O12.1'),
    ]

def c11_obligations():
    return [
        _ob('O11.1-binding-powers', 'Pratt tables = precedence levels of the statement: infix/prefix/postfix tables defined exactly on the operator tokens, l < r for every binary operator, '
            'every ordered pair of binary operators groups by level (left-assoc within a level), prefix above every binary except `.`, call above every binary except `.`',
            'parser-bp', GROUPS['parser-bp']['harnesses'], ['parser::expr::infix_binding_power', 'parser::expr::prefix_binding_power', 'parser::expr::postfix_binding_power'],
            'every TokenKind (85 kinds, symbolic) for the domains; every ordered pair of TokenKinds for the pair properties',
            assumptions=['how expr_bp uses the numbers (operator b is taken into the right operand of a iff not l(b) < r(a)) is read off expr.rs:443-489; the loop itself is O11.2 (E2)'], weight=1),
        _mls_ob('O11.5-mls-token-text', 'multi-line string token text: every line of the token satisfies the predicate ast lower.rs applies (`[ \\t]*\\\\\\\\` prefix), token is maximal -- same harnesses as O12.2'),
    ]

# ------------------------------------------------------------------------------------------------------------------ C10
LIT_FUNCS = ['compiler::typer::Typer::parse_integer_literal_with_ty', 'compiler::typer::Typer::parse_signed_integer', 'compiler::typer::Typer::parse_unsigned_integer',
             'core::num::<impl FromStr for i8..u64>::from_str', 'compiler::typer::Typer::new', 'diagnostics::Diagnostics::push']
LIT_ASSUME = ['precondition: literal text matches [0-9]+ (what the lexer token classes deliver after ast lower strips the suffix; goml has no negative literals); unsigned types additionally `-`[0-9]+',
              STUB_FORMAT, STUB_RS]

def _lit_bounds(types):
    def b(tier):
        out = []
        for t in types:
            name, d = [(n, d) for a, n, d in INT_TYPES if a == t][0]
            ns = sorted(int(h[-2:]) for h in GROUPS['compiler-c10']['harnesses'][tier] if h.startswith('lit_%s_d' % t))
            out.append('%s: every digit string of length %s (MAX has %d digits)' % (name, ','.join(map(str, ns)), d))
            negs = sorted(int(h[-2:]) for h in GROUPS['compiler-c10']['harnesses'][tier] if h.startswith('neg_%s_d' % t))
            if negs: out.append('%s: `-` + every digit string of length %s' % (name, ','.join(map(str, negs))))
        return '; '.join(out) + '; one harness per (type, length), digits symbolic'
    return {'quick': b('quick') + ' [quick tier: only the lengths around the maximum for 16/32/64-bit types, to stay inside the time cap; all lengths 1..D+1 in the thorough tier]', 'thorough': b('thorough')}

def c10_obligations():
    obs = []
    for tag, types, w in (('8bit', ('i8', 'u8'), 2), ('16bit', ('i16', 'u16'), 3), ('32bit', ('i32', 'u32'), 6), ('64bit', ('i64', 'u64'), 10)):
        pred = lambda h, types=types: any(h.startswith('lit_%s_d' % t) or h.startswith('neg_%s_d' % t) for t in types)
        obs.append(_ob('O10.1-intlit-' + tag, 'integer literal acceptance and value (%s): Some(v) <=> value <= MAX and v is the written value in the right Prim variant; '
                       'None <=> out of range; diagnostic pushed <=> None' % '/'.join(types), 'compiler-c10', _tiered('compiler-c10', pred), LIT_FUNCS, _lit_bounds(types),
                       assumptions=LIT_ASSUME, guard='c10', outside='longer digit strings (more leading zeros); the lexer split of `123i8`; text outside [0-9]+', weight=w))
    obs.append(_ob('O10.2-literal-printing', 'go_literal_from_primitive: result is Expr::Int whose text is a Go decimal literal (no `+`, no leading zero) that re-reads as exactly the value, '
                   'with the Go type of the same width/signedness; floats/bool/unit carried unchanged', 'compiler-c10',
                   _tiered('compiler-c10', lambda h: h.startswith('golit_')),
                   ['compiler::go::compile::go_literal_from_primitive', 'compiler::tast::Prim::as_int8..as_float64', '<i8..u64 as ToString>::to_string', 'compiler::go::goast::tast_ty_to_go_type'],
                   {'quick': 'every value of int8/uint8/int16/uint16; int32/int64/uint32/uint64: every |v| <= 100 000 (symbolic) + boundary table {0, +-1, 10^k-1, 10^k, 10^k+1 (both signs), MIN, MIN+1, MAX-1, MAX} for every digit length; every finite f32/f64; both bools; unit',
                    'thorough': 'every value of int8/uint8/int16/uint16; int32/int64/uint32/uint64: every |v| <= 10 000 000 (symbolic) + boundary table {0, +-1, 10^k-1, 10^k, 10^k+1 (both signs), MIN, MIN+1, MAX-1, MAX} for every digit length; every finite f32/f64; both bools; unit'},
                   assumptions=['the Prim variant matches the tast type passed (what compile_imm passes: the type of the ImmPrim itself)'], guard='c10',
                   outside='32/64-bit values between the symbolic bound and the type limits other than the boundary table (full range did not finish: >900 s at 32 bits); Prim::String; how the Go printer writes Expr::Float', weight=6))
    obs.append(_ob('O10.3-scalar-type-mapping', 'tast_ty_to_go_type maps each scalar type to the Go type of the same width, signedness and kind', 'compiler-c10', ['go_type_scalars'],
                   ['compiler::go::goast::tast_ty_to_go_type'], 'the 13 scalar types unit, bool, int8..int64, uint8..uint64, float32, float64, string (enumerated, concrete)',
                   outside='composite types (tuples, arrays, refs, functions: names via go_ident/encode_ty are C19)', weight=1))
    obs.append(_ob('O10.5-float-range', 'ensure_float_literal_fits: a diagnostic is pushed <=> value not finite, or target float32 and |value| > f32::MAX (oracle on the IEEE-754 bit pattern)',
                   'compiler-c10', ['float_fits'], ['compiler::typer::Typer::ensure_float_literal_fits', 'f64::is_finite'],
                   'every f64 bit pattern (symbolic u64) x target in {float32, float64, a non-float type}', assumptions=[STUB_FORMAT, STUB_RS],
                   outside='decimal -> binary conversion (dec2flt) in parse_float_literal_with_ty; the `as f32` rounding of accepted literals', weight=1))
    return obs

# ------------------------------------------------------------------------------------------------------------------ C15
ART_ASSUME = [STUB_HASH, STUB_RS, 'exports / hir_interface are the empty tables (they do not occur in validate or in the constructors except through compute_hash, which is stubbed)']

def c15_obligations():
    return [
        _ob('O15.1-validate-conjunction', 'CoreUnit::validate() => format_version == FORMAT_VERSION && compiler_abi == COMPILER_ABI && package == interface.package && '
            'interface_hash == compute_hash() && deps == interface.deps; and that conjunction (with an embedded interface carrying the current version constants) => validate()', 'compiler-c15', _tiered('compiler-c15', lambda h: h.startswith('validate_')),
            ['compiler::artifact::CoreUnit::validate', 'compiler::artifact::InterfaceUnit::validate_hash', '<BTreeMap<String,String> as PartialEq>::eq', '<String as PartialEq>::eq'],
            'format_version, compiler_abi: every u32 (both units); package names in {A,B}; interface_hash in {H,X}; both dependency maps have the key "A" with symbolic recorded hashes in {A,B}',
            assumptions=ART_ASSUME, outside='maps of other sizes/keys (validate_any_maps: each map empty or one symbolic entry -- ran out of memory at 12 GB / 500 s and is not part of any tier); '
            'interface.format_version / interface.compiler_abi are NOT checked by validate() (see E1_NOTES)', weight=4),
        _ob('O15.2-hash-and-constructors', 'validate_hash() <=> interface_hash == compute_hash(); InterfaceUnit::new / CoreUnit::new stamp FORMAT_VERSION and COMPILER_ABI, keep package and deps, '
            'and yield units that validate (CoreUnit: iff package names agree)', 'compiler-c15', _tiered('compiler-c15', lambda h: not h.startswith('validate_')),
            ['compiler::artifact::InterfaceUnit::validate_hash', 'compiler::artifact::InterfaceUnit::new', 'compiler::artifact::CoreUnit::new', 'compiler::artifact::CoreUnit::validate'],
            'stored hash in {H, X, HH, ""}; package names in {A,B}; InterfaceUnit::new with 0 or 1 dependency (symbolic value); CoreUnit::new over an interface without dependencies',
            assumptions=ART_ASSUME, outside='CoreUnit::new with a non-empty dependency map (cloning a BTreeMap: core_new_onedep ran out of memory at 12 GB and is not part of any tier)', weight=2),
    ]

E1_TRUSTED_BASE = ['Kani 0.68 (rustc MIR -> goto-program translation, models of the allocator and of std intrinsics)', 'CBMC 6.11 + CaDiCaL', 'the harness oracles in /verif/harness/*.rs',
                   'Kani stubs listed per obligation']

"""C17 - facets decided on the real code:
O17.1 the Overloaded constraint (a trait method called on a concrete receiver) is resolved by Typer::solve to the implementation registered for
      exactly the receiver's type - looked up by the real get_trait_impl in the current package and in every dependency -, and zero or several
      visible implementations are rejected with a diagnostic, never resolved arbitrarily.
O17.2 coerce_to_expected_dyn coerces a value to `dyn Tr` iff an implementation of Tr for its type is visible (has_visible_trait_impl)."""
import os, re, json, subprocess, tempfile, shutil
import z3
from vlib import e2, build
from vlib.core import Ob, Finding
import mirsym as ms
from mirsym.engine import Agg, PyVec, PyMap, Str, Ref, Opaque, Unsupported, unbox, mkbox, mkstr, UNIT
from props import c03 as c03m

CRATES = ('compiler', 'common_defs', 'diagnostics')
RECV = ('int32', 'bool', 'A', 'Lib::A')
TAGS = ['TInt8', 'TInt16', 'TInt64', 'TUint8', 'TUint16', 'TUint64', 'TFloat32', 'TFloat64']

class Env:
    def __init__(s, W):
        tt = W.tt; s.tt = tt
        s.TY = tt.find_adt(['tast', 'Ty'], 'compiler'); s.TI = tt.find_adt(['tast', 'TastIdent'], 'compiler'); s.TV = tt.find_adt(['tast', 'TypeVar'], 'compiler')
        s.PE = tt.find_adt(['env', 'PackageTypeEnv'], 'compiler'); s.ID = tt.find_adt(['env', 'ImplDef'], 'compiler'); s.FS = tt.find_adt(['env', 'FnScheme'], 'compiler')
        s.FO = tt.find_adt(['env', 'FnOrigin'], 'compiler'); s.GE = tt.find_adt(['env', 'GlobalTypeEnv'], 'compiler'); s.TE = tt.find_adt(['env', 'TraitEnv'], 'compiler')
        s.TD = tt.find_adt(['env', 'TraitDef'], 'compiler'); s.CO = tt.find_adt(['env', 'Constraint'], 'compiler'); s.DI = tt.find_adt(['diagnostics', 'Diagnostics'], 'diagnostics')
    def T(s, n, *f): return Agg(s.TY.key, s.TY.vindex(n), list(f))
    def recv(s, name):
        return {'int32': lambda: s.T('TInt32'), 'bool': lambda: s.T('TBool')}.get(name, lambda: s.T('TStruct', mkstr(name)))()
    def field(s, adt, agg, name): return agg.fields[[f[0] for f in adt.variants[0].fields].index(name)]
    def scheme(s, ty):
        return Agg(s.FS.key, 0, [{'type_params': PyVec([]), 'constraints': UNIT, 'ty': ty, 'origin': Agg(s.FO.key, 0, [])}[f[0]] for f in s.FS.variants[0].fields])
    def add_impl(s, genv, trait, ty, method, fty):
        te = s.field(s.GE, genv, 'trait_env'); impls = s.field(s.TE, te, 'trait_impls')
        m = PyMap('index'); m.keys.append(mkstr(method)); m.vals.append(s.scheme(fty))
        impls.keys.append(Agg('tuple', 0, [mkstr(trait), ty])); impls.vals.append(Agg(s.ID.key, 0, [{'params': PyVec([]), 'methods': m}[f[0]] for f in s.ID.variants[0].fields]))
    def add_trait(s, genv, trait, method, fty):
        te = s.field(s.GE, genv, 'trait_env'); defs = s.field(s.TE, te, 'trait_defs')
        m = PyMap('index'); m.keys.append(mkstr(method)); m.vals.append(s.scheme(fty))
        defs.keys.append(mkstr(trait)); defs.vals.append(Agg(s.TD.key, 0, [{'methods': m}.get(f[0], PyVec([])) for f in s.TD.variants[0].fields]))

def replay_overload(recv, cur_has, dep_has, want, trait_in='Lib'):
    """two-package project through the real CLI: trait Tr in Lib, implementations as chosen, `Tr::m(x)` in Main"""
    d = tempfile.mkdtemp(prefix='vf-c17-')
    lit = {'int32': '1', 'bool': 'true', 'A': 'A { v: 1 }', 'Lib::A': 'Lib::A { v: 1 }'}
    goty = {'int32': 'int32', 'bool': 'bool', 'A': 'A', 'Lib::A': 'Lib::A'}
    try:
        os.makedirs(os.path.join(d, 'Lib'))
        trd = 'trait Tr { fn m(Self) -> string; }\n'; trn = 'Lib::Tr' if trait_in == 'Lib' else 'Tr'
        lib = 'package Lib\n\n' + (trd if trait_in == 'Lib' else '') + 'struct A { v: int32 }\n'
        for t in dep_has: lib += 'impl Tr for %s { fn m(self: %s) -> string { "lib-%s" } }\n' % (t.replace('Lib::', ''), t.replace('Lib::', ''), t)
        main = 'package Main\nimport Lib\n\n' + (trd if trait_in != 'Lib' else '') + 'struct A { v: int32 }\n'
        for t in cur_has: main += 'impl %s for %s { fn m(self: %s) -> string { "main-%s" } }\n' % (trn, goty[t], goty[t], t)
        main += 'fn main() -> unit { let x: %s = %s; string_println(%s::m(x)) }\n' % (goty[recv], lit[recv], trn)
        open(os.path.join(d, 'Lib', 'lib.gom'), 'w').write(lib); open(os.path.join(d, 'main.gom'), 'w').write(main)
        p = subprocess.run([build.compiler_bin(), 'run', '--dump-go', os.path.join(d, 'main.gom')], capture_output=True, text=True, timeout=60)
    finally: shutil.rmtree(d, ignore_errors=True)
    out = p.stdout + p.stderr; rejected = 'error' in out.split('== Go ==')[0]
    if rejected and 'error (typer)' not in out: raise Unsupported('replay project rejected outside the typer: ' + out.strip()[:200])
    if want[0] == 'reject': ok_ = not rejected
    else:
        ok_ = rejected or ('"%s-%s"' % (want[1], recv)) not in out
    return ok_, 'project Lib { %s } / Main { %s }: %s' % (lib.replace('\n', ' | ')[:300], main.replace('\n', ' | ')[:400], ('rejected: ' + out.strip().split('\n')[0][:160]) if rejected else 'accepted')

def ob_overload(r, tier, seed, trait_in='Lib', package='Main'):
    W = e2.fresh_world(CRATES); E = Env(W); c3 = c03m.Ctx(W); W.overrides = [c03m.ena_overrides(c3)]
    tr_name = 'Lib::Tr' if trait_in == 'Lib' else 'Tr'
    r.bounds = 'package %s importing Lib; trait %s with one method m(Self) -> R; implementations registered for a solver-chosen subset of the (package, type) slots a project can contain: %s; receiver type one of %s; the constraint Overloaded { m, %s, (receiver) -> ?r }' % (package, tr_name, 'Main: {A}, Lib: {int32, Lib::A, bool}' if trait_in == 'Lib' else 'Main: {int32, A, Lib::A, bool}', list(RECV), tr_name)
    r.assumptions = ['each registered implementation returns a distinct result type, so the type ?r gets after solving names the implementation that was selected',
                     'oracle: exactly one implementation for exactly the receiver type visible (current package or a dependency) => no diagnostic and ?r is that implementation\'s result type; none => at least one diagnostic', 'stated precondition: at most one implementation per (trait, type) is visible - two would need an orphan implementation (rejected by define_trait_impl, C16 O16.7) or an import cycle; a kernel counterexample with two (first one wins instead of the `Multiple instances` diagnostic) was found with a self-made mutant and could not be expressed as a goml project',
                     'ena::InPlaceUnificationTable modelled as union-find with optional values; environments built by GlobalTypeEnv::new_empty (real) and filled through the IndexMap model']
    # only sets of implementations a project can contain (orphan rule, C16 O16.7; no import cycles): at most one per (trait, type)
    slots = [('cur', 'A'), ('dep', 'int32'), ('dep', 'Lib::A'), ('dep', 'bool')] if trait_in == 'Lib' else [('cur', 'int32'), ('cur', 'A'), ('cur', 'Lib::A'), ('cur', 'bool')]
    def entry(ex):
        recv = ex.choose([(True, x) for x in RECV])
        has = [ex.choose([(True, False), (True, True)]) for _ in slots]
        cur = ex.call('env::GlobalTypeEnv::new_empty', []); dep = ex.call('env::GlobalTypeEnv::new_empty', [])
        E.add_trait(dep if trait_in == 'Lib' else cur, tr_name, 'm', E.T('TFunc', PyVec([E.T('TParam', mkstr('Self'))]), mkbox(E.T('TString'))))
        tags = {}
        for i, ((where, t), h_) in enumerate(zip(slots, has)):
            if not h_: continue
            tags[(where, t)] = TAGS[i]
            E.add_impl(cur if where == 'cur' else dep, tr_name, E.recv(t), 'm', E.T('TFunc', PyVec([E.recv(t)]), mkbox(E.T(TAGS[i]))))
        deps = PyMap('hash'); deps.keys.append(mkstr('Lib')); deps.vals.append(dep)
        penv = Agg(E.PE.key, 0, [{'package': mkstr(package), 'current': cur, 'deps': deps}[f[0]] for f in E.PE.variants[0].fields])
        typer, ut = c03m.typer_value(c3, W, 1)
        rv = E.T('TVar', Agg(E.TV.key, 0, [0]))
        con = Agg(E.CO.key, E.CO.vindex('Overloaded'), [{'op': Agg(E.TI.key, 0, [mkstr('m')]), 'trait_name': Agg(E.TI.key, 0, [mkstr(tr_name)]), 'call_site_type': E.T('TFunc', PyVec([E.recv(recv)]), mkbox(rv))}[f[0]] for f in E.CO.variants[E.CO.vindex('Overloaded')].fields])
        typer.fields[1].items.append(con)
        h = {0: typer, 1: penv, 2: Agg(E.DI.key, 0, [PyVec([])])}
        ex.call('Typer::solve', [Ref(h, 0), Ref(h, 1), Ref(h, 2)])
        nd = len(h[2].fields[0].items)
        h[3] = rv
        res = ex.call('Typer::norm', [Ref(h, 0), Ref(h, 3)])
        return recv, [s_ for s_, h_ in zip(slots, has) if h_], tags, nd, E.TY.variants[res.idx].name
    res = e2.explore(r, W, entry, [])
    for p in res:
        r.cases += 1
        if p.kind != 'ok':
            if not any(f.key == 'panic' for f in r.findings): r.findings.append(Finding('panic', 'solving an Overloaded constraint panics: %s' % str(p.value)[:200], {}, False, 'not replayed'))
            continue
        recv, present, tags, nd, got = p.value
        visible = [s_ for s_ in present if s_[1] == recv]
        r.nontrivial += 1
        if len(visible) == 1: want = ('select', 'main' if visible[0][0] == 'cur' else 'lib', tags[visible[0]])
        else: want = ('reject',)
        bad = None
        if want[0] == 'select' and (nd != 0 or got != want[2]):
            bad = ('wrong-impl-selected' if nd == 0 else 'unique-impl-rejected', 'receiver %s, implementations %s: the only implementation for the receiver type is the one in %s (result type %s), but solving gives %d diagnostics and the result type %s' % (recv, present, visible[0][0], want[2], nd, got))
        if want[0] == 'reject' and nd == 0:
            bad = ('ambiguous-or-missing-impl-accepted', 'receiver %s, implementations %s: %d implementations for the receiver type are visible, yet solving reports no diagnostic (result type %s)' % (recv, present, len(visible), got))
        if bad and not any(f.key == bad[0] for f in r.findings):
            cur_has = [t for w_, t in present if w_ == 'cur']; dep_has = [t for w_, t in present if w_ == 'dep']
            try: ok_, detail = replay_overload(recv, cur_has, dep_has, want, trait_in)
            except Exception as e_: ok_, detail = False, 'replay failed: %s' % str(e_)[:200]
            r.findings.append(Finding(bad[0], bad[1], {'receiver': recv, 'impls': [list(x) for x in present]}, ok_, detail))
        elif not bad and len(r.samples) < 3 and want[0] == 'select': r.samples.append({'receiver': recv, 'impls': [list(x) for x in present], 'selected': want[1]})

def obligations():
    return [Ob('O17.1-overload-resolution-dep-trait', 'a method of a trait of a dependency on a concrete receiver resolves to the implementation for exactly that type (current package or dependency); none is rejected', ob_overload, ('quick', 'thorough'), 5, dict(trait_in='Lib')),
            Ob('O17.1-overload-resolution-own-trait', 'a method of a trait of the current package on a concrete receiver resolves to the implementation for exactly that type; none is rejected', ob_overload, ('quick', 'thorough'), 5, dict(trait_in='Main'))]

# ----------------------------------------------------------------------------- O17.2 coercion to dyn only with a visible implementation
def replay_dyn(recv, cur_has, dep_has, want_ok, trait_in):
    d = tempfile.mkdtemp(prefix='vf-c17-')
    lit = {'int32': '1', 'bool': 'true', 'A': 'A { v: 1 }', 'Lib::A': 'Lib::A { v: 1 }'}
    goty = {'int32': 'int32', 'bool': 'bool', 'A': 'A', 'Lib::A': 'Lib::A'}
    try:
        os.makedirs(os.path.join(d, 'Lib'))
        trd = 'trait Tr { fn m(Self) -> string; }\n'; trn = 'Lib::Tr' if trait_in == 'Lib' else 'Tr'
        lib = 'package Lib\n\n' + (trd if trait_in == 'Lib' else '') + 'struct A { v: int32 }\n'
        for t in dep_has: lib += 'impl Tr for %s { fn m(self: %s) -> string { "lib-%s" } }\n' % (t.replace('Lib::', ''), t.replace('Lib::', ''), t)
        main = 'package Main\nimport Lib\n\n' + (trd if trait_in != 'Lib' else '') + 'struct A { v: int32 }\n'
        for t in cur_has: main += 'impl %s for %s { fn m(self: %s) -> string { "main-%s" } }\n' % (trn, goty[t], goty[t], t)
        main += 'fn main() -> unit { let x: %s = %s; let d: dyn %s = x; string_println(%s::m(d)) }\n' % (goty[recv], lit[recv], trn, trn)
        open(os.path.join(d, 'Lib', 'lib.gom'), 'w').write(lib); open(os.path.join(d, 'main.gom'), 'w').write(main)
        p = subprocess.run([build.compiler_bin(), 'run', '--dump-go', os.path.join(d, 'main.gom')], capture_output=True, text=True, timeout=60)
    finally: shutil.rmtree(d, ignore_errors=True)
    out = p.stdout + p.stderr; rejected = 'error' in out.split('== Go ==')[0]
    if rejected and 'error (typer)' not in out: raise Unsupported('replay project rejected outside the typer: ' + out.strip()[:200])
    return rejected == want_ok, 'project Lib { %s } / Main { %s }: %s' % (lib.replace('\n', ' | ')[:300], main.replace('\n', ' | ')[:400], ('rejected: ' + out.strip().split('\n')[0][:160]) if rejected else 'accepted')

def ob_dyn_coercion(r, tier, seed, trait_in='Lib', package='Main'):
    W = e2.fresh_world(CRATES); E = Env(W); c3 = c03m.Ctx(W); W.overrides = [c03m.ena_overrides(c3)]
    tr_name = 'Lib::Tr' if trait_in == 'Lib' else 'Tr'
    TX = [a for a in W.tt.by_name['Expr'] if a.crate == 'compiler' and 'tast' in '::'.join(a.path)][0]
    for nm in list(W.methods.get('push_coercion', [])): W.stubs[nm[1]] = lambda ex, a: UNIT
    slots = [('cur', 'A'), ('dep', 'int32'), ('dep', 'Lib::A'), ('dep', 'bool')] if trait_in == 'Lib' else [('cur', 'int32'), ('cur', 'A'), ('cur', 'Lib::A'), ('cur', 'bool')]
    r.bounds = 'package %s importing Lib; trait %s; implementations for a solver-chosen subset of %s; a variable of type one of %s checked against the expected type `dyn %s`' % (package, tr_name, slots, list(RECV), tr_name)
    r.assumptions = ['oracle: coerce_to_expected_dyn wraps the expression in EToDyn { trait, for_ty = its type } iff an implementation of the trait for exactly that type is registered in the current package or a dependency; otherwise it reports a diagnostic and returns the expression unchanged',
                     'TypeckResultsBuilder::push_coercion is an environment stub']
    def entry(ex):
        recv = ex.choose([(True, x) for x in RECV]); has = [ex.choose([(True, False), (True, True)]) for _ in slots]
        cur = ex.call('env::GlobalTypeEnv::new_empty', []); dep = ex.call('env::GlobalTypeEnv::new_empty', [])
        E.add_trait(dep if trait_in == 'Lib' else cur, tr_name, 'm', E.T('TFunc', PyVec([E.T('TParam', mkstr('Self'))]), mkbox(E.T('TString'))))
        for (where, t), h_ in zip(slots, has):
            if h_: E.add_impl(cur if where == 'cur' else dep, tr_name, E.recv(t), 'm', E.T('TFunc', PyVec([E.recv(t)]), mkbox(E.T('TString'))))
        deps = PyMap('hash'); deps.keys.append(mkstr('Lib')); deps.vals.append(dep)
        penv = Agg(E.PE.key, 0, [{'package': mkstr(package), 'current': cur, 'deps': deps}[f[0]] for f in E.PE.variants[0].fields])
        typer, ut = c03m.typer_value(c3, W, 0)
        var = Agg(TX.key, TX.vindex('EVar'), [{'name': mkstr('x'), 'ty': E.recv(recv), 'astptr': ms.NONE()}[f[0]] for f in TX.variants[TX.vindex('EVar')].fields])
        h = {0: typer, 1: penv, 2: Agg(E.DI.key, 0, [PyVec([])]), 3: E.T('TDyn', mkstr(tr_name))}
        out = ex.call('Typer::coerce_to_expected_dyn', [Ref(h, 0), Ref(h, 1), Ref(h, 2), Agg('ExprId', 0, [Agg('PackageId', 0, [1]), 1]), var, Ref(h, 3)])
        nd = len(h[2].fields[0].items); vn = TX.variants[out.idx].name; info = None
        if vn == 'EToDyn':
            f = dict(zip([x[0] for x in TX.variants[out.idx].fields], out.fields))
            info = (ms.pystr(f['trait_name'].fields[0]), E.TY.variants[f['for_ty'].idx].name, E.TY.variants[f['ty'].idx].name)
        return recv, [s_ for s_, h_ in zip(slots, has) if h_], nd, vn, info
    res = e2.explore(r, W, entry, [])
    for p in res:
        r.cases += 1
        if p.kind != 'ok':
            if not any(f.key == 'panic' for f in r.findings): r.findings.append(Finding('panic', 'coerce_to_expected_dyn panics: %s' % str(p.value)[:200], {}, False, 'not replayed'))
            continue
        recv, present, nd, vn, info = p.value; r.nontrivial += 1
        visible = any(t == recv for _, t in present); bad = None
        want_ty = E.TY.variants[E.recv(recv).idx].name
        if visible and (vn != 'EToDyn' or nd != 0 or info != (tr_name, want_ty, 'TDyn')): bad = ('implemented-type-not-coerced', 'type %s implements %s (implementations %s) but the coercion gives %s %s with %d diagnostics' % (recv, tr_name, present, vn, info, nd))
        if not visible and (vn == 'EToDyn' or nd == 0): bad = ('coerced-without-impl', 'type %s has no visible implementation of %s (implementations %s) but the coercion gives %s with %d diagnostics' % (recv, tr_name, present, vn, nd))
        if bad and not any(f.key == bad[0] for f in r.findings):
            try: ok_, detail = replay_dyn(recv, [t for w_, t in present if w_ == 'cur'], [t for w_, t in present if w_ == 'dep'], visible, trait_in)
            except Exception as e_: ok_, detail = False, 'replay failed: %s' % str(e_)[:200]
            r.findings.append(Finding(bad[0], bad[1], {'receiver': recv, 'impls': [list(x) for x in present]}, ok_, detail))
        elif not bad and len(r.samples) < 3 and visible: r.samples.append({'type': recv, 'impls': [list(x) for x in present], 'result': vn})

_c17_obl = obligations
def obligations():
    return _c17_obl() + [Ob('O17.2-dyn-coercion-dep-trait', 'a value is coerced to dyn Tr (trait of a dependency) iff an implementation for its type is visible', ob_dyn_coercion, ('quick', 'thorough'), 3, dict(trait_in='Lib')),
                         Ob('O17.2-dyn-coercion-own-trait', 'a value is coerced to dyn Tr (trait of the current package) iff an implementation for its type is visible', ob_dyn_coercion, ('quick', 'thorough'), 3, dict(trait_in='Main'))]

# ----------------------------------------------------------------------------- O17.3 x.m(a): the method of a receiver is looked up where its type is declared
def replay_receiver_env(kind):
    d = tempfile.mkdtemp(prefix='vf-c17-')
    try:
        os.makedirs(os.path.join(d, 'Lib'))
        lib = 'package Lib\n\nstruct Box[T] { v: T }\nimpl[T] Box[T] { fn get(self: Box[T]) -> T { self.v } }\nstruct A { v: int32 }\nimpl A { fn val(self: A) -> int32 { self.v } }\n'
        call = {'app': 'let b: Lib::Box[int32] = Lib::Box { v: 1 }; let x = b.get(); let y = Lib::Box::get(b);', 'struct': 'let a: Lib::A = Lib::A { v: 1 }; let x = a.val(); let y = Lib::A::val(a);'}[kind]
        main = 'package Main\nimport Lib\n\nfn main() -> unit { %s string_println(int32_to_string(x + y)) }\n' % call
        open(os.path.join(d, 'Lib', 'lib.gom'), 'w').write(lib); open(os.path.join(d, 'main.gom'), 'w').write(main)
        p = subprocess.run([build.compiler_bin(), 'run', '--dump-go', os.path.join(d, 'main.gom')], capture_output=True, text=True, timeout=60)
    finally: shutil.rmtree(d, ignore_errors=True)
    out = p.stdout + p.stderr; rejected = 'error' in out.split('== Go ==')[0]
    if rejected and 'error (typer)' not in out: raise Unsupported('replay project rejected outside the typer: ' + out.strip()[:200])
    return rejected, 'project Lib { %s } / Main { %s }: %s' % (lib.replace('\n', ' | ')[:300], main.replace('\n', ' | ')[:300], ('rejected: ' + out.strip().split('\n')[0][:160]) if rejected else 'both call forms accepted')

def ob_receiver_env(r, tier, seed):
    W = e2.fresh_world(CRATES); E = Env(W)
    SD = W.tt.find_adt(['env', 'StructDef'], 'compiler'); TEV = W.tt.find_adt(['env', 'TypeEnv'], 'compiler')
    r.bounds = 'package Main importing Lib; receiver types: struct / enum named A or Lib::A, applications Box[t] / Lib::Box[t] / Opt[t] / Lib::Opt[t] with t in {int32, A, Lib::A}, int32, Ref[Lib::A], Vec[Lib::A]'
    r.assumptions = ['oracle: env_for_receiver_ty returns the environment of the package that declares the head constructor of the receiver type (the inherent methods of a type are registered there); the argument types of an application do not matter; built-in and structural types live in the current package']
    def entry(ex):
        cur = ex.call('env::GlobalTypeEnv::new_empty', []); dep = ex.call('env::GlobalTypeEnv::new_empty', [])
        # make the two environments distinguishable by content
        st = E.field(TEV, E.field(E.GE, cur, 'type_env'), 'structs'); st.keys.append(Agg(E.TI.key, 0, [mkstr('MarkCur')])); st.vals.append(Opaque('def'))
        st2 = E.field(TEV, E.field(E.GE, dep, 'type_env'), 'structs'); st2.keys.append(Agg(E.TI.key, 0, [mkstr('MarkDep')])); st2.vals.append(Opaque('def'))
        deps = PyMap('hash'); deps.keys.append(mkstr('Lib')); deps.vals.append(dep)
        penv = Agg(E.PE.key, 0, [{'package': mkstr('Main'), 'current': cur, 'deps': deps}[f[0]] for f in E.PE.variants[0].fields])
        head = ex.choose([(True, x) for x in ('A', 'Lib::A', 'Box', 'Lib::Box', 'Opt', 'Lib::Opt', 'int32', 'ref', 'vec')])
        arg = ex.choose([(True, x) for x in ('int32', 'A', 'Lib::A')]) if head in ('Box', 'Lib::Box', 'Opt', 'Lib::Opt') else None
        if head in ('A', 'Lib::A'):
            kind = ex.choose([(True, 'TStruct'), (True, 'TEnum')]); t = E.T(kind, mkstr(head))
        elif head == 'int32': t = E.T('TInt32')
        elif head == 'ref': t = E.T('TRef', mkbox(E.recv('Lib::A')))
        elif head == 'vec': t = E.T('TVec', mkbox(E.recv('Lib::A')))
        else: t = E.T('TApp', mkbox(E.T('TStruct' if 'Box' in head else 'TEnum', mkstr(head))), PyVec([E.recv(arg)]))
        h = {0: penv, 1: t}
        res = ex.call('typer::check::env_for_receiver_ty', [Ref(h, 0), Ref(h, 1)])
        env = ex.deref(res)
        names = [ms.pystr(k.fields[0]) for k in E.field(TEV, E.field(E.GE, env, 'type_env'), 'structs').keys]
        return head, arg, 'dep' if 'MarkDep' in names else 'cur' if 'MarkCur' in names else '?'
    res = e2.explore(r, W, entry, [])
    for p in res:
        r.cases += 1
        if p.kind != 'ok':
            if not any(f.key == 'panic' for f in r.findings): r.findings.append(Finding('panic', 'env_for_receiver_ty panics: %s' % str(p.value)[:200], {}, False, 'not replayed'))
            continue
        head, arg, got = p.value; want = 'dep' if head.startswith('Lib::') else 'cur'; r.nontrivial += 1
        if got != want:
            key = 'receiver-looked-up-in-wrong-package:' + ('app' if arg else 'nominal')
            if any(f.key == key for f in r.findings): continue
            try: ok_, detail = replay_receiver_env('app' if arg else 'struct') if want == 'dep' else (True, 'environment returned by the real env_for_receiver_ty MIR')
            except Exception as e_: ok_, detail = False, 'replay failed: %s' % str(e_)[:200]
            r.findings.append(Finding(key, 'a receiver of type %s%s: its methods are looked up in the %s package, its type is declared in the %s package' % (head, '[%s]' % arg if arg else '', {'cur': 'current', 'dep': 'imported', '?': 'unknown'}[got], {'cur': 'current', 'dep': 'imported'}[want]), {'head': head, 'arg': arg}, ok_, detail))
        elif len(r.samples) < 3 and want == 'dep': r.samples.append({'receiver': head + ('[%s]' % arg if arg else ''), 'environment': got})

_c17_obl2 = obligations
def obligations():
    return _c17_obl2() + [Ob('O17.3-receiver-environment', 'the inherent methods of a receiver are looked up in the package that declares its type (dot calls on imported types, incl. generic instances)', ob_receiver_env, ('quick', 'thorough'), 2, {})]

# ----------------------------------------------------------------------------- O17.4 the dyn call form: declaration, construction and use of the trait-object types agree on their Go names
def replay_dyn_names(trait, method):
    d = tempfile.mkdtemp(prefix='vf-c17-')
    try:
        tshort = trait.split('::')[-1]; inlib = '::' in trait
        trd = 'trait %s { fn %s(Self) -> int32; }\n' % (tshort, method)
        main = 'package Main\n' + ('import Lib\n' if inlib else '') + '\n' + ('' if inlib else trd) + 'struct C { v: int32 }\nimpl %s for C { fn %s(self: C) -> int32 { self.v } }\nfn main() -> unit { let d: dyn %s = C { v: 1 }; string_println(int32_to_string(%s::%s(d))) }\n' % (trait, method, trait, trait, method)
        if inlib:
            os.makedirs(os.path.join(d, 'Lib')); open(os.path.join(d, 'Lib', 'lib.gom'), 'w').write('package Lib\n\n' + trd)
        open(os.path.join(d, 'main.gom'), 'w').write(main)
        p = subprocess.run([build.compiler_bin(), 'run', '--dump-go', os.path.join(d, 'main.gom')], capture_output=True, text=True, timeout=60)
    finally: shutil.rmtree(d, ignore_errors=True)
    out = p.stdout + p.stderr
    if '== Go ==' not in out: raise Unsupported('replay project rejected: ' + out.strip()[:200])
    go = out.split('== Go ==')[1]
    declared = set(re.findall(r'^type (\w+) struct', go, re.M)); used = set(re.findall(r'\b(\w*dyn__\w+)\b', go))
    undeclared = sorted(u for u in used if u not in declared and not re.search(r'^func %s\b' % re.escape(u), go, re.M))
    fields = {}
    for m in re.finditer(r'^type (\w*vtable\w*) struct \{\n(.*?)\n\}', go, re.M | re.S): fields[m.group(1)] = set(l.split()[0] for l in m.group(2).splitlines() if l.strip())
    badkeys = []
    for m in re.finditer(r'&(\w*vtable\w*)\{\n?(.*?)\}', go, re.S):
        keys = set(re.findall(r'(\w+):', m.group(2)))
        if m.group(1) in fields and keys != fields[m.group(1)]: badkeys.append((m.group(1), sorted(keys), sorted(fields[m.group(1)])))
    ok_ = bool(undeclared) or bool(badkeys)
    return ok_, 'goml `%s`: %s' % (main.replace('\n', ' | ')[:300], ('Go type names used but not declared: %s' % undeclared) if undeclared else ('vtable literal keys differ from the declared fields: %s' % badkeys) if badkeys else 'all dyn type names declared, vtable literal keys = declared fields')

def ob_dyn_names(r, tier, seed):
    W = e2.fresh_world(CRATES); E = Env(W); tt = W.tt
    GOENV = tt.find_adt(['go', 'compile', 'GlobalGoEnv'], 'compiler'); DR = [a for a in tt.by_name['DynRequirements'] if a.crate == 'compiler'][0]
    GI = tt.find_adt(['goast', 'Item'], 'compiler'); GS = tt.find_adt(['goast', 'Struct'], 'compiler'); GF = tt.find_adt(['goast', 'Field'], 'compiler'); GT = tt.find_adt(['goty', 'GoType'], 'compiler')
    GFN = tt.find_adt(['goast', 'Fn'], 'compiler'); GE = tt.find_adt(['goast', 'Expr'], 'compiler'); GST = tt.find_adt(['goast', 'Stmt'], 'compiler')
    from mirsym.engine import PySet
    traits = ['Show', 'Lib::Show', 'A_B']; methods = ['m', 'select', 'range', 'type', 'go', 'map']
    r.bounds = 'a trait named one of %s with one method named one of %s (Go keywords that goml does not reserve included), implemented for struct C and used as dyn' % (traits, methods)
    r.assumptions = ['oracle: the Go struct declared for the trait object by gen_dyn_type_definitions has the name tast_ty_to_go_type gives the type `dyn Tr`; the vtable struct named in its `vtable` field is declared; the struct literal built by gen_dyn_vtable_ctor_fn has that vtable type and exactly the declared field names as keys']
    def fname(adt, agg, n): return agg.fields[[f[0] for f in adt.variants[0].fields].index(n)]
    def tyname(t):
        n = GT.variants[t.idx].name
        if n == 'TName': return ms.pystr(t.fields[0])
        if n == 'TPointer': return '*' + tyname(unbox(t.fields[0]))
        return n
    def entry(ex):
        tr = ex.choose([(True, x) for x in traits]); me = ex.choose([(True, x) for x in methods])
        genv = ex.call('env::GlobalTypeEnv::new_empty', []); genv2 = ex.call('env::GlobalTypeEnv::new_empty', [])
        E.add_trait(genv, tr, me, E.T('TFunc', PyVec([E.T('TParam', mkstr('Self'))]), mkbox(E.T('TInt32'))))
        monoenv = ex.call('mono::GlobalMonoEnv::from_genv', [genv2]); liftenv = ex.call('lift::GlobalLiftEnv::from_monoenv', [monoenv])
        goenv = Agg(GOENV.key, 0, [genv, liftenv])
        req = Agg(DR.key, 0, [{'traits': PySet([mkstr(tr)], 'index'), 'vtables': PySet([], 'index')}[f[0]] for f in DR.variants[0].fields])
        h = {0: goenv, 1: req}
        items = ex.call('go::compile::gen_dyn_type_definitions', [Ref(h, 0), Ref(h, 1)])
        structs = {}
        for it in items.items:
            if GI.variants[it.idx].name != 'Struct': continue
            st = it.fields[0]; structs[ms.pystr(fname(GS, st, 'name'))] = [(ms.pystr(fname(GF, f_, 'name')), tyname(fname(GF, f_, 'ty'))) for f_ in fname(GS, st, 'fields').items]
        h2 = {0: E.T('TDyn', mkstr(tr))}
        use = tyname(ex.call('go::goast::tast_ty_to_go_type', [Ref(h2, 0)]))
        cty = E.T('TStruct', mkstr('C'))
        meths = PyVec([Agg('tuple', 0, [mkstr(me), PyVec([]), E.T('TInt32')])])
        h3 = {0: mkstr(tr), 1: cty, 2: meths}
        fn = ex.call('go::compile::gen_dyn_vtable_ctor_fn', [Ref(h3, 0), Ref(h3, 1), Ref(h3, 2)])
        body = fname(GFN, fn, 'body').fields[0].items
        ret = body[0]; e = ret.fields[0].fields[0]      # Return { expr: Some(&lit) }
        if GE.variants[e.idx].name == 'UnaryOp': e = unbox(dict(zip([x[0] for x in GE.variants[e.idx].fields], e.fields))['expr'])
        ef = dict(zip([x[0] for x in GE.variants[e.idx].fields], e.fields))
        keys = [ms.pystr(k.fields[0]) for k in ef['fields'].items]; lit_ty = tyname(ef['ty'])
        return tr, me, structs, use, keys, lit_ty
    res = e2.explore(r, W, entry, [])
    for p in res:
        r.cases += 1
        if p.kind != 'ok':
            if not any(f.key == 'panic' for f in r.findings): r.findings.append(Finding('panic', 'dyn type generation panics: %s' % str(p.value)[:200], {}, False, 'not replayed'))
            continue
        tr, me, structs, use, keys, lit_ty = p.value; r.nontrivial += 1; bad = None
        dyn_structs = [n for n, fs in structs.items() if [f[0] for f in fs] == ['data', 'vtable']]
        if use not in structs: bad = ('dyn-type-name-mismatch', 'trait %s: the type `dyn %s` is spelled %s in Go, the declared trait-object structs are %s' % (tr, tr, use, sorted(structs)))
        else:
            vt = dict(structs[use]).get('vtable', '').lstrip('*')
            if vt not in structs: bad = ('vtable-type-undeclared', 'trait %s: the vtable field of %s has type %s, which is not declared (%s)' % (tr, use, vt, sorted(structs)))
            elif lit_ty != vt: bad = ('vtable-literal-type-mismatch', 'trait %s: the vtable constructor builds a %s, the trait object holds a %s' % (tr, lit_ty, vt))
            elif sorted(keys) != sorted(f[0] for f in structs[vt]): bad = ('vtable-literal-keys-mismatch', 'trait %s with method %s: the vtable struct declares the fields %s, the constructor literal uses the keys %s' % (tr, me, [f[0] for f in structs[vt]], keys))
        if bad and not any(f.key == bad[0] for f in r.findings):
            try: ok_, detail = replay_dyn_names(tr, me)
            except Exception as e_: ok_, detail = False, 'replay failed: %s' % str(e_)[:200]
            r.findings.append(Finding(bad[0], bad[1], {'trait': tr, 'method': me}, ok_, detail))
        elif not bad and len(r.samples) < 3: r.samples.append({'trait': tr, 'method': me, 'dyn struct': use, 'keys': keys})

_c17_obl3 = obligations
def obligations():
    return _c17_obl3() + [Ob('O17.4-dyn-names', 'the trait-object struct, its vtable struct and the vtable constructor agree on their Go names (traits of other packages, methods named like Go keywords)', ob_dyn_names, ('quick', 'thorough'), 2, {})]

META = {
    'level': 'other',
    'explanation': 'Bounded facets of C17 decided on the real code. O17.1: Typer::solve (MIR of the current tree, with resolve_type_name, PackageTypeEnv / TraitEnv::get_trait_impl, inst_ty, unify) is run on one Overloaded constraint against real environments of the current package and one dependency whose sets of trait implementations are solver decisions; the result type the call site receives identifies the implementation selected.',
    'assumptions': ['O17.2: Typer::coerce_to_expected_dyn with has_visible_trait_impl on the same environments: EToDyn iff an implementation for exactly the value\'s type is registered', 'outside this claim: that the three lowering routes (direct call, bound-directed call in generic code, dyn vtable) run the selected implementation at run time - that needs the emitted Go to be executed', 'inherent method call forms x.m(a) / T::m(x, a)'],
    'trusted_base': ['mirsym MIR interpreter', 'library models listed per obligation (IndexMap / HashMap / ena union-find)', 'z3'],
}

# ----------------------------------------------------------------------------- O17.5 the dyn wrapper of (trait, type, method) forwards to the implementation of THAT trait for that type
def ob_dyn_wrapper_target(r, tier, seed):
    W = e2.fresh_world(CRATES); E = Env(W); tt = W.tt
    GOENV = tt.find_adt(['go', 'compile', 'GlobalGoEnv'], 'compiler'); DR = [a for a in tt.by_name['DynRequirements'] if a.crate == 'compiler'][0]
    GI = tt.find_adt(['goast', 'Item'], 'compiler'); GFN = tt.find_adt(['goast', 'Fn'], 'compiler'); GE = tt.find_adt(['goast', 'Expr'], 'compiler'); GST = tt.find_adt(['goast', 'Stmt'], 'compiler')
    from mirsym.engine import PySet
    W.stubs['ty_compact'] = lambda ex, a: mkstr({'TStruct': lambda t: ms.pystr(t.fields[0]), 'TInt32': lambda t: 'int32', 'TBool': lambda t: 'bool'}[E.TY.variants[ex.deref(a[0]).idx].name](ex.deref(a[0])))
    TRAITS = ['A', 'B', 'Lib::A']; TYPES = ['C', 'D', 'int32']
    r.bounds = ('go::compile::gen_dyn_helper_fns for one requested vtable (trait, type) with trait in %s and type in %s; every trait declares the methods m and n; the function table of the monomorphised program (mono_funcs) '
                'holds the implementations trait_impl#<trait>#<type>#<method> of ALL traits for ALL types, inserted in a solver-chosen order (forwards or backwards)' % (TRAITS, TYPES))
    r.assumptions = ['names::ty_compact (external `pretty` crate) replaced by a stand-in that prints the type name',
                     'oracle: the wrapper generated for (trait, type, method) calls go_ident(trait_impl_fn_name(trait, type, method)) - the function monomorphisation emits for that implementation (names from the real names::trait_impl_fn_name / go::mangle::go_ident) - whatever other implementations with the same method name or the same receiver type exist',
                     'the wrapper is found as the generated function whose body is a single return of a call']
    def fld(adt, agg, n, vi=0): return agg.fields[[f[0] for f in adt.variants[vi].fields].index(n)]
    def tyv(t): return E.T('TInt32') if t == 'int32' else E.T('TStruct', mkstr(t))
    def entry(ex):
        tr = ex.choose([(True, x) for x in TRAITS]); ty = ex.choose([(True, x) for x in TYPES]); back = ex.choose([(True, False), (True, True)])
        genv = ex.call('env::GlobalTypeEnv::new_empty', []); genv2 = ex.call('env::GlobalTypeEnv::new_empty', [])
        selfm = lambda: E.T('TFunc', PyVec([E.T('TParam', mkstr('Self'))]), mkbox(E.T('TInt32')))
        for t_ in TRAITS:
            E.add_trait(genv, t_, 'm', selfm())
            te = E.field(E.GE, genv, 'trait_env'); defs = E.field(E.TE, te, 'trait_defs'); td = defs.vals[-1]
            E.field(E.TD, td, 'methods').keys.append(mkstr('n')); E.field(E.TD, td, 'methods').vals.append(E.scheme(selfm()))
        monoenv = ex.call('mono::GlobalMonoEnv::from_genv', [genv2]); hm = {0: monoenv}
        combos = [(t_, y_, m_) for t_ in TRAITS for y_ in TYPES for m_ in ('m', 'n')]
        names = {}
        for t_, y_, m_ in (combos[::-1] if back else combos):
            hh = {0: Agg(E.TI.key, 0, [mkstr(t_)]), 1: tyv(y_), 2: mkstr(m_)}
            nm = ex.call('names::trait_impl_fn_name', [Ref(hh, 0), Ref(hh, 1), Ref(hh, 2)]); names[(t_, y_, m_)] = ms.pystr(nm)
            ex.call('mono::GlobalMonoEnv::insert_func', [Ref(hm, 0), nm, E.T('TFunc', PyVec([tyv(y_)]), mkbox(E.T('TInt32')))])
        liftenv = ex.call('lift::GlobalLiftEnv::from_monoenv', [hm[0]])
        goenv = Agg(GOENV.key, 0, [genv, liftenv])
        req = Agg(DR.key, 0, [{'traits': PySet([mkstr(tr)], 'index'), 'vtables': PySet([Agg('tuple', 0, [mkstr(tr), tyv(ty)])], 'index')}[f[0]] for f in DR.variants[0].fields])
        h = {0: goenv, 1: req}
        items = ex.call('go::compile::gen_dyn_helper_fns', [Ref(h, 0), Ref(h, 1)])
        calls = []
        for it in items.items:
            if GI.variants[it.idx].name != 'Fn': continue
            fn = it.fields[0]; stmts = fld(GFN, fn, 'body').fields[0].items
            if len(stmts) != 1 or GST.variants[stmts[0].idx].name != 'Return' or stmts[0].fields[0].idx != 1: continue
            e = stmts[0].fields[0].fields[0]
            if GE.variants[e.idx].name != 'Call': continue
            f_ = unbox(fld(GE, e, 'func', e.idx))
            if GE.variants[f_.idx].name == 'Var': calls.append((ms.pystr(fld(GFN, fn, 'name')), ms.pystr(fld(GE, f_, 'name', f_.idx))))
        want = {}
        for m_ in ('m', 'n'):
            hh = {0: mkstr(names[(tr, ty, m_)])}; want[m_] = ms.pystr(ex.call('go::mangle::go_ident', [Ref(hh, 0)]))
        return tr, ty, back, calls, want
    res = e2.explore(r, W, entry, [])
    for p in res:
        r.cases += 1
        if p.kind != 'ok':
            if not any(f.key == 'panic' for f in r.findings): r.findings.append(Finding('panic', 'gen_dyn_helper_fns panics: %s' % str(p.value)[:200], {}, False, 'not replayed'))
            continue
        tr, ty, back, calls, want = p.value; r.nontrivial += 1
        got = sorted(c[1] for c in calls)
        if got != sorted(want.values()):
            if r.findings: continue
            try: ok_, detail = replay_dyn_wrapper()
            except Exception as e_: ok_, detail = False, 'replay failed: %s' % str(e_)[:200]
            r.findings.append(Finding('dyn-wrapper-calls-other-impl', 'vtable (%s, %s), function table filled %s: the wrappers call %s, the implementations of %s for %s are %s' % (tr, ty, 'backwards' if back else 'forwards', got, tr, ty, sorted(want.values())), {'trait': tr, 'type': ty}, ok_, detail))
        elif len(r.samples) < 3: r.samples.append({'trait': tr, 'type': ty, 'wrappers': [list(c) for c in calls]})

def replay_dyn_wrapper():
    """real CLI: two traits with a method of one name implemented for one type (the other trait first), a call through dyn of the second; the wrapper in the Go text must call the second trait's implementation"""
    src = ('trait A { fn m(Self) -> int32; }\ntrait B { fn m(Self) -> int32; }\nstruct C { v: int32 }\nimpl A for C { fn m(self: C) -> int32 { 1 } }\nimpl B for C { fn m(self: C) -> int32 { 2 } }\n'
           'fn main() -> unit { let c = C { v: 0 }; let d: dyn B = c; let e: dyn A = C { v: 1 }; string_println(int32_to_string(B::m(d) + A::m(e))) }\n')
    d = tempfile.mkdtemp(prefix='vf-c17w-')
    try:
        open(os.path.join(d, 'main.gom'), 'w').write(src)
        out = subprocess.run([build.compiler_bin(), 'run', '--dump-go', os.path.join(d, 'main.gom')], capture_output=True, text=True, timeout=60).stdout
    finally: shutil.rmtree(d, ignore_errors=True)
    wr = re.findall(r'func (\w*dyn\w*B\w*)\(self [^)]*\)[^{]*\{\s*return (\w+)\(', out)
    wrong = [(w, c) for w, c in wr if '_A_' in c and '_B_' not in c]
    return bool(wrong), 'goml `%s`: dyn wrappers of B in the Go text: %s' % (src.replace('\n', ' | ')[:300], wr)

_c17_obl5 = obligations
def obligations():
    return _c17_obl5() + [Ob('O17.5-dyn-wrapper-target', 'the dyn wrapper of (trait, type, method) forwards to the implementation of that trait for that type', ob_dyn_wrapper_target, ('quick', 'thorough'), 3, {})]

_c17_obl6 = obligations
def obligations():
    from props import mono_ob
    return _c17_obl6() + mono_ob.obligations_c17()

"""O7.1 / O19.4: `encode_ty` is injective on concrete types (shared by C07 and C19)."""
import json
import z3
from vlib import e2, build
from vlib.core import Ob, Finding
import mirsym as ms
from mirsym.lazy import Spec, force
from mirsym.engine import Agg, PyVec, Str, Unsupported, unbox

CRATES = ('compiler', 'common_defs', 'diagnostics')
PRIMS = ['TUnit', 'TBool', 'TInt8', 'TInt16', 'TInt32', 'TInt64', 'TUint8', 'TUint16', 'TUint32', 'TUint64', 'TFloat32', 'TFloat64', 'TString']

def shape(v, TY):
    """python description of a forced tast::Ty value (JSON-able, same format the native driver reads)"""
    if isinstance(v, Agg) and v.ty == 'Box': v = unbox(v)
    n = TY.variants[v.idx].name; f = v.fields
    if n in PRIMS: return {'k': n}
    if n in ('TParam', 'TEnum', 'TStruct', 'TDyn'): return {'k': n, 'name': ms.pystr(f[0])}
    if n == 'TTuple': return {'k': n, 'a': [shape(x, TY) for x in f[0].items]}
    if n == 'TApp': return {'k': n, 'base': shape(f[0], TY), 'a': [shape(x, TY) for x in f[1].items]}
    if n == 'TArray': return {'k': n, 'len': f[0], 'a': [shape(f[1], TY)]}
    if n in ('TVec', 'TRef'): return {'k': n, 'a': [shape(f[0], TY)]}
    if n == 'TFunc': return {'k': n, 'a': [shape(x, TY) for x in f[0].items] + [shape(f[1], TY)]}
    raise Unsupported('shape of ' + n)

def flat(sh):
    """constructor/name sequence with grouping erased"""
    out = [sh['k'] if 'name' not in sh else sh['name']]
    if 'len' in sh: out.append(str(sh['len']))
    if 'base' in sh: out = [sh['base']['name']]
    for x in sh.get('a', []): out += flat(x)
    return out

def has_nullary_fn(sh):
    return (sh['k'] == 'TFunc' and len(sh['a']) == 1) or any(has_nullary_fn(x) for x in sh.get('a', []))

def flat_marked(sh):
    """like flat(), but a function without parameters contributes a marker (the two types of a collision differ in where it sits)"""
    out = [sh['k'] if 'name' not in sh else sh['name']]
    if sh['k'] == 'TFunc' and len(sh['a']) == 1: out.append('<no-params>')
    if 'len' in sh: out.append(str(sh['len']))
    if 'base' in sh: out = [sh['base']['name']]
    for x in sh.get('a', []): out += flat_marked(x)
    return out

def names_of(sh):
    out = [sh['name']] if 'name' in sh else []
    if 'base' in sh: out += names_of(sh['base'])
    for x in sh.get('a', []): out += names_of(x)
    return out

def classify(x, y):
    if [t.lower() for t in flat(x)] == [t.lower() for t in flat(y)] and flat(x) != flat(y): return 'case-folded'
    if flat(x) == flat(y) and (has_nullary_fn(x) or has_nullary_fn(y)) and not (flat_marked(x) == flat_marked(y)): return 'nullary-fn-unmarked'
    if flat(x) == flat(y): return 'arity-erased'
    if any('_' in n for n in names_of(x) + names_of(y)): return 'name-spells-encoding'
    return 'unclassified'

WHAT = {'case-folded': 'the reference-cell struct name lower-cases the encoded element type: types that differ only in letter case share one name',
        'arity-erased': "encode_ty joins components with '_' and records no arity: differently grouped types get one encoding",
        'name-spells-encoding': "encode_ty does not escape '_' in user type names: a name containing '_' collides with a structured type",
        'nullary-fn-unmarked': 'a function type without parameters leaves no trace in the name: differently nested function types share one name',
        'unclassified': 'two distinct concrete types get the same encoding (outside every known collision class)'}

def native_encode(shapes):
    req = '\n'.join(json.dumps({'fn': 'encode_ty', 'args': [s]}) for s in shapes) + '\n'
    rc, out, errt = build.run_driver('vreplay', req)
    outs = [json.loads(l) for l in out.splitlines() if l.strip()]
    if rc != 0 or len(outs) != len(shapes): raise Unsupported('native driver failed: ' + errt[-300:])
    return [o.get('ok') for o in outs]

def ob_encode(r, tier, seed, top, inner, leaves, names, vec_len, depth, lens=(1, 2), path_limit=400000, fn='encode_ty'):
    W = e2.fresh_world(CRATES)
    TY = W.tt.find_adt(['tast', 'Ty'], 'compiler')
    r.bounds = fn + ' on all tast::Ty values of depth <= %d: top constructor in %s, inner constructors in %s, leaves %s, nominal names %s, component lists of length %d..%d, array lengths %s' % (
        depth, top, inner, leaves, list(names), vec_len[0], vec_len[1], list(lens))
    r.assumptions = ['TVar excluded (encode_ty is applied to concrete types after monomorphisation)',
                     'TEnum and TStruct of one name are the same entity (a program declares a name once) - only TStruct is generated',
                     'TApp base is a nominal type (get_constr_name_unsafe panics otherwise; callers pass TEnum/TStruct)']
    class S2(Spec):
        def make_adt(s, ex, adt, d, path, subst):
            if adt.name == 'Ty':
                s.allowed['Ty'] = top if d == depth else inner
            return Spec.make_adt(s, ex, adt, d, path, subst)
    spec = S2(W.tt, allowed={'Ty': top}, leaves={'Ty': leaves}, strings=names, vec_len=vec_len, int_choices=list(lens), depth=depth,
              field_hooks={('Ty', 'TApp', 'ty'): lambda sp, ex, d, p: ms.mkbox(Agg(TY.key, TY.vindex('TStruct'), [sp.make_string(ex, p)]))})
    def entry(ex):
        h = [spec.root(ex, 'tast::Ty', tag='t')]
        out = ex.call({'encode_ty': 'encode_ty', 'go_type_name_for': 'go::goast::go_type_name_for', 'ref_struct_name': 'go::goast::ref_struct_name'}[fn], [ms.Ref(h, 0)])
        return ms.pystr(out), shape(force(ex, h[0]), TY)
    res = e2.explore(r, W, entry, [], path_limit=path_limit)
    buckets = {}
    for p in res:
        r.cases += 1
        if p.kind != 'ok':
            raise Unsupported('encode_ty panicked: %s' % p.value)
        buckets.setdefault(p.value[0], []).append(p.value[1])
    r.nontrivial = len(buckets)
    found = {}
    for enc, shs in buckets.items():
        uniq = []
        for s_ in shs:
            if s_ not in uniq: uniq.append(s_)
        for i in range(len(uniq)):
            for j in range(i + 1, len(uniq)):
                k = classify(uniq[i], uniq[j])
                if k not in found: found[k] = (uniq[i], uniq[j], enc)
    for k, (x, y, enc) in found.items():
        if fn != 'encode_ty':
            r.findings.append(Finding(k, '%s: %s gives %r for both %s and %s' % (WHAT[k], fn, enc, json.dumps(x), json.dumps(y)), {'a': x, 'b': y}, True, 'strings produced by the real %s MIR' % fn)); continue
        nat = native_encode([x, y])
        r.findings.append(Finding(k, '%s: both %s and %s encode to %r' % (WHAT[k], json.dumps(x), json.dumps(y), nat[0]), {'a': x, 'b': y, 'native': nat}, nat[0] is not None and nat[0] == nat[1]))
    r.samples = [{'type': b[0], 'encode_ty': e} for e, b in list(buckets.items())[:3]]

COMPOSITE = ['TTuple', 'TApp', 'TArray', 'TVec', 'TRef', 'TFunc']
def obligations(prefix):
    allc = PRIMS + ['TParam', 'TStruct', 'TDyn'] + COMPOSITE
    few = ['TUnit', 'TBool', 'TInt32', 'TUint8', 'TString']
    obs = [Ob(prefix + '-depth0-all', 'encode_ty injective: every leaf constructor', ob_encode, ('quick', 'thorough'), 1,
              dict(top=PRIMS + ['TParam', 'TStruct', 'TDyn'], inner=[], leaves=PRIMS + ['TParam', 'TStruct', 'TDyn'], names=('A', 'B', 'A_B', 'Tuple_A', 'TParam_A', 'Dyn_A'), vec_len=(0, 0), depth=0)),
           Ob(prefix + '-depth1-all', 'encode_ty injective: every composite constructor over leaves, depth 1', ob_encode, ('quick', 'thorough'), 4,
              dict(top=COMPOSITE, inner=few + ['TParam', 'TStruct', 'TDyn'], leaves=few + ['TParam', 'TStruct', 'TDyn'], names=('A', 'A_B', 'Tuple_A'), vec_len=(0, 2), depth=1))]
    small_leaves = ['TInt32', 'TBool', 'TStruct']
    for t in COMPOSITE:
        obs.append(Ob(prefix + '-depth2-' + t, 'encode_ty injective: depth 2 under ' + t, ob_encode, ('quick', 'thorough'), 5,
                      dict(top=[t], inner=['TTuple', 'TApp', 'TVec'] + small_leaves, leaves=small_leaves, names=('A', 'A_B'), vec_len=(0, 1) if t == 'TFunc' else (0, 2), depth=2, lens=(1,))))
    for t in [c for c in COMPOSITE if c != 'TFunc']:
        obs.append(Ob(prefix + '-depth2w-' + t, 'encode_ty injective: depth 2 under %s, wider' % t, ob_encode, ('thorough',), 20,
                      dict(top=[t], inner=COMPOSITE + small_leaves + ['TParam'], leaves=small_leaves + ['TParam'], names=('A', 'A_B'), vec_len=(0, 2), depth=2, lens=(1, 2))))
    if prefix.startswith('O19'):
        nominal = ['TInt32', 'TBool', 'TString', 'TStruct', 'TParam']
        obs.append(Ob('O19.4b-ref_struct_name', 'ref_struct_name injective (element types of depth <= 1)', ob_encode, ('quick', 'thorough'), 3,
                      dict(top=['TStruct', 'TInt32', 'TBool', 'TTuple', 'TVec', 'TRef'], inner=['TStruct', 'TInt32'], leaves=['TStruct', 'TInt32'], names=('A', 'a', 'A_B'), vec_len=(0, 2), depth=1, fn='ref_struct_name')))
        obs.append(Ob('O19.4b-go_type_name_for', 'go_type_name_for injective (tuple / array / vec / ref / fn helper type names, depth <= 1)', ob_encode, ('quick', 'thorough'), 3,
                      dict(top=['TTuple', 'TArray', 'TVec', 'TRef', 'TFunc', 'TStruct', 'TInt32'], inner=['TStruct', 'TInt32', 'TBool'], leaves=['TStruct', 'TInt32', 'TBool'], names=('A', 'B', 'A_B', 'Tuple2_A_B'), vec_len=(0, 2), depth=1, fn='go_type_name_for')))
        obs.append(Ob('O19.4b-go_type_name_for-fn2', 'go_type_name_for injective on nested function types (0..1 parameters, depth 2)', ob_encode, ('quick', 'thorough'), 3,
                      dict(top=['TFunc', 'TTuple'], inner=['TFunc', 'TInt32', 'TBool'], leaves=['TInt32', 'TBool'], names=('A',), vec_len=(0, 1), depth=2, fn='go_type_name_for')))
    return obs

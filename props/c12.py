"""C12 - lossless tree, exact positions: CST tiles the token list (E2, same exploration as C04) + scanner / kind mapping kernels (E1)."""
from props import parser_ob
def obligations():
    parser_ob.ACCEPT_KEYS = {'lossy-tree', 'bad-root', 'diag-range'}
    obs = parser_ob.obligations_seq('O12.4') + parser_ob.obligations_templates('O12.4')
    from props import selftest_ob
    obs += selftest_ob.parser_obligations('O12.0')
    obs += parser_ob.obligations_parse_entry('O12.5')
    obs += parser_ob.obligations_lexer_wrapper('O12.6')
    try:
        from props import e1_obs
        obs += e1_obs.c12_obligations()
    except ImportError: pass
    return obs
META = {
    'level': 'other',
    'explanation': 'Bounded solver-checked obligations over the real parser and tree builder: on every feasible path of Parser::new -> file::file -> Parser::build_tree (MIR of the current tree, token kinds symbolic over the full TokenKind list incl. trivia and Error) the recorder standing in for rowan must have received every input token exactly once and in order inside a single FILE root (with abstract token texts this is "every byte exactly once and in order"), and every parser diagnostic range must be None or the range of one input token. Parsing twice follows the same path, hence gives the same tree.',
    'assumptions': ['the logos DFA (token tiling of the text) is outside this claim', 'token texts abstract'],
    'trusted_base': ['mirsym MIR interpreter', 'std/rowan models listed per obligation', 'z3', 'rustc nightly MIR dump', 'rustdoc JSON type tables'],
}

"""C03 - type soundness: claimed for the unifier (Typer::unify / norm / occurs) under E2."""
import json
import z3
from vlib import e2
from vlib.core import Ob, Finding
import mirsym as ms
from mirsym.lazy import Spec, force
from mirsym.engine import Agg, LazyEnum, PyVec, Str, Ref, Opaque, Unsupported, Panic, unbox, mkbox, mkstr, is_sym, zi, zand

CRATES = ('compiler', 'common_defs', 'diagnostics', 'parser')
WILDCARD = 2 ** 64 - 1
SMALL = ['TInt32', 'TBool', 'TStruct', 'TParam']
LEAVES = ['TUnit', 'TBool', 'TInt8', 'TInt16', 'TInt32', 'TInt64', 'TUint8', 'TUint16', 'TUint32', 'TUint64', 'TFloat32', 'TFloat64', 'TString', 'TEnum', 'TStruct', 'TDyn', 'TParam']

class UTable:
    """ena::InPlaceUnificationTable<TypeVar> with Value = Option<Ty> (EqUnifyValue): a union-find with optional values"""
    def __init__(s): s.parent = []; s.value = []
    def find(s, i):
        while s.parent[i] != i: i = s.parent[i]
        return i

def ena_overrides(c):
    def ov(f, g):
        if 'UnificationTable' not in g: return None
        op = g.rsplit('::', 1)[1]
        def m_ena(ex, f_, a, op=op):
            t = ex.deref(a[0]) if a else None
            if op == 'new': return UTable()
            if op == 'new_key':
                t.parent.append(len(t.parent)); t.value.append(a[1]); return Agg(c.TV.key, 0, [len(t.parent) - 1])
            if op == 'find': return Agg(c.TV.key, 0, [t.find(a[1].fields[0])])
            if op == 'probe_value':
                v = t.value[t.find(a[1].fields[0])]
                return v if v.idx == 0 else ms.some(ms.deep_clone(ex, v.fields[0]))
            if op == 'unify_var_var':
                x, y = t.find(a[1].fields[0]), t.find(a[2].fields[0])
                if x == y: return ms.ok(ms.UNIT)
                vx, vy = t.value[x], t.value[y]
                if vx.idx == 1 and vy.idx == 1:
                    if not ex.branch_bool(c.ty_eq(ex, vx.fields[0], vy.fields[0])): return ms.err(Agg('tuple', 0, [vx.fields[0], vy.fields[0]]))
                t.parent[y] = x
                if vx.idx == 0: t.value[x] = vy
                return ms.ok(ms.UNIT)
            if op == 'unify_var_value':
                x = t.find(a[1].fields[0]); vx = t.value[x]; nv = a[2]
                if vx.idx == 1 and nv.idx == 1:
                    if not ex.branch_bool(c.ty_eq(ex, vx.fields[0], nv.fields[0])): return ms.err(Agg('tuple', 0, [vx.fields[0], nv.fields[0]]))
                    return ms.ok(ms.UNIT)
                if nv.idx == 1: t.value[x] = nv
                return ms.ok(ms.UNIT)
            raise Unsupported('ena op ' + op)
        m_ena.__name__ = 'm_ena_' + op
        return m_ena
    return ov

class Ctx:
    def __init__(s, W):
        s.W = W; s.TY = W.tt.find_adt(['tast', 'Ty'], 'compiler'); s.TV = W.tt.find_adt(['tast', 'TypeVar'], 'compiler')
    def mk(s, n, *f): return Agg(s.TY.key, s.TY.vindex(n), list(f))
    def ty_eq(s, ex, a, b):
        """structural equality of two materialised tast::Ty values (python/z3)"""
        a = unbox(a) if isinstance(a, Agg) and a.ty == 'Box' else a; b = unbox(b) if isinstance(b, Agg) and b.ty == 'Box' else b
        if isinstance(a, LazyEnum) or isinstance(b, LazyEnum): a, b = force(ex, a), force(ex, b)
        if a.idx != b.idx: return False
        parts = []
        for x, y in zip(a.fields, b.fields):
            if isinstance(x, Str): parts.append(ms.str_eq(x.chars, y.chars))
            elif isinstance(x, PyVec):
                if len(x.items) != len(y.items): return False
                parts += [s.ty_eq(ex, p, q) for p, q in zip(x.items, y.items)]
            elif isinstance(x, (Agg, LazyEnum)):
                if isinstance(x, Agg) and x.ty == s.TV.key: parts.append(x.fields[0] == y.fields[0])
                else: parts.append(s.ty_eq(ex, x, y))
            else: parts.append((zi(x) == zi(y)) if (is_sym(x) or is_sym(y)) else x == y)
        return zand(*parts)

def build(c, ex, spec, sk, tag, lens):
    """skeleton -> tast::Ty value; 'h' = lazily chosen leaf type"""
    if sk == 'h': return spec.make_adt(ex, c.TY, 0, tag, {})
    if sk == 's':
        old = spec.leaves['Ty']; spec.leaves['Ty'] = SMALL
        try: return spec.make_adt(ex, c.TY, 0, tag, {})
        finally: spec.leaves['Ty'] = old
    k = sk[0]
    if k == 'Tuple': return c.mk('TTuple', PyVec([build(c, ex, spec, x, '%s.%d' % (tag, i), lens) for i, x in enumerate(sk[1])]))
    if k == 'Array':
        ex.fresh += 1; n = z3.Int('%s.len%d' % (tag, ex.fresh)); ex.assume(z3.Or(n == 1, n == 2, n == WILDCARD)); lens.append(n)
        return c.mk('TArray', n, mkbox(build(c, ex, spec, sk[1], tag + '.e', lens)))
    if k == 'Vec': return c.mk('TVec', mkbox(build(c, ex, spec, sk[1], tag + '.e', lens)))
    if k == 'Ref': return c.mk('TRef', mkbox(build(c, ex, spec, sk[1], tag + '.e', lens)))
    if k == 'Func': return c.mk('TFunc', PyVec([build(c, ex, spec, x, '%s.p%d' % (tag, i), lens) for i, x in enumerate(sk[1])]), mkbox(build(c, ex, spec, sk[2], tag + '.r', lens)))
    if k == 'App': return c.mk('TApp', mkbox(c.mk('TEnum', spec.make_string(ex, tag))), PyVec([build(c, ex, spec, x, '%s.a%d' % (tag, i), lens) for i, x in enumerate(sk[1])]))
    if k == 'Var': return c.mk('TVar', Agg(c.TV.key, 0, [sk[1]]))
    raise Unsupported('skeleton ' + str(sk))

def typer_value(c, W, nvars):
    t = UTable()
    for i in range(nvars): t.parent.append(i); t.value.append(ms.NONE())
    TYP = W.tt.find_adt(['typer', 'Typer'], 'compiler')
    return Agg(TYP.key, 0, [t, PyVec([]), Opaque('hir_table'), Opaque('results')]), t

def ob_ground(r, tier, seed, pairs):
    W = e2.fresh_world(CRATES); c = Ctx(W); W.overrides = [ena_overrides(c)]
    spec = Spec(W.tt, allowed={'Ty': LEAVES}, leaves={'Ty': LEAVES}, strings=('A', 'B'), depth=0)
    DI = W.tt.find_adt(['diagnostics', 'Diagnostics'], 'diagnostics')
    r.bounds = 'skeleton pairs %s; hole h ranges over all %d leaf constructors, hole s over {int32, bool, struct A|B, type parameter A|B} (nominal names in {A,B}); array lengths in {1, 2, wildcard}' % (json.dumps(pairs)[:400], len(LEAVES))
    r.assumptions = ['ground types only in this obligation (TVar: see O3.3)', 'oracle: unify(a,b) <=> a == b structurally, except arrays: unequal lengths are accepted iff one is ARRAY_WILDCARD_LEN; false <=> at least one diagnostic',
                     'ena::InPlaceUnificationTable modelled as union-find with optional values']
    found = {}
    for ska, skb in pairs:
        def entry(ex, ska=ska, skb=skb):
            la, lb = [], []
            a = build(c, ex, spec, ska, 'a', la); b = build(c, ex, spec, skb, 'b', lb)
            ty, _ = typer_value(c, W, 0)
            h = {0: ty, 1: Agg(DI.key, 0, [PyVec([])]), 2: a, 3: b}
            res = ex.call('typer::unify::<impl typer::Typer>::unify', [Ref(h, i) for i in range(4)])
            if is_sym(res): res = ex.branch_bool(res)
            nd = len(h[1].fields[0].items)
            return bool(res), nd, force(ex, h[2]), force(ex, h[3]), la, lb
        res = e2.explore(r, W, entry, [])
        for p in res:
            r.cases += 1
            if p.kind != 'ok':
                found.setdefault('panic', ('unify panics on %s / %s: %s' % (ska, skb, p.value), None)); continue
            got, nd, a, b, la, lb = p.value
            ex0 = None
            eq = oracle_eq(c, a, b)
            m, dt = e2.check(p.pc + [zi(eq) != got]); r.queries += 1; r.solver_s += dt
            r.nontrivial += 1
            if m is not None:
                found.setdefault('unify-differs-from-equality', ('unify(%s, %s) = %s but the oracle says %s (array lengths %s)' % (show(c, a, m), show(c, b, m), got, not got, [e2.mval(m, x) for x in la + lb]), None))
            if got == (nd > 0):
                found.setdefault('diagnostic-mismatch', ('unify(%s, %s) = %s with %d diagnostics' % (show(c, a, None), show(c, b, None), got, nd), None))
            elif len(r.samples) < 3: r.samples.append({'a': show(c, a, None), 'b': show(c, b, None), 'unify': got})
    for key, (what, _) in found.items():
        r.findings.append(Finding(key, what, {}, True, 'result of the real Typer::unify MIR on the printed types'))

def oracle_eq(c, a, b):
    """equality with the array-length wildcard rule"""
    a = unbox(a) if isinstance(a, Agg) and a.ty == 'Box' else a; b = unbox(b) if isinstance(b, Agg) and b.ty == 'Box' else b
    if a.idx != b.idx: return False
    n = c.TY.variants[a.idx].name
    if n == 'TArray':
        la, lb = a.fields[0], b.fields[0]
        return zand(z3.Or(zi(la) == zi(lb), zi(la) == WILDCARD, zi(lb) == WILDCARD), oracle_eq(c, a.fields[1], b.fields[1]))
    parts = []
    for x, y in zip(a.fields, b.fields):
        if isinstance(x, Str): parts.append(ms.str_eq(x.chars, y.chars))
        elif isinstance(x, PyVec):
            if len(x.items) != len(y.items): return False
            parts += [oracle_eq(c, p, q) for p, q in zip(x.items, y.items)]
        elif isinstance(x, Agg): parts.append(oracle_eq(c, x, y))
        else: parts.append((zi(x) == zi(y)) if (is_sym(x) or is_sym(y)) else x == y)
    return zand(*parts)

def show(c, t, m):
    t = unbox(t) if isinstance(t, Agg) and t.ty == 'Box' else t
    if isinstance(t, LazyEnum): return '?'
    n = c.TY.variants[t.idx].name
    def f(x):
        if isinstance(x, Str): return ms.pystr(x)
        if isinstance(x, PyVec): return '[' + ', '.join(show(c, y, m) for y in x.items) + ']'
        if isinstance(x, Agg): return show(c, x, m) if x.ty in (c.TY.key, 'Box') else str(x.fields)
        if is_sym(x): return str(e2.mval(m, x)) if m is not None else str(x)
        return str(x)
    return n + ('(' + ', '.join(f(x) for x in t.fields) + ')' if t.fields else '')

def ob_tvar(r, tier, seed):
    W = e2.fresh_world(CRATES); c = Ctx(W); W.overrides = [ena_overrides(c)]
    spec = Spec(W.tt, allowed={'Ty': LEAVES}, leaves={'Ty': LEAVES}, strings=('A', 'B'), depth=0)
    DI = W.tt.find_adt(['diagnostics', 'Diagnostics'], 'diagnostics')
    r.bounds = 'TVar 0 against: ground G in {h, Tuple[h], Vec h, Func([h],h)}; types containing TVar 0 (occurs); a second unification with another ground G2; TVar 0 vs TVar 1 then TVar 1 vs G'
    r.assumptions = ['ena table modelled as union-find with optional values (EqUnifyValue: merging two different values fails)']
    found = {}
    grounds = ['h', ('Tuple', ['s']), ('Vec', 's'), ('Func', ['s'], 's')]
    occ = [('Tuple', [('Var', 0)]), ('Vec', ('Var', 0)), ('Func', [('Var', 0)], 's'), ('Func', ['s'], ('Var', 0)), ('Array', ('Var', 0)), ('Ref', ('Tuple', ['s', ('Var', 0)]))]
    def run(ex, steps, nvars=2):
        ty, tab = typer_value(c, W, nvars)
        h = {0: ty, 1: Agg(DI.key, 0, [PyVec([])])}
        outs = []
        for (x, y) in steps:
            h[2], h[3] = x, y
            res = ex.call('typer::unify::<impl typer::Typer>::unify', [Ref(h, i) for i in range(4)])
            if is_sym(res): res = ex.branch_bool(res)
            outs.append(bool(res))
        return h, outs
    # (a) occurs check
    for sk in occ:
        def entry(ex, sk=sk):
            t = build(c, ex, spec, sk, 't', []); v = build(c, ex, spec, ('Var', 0), 'v', [])
            side = ex.choose([(True, 0), (True, 1)])
            h, outs = run(ex, [(v, t) if side == 0 else (t, v)])
            return outs[0], len(h[1].fields[0].items)
        for p in e2.explore(r, W, entry, []):
            r.cases += 1; r.nontrivial += 1
            if p.kind != 'ok': found.setdefault('panic', 'unify panics in occurs check: %s' % p.value); continue
            if p.value[0] or p.value[1] == 0: found.setdefault('occurs-check-missing', 'unify(TVar 0, %s) = %s with %d diagnostics (must be rejected: infinite type)' % (json.dumps(sk), p.value[0], p.value[1]))
    # (b) binding: unify(v, G) ; norm(v) == G ; unify(v, G2) <=> G == G2
    for sk in grounds:
        for sk2 in grounds:
            def entry(ex, sk=sk, sk2=sk2):
                g = build(c, ex, spec, sk, 'g', []); g2 = build(c, ex, spec, sk2, 'k', [])
                v = build(c, ex, spec, ('Var', 0), 'v', []); v1 = build(c, ex, spec, ('Var', 1), 'w', [])
                via = ex.choose([(True, 0), (True, 1)])
                steps = [(v, g)] if via == 0 else [(v, v1), (v1, g)]
                ty, tab = typer_value(c, W, 2)
                h = {0: ty, 1: Agg(DI.key, 0, [PyVec([])])}
                outs = []
                for (x, y) in steps + [(build(c, ex, spec, ('Var', 0), 'v2', []), g2)]:
                    h[2], h[3] = x, y
                    res = ex.call('typer::unify::<impl typer::Typer>::unify', [Ref(h, i) for i in range(4)])
                    if is_sym(res): res = ex.branch_bool(res)
                    outs.append(bool(res))
                h[4] = build(c, ex, spec, ('Var', 0), 'v3', [])
                nv = ex.call('typer::unify::<impl typer::Typer>::norm', [Ref(h, 0), Ref(h, 4)])
                gf, g2f = force(ex, g), force(ex, g2)
                return outs, c.ty_eq(ex, nv, gf), c.ty_eq(ex, gf, g2f), show(c, gf, None), show(c, g2f, None)
            for p in e2.explore(r, W, entry, []):
                r.cases += 1; r.nontrivial += 1
                if p.kind != 'ok': found.setdefault('panic', 'unify panics with type variables: %s' % p.value); continue
                outs, normeq, same, sg, sg2 = p.value
                if not all(outs[:-1]): found.setdefault('binding-rejected', 'unify(TVar, %s) is rejected' % sg)
                elif normeq is not True and not (is_sym(normeq) and e2.check(p.pc + [z3.Not(normeq)])[0] is None): found.setdefault('norm-not-bound-type', 'after unify(TVar 0, %s), norm(TVar 0) is not that type' % sg)
                else:
                    want = same if not is_sym(same) else None
                    if want is not None and outs[-1] != want: found.setdefault('rebinding', 'after TVar 0 := %s, unify(TVar 0, %s) = %s' % (sg, sg2, outs[-1]))
                if len(r.samples) < 3: r.samples.append({'bind': sg, 'then': sg2, 'results': outs})
    for key, what in found.items(): r.findings.append(Finding(key, what, {}, True, 'result of the real Typer::unify / norm MIR'))

H = 's'
def obligations():
    comp = [('Tuple', [H]), ('Tuple', [H, H]), ('Array', H), ('Vec', H), ('Ref', H), ('Func', [H], H), ('Func', [], H), ('App', [H]), ('App', [H, H]), ('Tuple', [])]
    same = [(x, x) for x in comp]
    cross = [(x, y) for i, x in enumerate(comp) for j, y in enumerate(comp) if i < j]
    nested = [(('Tuple', [('Vec', H), H]), ('Tuple', [('Vec', H), H])), (('Func', [('Tuple', [H])], ('Ref', H)), ('Func', [('Tuple', [H])], ('Ref', H))),
              (('Array', ('Array', H)), ('Array', ('Array', H))), (('App', [('Tuple', [H, H])]), ('App', [('Tuple', [H, H])])), (('Vec', ('Vec', H)), ('Vec', ('Ref', H)))]
    return [Ob('O3.1-leaf-pairs', 'unify <=> equality on all pairs of leaf types', ob_ground, ('quick', 'thorough'), 1, dict(pairs=[('h', 'h')])),
            Ob('O3.1-same-constructor', 'unify <=> equality (array wildcard rule) under every composite constructor', ob_ground, ('quick', 'thorough'), 5, dict(pairs=same)),
            Ob('O3.1-cross-constructor', 'unify rejects different composite constructors / leaf vs composite', ob_ground, ('quick', 'thorough'), 5, dict(pairs=cross + [('h', x) for x in comp] + [(x, 'h') for x in comp])),
            Ob('O3.1-nested', 'unify <=> equality on nested skeletons', ob_ground, ('quick', 'thorough'), 20, dict(pairs=nested)),
            Ob('O3.3-tvar', 'occurs check; TVar binding; norm; rebinding', ob_tvar, ('quick', 'thorough'), 10, {})] + __import__('props.pat_ob', fromlist=['x']).obligations() + __import__('props.ctrl_ob', fromlist=['x']).obligations() + __import__('props.self_ob', fromlist=['x']).obligations()

META = {
    'level': 'other',
    'explanation': 'Bounded solver-checked obligations over the real unifier: the MIR of Typer::unify, Typer::norm (+closures) and occurs of the current tree is executed on pairs of types built from skeletons whose holes are lazily initialised leaf types (constructor and name choices are solver decisions, array lengths symbolic incl. the wildcard); unify must return true exactly when the types are equal (array wildcard rule), false exactly when it pushed a diagnostic; with type variables: the occurs check rejects infinite types, a bound variable normalises to its type and can only be re-unified with an equal type.',
    'assumptions': ['constraint generation (infer/check), overload and field constraints, well-typedness of Core/Mono/Lift/ANF and rejection of ill-typed programs are outside the claim', 'ena table modelled'],
    'trusted_base': ['mirsym MIR interpreter', 'ena union-find model', 'library models listed per obligation', 'z3'],
}

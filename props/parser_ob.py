"""The whole parser under E2: Parser::new -> file::file -> Parser::build_tree on symbolic token kinds (C04 / C11 / C12)."""
import json
import z3
from vlib import e2, build
from vlib.core import Ob, Finding
import mirsym as ms
from mirsym.engine import Agg, LazyEnum, PyVec, Str, Ref, Opaque, Panic, Limit, Unsupported, Infeasible, mkstr

CRATES = ('parser', 'lexer', 'diagnostics')
ACCEPT_KEYS = None      # set by the property module: C04 = {panic, hang}; C12 = {lossy-tree, bad-root, diag-range}

def stub_overrides(f, g):
    # diagnostic *text* is not the subject: Display of a token kind is one opaque character (kind names fork ~100 ways otherwise)
    if g in ('<TokenKind as ToString>::to_string', '<lexer::TokenKind as ToString>::to_string'):
        def m_tokenkind_to_string_stub(ex, f, a): return Str([0xFFFD])
        return m_tokenkind_to_string_stub
    return None

class PW:
    """parser world: the executor world plus the tables the oracles need"""
    def __init__(s):
        s.W = e2.fresh_world(CRATES); s.W.overrides = [stub_overrides]
        s.W.step_limit = 600000
        tt = s.W.tt
        s.TK = tt.find_adt(['lexer', 'TokenKind'], 'parser'); s.SK = tt.find_adt(['syntax', 'MySyntaxKind'], 'parser')
        s.EV = tt.find_adt(['event', 'Event'], 'parser'); s.TOK = tt.find_adt(['lexer', 'Token'], 'parser')
        s.kinds = s.TK.vnames(); s.eof = s.TK.vindex('Eof')
        s.trivia = [s.TK.vindex('Whitespace'), s.TK.vindex('Comment')]

def kind_value(pw, ex, k, tag):
    """k: variant name | z3 Int | list of variant names (symbolic choice)"""
    if isinstance(k, str): return Agg(pw.TK.key, pw.TK.vindex(k), [])
    le = LazyEnum(pw.TK, k, 0, None, tag); return le

def run_parser(pw, ex, kinds):
    toks = PyVec([Agg(pw.TOK.key, 0, [kind_value(pw, ex, k, 'k%d' % i), mkstr('t%d' % i), Agg('TextRange', 0, [i, i + 1])]) for i, k in enumerate(kinds)])
    path = Opaque('path')
    p = ex.call('Parser::new', [path, toks], 'parser')
    h = [p]
    try:
        ex.call('file::file', [Ref(h, 0)], 'parser')
    except Limit as e:
        raise Panic('HANG-CANDIDATE: ' + str(e))
    P = h[0]
    pf = dict(zip([f[0] for f in pw.W.tt.find_adt(['parser', 'Parser'], 'parser').variants[0].fields], P.fields))
    events = list(pf['events'].items)
    depth = 0; adv = 0
    for e in events:
        n = pw.EV.variants[e.idx].name
        if n == 'Open': depth += 1
        elif n == 'Close': depth -= 1
        elif n == 'Advance': adv += 1
    # balance is judged where it matters: by the tree builder (tombstone Opens start no node); see the recorder's contract
    pre_diags = list(ex.deref(pf['diagnostics']).fields[0].items) if isinstance(ex.deref(pf['diagnostics']), Agg) else list(ex.deref(pf['diagnostics']).items)
    stuck = len(pre_diags)
    res = ex.call('Parser::build_tree', [P], 'parser')
    rf = res.fields
    b = rf[0]; diags = rf[1]
    ditems = diags.fields[0].items if isinstance(diags, Agg) else diags.items
    emitted = [ms.pystr(ex.deref(op[2])) for op in b.ops if op[0] == 'token']
    return {'events': len(events), 'advances': adv, 'emitted': emitted, 'ops': b.ops, 'diags': ditems, 'stuck': stuck}

def diag_range(ex, d):
    """range field of a diagnostics::Diagnostic value -> None | (start, end)"""
    for f in d.fields:
        f = ex.deref(f)
        if isinstance(f, Agg) and f.ty == 'Option':
            if f.idx == 0: return None
            r = f.fields[0]
            if isinstance(r, Agg) and r.ty == 'TextRange': return (r.fields[0], r.fields[1])
    raise Unsupported('diagnostic without range field: %r' % (d,))

def check_path(pw, ex, n, out):
    """per-path assertions of O4.2 / O12.4 - raise Panic with a message describing the broken contract"""
    want = ['t%d' % i for i in range(n)]
    if out['emitted'] != want: raise Panic('LOSSY-TREE: tokens in tree %r, input %r' % (out['emitted'], want))
    starts = [op for op in out['ops'] if op[0] == 'start']
    if not starts or starts[0][1] != pw.SK.vindex('FILE'): raise Panic('ROOT: first node is not FILE')
    for d in out['diags']:
        r = diag_range(ex, d)
        if r is not None and not (0 <= r[0] <= r[1] <= max(n, 0) and (n == 0 or r[1] - r[0] == 1)):
            raise Panic('DIAG-RANGE: %r outside the token ranges of %d tokens' % (r, n))

def native_parse(kind_names, timeout=20, table=None):
    req = json.dumps({'fn': 'parse_kinds', 'args': [kind_names, table]}) + '\n'
    try:
        rc, out, errt = build.run_driver('vreplay', req, timeout=timeout)
    except Exception as e:
        if 'TimeoutExpired' in type(e).__name__: return {'hang': True}
        raise
    for l in out.splitlines():
        if l.strip(): return json.loads(l)
    return {'error': errt[-300:], 'rc': rc}

def explore_tokens(r, pw, kind_specs, assumptions, syms, label, path_limit=300000, allowed_for=None):
    """kind_specs: list of variant names / z3 Ints.  Returns path results; converts broken contracts into Findings (replayed natively)."""
    n = len(kind_specs); allowed_for = allowed_for or {}
    allowed = [i for i in range(len(pw.kinds)) if i != pw.eof]
    def entry(ex):
        for k in kind_specs:
            if not isinstance(k, str) and not getattr(k, '_restricted', None): ex.restrict(k, allowed_for.get(k.get_id(), allowed))
        out = run_parser(pw, ex, kind_specs)
        check_path(pw, ex, n, out)
        return (out['events'], out['advances'], out['stuck'], len(out['diags']))
    res = e2.explore(r, pw.W, entry, assumptions, path_limit=path_limit)
    seen = set()
    for p in res:
        r.cases += 1
        if p.kind == 'ok':
            r.nontrivial += 1; continue
        cls = p.value.split(':')[0] if p.value.split(':')[0].isupper() or '-' in p.value.split(':')[0] else 'PANIC'
        m, _ = e2.check(list(assumptions) + p.pc)
        names = [k if isinstance(k, str) else pw.kinds[e2.mval(m, k)] for k in kind_specs]
        key = {'HANG-CANDIDATE': 'hang', 'LOSSY-TREE': 'lossy-tree', 'ROOT': 'bad-root', 'DIAG-RANGE': 'diag-range'}.get(cls, 'panic')
        if (key, p.value[:60]) in seen or any(f.key == key for f in r.findings): continue
        seen.add((key, p.value[:60]))
        nat = native_parse(names, table=pw.kinds)
        if key == 'hang': ok = bool(nat.get('hang'))
        elif key == 'panic': ok = bool(nat.get('panic'))
        elif key == 'lossy-tree': ok = nat.get('ok', {}).get('tree_tokens') != nat.get('ok', {}).get('input_tokens') if 'ok' in nat else False
        elif key == 'diag-range': ok = nat.get('ok', {}).get('bad_ranges', 0) > 0 if 'ok' in nat else False
        else: ok = 'ok' in nat and nat['ok'].get('root') != 'FILE'
        if ACCEPT_KEYS is not None and key not in ACCEPT_KEYS:
            r.notes.append('finding of another property ignored here: %s on %s' % (key, names)); continue
        r.findings.append(Finding(key, 'parser on token kinds %s: %s' % (names, p.value[:200]), {'kinds': names, 'native': nat, 'stack': p.notes.get('stack')}, ok, json.dumps(nat)[:300]))
    return res

def all_kinds_assumption(pw, ks):
    return [z3.And(k >= 0, k < len(pw.kinds), k != pw.eof) for k in ks]

# ----------------------------------------------------------------------------- obligations
def ob_all_sequences(r, tier, seed, n, first=None):
    pw = PW()
    ks = [z3.Int('k%d' % i) for i in range(n)]
    ass = all_kinds_assumption(pw, ks)
    specs = list(ks)
    if first is not None: specs[0] = first
    r.bounds = 'every sequence of %d token kinds over the full TokenKind list (%d kinds incl. trivia and Error; Eof excluded: the lexer never emits it)%s' % (n, len(pw.kinds) - 1, '' if first is None else '; first kind fixed to %s (shard)' % first)
    r.assumptions = ['token texts and ranges are abstract (text t_i, range [i,i+1)); <TokenKind as ToString>::to_string stubbed (diagnostic wording is not checked)',
                     'rowan::GreenNodeBuilder replaced by a recorder that enforces its panicking contract (finish_node on empty stack, token outside node, more than one root)']
    res = explore_tokens(r, pw, specs, [], ks, 'seq%d' % n)
    fuel = sum(1 for p in res if p.kind == 'ok' and p.value[2] > 0)
    r.notes.append('paths on which fuel ran out at least once (allowed: a diagnostic is produced): %d' % fuel)
    for p in res[:3]:
        if p.kind == 'ok':
            m, _ = e2.check(ass + p.pc); r.samples.append({'kinds': [k if isinstance(k, str) else pw.kinds[e2.mval(m, k)] for k in specs], 'events': p.value[0], 'advances': p.value[1], 'diagnostics': p.value[3]})

def obligations_seq(prefix='O4.2'):
    obs = [Ob(prefix + '-seq-0', 'parser on the empty token sequence', ob_all_sequences, ('quick', 'thorough'), 1, dict(n=0)),
           Ob(prefix + '-seq-1', 'parser on every single token', ob_all_sequences, ('quick', 'thorough'), 1, dict(n=1)),
           Ob(prefix + '-seq-2', 'parser on every pair of tokens', ob_all_sequences, ('quick', 'thorough'), 20, dict(n=2))]
    # three tokens: one shard per first kind (thorough)
    import os, json as _j
    try:
        kinds = _kind_names()
        for k in kinds:
            if k != 'Eof': obs.append(Ob(prefix + '-seq-3-' + k, 'parser on every token triple starting with ' + k, ob_all_sequences, ('thorough',), 40, dict(n=3, first=k)))
    except Exception: pass
    return obs

def _kind_names():
    W = e2.world(CRATES); return W.tt.find_adt(['lexer', 'TokenKind'], 'parser').vnames()

# ----------------------------------------------------------------------------- templates: valid skeletons with arbitrary holes
_skel = None
def skeletons(pw):
    """[(source text, [kind names without trivia])] - lexed by the real lexer of the current tree; each must parse cleanly"""
    global _skel
    if _skel is None:
        import os
        lines = [l.rstrip('\n') for l in open(os.path.join(os.path.dirname(__file__), 'skeletons.txt')) if l.strip() and not l.startswith('#')]
        rc, out, errt = build.run_driver('vreplay', '\n'.join(json.dumps({'fn': 'lex', 'args': [l]}) for l in lines) + '\n')
        rc2, out2, _ = build.run_driver('vreplay', '\n'.join(json.dumps({'fn': 'parse_text', 'args': [l]}) for l in lines) + '\n')
        sk = []
        for l, o, o2 in zip(lines, out.splitlines(), out2.splitlines()):
            toks = json.loads(o)['ok']; d = json.loads(o2)['ok']['diagnostics']
            if d: raise Unsupported('skeleton does not parse cleanly on this tree (%r): %s' % (l, d))
            sk.append((l, [t[0] for t in toks if t[0] not in ('Whitespace', 'Comment')]))
        _skel = sk
    return _skel

def ob_templates(r, tier, seed, shard, nshards, holes):
    pw = PW()
    sk = skeletons(pw)
    mine = [s_ for i, s_ in enumerate(sk) if i % nshards == shard]
    r.bounds = '%d of %d valid skeletons (<= %d tokens each; whitespace token between all tokens in replace mode): %s' % (
        len(mine), len(sk), max(len(k) for _, k in sk), {1: 'any one position replaced by / preceded by an arbitrary token kind, or deleted', 2: 'any two positions replaced by arbitrary token kinds (skeletons <= 16 tokens)'}[holes])
    r.assumptions = ['as O4.2-seq: abstract token texts/ranges, TokenKind Display stubbed, rowan recorder']
    for text, kinds in mine:
        L = len(kinds)
        variants = []
        if holes == 1:
            for i in range(L):
                k = z3.Int('h'); ws = []
                for j, kn in enumerate(kinds):
                    ws.append(k if j == i else kn)
                    if j + 1 < L: ws.append('Whitespace')
                variants.append(('replace@%d' % i, ws))
                variants.append(('delete@%d' % i, kinds[:i] + kinds[i + 1:]))
                variants.append(('insert@%d' % i, kinds[:i] + [z3.Int('h')] + kinds[i:]))
        else:
            if L > 16: continue
            for i in range(L):
                for j in range(i + 1, L):
                    ws = list(kinds); ws[i] = z3.Int('h1'); ws[j] = z3.Int('h2'); variants.append(('replace@%d,%d' % (i, j), ws))
        for label, specs in variants:
            res = explore_tokens(r, pw, specs, [], [], label)
        if len(r.samples) < 3: r.samples.append({'skeleton': text, 'variants': len(variants)})

def obligations_templates(prefix='O4.2'):
    obs = []
    for sh in range(16):
        obs.append(Ob(prefix + '-tmpl1-s%02d' % sh, 'parser on valid skeletons with one arbitrary hole / deletion / insertion', ob_templates, ('quick', 'thorough'), 30, dict(shard=sh, nshards=16, holes=1)))
    for sh in range(32):
        obs.append(Ob(prefix + '-tmpl2-s%02d' % sh, 'parser on valid skeletons with two arbitrary holes', ob_templates, ('thorough',), 100, dict(shard=sh, nshards=32, holes=2)))
    return obs

# ----------------------------------------------------------------------------- O11.2 operator grouping vs the documented level table
# levels from the property statement (loosest to tightest); field access tightest; all binary operators left-associative
LEVELS = [['OrOr'], ['AndAnd'], ['EqEq', 'NotEq'], ['Less', 'Greater', 'LessEq', 'GreaterEq'], ['Plus', 'Minus'], ['Star', 'Slash'], ['Dot']]
PREFIX = ['Minus', 'Bang']

def tree_of(pw, ops):
    """nested (kind, [children]) tree from recorder ops; tokens are their texts"""
    stack = [('ROOT', [])]
    for op in ops:
        if op[0] == 'start': stack.append((pw.SK.variants[op[1]].name, []))
        elif op[0] == 'token': stack[-1][1].append(ms.pystr(op[2]))
        else:
            n = stack.pop(); stack[-1][1].append(n)
    return stack[0][1]

def expr_shape(t):
    """abstract an expression CST: binary -> ('bin', l, optext, r); prefix -> ('pre', optext, e); call -> ('call', f, [args]); leaf -> token text"""
    if isinstance(t, str): return t
    k, ch = t
    sub = [c for c in ch]
    if k == 'EXPR_BINARY':
        es = [c for c in sub]
        if len(es) != 3: return ('bad', k, [expr_shape(c) for c in es])
        return ('bin', expr_shape(es[0]), es[1], expr_shape(es[2]))
    if k == 'EXPR_PREFIX':
        if len(sub) != 2: return ('bad', k, [expr_shape(c) for c in sub])
        return ('pre', sub[0], expr_shape(sub[1]))
    if k == 'EXPR_CALL': return ('call', expr_shape(sub[0]), [expr_shape(c) for c in sub[1][1] if not isinstance(c, str)])
    if k in ('EXPR_IDENT', 'PATH', 'ARG', 'EXPR_PAREN', 'EXPR_INT') or k.startswith('EXPR_'):
        inner = [expr_shape(c) for c in sub]
        return inner[0] if len(inner) == 1 else (k, inner)
    return (k, [expr_shape(c) for c in sub])

def ref_climb(tokens, lvl):
    """reference precedence climber over [(text, kindname)] using only the level table -> same shape abstraction"""
    pos = [0]
    def peek(): return tokens[pos[0]] if pos[0] < len(tokens) else None
    def atom():
        t = tokens[pos[0]]
        if t[1] in PREFIX and t[2] == 'prefix':
            pos[0] += 1
            # unary binds tighter than every binary operator except field access
            e = atom_postfix(); 
            return ('pre', t[0], e)
        pos[0] += 1; return t[0]
    def atom_postfix():
        e = atom()
        while peek() is not None and peek()[1] == 'Dot':
            d = tokens[pos[0]]; pos[0] += 1; r = atom(); e = ('bin', e, d[0], r)
        return e
    def climb(minl):
        lhs = atom_postfix()
        while peek() is not None and peek()[2] == 'binary' and lvl[peek()[1]] >= minl:
            op = tokens[pos[0]]; pos[0] += 1
            rhs = climb(lvl[op[1]] + 1)
            lhs = ('bin', lhs, op[0], rhs)
        return lhs
    return climb(0)

def ob_pratt(r, tier, seed, shape):
    pw = PW()
    binops = [k for l in LEVELS for k in l]
    lvl = {k: i for i, l in enumerate(LEVELS) for k in l}
    # shape: list of 'x' (ident), 'b' (symbolic binary operator), 'p' (symbolic prefix operator)
    specs = []; roles = []; syms = []
    for i, c in enumerate(shape):
        if c == 'x': specs.append('Ident'); roles.append('atom')
        elif c == 'b':
            k = z3.Int('op%d' % i); specs.append(k); roles.append('binary'); syms.append((i, k, binops))
        else:
            k = z3.Int('op%d' % i); specs.append(k); roles.append('prefix'); syms.append((i, k, PREFIX))
    allowed_for = {k.get_id(): [pw.TK.vindex(n) for n in names] for _, k, names in syms}
    r.bounds = 'token shape %s: x = identifier, b = any of the %d binary operators %s, p = any prefix operator %s' % (' '.join(shape), len(binops), binops, PREFIX)
    r.assumptions = ['oracle: 40-line reference precedence climber driven only by the level table of the property statement (|| < && < ==,!= < <,>,<=,>= < +,- < *,/ < unary < field access; binary operators left-associative)']
    def entry(ex):
        for _, k, names in syms: ex.restrict(k, allowed_for[k.get_id()])
        out = run_parser(pw, ex, specs)
        check_path(pw, ex, len(specs), out)
        if out['diags']: raise Panic('GROUPING: diagnostics on a well-formed operator expression')
        t = tree_of(pw, out['ops'])
        return expr_shape(t[0][1][0]) if t and t[0][0] == 'FILE' and len(t[0][1]) == 1 else ('bad-root', t)
    res = e2.explore(r, pw.W, entry, [])
    import itertools
    for p in res:
        r.cases += 1
        if p.kind != 'ok':
            m, _ = e2.check(p.pc); names = [s_ if isinstance(s_, str) else pw.kinds[e2.mval(m, s_)] for s_ in specs]
            nat = native_parse(names, table=pw.kinds)
            r.findings.append(Finding('grouping-panic', 'parser on %s: %s' % (names, p.value[:200]), {'kinds': names}, 'panic' in nat or nat.get('ok', {}).get('diagnostics', 0) > 0)); continue
        # case split on operator *levels*; within each case z3 decides whether some operator choice on this path has that level vector
        from mirsym.engine import unary_set
        independent = all(unary_set(c) is not None for c in p.pc)
        per_var = []
        for i, k, names in syms:
            lv = {}
            for L in (sorted(set(lvl[n] for n in names)) if names is not PREFIX else [None]):
                cnd = [z3.Or(*[k == pw.TK.vindex(n) for n in names if lvl[n] == L])] if L is not None else []
                m, dt = e2.check(p.pc + cnd); r.queries += 1; r.solver_s += dt
                if m is not None: lv[L] = (cnd, pw.kinds[e2.mval(m, k)])
            per_var.append(lv)
        for combo in itertools.product(*[sorted(lv, key=lambda x: -1 if x is None else x) for lv in per_var]):
            cond = [c for lv, L in zip(per_var, combo) for c in lv[L][0]]
            if independent:
                m = {k.get_id(): lv[L][1] for (i, k, names), lv, L in zip(syms, per_var, combo)}
                names = [s_ if isinstance(s_, str) else m[s_.get_id()] for s_ in specs]
            else:
                m, dt = e2.check(p.pc + cond); r.queries += 1; r.solver_s += dt
                if m is None: continue
                names = [s_ if isinstance(s_, str) else pw.kinds[e2.mval(m, s_)] for s_ in specs]
            r.nontrivial += 1
            toks = [('t%d' % i, names[i], roles[i]) for i in range(len(specs))]
            want = ref_climb(toks, lvl)
            if want != p.value:
                nat = native_parse(names, table=pw.kinds)
                if any(f.key == 'wrong-grouping' for f in r.findings): break
                r.findings.append(Finding('wrong-grouping', 'tokens %s group as %r, the documented precedence gives %r' % (names, p.value, want), {'kinds': names, 'got': repr(p.value), 'want': repr(want)}, True, 'shape read from the recorder of the real build_tree'))
                break
            if len(r.samples) < 3: r.samples.append({'kinds': names, 'shape': repr(p.value)})

def obligations_c11_parser():
    shapes = ['xbxbx', 'pxbx', 'xbpx', 'pxbxbx', 'xbpxbx', 'ppx', 'xbxbxbx']
    return [Ob('O11.2-group-' + s_, 'operator grouping on shape ' + ' '.join(s_), ob_pratt, ('quick', 'thorough'), 3 if len(s_) < 7 else 10, dict(shape=list(s_))) for s_ in shapes]

# ----------------------------------------------------------------------------- O12.5 parser::parse hands its input to the lexer verbatim and the tree covers all of it
def ob_parse_entry(r, tier, seed):
    pw = PW(); W = pw.W
    inputs = ['ab', ' ab', '﻿ab', 'ab\n', '\r\nab', '﻿', '']
    r.bounds = 'parser::parse on the input texts %s; lexer::lex replaced by an environment that returns ONE token per character of whatever text it is given (kinds Ident / Whitespace / Error)' % [repr(s_) for s_ in inputs]
    r.assumptions = ['the logos-generated lexer is outside E2\'s reach; the stub stands for any lexer that tiles the text it receives (the real one is checked for tiling in O12.1/O12.2 for its hand-written part only)',
                     'oracle: the texts of the tokens in the tree, concatenated, equal the input passed to parse - nothing is stripped or normalised before lexing - and the root range is the whole input']
    cur = {}
    def stub_lex(ex, a):
        s_ = ex.deref(a[0]); text = ms.pystr(s_); cur['lexed'] = text
        toks = []; pos = 0
        for ch in text:
            k = 'Whitespace' if ch in ' \n\r\t' else ('Ident' if ch.isalnum() else 'Error'); n = len(ch.encode())
            toks.append(Agg(pw.TOK.key, 0, [Agg(pw.TK.key, pw.TK.vindex(k), []), mkstr(ch), Agg('TextRange', 0, [pos, pos + n])])); pos += n
        return PyVec(toks)
    W.stubs['lex'] = stub_lex
    def entry(ex):
        text = ex.choose([(True, s_) for s_ in inputs])
        h = {0: Opaque('path'), 1: mkstr(text)}
        res = ex.call('parser::parse', [Ref(h, 0), Ref(h, 1)], 'parser') if False else ex.call('parse', [Ref(h, 0), Ref(h, 1)], 'parser')
        b = res.fields[0]
        emitted = ''.join(ms.pystr(ex.deref(op[2])) for op in b.ops if op[0] == 'token')
        return text, cur.get('lexed'), emitted
    res = e2.explore(r, W, entry, [])
    for p in res:
        r.cases += 1
        if p.kind != 'ok':
            if not any(f.key == 'panic' for f in r.findings): r.findings.append(Finding('panic', 'parser::parse panics: %s' % p.value, {}, False, 'not replayed'))
            continue
        text, lexed, emitted = p.value
        r.nontrivial += 1
        if lexed != text or emitted != text:
            if r.findings: continue
            nat = None
            try:
                rc, out, errt = build.run_driver('vreplay', json.dumps({'fn': 'parse_text', 'args': [text]}) + '\n')
                tree = json.loads(out.splitlines()[0])['ok']['tree']
                import re as _re
                m_ = _re.search(r'FILE@(\d+)\.\.(\d+)', tree); nat = (int(m_.group(1)), int(m_.group(2))) if m_ else None
            except Exception as e: nat = 'replay failed: %s' % str(e)[:100]
            ok_ = isinstance(nat, tuple) and nat != (0, len(text.encode()))
            r.findings.append(Finding('input-altered-before-lexing', 'parse(%r): the lexer receives %r and the tree contains %r' % (text, lexed, emitted), {'input': text, 'lexed': lexed, 'tree_text': emitted}, ok_, 'native parser::parse on the same text: root range %s, input has %d bytes' % (nat, len(text.encode()))))
    r.samples = []

def obligations_parse_entry(prefix):
    return [Ob(prefix + '-parse-entry', 'parser::parse passes its input to the lexer unchanged; the tree covers it', ob_parse_entry, ('quick', 'thorough'), 1, {})]

# ----------------------------------------------------------------------------- O12.6 the lexer's iterator wrapper passes every logos token through unchanged
def ob_lexer_wrapper(r, tier, seed):
    W = e2.fresh_world(('lexer', 'parser'))
    TK = W.tt.find_adt(['lexer', 'TokenKind'], 'parser') if W.tt.by_name.get('TokenKind') else None
    TK = [a for a in W.tt.by_name['TokenKind']][0]; LX = [a for a in W.tt.by_name['Lexer'] if a.crate == 'lexer'][0]
    texts = ['ab', '// c', '// c\r', ' \r\n', 'a\r', '"s"', '\\\\x\n\\\\y\r', 'é']
    r.bounds = 'one step of <lexer::Lexer as Iterator>::next: the logos lexer (environment) yields Ok(kind) for every TokenKind (solver variable) or Err, with the slice texts %s at an arbitrary span start' % [repr(t) for t in texts]
    r.assumptions = ['the logos-generated automaton is the environment: its next / slice / span are stubs', 'oracle: the token handed on has exactly the slice as text, exactly the span as range, the same kind (Error for Err) - so token texts tile the input whenever the logos spans do']
    cur = {}
    def ov(f, g):
        if 'logos' in g and g.endswith('::next') or g.endswith('Lexer<\'_, TokenKind> as Iterator>::next') or ('logos::Lexer' in g and 'Iterator>::next' in g):
            def m_logos_next(ex, f_, a):
                if cur['res'] == 'none': return ms.NONE()
                if cur['res'] == 'err': return ms.some(ms.err(Agg('tuple', 0, [])))
                return ms.some(ms.ok(cur['kindv']))
            return m_logos_next
        if 'logos' in g and g.endswith('::slice'):
            def m_logos_slice(ex, f_, a): return mkstr(cur['text'])
            return m_logos_slice
        if 'logos' in g and g.endswith('::span'):
            def m_logos_span(ex, f_, a): return Agg('Range', 0, [cur['start'], cur['start'] + len(cur['text'].encode())])
            return m_logos_span
        return None
    W.overrides = [ov]
    kind = z3.Int('kind'); kinds = list(range(len(TK.variants)))
    def entry(ex):
        cur['res'] = ex.choose([(True, 'ok'), (True, 'err'), (True, 'none')])
        cur['text'] = ex.choose([(True, t) for t in texts]); cur['start'] = ex.choose([(True, 0), (True, 7)])
        ex.restrict(kind, kinds)
        from mirsym.engine import LazyEnum
        cur['kindv'] = LazyEnum(TK, kind, 0, None, 'kind')
        h = {0: Agg(LX.key, 0, [Opaque('logos')])}
        out = ex.call('<Lexer as Iterator>::next', [Ref(h, 0)], 'lexer')
        if out.idx == 0: return cur['res'], cur['text'], cur['start'], None
        t = out.fields[0]; tf = dict(zip(['kind', 'text', 'range'], t.fields))
        k = tf['kind']; kd = k.d if isinstance(k, LazyEnum) else k.idx
        rg = tf['range']; 
        return cur['res'], cur['text'], cur['start'], (kd, ms.pystr(ex.deref(tf['text'])), (rg.fields[0], rg.fields[1]))
    res = e2.explore(r, W, entry, [])
    for p in res:
        r.cases += 1
        if p.kind != 'ok':
            if not r.findings: r.findings.append(Finding('panic', 'Lexer::next panics: %s' % p.value, {}, False, 'not replayed'))
            continue
        rs, text, start, out = p.value
        r.nontrivial += 1
        bad = None
        if rs == 'none': bad = None if out is None else 'a token is produced after the end'
        elif out is None: bad = 'no token although logos produced one'
        else:
            kd, t, rg = out
            if t != text: bad = 'token text %r differs from the slice %r' % (t, text)
            elif rg != (start, start + len(text.encode())): bad = 'token range %s differs from the span %s' % (rg, (start, start + len(text.encode())))
            elif rs == 'err' and not (isinstance(kd, int) and TK.variants[kd].name == 'Error'): bad = 'an Err of logos does not become an Error token'
            elif rs == 'ok' and not (kd is kind or (not isinstance(kd, int))): bad = 'the token kind is changed'
        if bad and not r.findings:
            m, _ = e2.check(p.pc); kn = TK.variants[e2.mval(m, kind)].name if m is not None else '?'
            ok_ = False; detail = 'not replayed'
            try:
                # the path condition fixes kind and slice only loosely: replay on sources that make the real lexer produce such tokens
                cands = ['// c\r\nfn f() -> unit { () }\n', 'fn f() -> unit { () } // c\r\n', 'a\r\nb', '"s"\r\n', text, '\u00e9', 'fn f() { \u00e9 }', 'a \u65e5\u672c b', '\U0001F600', 'x\u00a0y', '@', '#$']      # incl. characters no token starts with (Err of logos), one to four bytes long
                rc, o, e_ = build.run_driver('vreplay', '\n'.join(json.dumps({'fn': 'lex', 'args': [c_]}) for c_ in cands) + '\n')
                for c_, l_ in zip(cands, o.splitlines()):
                    toks = json.loads(l_)['ok']; joined = ''.join(t_[1] for t_ in toks)
                    spans_ok = all(t_[3] - t_[2] == len(t_[1].encode()) for t_ in toks)
                    if joined != c_ or not spans_ok:
                        ok_ = True; detail = 'native lexer::lex on %r: token texts concatenate to %r (texts match their ranges: %s)' % (c_, joined, spans_ok); break
                else: detail = 'native lexer::lex reproduces none of %r' % cands
            except Exception as e_: detail = 'native replay failed: %s' % str(e_)[:100]
            r.findings.append(Finding('lexer-wrapper-alters-token', '%s (logos result %s, kind %s)' % (bad, rs, kn), {'text': text, 'kind': kn}, ok_, detail))
    r.samples = []

def obligations_lexer_wrapper(prefix):
    return [Ob(prefix + '-lexer-wrapper', 'the lexer wrapper hands every logos token on unchanged (text = slice, range = span)', ob_lexer_wrapper, ('quick', 'thorough'), 2, {})]

# ----------------------------------------------------------------------------- O4.10 constructs whose look-ahead grows with the input (the trait path of an impl block)
def ob_long_lookahead(r, tier, seed, ks):
    """`impl A::A::..::A <hole> T { }` with k path segments around the fuel constant (256 look-aheads without progress): the look-ahead
    of impl_has_trait walks the whole path; the token after the path is an arbitrary kind."""
    pw = PW(); pw.W.step_limit = 6000000
    r.bounds = 'token sequences `impl (ident ::)^k ident H ident { }` for k in %s, H an arbitrary token kind (with H = `for` a valid impl block whose trait path has k + 1 segments)' % (list(ks),)
    r.assumptions = ['as O4.2-seq: abstract token texts/ranges, TokenKind Display stubbed, rowan recorder', 'additional assertion: with H = `for` the input is a valid program and must parse without diagnostics']
    for k in ks:
        h = z3.Int('h')
        specs = ['ImplKeyword'] + ['Ident', 'ColonColon'] * k + ['Ident', h, 'Ident', 'LBrace', 'RBrace']
        n = len(specs); allowed = [i for i in range(len(pw.kinds)) if i != pw.eof]
        res = explore_tokens(r, pw, specs, [], [], 'path-%d' % k)
        for p in res:
            if p.kind != 'ok': continue
            m, _ = e2.check(list(p.pc) + [h == pw.TK.vindex('ForKeyword')])
            if m is not None and p.value[3] > 0 and not any(f.key == 'valid-impl-rejected' for f in r.findings):
                names = [s_ if isinstance(s_, str) else 'ForKeyword' for s_ in specs]
                nat = native_parse(names, table=pw.kinds)
                nd_ = nat.get('ok', {}).get('diagnostics', 0) if 'ok' in nat else 0; ok_ = bool(nat.get('panic')) or (len(nd_) if isinstance(nd_, list) else int(nd_)) > 0      # a debug build panics in parse_path_inner's debug assertion where the MIR (debug assertions off) reports diagnostics
                if ACCEPT_KEYS is None or 'panic' in ACCEPT_KEYS:
                    r.findings.append(Finding('valid-impl-rejected', 'a valid impl block whose trait path has %d segments is reported with %d parser diagnostics' % (k + 1, p.value[3]), {'segments': k + 1, 'native': str(nat)[:200]}, ok_, json.dumps(nat)[:300]))
    if len(r.samples) < 3: r.samples.append({'k': list(ks)})

def obligations_long_lookahead(prefix='O4.10'):
    return [Ob(prefix + '-long-lookahead-short', 'impl blocks with trait paths of 1..3 segments and an arbitrary token after the path', ob_long_lookahead, ('quick', 'thorough'), 3, dict(ks=(0, 1, 2))),
            Ob(prefix + '-long-lookahead-126', 'impl block with a trait path of 127 segments', ob_long_lookahead, ('quick', 'thorough'), 30, dict(ks=(126,))),
            Ob(prefix + '-long-lookahead-127', 'impl block with a trait path of 128 segments', ob_long_lookahead, ('quick', 'thorough'), 30, dict(ks=(127,))),
            Ob(prefix + '-long-lookahead-128', 'impl block with a trait path of 129 segments', ob_long_lookahead, ('quick', 'thorough'), 30, dict(ks=(128,))),
            Ob(prefix + '-long-lookahead-300', 'impl block with a trait path of 301 segments', ob_long_lookahead, ('thorough',), 60, dict(ks=(300,)))]

# ----------------------------------------------------------------------------- O11.8 trivia may stand anywhere: inserting a comment / blank into a valid program changes nothing but the trivia
def tree_signature(pw, ex, out):
    """recorder ops without the trivia tokens: node starts / finishes and the kinds of the non-trivia tokens, in order"""
    sig = []; triv_sk = None
    for op in out['ops']:
        if op[0] == 'token':
            txt = ms.pystr(ex.deref(op[2])); sig.append(('token', txt))
        elif op[0] == 'start': sig.append(('start', op[1] if isinstance(op[1], int) else str(op[1])))
        else: sig.append(('finish',))
    return sig

def ob_trivia_anywhere(r, tier, seed, shard, nshards):
    pw = PW(); sk = skeletons(pw)
    mine = [s_ for i, s_ in enumerate(sk) if i % nshards == shard]
    r.bounds = '%d of %d valid skeletons (<= %d tokens each); a trivia token (whitespace or comment: solver decision) inserted at every position, including before the first and after the last token' % (len(mine), len(sk), max(len(k) for _, k in sk))
    r.assumptions = ['as O4.2-seq: abstract token texts/ranges, TokenKind Display stubbed, rowan recorder', 'oracle (C11: programs rendered with arbitrary trivia parse to the same tree): with the trivia token inserted the parser reports no diagnostic and builds the same tree - same nodes, same non-trivia tokens in the same places - as without it']
    triv = list(pw.trivia)
    for text, kinds in mine:
        L = len(kinds)
        def run(ex, specs, names):
            toks = PyVec([Agg(pw.TOK.key, 0, [kind_value(pw, ex, k, 'k%d' % i), mkstr(nm), Agg('TextRange', 0, [i, i + 1])]) for i, (k, nm) in enumerate(zip(specs, names))])
            p = ex.call('Parser::new', [Opaque('path'), toks], 'parser'); h = [p]
            try: ex.call('file::file', [Ref(h, 0)], 'parser')
            except Limit as e: raise Panic('HANG-CANDIDATE: ' + str(e))
            res = ex.call('Parser::build_tree', [h[0]], 'parser')
            b = res.fields[0]; diags = res.fields[1]; ditems = diags.fields[0].items if isinstance(diags, Agg) else diags.items
            sig = []
            for op in b.ops:
                if op[0] == 'token':
                    nm = ms.pystr(ex.deref(op[2]))
                    if nm != 'TRIVIA': sig.append(('token', nm))
                elif op[0] == 'start': sig.append(('start', int(op[1]) if not ms.is_sym(op[1]) else str(op[1])))
                else: sig.append(('finish',))
            return sig, len(ditems)
        base = e2.explore(r, pw.W, lambda ex: run(ex, list(kinds), ['t%d' % i for i in range(L)]), [])
        if len(base) != 1 or base[0].kind != 'ok': raise Unsupported('skeleton %r does not parse on one path: %s' % (text, base[0].value if base else None))
        bsig, bd = base[0].value
        if bd: raise Unsupported('skeleton %r has parser diagnostics' % text)
        for i in range(L + 1):
            hv = z3.Int('h')
            specs = list(kinds[:i]) + [hv] + list(kinds[i:]); names = ['t%d' % j for j in range(i)] + ['TRIVIA'] + ['t%d' % j for j in range(i, L)]
            def entry(ex, specs=specs, names=names):
                ex.restrict(hv, triv)
                return run(ex, specs, names)
            res = e2.explore(r, pw.W, entry, [])
            for p in res:
                r.cases += 1
                if p.kind != 'ok':
                    if (ACCEPT_KEYS is None or 'panic' in ACCEPT_KEYS) and not any(f.key == 'panic' for f in r.findings):
                        r.findings.append(Finding('panic', 'parser on skeleton %r with a trivia token inserted at %d: %s' % (text, i, str(p.value)[:200]), {'skeleton': text, 'position': i}, False, 'not replayed'))
                    continue
                sig, nd = p.value; r.nontrivial += 1
                if nd or sig != bsig:
                    if any(f.key == 'trivia-changes-parse' for f in r.findings): continue
                    m, _ = e2.check(list(p.pc)); kname = pw.kinds[e2.mval(m, hv)]
                    knames = list(kinds[:i]) + [kname] + list(kinds[i:])
                    nat = native_parse(knames, table=pw.kinds); nat0 = native_parse(list(kinds), table=pw.kinds)
                    nd_ = nat.get('ok', {}).get('diagnostics', 0) if 'ok' in nat else 0; ndn = len(nd_) if isinstance(nd_, list) else int(nd_)
                    ok_ = bool(nat.get('panic')) or ndn > 0 or ('ok' in nat and 'ok' in nat0 and nat['ok'].get('shape') != nat0['ok'].get('shape'))
                    r.findings.append(Finding('trivia-changes-parse', 'skeleton `%s`: with a %s token inserted before token %d the parser reports %d diagnostics%s' % (text, kname, i, nd, '' if sig == bsig else ' and builds a different tree'), {'skeleton': text, 'position': i, 'kind': kname}, ok_, json.dumps(nat)[:300]))
        if len(r.samples) < 3: r.samples.append({'skeleton': text, 'positions': L + 1})

def obligations_trivia(prefix='O11.8'):
    return [Ob(prefix + '-trivia-anywhere-s%d' % sh, 'a comment or blank inserted anywhere in a valid program does not change the tree', ob_trivia_anywhere, ('quick', 'thorough'), 20, dict(shard=sh, nshards=8)) for sh in range(8)]

"""C10 - numbers mean what they say: operator mapping and format verbs (E2) + literal parse/print, type mapping, float range (E1)."""
import json, re, os, subprocess, tempfile, shutil
import z3
from vlib import e2, build
from vlib.core import Ob, Finding
import mirsym as ms
from mirsym.engine import Agg, LazyEnum, PyVec, Str, Ref, Opaque, PyMap, Unsupported, Panic, unbox, mkbox, mkstr

CRATES = ('compiler', 'common_defs', 'diagnostics', 'parser')
INT_GO = ['TInt8', 'TInt16', 'TInt32', 'TInt64', 'TUint8', 'TUint16', 'TUint32', 'TUint64']
FLOAT_GO = ['TFloat32', 'TFloat64']

# ----------------------------------------------------------------------------- O10.4 operator mapping
def ob_operators(r, tier, seed):
    W = e2.fresh_world(CRATES); tt = W.tt
    BOP = tt.find_adt(['common_defs', 'BinaryOp'], 'common_defs'); UOP = tt.find_adt(['common_defs', 'UnaryOp'], 'common_defs')
    GB = tt.find_adt(['goast', 'GoBinaryOp'], 'compiler'); GU = tt.find_adt(['goast', 'GoUnaryOp'], 'compiler'); GE = tt.find_adt(['goast', 'Expr'], 'compiler')
    CE = tt.find_adt(['anf', 'CExpr'], 'compiler'); IE = tt.find_adt(['anf', 'ImmExpr'], 'compiler'); TY = tt.find_adt(['tast', 'Ty'], 'compiler')
    tys = ['TInt8', 'TInt32', 'TUint64', 'TFloat32', 'TFloat64', 'TBool', 'TString']
    r.bounds = 'EBinary / EUnary with a symbolic operator over all %d + %d goml operators, operand/result type in %s' % (len(BOP.variants), len(UOP.variants), tys)
    r.assumptions = ['operands are variables (ANF immediates); the Go operator must be the same-named one (+ - * / && || < > <= >= == != ; unary - !)']
    op = z3.Int('op'); uop = z3.Int('uop'); tyv = z3.Int('ty')
    def entry(ex):
        ex.restrict(op, range(len(BOP.variants))); ex.restrict(uop, range(len(UOP.variants))); ex.restrict(tyv, [TY.vindex(t) for t in tys])
        T = lambda: LazyEnum(TY, tyv, 0, None, 'ty')
        imm = lambda n: Agg(IE.key, IE.vindex('ImmVar'), [mkstr(n), T()])
        which = ex.choose([(True, 'bin'), (True, 'un')])
        mk = lambda n, **kw: Agg(CE.key, CE.vindex(n), [kw[f[0]] for f in CE.variants[CE.vindex(n)].fields])
        if which == 'bin': e = mk('EBinary', op=LazyEnum(BOP, op, 0, None, 'op'), lhs=mkbox(imm('a')), rhs=mkbox(imm('b')), ty=T())
        else: e = mk('EUnary', op=LazyEnum(UOP, uop, 0, None, 'uop'), expr=mkbox(imm('a')), ty=T())
        h = {0: Opaque('goenv'), 1: e}
        g = ex.call('go::compile::compile_cexpr', [Ref(h, 0), Ref(h, 1)])
        return which, g
    res = e2.explore(r, W, entry, [])
    found = {}
    for p in res:
        r.cases += 1
        if p.kind != 'ok': found.setdefault('panic', 'compile_cexpr panics on an operator expression: %s' % p.value); continue
        which, g = p.value
        gname = GE.variants[g.idx].name
        for i, v in enumerate((BOP if which == 'bin' else UOP).variants):
            var = op if which == 'bin' else uop
            m, dt = e2.check(p.pc + [var == i]); r.queries += 1; r.solver_s += dt
            if m is None: continue
            r.nontrivial += 1
            want = v.name
            if which == 'bin': got = GB.variants[g.fields[0].idx].name if gname == 'BinaryOp' and isinstance(g.fields[0], Agg) else gname
            else: got = GU.variants[g.fields[0].idx].name if gname == 'UnaryOp' and isinstance(g.fields[0], Agg) else gname
            if got != want: found.setdefault('operator-mismatch', 'goml operator %s is compiled to Go operator %s' % (want, got))
            elif len(r.samples) < 4: r.samples.append({'goml': want, 'go': got})
    for k, what in found.items(): r.findings.append(Finding(k, what, {}, True, 'read from the goast::Expr produced by the real compile_cexpr MIR'))

# ----------------------------------------------------------------------------- O10.6 format verbs of the numeric *_to_string helpers
def fn_fields(W, v):
    FN = W.tt.find_adt(['goast', 'Fn'], 'compiler'); return dict(zip([f[0] for f in FN.variants[0].fields], v.fields))

def verb_of(W, fnv):
    GE = W.tt.find_adt(['goast', 'Expr'], 'compiler'); GS = W.tt.find_adt(['goast', 'Stmt'], 'compiler')
    body = fn_fields(W, fnv)['body']; st = body.fields[0].items[0]
    if GS.variants[st.idx].name != 'Return': raise Unsupported('to_string helper: unexpected body')
    call = st.fields[0].fields[0]
    if GE.variants[call.idx].name != 'Call': raise Unsupported('to_string helper: return value is not a call')
    cf = dict(zip([f[0] for f in GE.variants[call.idx].fields], call.fields))
    fname = ms.pystr(unbox(cf['func']).fields[0]); fmt = cf['args'].items[0]
    return fname, ms.pystr(fmt.fields[0])

def ob_verbs(r, tier, seed):
    W = e2.fresh_world(CRATES); GT = W.tt.find_adt(['goty', 'GoType'], 'compiler')
    r.bounds = 'to_string_fn for a symbolic parameter type over the %d numeric Go types; plus each of the numeric `<type>_to_string` runtime helpers found in the current runtime.rs' % len(INT_GO + FLOAT_GO)
    r.assumptions = ['oracle: fmt.Sprintf verb %d for integer types; one of %v %g %f (or a precision variant) for float types - %d on a float prints `%!d(float64=..)`']
    tyv = z3.Int('ty'); found = {}
    def entry(ex):
        ex.restrict(tyv, [GT.vindex(t) for t in INT_GO + FLOAT_GO])
        return ex.call('go::runtime::to_string_fn', [mkstr('x_to_string'), LazyEnum(GT, tyv, 0, None, 'ty')])
    for p in e2.explore(r, W, entry, []):
        r.cases += 1
        if p.kind != 'ok': found.setdefault('panic', 'to_string_fn panics: %s' % p.value); continue
        fname, verb = verb_of(W, p.value)
        for tname in INT_GO + FLOAT_GO:
            m, dt = e2.check(p.pc + [tyv == GT.vindex(tname)]); r.queries += 1; r.solver_s += dt
            if m is None: continue
            r.nontrivial += 1
            good = (verb == '%d') if tname in INT_GO else bool(re.fullmatch(r'%(\.\d+)?[vgfGeE]', verb))
            if fname != 'fmt.Sprintf' or not good:
                found.setdefault('float-verb' if tname in FLOAT_GO else 'int-verb', ('to_string helper for %s formats with %s(%r)' % (tname, fname, verb), tname))
            elif len(r.samples) < 3: r.samples.append({'type': tname, 'verb': verb})
    # the concrete wrappers
    names = sorted(n for n in W.free if re.fullmatch(r'(go::runtime::)?(u?int(8|16|32|64)|float(32|64))_to_string', n))
    for n in names:
        res = e2.explore(r, W, lambda ex, n=n: ex.call(n, []), [])
        for p in res:
            r.cases += 1; r.nontrivial += 1
            if p.kind != 'ok': found.setdefault('panic', '%s panics: %s' % (n, p.value)); continue
            f = fn_fields(W, p.value); pty = f['params'].items[0].fields[1]
            tname = GT.variants[pty.idx].name; fname, verb = verb_of(W, p.value)
            base = n.split('::')[-1][:-len('_to_string')]
            if tname.lower() != 't' + base: found.setdefault('helper-type', ('%s takes a %s' % (n, tname), tname))
            good = (verb == '%d') if tname in INT_GO else bool(re.fullmatch(r'%(\.\d+)?[vgfGeE]', verb))
            if not good: found.setdefault('float-verb' if tname in FLOAT_GO else 'int-verb', ('%s formats %s with %r' % (n, tname, verb), tname))
    if len(names) < 10: raise Unsupported('expected the 10 numeric *_to_string helpers, found %s' % names)
    for k, (what, tname) in ((k, v if isinstance(v, tuple) else (v, '')) for k, v in found.items()):
        ok_, detail = (True, 'read from the goast::Fn built by the real runtime code')
        if k == 'float-verb':
            src = 'fn main() -> unit { string_println(float64_to_string(1.5)) }\n'
            d = tempfile.mkdtemp(prefix='vf-c10-')
            try:
                open(os.path.join(d, 'main.gom'), 'w').write(src)
                out = subprocess.run([build.compiler_bin(), 'run', '--dump-go', os.path.join(d, 'main.gom')], capture_output=True, text=True, timeout=60).stdout
            finally: shutil.rmtree(d, ignore_errors=True)
            seg = out[out.find('func float64_to_string'):][:200]
            ok_ = 'Sprintf("%d"' in seg; detail = 'emitted Go: ' + seg.replace('\n', ' | ')
        r.findings.append(Finding(k, what, {'type': tname}, ok_, detail))

def obligations():
    obs = [Ob('O10.4-operator-mapping', 'every goml operator is compiled to the same-named Go operator', ob_operators, ('quick', 'thorough'), 1, {}),
           Ob('O10.6-format-verbs', 'numeric *_to_string helpers use a verb that fits the type', ob_verbs, ('quick', 'thorough'), 1, {})]
    try:
        from props import e1_obs
        obs += e1_obs.c10_obligations()
    except ImportError: pass
    return obs

META = {
    'level': 'other',
    'explanation': 'Bounded solver-checked obligations over the real numeric code paths: E1 (Kani/CBMC over the compiled crate): integer literal acceptance and value for all eight integer types on all digit strings up to one digit more than the type\'s maximum, literal printing, numeric type mapping, float range test; E2 (MIR symbolic execution + z3): compile_cexpr maps every goml operator (symbolic) to the same-named Go operator; to_string_fn (symbolic parameter type) and the ten numeric *_to_string helpers use a format verb that fits the type.',
    'assumptions': ['wrap-around, truncating division, signedness of comparison and float32 rounding are inherited from Go\'s operators (no goml code to execute)', 'decimal->binary float conversion and the lexer\'s literal split are outside'],
    'trusted_base': ['Kani 0.68 / CBMC 6.11', 'mirsym MIR interpreter', 'library models listed per obligation', 'z3'],
}

# ----------------------------------------------------------------------------- O10.5b float literal range through the literal entry point (E2, z3 floating-point theory)
def ob_float_range(r, tier, seed):
    W = e2.fresh_world(CRATES); TY = W.tt.find_adt(['tast', 'Ty'], 'compiler'); PR = W.tt.find_adt(['common', 'Prim'], 'compiler')
    DI = W.tt.find_adt(['diagnostics', 'Diagnostics'], 'diagnostics'); TYP = W.tt.find_adt(['typer', 'Typer'], 'compiler')
    v = z3.FP('lit', z3.Float64()); tyv = z3.Int('ty')
    r.bounds = 'Typer::parse_float_literal_with_ty for any f64 value of the parsed literal (symbolic IEEE-754 double incl. infinities and NaN) at type float32 / float64'
    r.assumptions = ['`str::parse::<f64>` (decimal -> binary conversion) is an environment stub returning the symbolic double', 'diagnostic wording is not checked (symbolic numbers print as one opaque character)',
                     'oracle: a diagnostic is pushed and/or None returned iff the value is not finite, or the type is float32 and |value| > f32::MAX']
    W.opaque_int_format = True
    def ov(f, g):
        if g.endswith('<impl str>::parse') and f.endswith('::<f64>'):
            def m_parse_f64_stub(ex, f_, a): return ms.ok(v)
            return m_parse_f64_stub
        if 'Argument::new_display' in g or 'Argument::new_debug' in g:
            return None
        return None
    W.overrides = [ov]
    import mirsym.models_coll as mc
    old_render = mc.render_arg
    def render(ex, arg, flags=0, width=None):
        val = ex.deref(arg.v[0])
        if ms.is_sym(val) and z3.is_fp(val): return [0xFFFD]
        return old_render(ex, arg, flags, width)
    mc.render_arg = render
    try:
        def entry(ex):
            ex.restrict(tyv, [TY.vindex('TFloat32'), TY.vindex('TFloat64')])
            t, _ = (Agg(TYP.key, 0, [Opaque('uni'), PyVec([]), Opaque('hir_table'), Opaque('results')]), None)
            h = {0: t, 1: Agg(DI.key, 0, [PyVec([])]), 2: mkstr('1.0'), 3: LazyEnum(TY, tyv, 0, None, 'ty')}
            res = ex.call('typer::check::<impl typer::Typer>::parse_float_literal_with_ty', [Ref(h, 0), Ref(h, 1), h[2], Ref(h, 3)])
            return len(h[1].fields[0].items), res.idx
        res = e2.explore(r, W, entry, [])
    finally:
        mc.render_arg = old_render
    F32MAX = z3.FPVal(3.4028234663852886e38, z3.Float64())
    found = {}
    for p in res:
        r.cases += 1
        if p.kind != 'ok': found.setdefault('panic', 'parse_float_literal_with_ty panics: %s' % p.value); continue
        ndiag, some_ = p.value
        nonfinite = z3.Or(z3.fpIsInf(v), z3.fpIsNaN(v)); toobig = z3.And(tyv == TY.vindex('TFloat32'), z3.fpGT(z3.fpAbs(v), F32MAX))
        must_reject = z3.Or(nonfinite, toobig)
        rejected = ndiag > 0
        m, dt = e2.check(p.pc + [z3.Not(must_reject) if rejected else must_reject], timeout_ms=120000); r.queries += 1; r.solver_s += dt
        r.nontrivial += 1
        if m is not None:
            val = m.eval(v, True); tn = TY.variants[e2.mval(m, tyv)].name
            key = 'out-of-range-float-accepted' if not rejected else 'in-range-float-rejected'
            found.setdefault(key, 'float literal with value %s at %s is %s' % (val, tn, 'rejected' if rejected else 'accepted without a diagnostic'))
        elif len(r.samples) < 3: r.samples.append({'diagnostics': ndiag, 'result': 'Some' if some_ == 1 else 'None'})
    for k, what in found.items():
        ok_, detail = True, 'verdict of the real parse_float_literal_with_ty MIR'
        if k == 'out-of-range-float-accepted':
            src = 'fn main() -> unit {\n  let big = 1000000000000000000000000000000000000000.0f32;\n  string_println(float32_to_string(big))\n}\n'
            d = tempfile.mkdtemp(prefix='vf-c10-')
            try:
                open(os.path.join(d, 'main.gom'), 'w').write(src)
                pr = subprocess.run([build.compiler_bin(), 'run', '--dump-go', os.path.join(d, 'main.gom')], capture_output=True, text=True, timeout=60)
            finally: shutil.rmtree(d, ignore_errors=True)
            out = pr.stdout + pr.stderr
            ok_ = 'func main0' in out and 'does not fit' not in out
            detail = 'goml `let big = 1e39-as-digits f32` is accepted; emitted: ' + ' | '.join(l.strip() for l in out.splitlines() if 'big' in l)[:200]
        r.findings.append(Finding(k, what, {}, ok_, detail))

_c10_obl = obligations
def obligations():
    return _c10_obl() + [Ob('O10.5b-float-literal-range', 'float literal accepted iff finite and within the range of its type (through parse_float_literal_with_ty)', ob_float_range, ('quick', 'thorough'), 2, {})]

# ----------------------------------------------------------------------------- O10.7 "division by zero fails at run time": no integer division is judged removable
def ob_division_kept(r, tier, seed, depth):
    """same exploration as C09 O9.1 (the DCE effect predicate on lazily built goast::Expr); only the division findings count here"""
    from props import c09
    c09.ob_effect_predicate(r, tier, seed, depth)
    r.findings = [f for f in r.findings if f.key == 'div-judged-pure']
_c10_obl2 = obligations
def obligations():
    return _c10_obl2() + [Ob('O10.7-division-kept', 'dead-code elimination never judges an integer division by a possibly-zero divisor removable (any integer type)', ob_division_kept, ('quick', 'thorough'), 2, dict(depth=1))]

# ----------------------------------------------------------------------------- O10.8 an integer literal *pattern* keeps its value and gets the type of the matched value
INT_T = {'TInt8': ('Int8', 2**7 - 1), 'TInt16': ('Int16', 2**15 - 1), 'TInt32': ('Int32', 2**31 - 1), 'TInt64': ('Int64', 2**63 - 1),
         'TUint8': ('UInt8', 2**8 - 1), 'TUint16': ('UInt16', 2**16 - 1), 'TUint32': ('UInt32', 2**32 - 1), 'TUint64': ('UInt64', 2**64 - 1)}
def ob_int_pattern(r, tier, seed):
    import subprocess, tempfile, shutil, os
    W = e2.fresh_world(('compiler', 'common_defs', 'diagnostics', 'parser')); tt = W.tt
    TY = tt.find_adt(['tast', 'Ty'], 'compiler'); HP = [a for a in tt.by_name['Pat'] if a.crate == 'compiler' and 'hir' in '::'.join(a.path)][0]
    TP = tt.find_adt(['tast', 'Pat'], 'compiler'); PR = tt.find_adt(['common', 'Prim'], 'compiler')
    lits = ['7', '200', '40000', '3000000000', '10000000000'] + sorted({str(v) for m_ in (2**7, 2**8, 2**15, 2**16, 2**31, 2**32, 2**63, 2**64) for v in (m_ - 1, m_ // 2 + (m_ // 4))}, key=int)      # the maximum of every type and a value in the upper half of every unsigned range
    r.bounds = 'unsuffixed integer literal patterns %s against a matched value of each of the eight integer types, for every combination in which the literal fits the type (the typer rejects the others)' % lits
    r.assumptions = ['HirTable::pat returns the chosen pattern, TypeckResults::pat_ty the type the typer recorded for it (the type of the matched value; see O3.4)',
                     'oracle: typer::tast_builder::build_pat yields PPrim { value: Prim::<T> { the written value }, ty: T }']
    cur = {}
    for nm in list(W.methods.get('pat', [])):
        if nm[2] is not None and nm[2].self_key == 'HirTable': W.stubs[nm[1]] = lambda ex, a: Ref(cur, 'pat')
    for nm in list(W.methods.get('pat_ty', [])):
        if nm[2] is not None and nm[2].self_key == 'TypeckResults': W.stubs[nm[1]] = lambda ex, a: ms.some(Ref(cur, 'ty'))
    def entry(ex):
        lit = ex.choose([(True, l) for l in lits]); t = ex.choose([(True, x) for x in sorted(INT_T)])
        if int(lit) > INT_T[t][1]: return None
        cur['pat'] = Agg(HP.key, HP.vindex('PInt'), [mkstr(lit)]); cur['ty'] = Agg(TY.key, TY.vindex(t), [])
        h = {0: Opaque('hir_table'), 1: Opaque('results')}
        out = ex.call('typer::tast_builder::build_pat', [Ref(h, 0), Ref(h, 1), Agg('PatId', 0, [0])])
        f = dict(zip([x[0] for x in TP.variants[out.idx].fields], out.fields))
        pv = f['value']
        return lit, t, TP.variants[out.idx].name, PR.variants[pv.idx].name, pv.fields[0], TY.variants[f['ty'].idx].name
    res = e2.explore(r, W, entry, [])
    found = {}
    for p in res:
        r.cases += 1
        if p.kind != 'ok': found.setdefault('panic', ('build_pat panics: %s' % p.value, None)); continue
        if p.value is None: continue
        lit, t, pk, prim, val, ty = p.value
        r.nontrivial += 1
        if pk != 'PPrim' or ty != t or prim != INT_T[t][0] or ms.is_sym(val) or int(val) != int(lit):
            key = 'int-pattern-prim-mismatch' if prim != INT_T[t][0] else 'int-pattern-value-changed'
            found.setdefault(key, ('pattern `%s` against a value of type %s is built as %s { value: Prim::%s(%s), ty: %s }' % (lit, t[1:].lower(), pk, prim, val, ty), (lit, t)))
        elif len(r.samples) < 3: r.samples.append({'literal': lit, 'type': t, 'prim': prim})
    for key, (what, w) in found.items():
        ok_, detail = True, 'value built by the real tast_builder::build_pat MIR'
        if w is not None:
            lit, t = w
            src = 'fn f(x: %s) -> int32 { match x { %s => 1, _ => 2 } }\nfn main() -> unit { () }\n' % (t[1:].lower(), lit)
            d = tempfile.mkdtemp(prefix='vf-c10-')
            try:
                open(os.path.join(d, 'main.gom'), 'w').write(src)
                p_ = subprocess.run([build.compiler_bin(), 'run', '--dump-go', os.path.join(d, 'main.gom')], capture_output=True, text=True, timeout=60)
            finally: shutil.rmtree(d, ignore_errors=True)
            txt = p_.stdout + p_.stderr
            body = txt[txt.find('func f('):]; body = body[:body.find('\n}\n') + 3]
            ok_ = 'panicked' in txt or ('case %s:' % lit) not in body
            detail = 'goml `%s`: %s' % (src.replace('\n', ' | '), ([l for l in txt.splitlines() if 'panicked' in l] + txt.splitlines()[-1:])[0][:200] if 'panicked' in txt else body[:200].replace('\n', ' | '))
        r.findings.append(Finding(key, what, {'literal': w[0] if w else None, 'type': w[1] if w else None}, ok_, detail))
_c10_obl3 = obligations
def obligations():
    return _c10_obl3() + [Ob('O10.8-int-literal-patterns', 'an unsuffixed integer pattern is built at the type of the matched value with its written value', ob_int_pattern, ('quick', 'thorough'), 2, {})]

# ----------------------------------------------------------------------------- O10.9 a float literal is printed as a Go *floating-point* constant
def rust_f64_display(x):
    """Rust's `Display` for a finite f64: shortest digits that round-trip, positional notation, no trailing `.0`"""
    from decimal import Decimal
    if x != x: return 'NaN'
    if x in (float('inf'), float('-inf')): return 'inf' if x > 0 else '-inf'
    s = format(Decimal(repr(x)), 'f')
    if '.' in s: s = s.rstrip('0').rstrip('.')
    return s if s not in ('-0', '') else ('-0' if str(x).startswith('-') else '0')

def ob_float_literal_text(r, tier, seed):
    import subprocess, tempfile, shutil, os
    W = e2.fresh_world(('compiler', 'common_defs', 'diagnostics')); tt = W.tt
    GE = tt.find_adt(['goast', 'Expr'], 'compiler'); GT = tt.find_adt(['goty', 'GoType'], 'compiler')
    vals = [1.0, 2.0, 0.5, 3.0, 100.0, 1e21, 1.5e300, 0.1, 16777216.0, -4.0, 9223372036854775808.0, 1e19, -1e19, 4294967296.0, 1e-7, 123456789012345680.0]
    r.bounds = 'Go float literal nodes with the values %s at float32 and float64; goast::Expr::to_doc executed up to the document it builds for the literal' % vals
    r.assumptions = ['the `pretty` crate is external: RcDoc::as_string(v) is modelled as the text of Rust\'s Display for v (shortest round-trip digits, positional notation), RcDoc::text(s) as s',
                     'oracle (Go spec, constant expressions): a literal without `.`, exponent or conversion is an *integer* constant - `1 / 2` is 0 - so the printed text of a float literal must contain `.` or an exponent']
    def ov(f, g):
        if g.endswith('RcDoc::as_string') or 'RcDoc::<' in g and g.endswith('::as_string') or g.endswith('::as_string'):
            def m_as_string(ex, f_, a):
                v = a[0]
                while isinstance(v, Ref): v = v.get()
                if isinstance(v, float): return Opaque('doc', text=rust_f64_display(v))
                if isinstance(v, Str): return Opaque('doc', text=ms.pystr(v))
                raise Unsupported('as_string of %r' % (v,))
            return m_as_string
        if g.endswith('<f64 as ToString>::to_string') or g.endswith('f64 as std::string::ToString>::to_string'):
            def m_f64_to_string(ex, f_, a):
                v = a[0]
                while isinstance(v, Ref): v = v.get()
                if not isinstance(v, float): raise Unsupported('to_string of a symbolic f64')
                return mkstr(rust_f64_display(v))
            return m_f64_to_string
        if g.endswith('<f32 as ToString>::to_string') or g.endswith('f32 as std::string::ToString>::to_string'):
            def m_f32_to_string(ex, f_, a):
                v = a[0]
                while isinstance(v, Ref): v = v.get()
                if not isinstance(v, float): raise Unsupported('to_string of a symbolic f32')
                import numpy as _np      # Rust's Display for f32: the shortest digits that round-trip as float32, positional notation
                return mkstr(_np.format_float_positional(_np.float32(v), unique=True, trim='-'))
            return m_f32_to_string
        if g.endswith('RcDoc::text') or g.endswith('::text'):
            def m_text(ex, f_, a):
                v = ex.deref(a[0]) if not isinstance(a[0], Str) else a[0]
                return Opaque('doc', text=ms.pystr(v))
            return m_text
        return None
    W.overrides = [ov]
    def entry(ex):
        v = ex.choose([(True, x) for x in vals]); t = ex.choose([(True, 'TFloat64'), (True, 'TFloat32')])
        h = {0: Agg(GE.key, GE.vindex('Float'), [float(v), Agg(GT.key, GT.vindex(t), [])]), 1: Opaque('goenv')}
        d = ex.call('<goast::Expr>::to_doc', [Ref(h, 0), Ref(h, 1)]) if False else ex.call('go_pprint::<impl Expr>::to_doc', [Ref(h, 0), Ref(h, 1)])
        return v, t, getattr(d, 'text', None)
    res = e2.explore(r, W, entry, [])
    bad = None; wrong = None
    for p in res:
        r.cases += 1
        if p.kind != 'ok': raise Unsupported('to_doc panicked: %s' % p.value)
        v, t, text = p.value
        r.nontrivial += 1
        if text is None: raise Unsupported('no text for the float literal document')
        if not any(c in text for c in '.eE') and bad is None: bad = (v, t, text)
        else:
            # the text, read as a Go floating-point constant and rounded to the literal's type, must be the literal's value
            try: back = float(text)
            except ValueError: back = None
            import struct as _st
            r32 = lambda x: _st.unpack('f', _st.pack('f', x))[0]
            same = back is not None and (back == float(v) if t == 'TFloat64' else r32(back) == r32(float(v)))
            if not same and wrong is None: wrong = (v, t, text)
            elif same and len(r.samples) < 3: r.samples.append({'value': v, 'text': text})
    if bad:
        v, t, text = bad
        src = 'fn main() -> unit { let x: float64 = 1.0 / 2.0; string_println(float64_to_string(x)) }\n'
        d = tempfile.mkdtemp(prefix='vf-c10-')
        try:
            open(os.path.join(d, 'main.gom'), 'w').write(src)
            p_ = subprocess.run([build.compiler_bin(), 'run', '--dump-go', os.path.join(d, 'main.gom')], capture_output=True, text=True, timeout=60)
        finally: shutil.rmtree(d, ignore_errors=True)
        line = [l.strip() for l in p_.stdout.splitlines() if 'float64 =' in l]
        ok_ = bool(line) and re.search(r'= 1 / 2\b', line[0]) is not None
        r.findings.append(Finding('float-literal-printed-as-integer-constant', 'the float literal %r (%s) is printed as `%s`, which Go reads as an integer constant' % (v, t, text), {'value': v, 'text': text}, ok_,
                                  'goml `let x: float64 = 1.0 / 2.0` emits `%s` (an integer constant division: 0)' % (line[0] if line else p_.stdout[-200:])))
    if wrong:
        v, t, text = wrong
        lit = rust_f64_display(v) + ('' if any(c in rust_f64_display(v) for c in '.eE') else '.0')
        src = 'fn main() -> unit { let x: %s = %s%s; string_println(%s_to_string(x)) }\n' % ('float64' if t == 'TFloat64' else 'float32', lit, '' if t == 'TFloat64' else 'f32', 'float64' if t == 'TFloat64' else 'float32')
        d = tempfile.mkdtemp(prefix='vf-c10f-')
        try:
            open(os.path.join(d, 'main.gom'), 'w').write(src)
            p_ = subprocess.run([build.compiler_bin(), 'run', '--dump-go', os.path.join(d, 'main.gom')], capture_output=True, text=True, timeout=60)
        finally: shutil.rmtree(d, ignore_errors=True)
        line = [l.strip() for l in p_.stdout.splitlines() if re.search(r'float(64|32) = ', l)]
        m_ = re.search(r'= (\S+)$', line[0]) if line else None
        try: emitted = float(m_.group(1)) if m_ else None
        except ValueError: emitted = None
        ok_ = emitted is not None and emitted != float(v)
        r.findings.append(Finding('float-literal-value-changed', 'the float literal %r (%s) is printed as `%s`, which is another number' % (v, t, text), {'value': v, 'text': text}, ok_,
                                  'goml `%s` emits `%s`' % (src.strip(), line[0] if line else (p_.stdout + p_.stderr)[-200:])))
_c10_obl4 = obligations
def obligations():
    return _c10_obl4() + [Ob('O10.9-float-literal-text', 'a float literal is printed as a Go floating-point constant', ob_float_literal_text, ('quick', 'thorough'), 2, {})]

"""C07 O7.2 - the type kernels of monomorphisation (mono::subst_ty, mono::unify, mono::has_tparam): instantiating a generic signature
at concrete types and recovering the substitution from the instantiated type must round-trip for every template type."""
import json, os, subprocess, tempfile, shutil
import z3
from vlib import e2, build
from vlib.core import Ob, Finding
import mirsym as ms
from mirsym.lazy import Spec, force
from mirsym.engine import Agg, PyVec, PyMap, Str, Ref, Unsupported, unbox, mkbox, mkstr
from props.enc_ob import shape, PRIMS, COMPOSITE

CRATES = ('compiler', 'common_defs', 'diagnostics')
CONCRETE = [{'k': 'TInt32'}, {'k': 'TBool'}, {'k': 'TStruct', 'name': 'A'}, {'k': 'TVec', 'a': [{'k': 'TInt32'}]}]

def build_ty(TY, sh):
    k = sh['k']; mk = lambda n, f: Agg(TY.key, TY.vindex(n), f)
    if k in PRIMS: return mk(k, [])
    if k in ('TParam', 'TEnum', 'TStruct', 'TDyn'): return mk(k, [mkstr(sh['name'])])
    if k == 'TTuple': return mk(k, [PyVec([build_ty(TY, x) for x in sh['a']])])
    if k in ('TVec', 'TRef'): return mk(k, [mkbox(build_ty(TY, sh['a'][0]))])
    if k == 'TArray': return mk(k, [sh['len'], mkbox(build_ty(TY, sh['a'][0]))])
    if k == 'TFunc': return mk(k, [PyVec([build_ty(TY, x) for x in sh['a'][:-1]]), mkbox(build_ty(TY, sh['a'][-1]))])
    if k == 'TApp': return mk(k, [mkbox(build_ty(TY, sh['base'])), PyVec([build_ty(TY, x) for x in sh['a']])])
    raise Unsupported('build_ty ' + k)

def params_of(sh):
    out = [sh['name']] if sh['k'] == 'TParam' else []
    if 'base' in sh: out += params_of(sh['base'])
    for x in sh.get('a', []): out += params_of(x)
    return out

def subst_shape(sh, sg):
    if sh['k'] == 'TParam': return sg.get(sh['name'], sh)
    o = dict(sh)
    if 'base' in sh: o['base'] = subst_shape(sh['base'], sg)
    if 'a' in sh: o['a'] = [subst_shape(x, sg) for x in sh['a']]
    return o

def goml_ty(sh):
    k = sh['k']
    if k in PRIMS: return {'TUnit': 'unit', 'TBool': 'bool', 'TString': 'string'}.get(k, k[1:].lower())
    if k == 'TParam': return sh['name']
    if k in ('TStruct', 'TEnum'): return sh['name']
    if k == 'TDyn': return 'dyn ' + sh['name']
    if k == 'TTuple': return '(' + ', '.join(goml_ty(x) for x in sh['a']) + ')'
    if k == 'TVec': return 'Vec[%s]' % goml_ty(sh['a'][0])
    if k == 'TRef': return 'Ref[%s]' % goml_ty(sh['a'][0])
    if k == 'TArray': return '[%s; %d]' % (goml_ty(sh['a'][0]), sh['len'])
    if k == 'TFunc': return '(%s) -> %s' % (', '.join(goml_ty(x) for x in sh['a'][:-1]), goml_ty(sh['a'][-1]))
    if k == 'TApp': return '%s[%s]' % (sh['base']['name'], ', '.join(goml_ty(x) for x in sh['a']))
    raise Unsupported('goml_ty ' + k)

def replay_program(template, sigma):
    """real CLI: a generic function whose parameter has the template type, called at the instantiated type"""
    ps = sorted(set(params_of(template)))
    actual = subst_shape(template, sigma)
    src = 'struct A { v: int32 }\nstruct B[X] { v: X }\ntrait D { fn show(Self) -> string; }\n'
    src += 'fn mk() -> %s { mk() }\n' % goml_ty(actual)
    src += 'fn g[%s](x: %s, z: Z) -> unit { () }\n' % (', '.join(ps + ['Z']), goml_ty(template))      # Z keeps g generic when the template has no parameter
    src += 'fn main() -> unit { g(mk(), 1) }\n'
    d = tempfile.mkdtemp(prefix='vf-c07-')
    try:
        open(os.path.join(d, 'main.gom'), 'w').write(src)
        p = subprocess.run([build.compiler_bin(), 'run', '--dump-mono', os.path.join(d, 'main.gom')], capture_output=True, text=True, timeout=60)
    finally: shutil.rmtree(d, ignore_errors=True)
    txt = p.stdout + p.stderr
    pan = [l for l in txt.splitlines() if 'panicked' in l or 'monomorphization' in l]
    return bool(pan), 'goml program `%s` -> %s' % (src.replace('\n', ' | '), pan[:2] if pan else txt[:200].replace('\n', ' | '))

def ob_mono_roundtrip(r, tier, seed, top, inner, depth, vec_len=(0, 2), leaves=('TInt32', 'TBool', 'TString', 'TParam', 'TStruct', 'TDyn')):
    W = e2.fresh_world(CRATES); TY = W.tt.find_adt(['tast', 'Ty'], 'compiler')
    leaves = list(leaves)
    r.bounds = 'template types of depth <= %d: top constructor in %s, inner constructors in %s, leaves %s, type parameters {T, U}, nominal names {A}, component lists of length %d..%d; every parameter instantiated with each of %s' % (
        depth, top, inner, leaves, vec_len[0], vec_len[1], [goml_ty(c) for c in CONCRETE])
    r.assumptions = ['TVar excluded (inference variables are resolved before mono)', 'TApp base is a nominal type', 'oracle: for every template t and substitution s: has_tparam(subst_ty(t, s)) is false, and unify(t, subst_ty(t, s), {}) = Ok(s restricted to the parameters of t)']
    class S2(Spec):
        def make_adt(s, ex, adt, d, path, subst):
            if adt.name == 'Ty': s.allowed['Ty'] = top if d == depth else inner
            return Spec.make_adt(s, ex, adt, d, path, subst)
        def make_string(s, ex, path):
            # names: parameters T/U under TParam, nominal A elsewhere
            return Spec.make_string(s, ex, path)
    spec = S2(W.tt, allowed={'Ty': top}, leaves={'Ty': leaves}, strings=('T', 'U'), vec_len=vec_len, int_choices=[2], depth=depth,
              field_hooks={('Ty', 'TApp', 'ty'): lambda sp, ex, d, p: mkbox(Agg(TY.key, TY.vindex('TStruct'), [mkstr('B')])),
                           ('Ty', 'TStruct', 'name'): lambda sp, ex, d, p: mkstr('A'), ('Ty', 'TEnum', 'name'): lambda sp, ex, d, p: mkstr('A'), ('Ty', 'TDyn', 'trait_name'): lambda sp, ex, d, p: mkstr('D')})
    def entry(ex):
        t = spec.root(ex, 'tast::Ty', tag='t'); tsh = shape(force(ex, t), TY)
        ps = sorted(set(params_of(tsh)))
        sigma = {}
        for p_ in ps: sigma[p_] = ex.choose([(True, i) for i in range(len(CONCRETE))])
        sg = {p_: CONCRETE[i] for p_, i in sigma.items()}
        smap = PyMap('index'); smap.keys = [mkstr(p_) for p_ in ps]; smap.vals = [build_ty(TY, sg[p_]) for p_ in ps]
        h = {0: build_ty(TY, tsh), 1: smap}
        actual = ex.call('mono::subst_ty', [Ref(h, 0), Ref(h, 1)])
        ash = shape(actual, TY); h[2] = actual
        ht = ex.call('mono::has_tparam', [Ref(h, 2)])
        h[3] = PyMap('index')
        res = ex.call('mono::unify', [Ref(h, 0), Ref(h, 2), Ref(h, 3)])
        got = {ms.pystr(k): shape(v, TY) for k, v in zip(h[3].keys, h[3].vals)} if res.idx == 0 else None
        return tsh, sg, ash, bool(ht) if not ms.is_sym(ht) else ht, (None if res.idx == 0 else ms.pystr(res.fields[0])), got
    res = e2.explore(r, W, entry, [])
    found = {}
    for p in res:
        r.cases += 1
        if p.kind != 'ok': found.setdefault('panic', ('mono kernel panics: %s' % p.value, None)); continue
        tsh, sg, ash, ht, err_, got = p.value
        r.nontrivial += 1
        want = subst_shape(tsh, sg)
        if ash != want: found.setdefault('subst-wrong', ('subst_ty(%s, %s) = %s, expected %s' % (goml_ty(tsh), {k: goml_ty(v) for k, v in sg.items()}, json.dumps(ash), goml_ty(want)), (tsh, sg)))
        elif ht is not False: found.setdefault('tparam-residue', ('has_tparam says the fully instantiated type %s still has a type parameter' % goml_ty(ash), (tsh, sg)))
        elif err_ is not None:
            js = json.dumps(tsh)
            key = 'instantiation-not-recognised:' + ('TVec' if 'TVec' in js else 'TDyn' if 'TDyn' in js else tsh['k'])
            found.setdefault(key, ('mono::unify rejects a type against its own instantiation: template %s, actual %s: %s' % (goml_ty(tsh), goml_ty(ash), err_), (tsh, sg)))
        elif got != sg: found.setdefault('wrong-substitution', ('mono::unify(%s, %s) recovers %s, the instantiation was %s' % (goml_ty(tsh), goml_ty(ash), got, sg), (tsh, sg)))
        elif len(r.samples) < 3 and sg: r.samples.append({'template': goml_ty(tsh), 'instantiated': goml_ty(ash)})
    for key, (what, w) in found.items():
        ok_, detail = True, 'values produced by the real mono::subst_ty / has_tparam / unify MIR'
        if w is not None and key.startswith('instantiation-not-recognised'):
            try: ok_, detail = replay_program(*w)
            except Exception as e: ok_, detail = False, 'replay failed: %s' % str(e)[:200]
        r.findings.append(Finding(key, what[:600], {'template': w[0] if w else None, 'sigma': w[1] if w else None}, ok_, detail))

def obligations():
    allc = ['TTuple', 'TApp', 'TArray', 'TVec', 'TRef', 'TFunc']
    leaves = ['TInt32', 'TBool', 'TString', 'TParam', 'TStruct', 'TDyn']
    return [Ob('O7.2-mono-roundtrip-d1', 'mono subst_ty/unify round trip: every composite constructor over leaves', ob_mono_roundtrip, ('quick', 'thorough'), 5, dict(top=allc + leaves, inner=leaves, depth=1)),
            Ob('O7.2-mono-roundtrip-d2', 'mono subst_ty/unify round trip: depth 2', ob_mono_roundtrip, ('quick', 'thorough'), 30, dict(top=allc, inner=allc + ['TParam', 'TInt32'], depth=2, vec_len=(1, 1))),
            # component lists of 0..2 at both levels: sharded by top constructor, leaves int32 / T / U (the full leaf set with wide lists exceeds the path limit)
            Ob('O7.2-mono-roundtrip-d2w-tuple', 'mono subst_ty/unify round trip: depth 2, tuples of 0..2 components', ob_mono_roundtrip, ('thorough',), 100, dict(top=['TTuple'], inner=['TTuple', 'TVec', 'TRef', 'TParam', 'TInt32'], depth=2, vec_len=(0, 2), leaves=('TInt32', 'TParam'))),
            Ob('O7.2-mono-roundtrip-d2w-func', 'mono subst_ty/unify round trip: depth 2, functions of 0..2 parameters', ob_mono_roundtrip, ('thorough',), 200, dict(top=['TFunc'], inner=['TTuple', 'TParam', 'TInt32'], depth=2, vec_len=(0, 2), leaves=('TInt32', 'TParam'))),
            Ob('O7.2-mono-roundtrip-d2w-app', 'mono subst_ty/unify round trip: depth 2, applications with 0..2 arguments', ob_mono_roundtrip, ('thorough',), 100, dict(top=['TApp'], inner=['TTuple', 'TApp', 'TVec', 'TParam', 'TInt32'], depth=2, vec_len=(0, 2), leaves=('TInt32', 'TParam')))]

# ----------------------------------------------------------------------------- O7.3 no generic type application survives TypeMono::collapse_type_apps
def has_app(sh, bases):
    if sh['k'] == 'TApp' and sh['base'].get('name') in bases: return True
    return ('base' in sh and has_app(sh['base'], bases)) or any(has_app(x, bases) for x in sh.get('a', []))

def replay_residue(tsh):
    src = 'enum Opt[T] { Non, Som(T) }\nstruct B[X] { v: X }\n'
    src += 'fn mk() -> %s { mk() }\nfn main() -> unit { let x = mk(); () }\n' % goml_ty(tsh)
    d = tempfile.mkdtemp(prefix='vf-c07-')
    try:
        open(os.path.join(d, 'main.gom'), 'w').write(src)
        p = subprocess.run([build.compiler_bin(), 'run', '--dump-go', os.path.join(d, 'main.gom')], capture_output=True, text=True, timeout=60)
    finally: shutil.rmtree(d, ignore_errors=True)
    txt = p.stdout + p.stderr
    pan = [l for l in txt.splitlines() if 'panicked' in l or 'generic types not supported' in l]
    return bool(pan), 'goml program `%s` -> %s' % (src.replace('\n', ' | '), pan[:2] if pan else txt[:200].replace('\n', ' | '))

def ob_collapse(r, tier, seed, top, inner, depth, vec_len=(1, 1)):
    W = e2.fresh_world(CRATES); tt = W.tt; TY = tt.find_adt(['tast', 'Ty'], 'compiler')
    ED = tt.find_adt(['env', 'EnumDef'], 'compiler'); SD = tt.find_adt(['env', 'StructDef'], 'compiler'); TI = tt.find_adt(['tast', 'TastIdent'], 'compiler')
    bases = ('Opt', 'B')
    r.bounds = 'concrete types of depth <= %d: top constructor in %s, inner in %s, leaves int32 / bool; TApp bases: the generic enum Opt[T] { Non, Som(T) } and the generic struct B[X] { v: X }' % (depth, top, inner)
    r.assumptions = ['names::ty_compact (external `pretty` crate) replaced by an injective stand-in', 'oracle: collapse_type_apps(t) contains no application of a registered generic enum/struct at any position (the Go backend has no generic types)']
    def ident(n): return Agg(TI.key, 0, [mkstr(n)])
    def m_ty_compact(ex, a): return mkstr(json.dumps(shape(ex.deref(a[0]), TY), sort_keys=True).replace(' ', ''))
    W.stubs['ty_compact'] = m_ty_compact
    class S2(Spec):
        def make_adt(s, ex, adt, d, path, subst):
            if adt.name == 'Ty': s.allowed['Ty'] = top if d == depth else inner
            return Spec.make_adt(s, ex, adt, d, path, subst)
    spec = S2(tt, allowed={'Ty': top}, leaves={'Ty': ['TInt32', 'TBool']}, strings=('A',), vec_len=vec_len, int_choices=[2], depth=depth,
              field_hooks={('Ty', 'TApp', 'ty'): lambda sp, ex, d, p: mkbox(Agg(TY.key, TY.vindex(ex.choose([(True, 'TEnum'), (True, 'TStruct')])), [None])),
                           ('Ty', 'TApp', 'args'): lambda sp, ex, d, p: PyVec([sp.make_adt(ex, TY, d, p + '[0]', {})])})
    def fixbase(v):
        # TApp base placeholder -> Opt for enums, B for structs
        if isinstance(v, Agg) and v.ty == 'Box': fixbase(unbox(v)); return
        if isinstance(v, PyVec):
            for x in v.items: fixbase(x)
            return
        if isinstance(v, Agg) and v.ty == TY.key:
            n = TY.variants[v.idx].name
            if n in ('TEnum', 'TStruct') and v.fields[0] is None: v.fields[0] = mkstr('Opt' if n == 'TEnum' else 'B')
            for f in v.fields: fixbase(f)
    def entry(ex):
        t = force(ex, spec.root(ex, 'tast::Ty', tag='t')); fixbase(t); tsh = shape(t, TY)
        genv = ex.call('env::GlobalTypeEnv::new_empty', [])
        menv = ex.call('mono::GlobalMonoEnv::from_genv', [genv]); h = {0: menv}
        tparam = lambda n: Agg(TY.key, TY.vindex('TParam'), [mkstr(n)])
        ex.call('mono::GlobalMonoEnv::insert_enum', [Ref(h, 0), Agg(ED.key, 0, [ident('Opt'), PyVec([ident('T')]), PyVec([Agg('tuple', 0, [ident('Non'), PyVec([])]), Agg('tuple', 0, [ident('Som'), PyVec([tparam('T')])])])])])
        ex.call('mono::GlobalMonoEnv::insert_struct', [Ref(h, 0), Agg(SD.key, 0, [ident('B'), PyVec([ident('X')]), PyVec([Agg('tuple', 0, [ident('v'), tparam('X')])])])])
        tm = ex.call('mono::TypeMono::new', [Ref(h, 0)]); h[1] = tm; h[2] = t
        out = ex.call('mono::TypeMono::collapse_type_apps', [Ref(h, 1), Ref(h, 2)])
        return tsh, shape(out, TY)
    res = e2.explore(r, W, entry, [])
    found = {}
    for p in res:
        r.cases += 1
        if p.kind != 'ok': found.setdefault('panic', ('collapse_type_apps panics: %s' % p.value, None)); continue
        tsh, osh = p.value
        if has_app(tsh, bases): r.nontrivial += 1
        if has_app(osh, bases):
            js = json.dumps(tsh); where = 'TVec' if '"TVec"' in js else tsh['k']
            found.setdefault('type-application-residue:' + where, ('collapse_type_apps(%s) still contains a generic type application: %s' % (goml_ty(tsh), json.dumps(osh)[:300]), tsh))
        elif len(r.samples) < 3 and has_app(tsh, bases): r.samples.append({'type': goml_ty(tsh), 'collapsed': json.dumps(osh)[:200]})
    for key, (what, w) in found.items():
        ok_, detail = True, 'value produced by the real TypeMono::collapse_type_apps MIR'
        if w is not None and key.startswith('type-application-residue'):
            try: ok_, detail = replay_residue(w)
            except Exception as e: ok_, detail = False, 'replay failed: %s' % str(e)[:200]
        r.findings.append(Finding(key, what[:600], {'type': w}, ok_, detail))

_obligations_72 = obligations
def obligations():
    comp = ['TTuple', 'TApp', 'TArray', 'TVec', 'TRef', 'TFunc']
    return _obligations_72() + [
        Ob('O7.3-collapse-d2', 'no generic type application survives collapse_type_apps: depth 2', ob_collapse, ('quick', 'thorough'), 10, dict(top=comp, inner=['TApp', 'TInt32'], depth=2)),
        Ob('O7.3-collapse-d3', 'no generic type application survives collapse_type_apps: depth 3', ob_collapse, ('thorough',), 100, dict(top=comp, inner=comp + ['TInt32'], depth=3))]

# ----------------------------------------------------------------------------- O7.4 specialisation terminates: a generic function that calls itself at a type built from its own parameter
def replay_polyrec(wrapper):
    arg = {'id': 'x', 'tuple': '(x, x)', 'vec': 'mkvec(x)', 'ref': 'mkref(x)'}[wrapper]
    src = 'fn mkvec[T](x: T) -> Vec[T] { vec_push(vec_new(), x) }\nfn mkref[T](x: T) -> Ref[T] { ref(x) }\nfn f[T](x: T, n: int32) -> int32 { if n == 0 { 0 } else { f(%s, n - 1) } }\nfn main() -> unit { string_println(int32_to_string(f(1, 3))) }\n' % arg
    d = tempfile.mkdtemp(prefix='vf-c07-')
    try:
        open(os.path.join(d, 'main.gom'), 'w').write(src)
        try:
            p = subprocess.run('ulimit -v 1500000; exec %s run --dump-mono %s' % (build.compiler_bin(), os.path.join(d, 'main.gom')), shell=True, capture_output=True, text=True, timeout=60)
            txt = p.stdout + p.stderr
            bad = p.returncode < 0 or p.returncode == 134 or 'memory allocation' in txt or 'panicked' in txt or 'overflow' in txt
            return bad, 'goml `%s`: exit %d %s' % (src.replace('\n', ' | '), p.returncode, txt[-160:].replace('\n', ' | ') if bad else 'terminates')
        except subprocess.TimeoutExpired:
            return True, 'goml `%s`: the compiler does not terminate within 60 s' % src.replace('\n', ' | ')
    finally: shutil.rmtree(d, ignore_errors=True)

def ob_polyrec(r, tier, seed):
    W = e2.fresh_world(CRATES); tt = W.tt; W.step_limit = 300000
    TY = tt.find_adt(['tast', 'Ty'], 'compiler'); CE = tt.find_adt(['core', 'Expr'], 'compiler'); CF = tt.find_adt(['core', 'Fn'], 'compiler'); CFILE = tt.find_adt(['core', 'File'], 'compiler')
    PR = tt.find_adt(['common', 'Prim'], 'compiler')
    r.bounds = 'the program `fn f[T](x: T) -> int32 { f(W(x)) }  fn main() { f(1) }` with W lazily one of: x itself, the tuple (x, x), a Vec of x, a Ref of x; mono::mono executed with a budget of %d MIR steps' % W.step_limit
    r.assumptions = ['names::ty_compact (external `pretty` crate) replaced by an injective stand-in', 'oracle: monomorphisation terminates (the property: specialisation terminates for every accepted program; the typer accepts all four programs)']
    def m_ty_compact(ex, a): return mkstr(json.dumps(shape(ex.deref(a[0]), TY), sort_keys=True).replace(' ', ''))
    W.stubs['ty_compact'] = m_ty_compact
    T = lambda n, *f: Agg(TY.key, TY.vindex(n), list(f))
    E = lambda n, **kw: Agg(CE.key, CE.vindex(n), [kw[f[0]] for f in CE.variants[CE.vindex(n)].fields])
    def entry(ex):
        wk = ex.choose([(True, w) for w in ('id', 'tuple', 'vec', 'ref')]); ex.notes['wrapper'] = wk
        tp = T('TParam', mkstr('T')); i32 = T('TInt32')
        wty = {'id': tp, 'tuple': T('TTuple', PyVec([tp, tp])), 'vec': T('TVec', mkbox(tp)), 'ref': T('TRef', mkbox(tp))}[wk]
        x = E('EVar', name=mkstr('x'), ty=tp)
        if wk == 'id': arg = x
        elif wk == 'tuple': arg = E('ETuple', items=PyVec([x, E('EVar', name=mkstr('x'), ty=tp)]), ty=wty)
        else:
            mkname = 'mkvec' if wk == 'vec' else 'mkref'
            arg = E('ECall', func=mkbox(E('EVar', name=mkstr(mkname), ty=T('TFunc', PyVec([tp]), mkbox(wty)))), args=PyVec([x]), ty=wty)
        fty = lambda a: T('TFunc', PyVec([a]), mkbox(i32))
        body = E('ECall', func=mkbox(E('EVar', name=mkstr('f'), ty=fty(wty))), args=PyVec([arg]), ty=i32)
        f = Agg(CF.key, 0, [{'name': mkstr('f'), 'generics': PyVec([mkstr('T')]), 'params': PyVec([Agg('tuple', 0, [mkstr('x'), tp])]), 'ret_ty': i32, 'body': body}[fl[0]] for fl in CF.variants[0].fields])
        one = E('EPrim', value=Agg(PR.key, PR.vindex('Int32'), [1]), ty=i32)
        mbody = E('ECall', func=mkbox(E('EVar', name=mkstr('f'), ty=fty(i32))), args=PyVec([one]), ty=i32)
        main = Agg(CF.key, 0, [{'name': mkstr('main'), 'generics': PyVec([]), 'params': PyVec([]), 'ret_ty': i32, 'body': mbody}[fl[0]] for fl in CF.variants[0].fields])
        genv = ex.call('env::GlobalTypeEnv::new_empty', [])
        fns = [f, main]
        if wk in ('vec', 'ref'):
            # the wrapper is a generic helper of the program itself: fn mk[T](x: T) -> W[T] (body irrelevant for specialisation)
            mk = Agg(CF.key, 0, [{'name': mkstr(mkname), 'generics': PyVec([mkstr('T')]), 'params': PyVec([Agg('tuple', 0, [mkstr('x'), tp])]), 'ret_ty': wty, 'body': E('EVar', name=mkstr('w'), ty=wty)}[fl[0]] for fl in CF.variants[0].fields])
            fns.append(mk)
        from mirsym.engine import Limit, Panic
        try: res = ex.call('mono::mono', [genv, Agg(CFILE.key, 0, [PyVec(fns)])])
        except Limit as e_: raise Panic('HANG-CANDIDATE: mono::mono still running after the step budget (%s)' % e_)
        mf = res.fields[0]
        return wk, len(mf.fields[0].items)
    res = e2.explore(r, W, entry, [])
    for p in res:
        r.cases += 1
        if p.kind == 'ok': r.nontrivial += 1; r.samples.append({'wrapper': p.value[0], 'instances': p.value[1]}); continue
        wk = (p.notes or {}).get('wrapper', '?')
        key = 'specialisation-diverges:polymorphic-recursion' if ('limit' in p.value.lower() or 'HANG' in p.value) else 'panic'
        if any(f.key == key for f in r.findings): continue
        ok_, detail = replay_polyrec(wk) if wk != '?' else (False, 'no wrapper recorded')
        r.findings.append(Finding(key, 'mono::mono does not finish on `fn f[T](x: T) { f(%s) }` called from main (%s)' % ({'id': 'x', 'tuple': '(x, x)', 'vec': 'Vec of x', 'ref': 'Ref of x'}.get(wk, wk), p.value[:120]), {'wrapper': wk}, ok_, detail))

_obligations_73 = obligations
def obligations():
    return _obligations_73() + [Ob('O7.4-specialisation-terminates', 'monomorphisation terminates on a generic function calling itself at a type built from its parameter', ob_polyrec, ('quick', 'thorough'), 5, {})]

# ----------------------------------------------------------------------------- O7.5 every call site of a generic function gets the instance of its own type arguments; no type parameter survives
def shape_has_param(sh):
    return sh['k'] == 'TParam' or ('base' in sh and shape_has_param(sh['base'])) or any(shape_has_param(x) for x in sh.get('a', []))

def replay_mono_program(kind):
    src = {'result-only': 'fn mk[T]() -> Vec[T] { vec_new() }\nfn main() -> unit { let a: Vec[int32] = mk(); let b: Vec[bool] = mk(); () }\n',
           'param': 'fn id[T](x: T) -> T { x }\nfn main() -> unit { let a = id(1); let b = id(true); () }\n',
           'fn-result': 'fn run[A, B](f: (A) -> B, x: A) -> unit { () }\nfn s(x: int32) -> string { "a" }\nfn b(x: int32) -> bool { true }\nfn main() -> unit { let u = run(s, 1); let v = run(b, 1); () }\n',
           'crosswise': 'fn first[A, B](a: A, b: B) -> A { a }\nfn main() -> unit { let a = first(1, "s"); let b = first("s", 1); () }\n'}[kind]
    d = tempfile.mkdtemp(prefix='vf-c07-')
    try:
        open(os.path.join(d, 'main.gom'), 'w').write(src)
        p = subprocess.run([build.compiler_bin(), 'run', '--dump-mono', os.path.join(d, 'main.gom')], capture_output=True, text=True, timeout=60)
    finally: shutil.rmtree(d, ignore_errors=True)
    txt = p.stdout
    import re as _re
    gen = {'result-only': 'mk', 'param': 'id', 'fn-result': 'run', 'crosswise': 'first'}[kind]
    insts = sorted(set(_re.findall(r'^fn (%s\w*)\(' % gen, txt, _re.M)))
    resid = [l for l in txt.splitlines() if _re.search(r'\b[TAB]\b', l) and l.startswith('fn ')]
    return len(insts) != 2 or bool(resid), 'goml `%s`: mono dump has the instances %s%s' % (src.replace('\n', ' | '), insts, (' and type parameters left in ' + resid[0]) if resid else '')

def ob_mono_instances(r, tier, seed, hash_symbolic=False):
    W = e2.fresh_world(CRATES); tt = W.tt; W.step_limit = 400000
    if hash_symbolic: W.hash_order = 'symbolic'
    TY = tt.find_adt(['tast', 'Ty'], 'compiler'); CE = tt.find_adt(['core', 'Expr'], 'compiler'); CF = tt.find_adt(['core', 'Fn'], 'compiler'); CFILE = tt.find_adt(['core', 'File'], 'compiler')
    PR = tt.find_adt(['common', 'Prim'], 'compiler'); MFN = [a for a in tt.by_name['MonoFn'] if a.crate == 'compiler'][0]
    r.bounds = 'three programs with one generic function called at two different type arguments from main: the parameter occurs (a) only in the result type `fn mk[T]() -> Vec[T]`, (b) in a value parameter `fn id[T](x: T) -> T`, (c) only in the result of a function-typed parameter `fn run[A, B](f: (A) -> B, x: A)`, (d) two parameters instantiated crosswise `fn first[A, B](a: A, b: B) -> A` at (int32, string) and (string, int32)'
    r.assumptions = ['names::ty_compact replaced by an injective stand-in', 'oracle: mono::mono emits exactly two instances of the generic function, with the two instantiated signatures, and no function of the output mentions a type parameter']
    def m_ty_compact(ex, a): return mkstr(json.dumps(shape(ex.deref(a[0]), TY), sort_keys=True).replace(' ', ''))
    W.stubs['ty_compact'] = m_ty_compact
    T = lambda n, *f: Agg(TY.key, TY.vindex(n), list(f))
    E = lambda n, **kw: Agg(CE.key, CE.vindex(n), [kw[f[0]] for f in CE.variants[CE.vindex(n)].fields])
    def fn(name, generics, params, ret, body):
        generics = []          # the pipeline builds every top-level core::Fn with an empty `generics` list: genericity is read off the signature (fn_is_generic -> has_tparam)
        return Agg(CF.key, 0, [{'name': mkstr(name), 'generics': PyVec([mkstr(g) for g in generics]), 'params': PyVec([Agg('tuple', 0, [mkstr(n), t]) for n, t in params]), 'ret_ty': ret, 'body': body}[fl[0]] for fl in CF.variants[0].fields])
    def entry(ex):
        kind = ex.choose([(True, k) for k in ('result-only', 'param', 'fn-result', 'crosswise')]); ex.notes['kind'] = kind
        i32, bl, st, un = T('TInt32'), T('TBool'), T('TString'), T('TUnit'); tp = lambda n: T('TParam', mkstr(n))
        unit = E('EPrim', value=Agg(PR.key, PR.vindex('Unit'), [ms.UNIT]), ty=un)
        def let(n, v, body): return E('ELet', name=mkstr(n), value=mkbox(v), body=mkbox(body), ty=un)
        def call(f, fty, args, ty): return E('ECall', func=mkbox(E('EVar', name=mkstr(f), ty=fty)), args=PyVec(args), ty=ty)
        vec = lambda t: T('TVec', mkbox(t)); fun = lambda ps, r_: T('TFunc', PyVec(ps), mkbox(r_))
        if kind == 'result-only':
            g = fn('mk', ['T'], [], vec(tp('T')), E('EVar', name=mkstr('w'), ty=vec(tp('T'))))
            body = let('a', call('mk', fun([], vec(i32)), [], vec(i32)), let('b', call('mk', fun([], vec(bl)), [], vec(bl)), unit))
            fns = [g]; gname = 'mk'; want = [([], 'TInt32'), ([], 'TBool')]
        elif kind == 'crosswise':
            # two type parameters instantiated crosswise: (A, B) = (int32, string) and (string, int32) are two different instances
            g = fn('first', ['A', 'B'], [('a', tp('A')), ('b', tp('B'))], tp('A'), E('EVar', name=mkstr('a'), ty=tp('A')))
            one = E('EPrim', value=Agg(PR.key, PR.vindex('Int32'), [1]), ty=i32); sv = E('EVar', name=mkstr('sv'), ty=st)
            body = let('a', call('first', fun([i32, st], i32), [one, sv], i32), let('b', call('first', fun([st, i32], st), [sv, one], st), unit))
            fns = [g]; gname = 'first'
        elif kind == 'param':
            g = fn('id', ['T'], [('x', tp('T'))], tp('T'), E('EVar', name=mkstr('x'), ty=tp('T')))
            one = E('EPrim', value=Agg(PR.key, PR.vindex('Int32'), [1]), ty=i32); tr = E('EPrim', value=Agg(PR.key, PR.vindex('Bool'), [True]), ty=bl)
            body = let('a', call('id', fun([i32], i32), [one], i32), let('b', call('id', fun([bl], bl), [tr], bl), unit))
            fns = [g]; gname = 'id'
        else:
            g = fn('run', ['A', 'B'], [('f', fun([tp('A')], tp('B'))), ('x', tp('A'))], un, unit)
            s_ = fn('s', [], [('x', i32)], st, E('EVar', name=mkstr('q'), ty=st)); b_ = fn('b', [], [('x', i32)], bl, E('EVar', name=mkstr('q'), ty=bl))
            one = E('EPrim', value=Agg(PR.key, PR.vindex('Int32'), [1]), ty=i32)
            c1 = call('run', fun([fun([i32], st), i32], un), [E('EVar', name=mkstr('s'), ty=fun([i32], st)), one], un)
            c2 = call('run', fun([fun([i32], bl), i32], un), [E('EVar', name=mkstr('b'), ty=fun([i32], bl)), one], un)
            body = let('u', c1, let('v', c2, unit)); fns = [g, s_, b_]; gname = 'run'
        main = fn('main', [], [], un, body)
        genv = ex.call('env::GlobalTypeEnv::new_empty', [])
        from mirsym.engine import Limit, Panic
        try: res = ex.call('mono::mono', [genv, Agg(CFILE.key, 0, [PyVec(fns + [main])])])
        except Limit as e_: raise Panic('HANG-CANDIDATE: ' + str(e_))
        out = []
        for f_ in res.fields[0].fields[0].items:
            fd = dict(zip([x[0] for x in MFN.variants[0].fields], f_.fields))
            out.append((ms.pystr(fd['name']), [shape(p_.fields[1], TY) for p_ in fd['params'].items], shape(fd['ret_ty'], TY)))
        return kind, gname, out
    res = e2.explore(r, W, entry, [])
    if hash_symbolic: return res
    for p in res:
        r.cases += 1
        if p.kind != 'ok':
            if not any(f.key == 'panic' for f in r.findings): r.findings.append(Finding('panic', 'mono::mono panics / does not finish on program %s: %s' % ((p.notes or {}).get('kind'), p.value[:160]), {}, False, 'not replayed'))
            continue
        kind, gname, out = p.value
        r.nontrivial += 1
        insts = [o for o in out if o[0] == gname or o[0].startswith(gname + '__')]
        resid = [o for o in out if any(shape_has_param(x) for x in o[1]) or shape_has_param(o[2])]
        sigs = set(json.dumps([o[1], o[2]], sort_keys=True) for o in insts)
        if len(insts) != 2 or len(sigs) != 2 or resid:
            if any(f.key == 'instances-shared-or-unspecialised' for f in r.findings): continue
            ok_, detail = replay_mono_program(kind)
            r.findings.append(Finding('instances-shared-or-unspecialised', 'program (%s): mono emits the instances %s of `%s`%s' % (kind, [o[0] for o in insts], gname, '; type parameters survive in ' + str([o[0] for o in resid]) if resid else ''), {'kind': kind, 'instances': [o[0] for o in insts]}, ok_, detail))
        else: r.samples.append({'program': kind, 'instances': [o[0] for o in insts]})

_obligations_74 = obligations
def obligations():
    return _obligations_74() + [Ob('O7.5-call-site-instances', 'each call site of a generic function gets the instance of its own type arguments; no type parameter survives', ob_mono_instances, ('quick', 'thorough'), 5, {})]

# ----------------------------------------------------------------------------- O7.6 no type parameter survives anywhere inside the body of an instance
FORMS_76 = {'var': ('T', 'x'), 'tuple': ('(T, T)', '(x, x)'), 'array': ('[T; 2]', '[x, x]'), 'array-of-tuples': ('[(T, T); 1]', '[(x, x)]'), 'closure': ('(T) -> T', '|z: T| z'),
            'let': ('T', '{ let w = x; w }'), 'if': ('T', 'if true { x } else { x }'), 'proj': ('T', '(x, x).0'),
            'tuple-of-arrays': ('([T; 2], T)', '([x, x], x)'), 'closure-array': ('(T) -> [T; 1]', '|z: T| [z]'),
            'self-call': ('T', 'g(x)'), 'match-default': ('T', 'match x { _ => x }'), 'let-tuple': ('(T, T)', '{ let w = (x, x); w }')}
def replay_body_types(form):
    rt, ex_ = FORMS_76[form]
    # the expression is bound to a variable first: a declaration `var r_ <type>` shows the type the backend received for it (a tail expression may be assigned without one)
    src = 'fn g[T](x: T) -> %s { let r_ = %s; r_ }\nfn main() -> unit { let a = g(1); let b = g("s"); () }\n' % (rt, ex_)
    d = tempfile.mkdtemp(prefix='vf-c07b-')
    try:
        open(os.path.join(d, 'main.gom'), 'w').write(src)
        p = subprocess.run([build.compiler_bin(), 'run', '--dump-go', os.path.join(d, 'main.gom')], capture_output=True, text=True, timeout=60)
    finally: shutil.rmtree(d, ignore_errors=True)
    import re as _re
    go = p.stdout
    if '== Go ==' not in go and 'package main' not in go: return False, 'the replay program does not compile: ' + (p.stderr or go)[:200]
    left = [l.strip() for l in go.splitlines() if _re.search(r'(?<![A-Za-z0-9_])T(?![A-Za-z0-9_])', l)]
    return bool(left), 'goml `%s`: the emitted Go %s' % (src.replace('\n', ' | '), ('still names the type parameter: ' + ' | '.join(left[:3])) if left else 'names no type parameter')

def ob_mono_body_types(r, tier, seed):
    W = e2.fresh_world(CRATES); tt = W.tt; W.step_limit = 400000
    TY = tt.find_adt(['tast', 'Ty'], 'compiler'); CE = tt.find_adt(['core', 'Expr'], 'compiler'); CF = tt.find_adt(['core', 'Fn'], 'compiler'); CFILE = tt.find_adt(['core', 'File'], 'compiler')
    PR = tt.find_adt(['common', 'Prim'], 'compiler'); CP = tt.find_adt(['tast', 'ClosureParam'], 'compiler'); ME = [a for a in tt.by_name['MonoExpr'] if a.crate == 'compiler'][0]
    r.bounds = 'the program `fn g[T](x: T) -> R { E }` with `g` called at int32 from main, E one of the expression forms %s (R the type of E); every type stored anywhere in the MonoFile returned by mono::mono is inspected' % sorted(FORMS_76)
    r.assumptions = ['names::ty_compact replaced by an injective stand-in', 'oracle: no tast::Ty value reachable from the output (signatures, expression types, closure parameter types, literal types) is or contains a TParam']
    def m_ty_compact(ex, a): return mkstr(json.dumps(shape(ex.deref(a[0]), TY), sort_keys=True).replace(' ', ''))
    W.stubs['ty_compact'] = m_ty_compact
    T = lambda n, *f: Agg(TY.key, TY.vindex(n), list(f))
    E = lambda n, **kw: Agg(CE.key, CE.vindex(n), [kw[f[0]] for f in CE.variants[CE.vindex(n)].fields])
    def fn(name, params, ret, body):
        return Agg(CF.key, 0, [{'name': mkstr(name), 'generics': PyVec([]), 'params': PyVec([Agg('tuple', 0, [mkstr(n), t]) for n, t in params]), 'ret_ty': ret, 'body': body}[fl[0]] for fl in CF.variants[0].fields])
    def find_params(v, path, out, depth=0):
        from mirsym.engine import Ref as R_
        if depth > 300: return
        if isinstance(v, R_): return find_params(v.get(), path, out, depth + 1)
        if isinstance(v, Agg):
            if v.ty == 'Box': return find_params(unbox(v), path, out, depth + 1)
            if v.ty == TY.key and TY.variants[v.idx].name == 'TParam': out.append('/'.join(path)); return
            here = path + [ME.variants[v.idx].name] if v.ty == ME.key else path
            for x in v.fields: find_params(x, here, out, depth + 1)
        elif isinstance(v, PyVec):
            for x in v.items: find_params(x, path, out, depth + 1)
    def entry(ex):
        form = ex.choose([(True, k) for k in sorted(FORMS_76)]); ex.notes['form'] = form
        i32, un, bl = T('TInt32'), T('TUnit'), T('TBool'); tp = T('TParam', mkstr('T'))
        tup = lambda ts: T('TTuple', PyVec(ts)); arr = lambda n, t: T('TArray', n, mkbox(t)); fun = lambda ps, r_: T('TFunc', PyVec(ps), mkbox(r_))
        x = lambda: E('EVar', name=mkstr('x'), ty=tp); z = lambda: E('EVar', name=mkstr('z'), ty=tp)
        clo = lambda body, rt_: E('EClosure', params=PyVec([Agg(CP.key, 0, [mkstr('z'), tp, ms.NONE()])]), body=mkbox(body), ty=fun([tp], rt_))
        if form == 'var': e = x(); rt = tp
        elif form == 'tuple': rt = tup([tp, tp]); e = E('ETuple', items=PyVec([x(), x()]), ty=rt)
        elif form == 'array': rt = arr(2, tp); e = E('EArray', items=PyVec([x(), x()]), ty=rt)
        elif form == 'array-of-tuples': rt = arr(1, tup([tp, tp])); e = E('EArray', items=PyVec([E('ETuple', items=PyVec([x(), x()]), ty=tup([tp, tp]))]), ty=rt)
        elif form == 'tuple-of-arrays': rt = tup([arr(2, tp), tp]); e = E('ETuple', items=PyVec([E('EArray', items=PyVec([x(), x()]), ty=arr(2, tp)), x()]), ty=rt)
        elif form == 'closure': rt = fun([tp], tp); e = clo(z(), tp)
        elif form == 'closure-array': rt = fun([tp], arr(1, tp)); e = clo(E('EArray', items=PyVec([z()]), ty=arr(1, tp)), arr(1, tp))
        elif form == 'let': rt = tp; e = E('ELet', name=mkstr('w'), value=mkbox(x()), body=mkbox(E('EVar', name=mkstr('w'), ty=tp)), ty=tp)
        elif form == 'if': rt = tp; e = E('EIf', cond=mkbox(E('EPrim', value=Agg(PR.key, PR.vindex('Bool'), [True]), ty=bl)), then_branch=mkbox(x()), else_branch=mkbox(x()), ty=tp)
        elif form == 'proj': rt = tp; e = E('EProj', tuple=mkbox(E('ETuple', items=PyVec([x(), x()]), ty=tup([tp, tp]))), index=0, ty=tp)
        elif form == 'self-call':
            rt = tp; e = E('ECall', func=mkbox(E('EVar', name=mkstr('g'), ty=fun([tp], tp))), args=PyVec([x()]), ty=tp)
        elif form == 'match-default':
            rt = tp; e = E('EMatch', expr=mkbox(x()), arms=PyVec([]), default=ms.some(mkbox(x())), ty=tp)
        elif form == 'let-tuple':
            rt = tup([tp, tp]); e = E('ELet', name=mkstr('w'), value=mkbox(E('ETuple', items=PyVec([x(), x()]), ty=rt)), body=mkbox(E('EVar', name=mkstr('w'), ty=rt)), ty=rt)
        else:      # unused: a call of a local closure takes the `or_else` closure in mono_expr whose captured operand the textual MIR dump drops (DESIGN 5.2)
            rt = tp; e = E('ELet', name=mkstr('f'), value=mkbox(clo(z(), tp)), body=mkbox(E('ECall', func=mkbox(E('EVar', name=mkstr('f'), ty=fun([tp], tp))), args=PyVec([x()]), ty=tp)), ty=tp)
        g = fn('g', [('x', tp)], rt, e)
        def inst(t):      # R[T := int32]
            return build_ty(TY, subst_shape(shape(t, TY), {'T': {'k': 'TInt32'}}))
        one = E('EPrim', value=Agg(PR.key, PR.vindex('Int32'), [1]), ty=i32)
        rt_i = inst(rt)
        call = E('ECall', func=mkbox(E('EVar', name=mkstr('g'), ty=fun([i32], rt_i))), args=PyVec([one]), ty=inst(rt))
        main = fn('main', [], un, E('ELet', name=mkstr('a'), value=mkbox(call), body=mkbox(E('EPrim', value=Agg(PR.key, PR.vindex('Unit'), [ms.UNIT]), ty=un)), ty=un))
        genv = ex.call('env::GlobalTypeEnv::new_empty', [])
        from mirsym.engine import Limit, Panic
        try: res = ex.call('mono::mono', [genv, Agg(CFILE.key, 0, [PyVec([g, main])])])
        except Limit as e_: raise Panic('HANG-CANDIDATE: ' + str(e_))
        out = []; nfn = len(res.fields[0].fields[0].items)
        find_params(res.fields[0], [], out)
        return form, out, nfn
    res = e2.explore(r, W, entry, [])
    for p in res:
        r.cases += 1
        if p.kind != 'ok':
            if not any(f.key == 'panic' for f in r.findings): r.findings.append(Finding('panic', 'mono::mono panics / does not finish on form %s: %s' % ((p.notes or {}).get('form'), p.value[:160]), {}, False, 'not replayed'))
            continue
        form, left, nfn = p.value; r.nontrivial += 1
        if left:
            key = 'type-parameter-survives:' + form
            try: ok_, detail = replay_body_types(form)
            except Exception as e_: ok_, detail = False, 'replay failed: %s' % str(e_)[:160]
            r.findings.append(Finding(key, 'form `%s` (`fn g[T](x: T) -> %s { %s }` at int32): the output of mono::mono still contains the type parameter at %s' % (form, FORMS_76[form][0], FORMS_76[form][1], sorted(set(left))[:4]), {'form': form}, ok_, detail))
        elif len(r.samples) < 3: r.samples.append({'form': form, 'functions': nfn})

_obligations_75 = obligations
def obligations():
    return _obligations_75() + [Ob('O7.6-instance-body-types', 'no type parameter survives in any type stored inside the body of an instance', ob_mono_body_types, ('quick', 'thorough'), 5, {})]

# ----------------------------------------------------------------------------- O13.10 (registered under C13) the order of the functions mono::mono emits does not depend on hash iteration order
def replay_mono_order(kind, runs=24):
    src = {'result-only': 'fn mk[T]() -> Vec[T] { vec_new() }\nfn main() -> unit { let a: Vec[int32] = mk(); let b: Vec[bool] = mk(); () }\n',
           'param': 'fn id[T](x: T) -> T { x }\nfn main() -> unit { let a = id(1); let b = id(true); () }\n',
           'fn-result': 'fn run[A, B](f: (A) -> B, x: A) -> unit { () }\nfn s(x: int32) -> string { "a" }\nfn b(x: int32) -> bool { true }\nfn main() -> unit { let u = run(s, 1); let v = run(b, 1); () }\n'}[kind]
    d = tempfile.mkdtemp(prefix='vf-c13mo-'); outs = {}
    try:
        open(os.path.join(d, 'main.gom'), 'w').write(src)
        for _ in range(runs):
            p = subprocess.run([build.compiler_bin(), 'run', '--dump-mono', os.path.join(d, 'main.gom')], capture_output=True, text=True, timeout=60)
            outs[p.stdout] = outs.get(p.stdout, 0) + 1
    finally: shutil.rmtree(d, ignore_errors=True)
    return len(outs) > 1, 'goml `%s`: %d fresh processes print %d different mono dumps %s' % (src.replace('\n', ' | '), runs, len(outs), sorted(outs.values()))

def ob_mono_order(r, tier, seed):
    res = ob_mono_instances(r, tier, seed, hash_symbolic=True)
    r.bounds = 'the three programs of O7.5 (one generic function called at two type arguments); the iteration order of every std HashMap / HashSet that mono::mono iterates is a solver-chosen permutation'
    r.assumptions = ['names::ty_compact replaced by an injective stand-in', 'oracle: every execution of mono::mono on one program returns the same functions in the same order']
    by = {}
    for p in res:
        r.cases += 1
        if p.kind != 'ok':
            if not any(f.key == 'panic' for f in r.findings): r.findings.append(Finding('panic', 'mono::mono panics under some iteration order: %s' % str(p.value)[:160], {}, False, 'not replayed'))
            continue
        kind, gname, out = p.value
        by.setdefault(kind, set()).add(tuple(o[0] for o in out))
    r.nontrivial = len(by)
    for kind, seqs in by.items():
        if len(seqs) > 1:
            try: ok_, detail = replay_mono_order(kind)
            except Exception as e_: ok_, detail = False, 'replay failed: %s' % str(e_)[:160]
            r.findings.append(Finding('instance-order-depends-on-hash-order:' + kind, 'program (%s): mono::mono emits its functions in %d different orders depending on hash iteration: %s' % (kind, len(seqs), sorted(seqs)[:2]), {'program': kind}, ok_, detail))
        else: r.samples.append({'program': kind, 'order': list(next(iter(seqs)))})

def obligations_c13():
    return [Ob('O13.10-mono-instance-order', 'the order of the functions emitted by mono::mono is independent of hash iteration order', ob_mono_order, ('quick', 'thorough'), 3, {})]

# ----------------------------------------------------------------------------- O7.7 non-generic definitions that mention generic types
def replay_def_residue(tsh, kind):
    src = 'enum Opt[T] { Non, Som(T) }\nstruct B[X] { v: X }\n'
    src += ('struct H { f: %s }\n' if kind == 'struct' else 'enum K { V(%s), W }\n') % goml_ty(tsh)
    src += ('fn mk() -> H { mk() }\n' if kind == 'struct' else 'fn mk() -> K { K::W }\n') + 'fn main() -> unit { let x = mk(); () }\n'
    d = tempfile.mkdtemp(prefix='vf-c07-')
    try:
        open(os.path.join(d, 'main.gom'), 'w').write(src)
        p = subprocess.run([build.compiler_bin(), 'run', '--dump-go', os.path.join(d, 'main.gom')], capture_output=True, text=True, timeout=60)
    finally: shutil.rmtree(d, ignore_errors=True)
    txt = p.stdout + p.stderr
    pan = [l for l in txt.splitlines() if 'panicked' in l or 'generic types not supported' in l]
    return bool(pan), 'goml program `%s` -> %s' % (src.replace('\n', ' | '), pan[:2] if pan else txt[:200].replace('\n', ' | '))

def ob_def_types(r, tier, seed, top, inner, depth):
    W = e2.fresh_world(CRATES); tt = W.tt; TY = tt.find_adt(['tast', 'Ty'], 'compiler'); W.step_limit = 400000
    ED = tt.find_adt(['env', 'EnumDef'], 'compiler'); SD = tt.find_adt(['env', 'StructDef'], 'compiler'); TI = tt.find_adt(['tast', 'TastIdent'], 'compiler')
    CE = tt.find_adt(['core', 'Expr'], 'compiler'); CF = tt.find_adt(['core', 'Fn'], 'compiler'); CFILE = tt.find_adt(['core', 'File'], 'compiler'); PR = tt.find_adt(['common', 'Prim'], 'compiler')
    GE = tt.find_adt(['env', 'GlobalTypeEnv'], 'compiler'); TEV = tt.find_adt(['env', 'TypeEnv'], 'compiler'); ME = tt.find_adt(['mono', 'GlobalMonoEnv'], 'compiler')
    bases = ('Opt', 'B')
    r.bounds = 'a program with the generic enum Opt[T] { Non, Som(T) }, the generic struct B[X] { v: X } and one non-generic definition `struct H { f: t }` or `enum K { V(t), W }`, t a concrete type of depth <= %d: top constructor in %s, inner in %s, leaves int32 / bool; main does nothing' % (depth, top, inner)
    r.assumptions = ['names::ty_compact (external `pretty` crate) replaced by an injective stand-in', 'oracle: after mono::mono no struct / enum definition the Go backend will see (generics empty) has a field type containing an application of a generic enum / struct, and every struct / enum name a field mentions is defined']
    def ident(n): return Agg(TI.key, 0, [mkstr(n)])
    def m_ty_compact(ex, a): return mkstr(json.dumps(shape(ex.deref(a[0]), TY), sort_keys=True).replace(' ', ''))
    W.stubs['ty_compact'] = m_ty_compact
    class S2(Spec):
        def make_adt(s, ex, adt, d, path, subst):
            if adt.name == 'Ty': s.allowed['Ty'] = top if d == depth else inner
            return Spec.make_adt(s, ex, adt, d, path, subst)
    spec = S2(tt, allowed={'Ty': top}, leaves={'Ty': ['TInt32', 'TBool']}, strings=('A',), vec_len=(1, 1), int_choices=[2], depth=depth,
              field_hooks={('Ty', 'TApp', 'ty'): lambda sp, ex, d, p: mkbox(Agg(TY.key, TY.vindex(ex.choose([(True, 'TEnum'), (True, 'TStruct')])), [None])),
                           ('Ty', 'TApp', 'args'): lambda sp, ex, d, p: PyVec([sp.make_adt(ex, TY, d, p + '[0]', {})])})
    def fixbase(v):
        if isinstance(v, Agg) and v.ty == 'Box': fixbase(unbox(v)); return
        if isinstance(v, PyVec):
            for x in v.items: fixbase(x)
            return
        if isinstance(v, Agg) and v.ty == TY.key:
            n = TY.variants[v.idx].name
            if n in ('TEnum', 'TStruct') and v.fields[0] is None: v.fields[0] = mkstr('Opt' if n == 'TEnum' else 'B')
            for f in v.fields: fixbase(f)
    def fld(adt, agg, name): return agg.fields[[f[0] for f in adt.variants[0].fields].index(name)]
    def names_in(sh, out):
        if sh['k'] in ('TStruct', 'TEnum'): out.append(sh.get('name'))
        if 'base' in sh: names_in(sh['base'], out)
        for x in sh.get('a', []): names_in(x, out)
        return out
    def entry(ex):
        kind = ex.choose([(True, 'struct'), (True, 'enum')])
        t = force(ex, spec.root(ex, 'tast::Ty', tag='t')); fixbase(t); tsh = shape(t, TY)
        genv = ex.call('env::GlobalTypeEnv::new_empty', [])
        tenv = fld(GE, genv, 'type_env'); enums = fld(TEV, tenv, 'enums'); structs = fld(TEV, tenv, 'structs')
        tparam = lambda n: Agg(TY.key, TY.vindex('TParam'), [mkstr(n)])
        enums.keys.append(ident('Opt')); enums.vals.append(Agg(ED.key, 0, [ident('Opt'), PyVec([ident('T')]), PyVec([Agg('tuple', 0, [ident('Non'), PyVec([])]), Agg('tuple', 0, [ident('Som'), PyVec([tparam('T')])])])]))
        structs.keys.append(ident('B')); structs.vals.append(Agg(SD.key, 0, [ident('B'), PyVec([ident('X')]), PyVec([Agg('tuple', 0, [ident('v'), tparam('X')])])]))
        if kind == 'struct':
            structs.keys.append(ident('H')); structs.vals.append(Agg(SD.key, 0, [ident('H'), PyVec([]), PyVec([Agg('tuple', 0, [ident('f'), t])])]))
        else:
            enums.keys.append(ident('K')); enums.vals.append(Agg(ED.key, 0, [ident('K'), PyVec([]), PyVec([Agg('tuple', 0, [ident('V'), PyVec([t])]), Agg('tuple', 0, [ident('W'), PyVec([])])])]))
        un = Agg(TY.key, TY.vindex('TUnit'), [])
        unit = Agg(CE.key, CE.vindex('EPrim'), [{'value': Agg(PR.key, PR.vindex('Unit'), [ms.UNIT]), 'ty': un}[f[0]] for f in CE.variants[CE.vindex('EPrim')].fields])
        main = Agg(CF.key, 0, [{'name': mkstr('main'), 'generics': PyVec([]), 'params': PyVec([]), 'ret_ty': un, 'body': unit}[fl[0]] for fl in CF.variants[0].fields])
        res = ex.call('mono::mono', [genv, Agg(CFILE.key, 0, [PyVec([main])])])
        menv = res.fields[1]
        defs = {}
        g2 = fld(ME, menv, 'genv'); t2 = fld(GE, g2, 'type_env')
        for src_ in (fld(TEV, t2, 'structs'), fld(ME, menv, 'mono_structs')):
            for k, v in zip(src_.keys, src_.vals):
                if len(v.fields[1].items) == 0: defs[ms.pystr(k.fields[0])] = [shape(f_.fields[1], TY) for f_ in v.fields[2].items]
        for src_ in (fld(TEV, t2, 'enums'), fld(ME, menv, 'mono_enums')):
            for k, v in zip(src_.keys, src_.vals):
                if len(v.fields[1].items) == 0: defs[ms.pystr(k.fields[0])] = [shape(x, TY) for var in v.fields[2].items for x in var.fields[1].items]
        return kind, tsh, defs
    res = e2.explore(r, W, entry, [])
    found = {}
    for p in res:
        r.cases += 1
        if p.kind != 'ok': found.setdefault('panic', ('mono::mono panics: %s' % str(p.value)[:200], None, None)); continue
        kind, tsh, defs = p.value
        if has_app(tsh, bases): r.nontrivial += 1
        bad = [(n, f_) for n, fs in defs.items() for f_ in fs if has_app(f_, bases)]
        undefined = [(n, x) for n, fs in defs.items() for f_ in fs for x in names_in(f_, []) if x not in defs]
        if bad: found.setdefault('definition-keeps-type-application:' + kind, ('after mono::mono the definition of %s still has a field of type %s (declared %s)' % (bad[0][0], json.dumps(bad[0][1])[:200], goml_ty(tsh)), tsh, kind))
        elif undefined: found.setdefault('definition-mentions-undefined-type:' + kind, ('after mono::mono the definition of %s mentions the type %s, which is not defined (declared field type %s)' % (undefined[0][0], undefined[0][1], goml_ty(tsh)), tsh, kind))
        elif len(r.samples) < 3 and has_app(tsh, bases): r.samples.append({'kind': kind, 'field type': goml_ty(tsh), 'definitions': sorted(defs)})
    for key, (what, w, kind) in found.items():
        ok_, detail = False, 'not replayed'
        if w is not None:
            try: ok_, detail = replay_def_residue(w, kind)
            except Exception as e: ok_, detail = False, 'replay failed: %s' % str(e)[:200]
        r.findings.append(Finding(key, what[:600], {'type': w}, ok_, detail))

_obligations_76 = obligations
def obligations():
    comp = ['TTuple', 'TApp', 'TArray', 'TVec', 'TRef', 'TFunc']
    return _obligations_76() + [Ob('O7.7-definition-types-d1', 'no non-generic struct / enum definition keeps a generic type application in a field after mono::mono: depth 1', ob_def_types, ('quick', 'thorough'), 5, dict(top=comp, inner=['TApp', 'TInt32'], depth=1)),
                                Ob('O7.7-definition-types-d2', 'no non-generic struct / enum definition keeps a generic type application in a field after mono::mono: depth 2', ob_def_types, ('quick', 'thorough'), 10, dict(top=comp, inner=['TApp', 'TInt32'], depth=2))]

# ----------------------------------------------------------------------------- O7.8 no generic type application survives anywhere in the body of a function
FORMS_78 = {'let-value': 'let w = o; ()', 'let-body': 'let w = 1; o', 'if-then': 'if c { o } else { p }', 'if-else': 'if c { p } else { o }', 'match-arm': 'match n { 1 => o, _ => p }',
            'match-default': 'match n { 1 => p, _ => o }', 'match-scrutinee': 'match o { _ => 1 }', 'while-body': 'while c { let w = o; () }', 'tuple-item': '(1, o)', 'array-item': '[o]',
            'call-arg': 'f(o)', 'closure-body': '|z: int32| o', 'proj': '(o, 1).0', 'go': 'go f(o)'}
def replay_app_residue(form):
    import re as _re
    body = _re.sub(r'\bp\b', 'Opt::Non', _re.sub(r'\bo\b', 'Opt::Som(1)', FORMS_78[form])) if form != 'match-scrutinee' else FORMS_78[form]      # a constructor expression: its type is visible in the dumps and reaches the backend
    src = ('enum Opt[T] { Non, Som(T) }\nfn f(x: Opt[int32]) -> unit { () }\nfn h(c: bool, n: int32, o: Opt[int32], p: Opt[int32]) -> unit { let r_ = %s; () }\n'
           'fn main() -> unit { h(true, 1, Opt::Non, Opt::Non) }\n') % (body if not body.startswith('let') and not body.startswith('while') and not body.startswith('go') else '{ %s }' % body)
    d = tempfile.mkdtemp(prefix='vf-c07c-')
    try:
        open(os.path.join(d, 'main.gom'), 'w').write(src)
        p = subprocess.run([build.compiler_bin(), 'run', '--dump-mono', '--dump-go', os.path.join(d, 'main.gom')], capture_output=True, text=True, timeout=60)
    finally: shutil.rmtree(d, ignore_errors=True)
    txt = p.stdout + p.stderr
    pan = [l for l in txt.splitlines() if 'panicked' in l or 'generic types not supported' in l]
    mono = txt.split('== Go ==')[0]
    left = [l.strip() for l in mono.splitlines() if 'Opt[' in l]
    return bool(pan) or bool(left), 'goml `%s`: %s' % (src.replace('\n', ' | '), ('the backend panics: ' + pan[0][:160]) if pan else ('the mono dump still has ' + left[0][:120]) if left else 'no type application left: ' + txt[:100].replace('\n', ' | '))

def ob_mono_app_residue(r, tier, seed):
    W = e2.fresh_world(CRATES); tt = W.tt; W.step_limit = 400000
    TY = tt.find_adt(['tast', 'Ty'], 'compiler'); CE = tt.find_adt(['core', 'Expr'], 'compiler'); CF = tt.find_adt(['core', 'Fn'], 'compiler'); CFILE = tt.find_adt(['core', 'File'], 'compiler'); CARM = tt.find_adt(['core', 'Arm'], 'compiler')
    PR = tt.find_adt(['common', 'Prim'], 'compiler'); CP = tt.find_adt(['tast', 'ClosureParam'], 'compiler'); ME = [a for a in tt.by_name['MonoExpr'] if a.crate == 'compiler'][0]
    ED = tt.find_adt(['env', 'EnumDef'], 'compiler'); TI = tt.find_adt(['tast', 'TastIdent'], 'compiler'); GE = tt.find_adt(['env', 'GlobalTypeEnv'], 'compiler'); TEV = tt.find_adt(['env', 'TypeEnv'], 'compiler')
    r.bounds = 'the non-generic function `fn h(c: bool, n: int32, o: Opt[int32], p: Opt[int32])` whose body mentions a value of the instantiated generic type Opt[int32] at one of the positions %s; every type stored anywhere in the MonoFile returned by mono::mono is inspected' % sorted(FORMS_78)
    r.assumptions = ['names::ty_compact replaced by an injective stand-in', 'oracle: no tast::Ty value reachable from the output (signatures, expression types, closure parameter types) is or contains an application of the generic enum Opt (the backend has no generic types)']
    def m_ty_compact(ex, a): return mkstr(json.dumps(shape(ex.deref(a[0]), TY), sort_keys=True).replace(' ', ''))
    W.stubs['ty_compact'] = m_ty_compact
    T = lambda n, *f: Agg(TY.key, TY.vindex(n), list(f))
    E = lambda n, **kw: Agg(CE.key, CE.vindex(n), [kw[f[0]] for f in CE.variants[CE.vindex(n)].fields])
    ident = lambda n: Agg(TI.key, 0, [mkstr(n)])
    def fn(name, params, ret, body):
        return Agg(CF.key, 0, [{'name': mkstr(name), 'generics': PyVec([]), 'params': PyVec([Agg('tuple', 0, [mkstr(n), t]) for n, t in params]), 'ret_ty': ret, 'body': body}[fl[0]] for fl in CF.variants[0].fields])
    def find_apps(v, path, out, depth=0):
        from mirsym.engine import Ref as R_
        if depth > 300: return
        if isinstance(v, R_): return find_apps(v.get(), path, out, depth + 1)
        if isinstance(v, Agg):
            if v.ty == 'Box': return find_apps(unbox(v), path, out, depth + 1)
            if v.ty == TY.key and TY.variants[v.idx].name == 'TApp': out.append('/'.join(path)); return
            here = path + [ME.variants[v.idx].name] if v.ty == ME.key else path
            for x in v.fields: find_apps(x, here, out, depth + 1)
        elif isinstance(v, PyVec):
            for x in v.items: find_apps(x, path, out, depth + 1)
    def fld(adt, agg, name): return agg.fields[[f[0] for f in adt.variants[0].fields].index(name)]
    def entry(ex):
        form = ex.choose([(True, k) for k in sorted(FORMS_78)]); ex.notes['form'] = form
        i32, un, bl = T('TInt32'), T('TUnit'), T('TBool'); opt = lambda: T('TApp', mkbox(T('TEnum', mkstr('Opt'))), PyVec([T('TInt32')]))
        tup = lambda ts: T('TTuple', PyVec(ts)); fun = lambda ps, r_: T('TFunc', PyVec(ps), mkbox(r_))
        o = lambda: E('EVar', name=mkstr('o'), ty=opt()); p_ = lambda: E('EVar', name=mkstr('p'), ty=opt()); c = lambda: E('EVar', name=mkstr('c'), ty=bl); n = lambda: E('EVar', name=mkstr('n'), ty=i32)
        unit = lambda: E('EPrim', value=Agg(PR.key, PR.vindex('Unit'), [ms.UNIT]), ty=un); one = lambda: E('EPrim', value=Agg(PR.key, PR.vindex('Int32'), [1]), ty=i32)
        let = lambda nm, v, b, ty: E('ELet', name=mkstr(nm), value=mkbox(v), body=mkbox(b), ty=ty)
        arm = lambda l, b: Agg(CARM.key, 0, [l, b])
        callf = lambda: E('ECall', func=mkbox(E('EVar', name=mkstr('f'), ty=fun([opt()], un))), args=PyVec([o()]), ty=un)
        e = {'let-value': lambda: let('w', o(), unit(), un), 'let-body': lambda: let('w', one(), o(), opt()),
             'if-then': lambda: E('EIf', cond=mkbox(c()), then_branch=mkbox(o()), else_branch=mkbox(p_()), ty=opt()), 'if-else': lambda: E('EIf', cond=mkbox(c()), then_branch=mkbox(p_()), else_branch=mkbox(o()), ty=opt()),
             'match-arm': lambda: E('EMatch', expr=mkbox(n()), arms=PyVec([arm(one(), o())]), default=ms.some(mkbox(p_())), ty=opt()),
             'match-default': lambda: E('EMatch', expr=mkbox(n()), arms=PyVec([arm(one(), p_())]), default=ms.some(mkbox(o())), ty=opt()),
             'match-scrutinee': lambda: E('EMatch', expr=mkbox(o()), arms=PyVec([]), default=ms.some(mkbox(one())), ty=i32),
             'while-body': lambda: E('EWhile', cond=mkbox(c()), body=mkbox(let('w', o(), unit(), un)), ty=un),
             'tuple-item': lambda: E('ETuple', items=PyVec([one(), o()]), ty=tup([i32, opt()])), 'array-item': lambda: E('EArray', items=PyVec([o()]), ty=T('TArray', 1, mkbox(opt()))),
             'call-arg': callf, 'closure-body': lambda: E('EClosure', params=PyVec([Agg(CP.key, 0, [mkstr('z'), i32, ms.NONE()])]), body=mkbox(o()), ty=fun([i32], opt())),
             'proj': lambda: E('EProj', tuple=mkbox(E('ETuple', items=PyVec([o(), one()]), ty=tup([opt(), i32]))), index=0, ty=opt()),
             'go': lambda: E('EGo', expr=mkbox(callf()), ty=un)}[form]()
        ety = e.fields[[f[0] for f in CE.variants[e.idx].fields].index('ty')]
        body = let('r_', e, unit(), un)
        h = fn('h', [('c', bl), ('n', i32), ('o', opt()), ('p', opt())], un, body)
        f_ = fn('f', [('x', opt())], un, unit())
        main = fn('main', [], un, unit())
        genv = ex.call('env::GlobalTypeEnv::new_empty', [])
        tenv = fld(GE, genv, 'type_env'); enums = fld(TEV, tenv, 'enums')
        enums.keys.append(ident('Opt')); enums.vals.append(Agg(ED.key, 0, [ident('Opt'), PyVec([ident('T')]), PyVec([Agg('tuple', 0, [ident('Non'), PyVec([])]), Agg('tuple', 0, [ident('Som'), PyVec([T('TParam', mkstr('T'))])])])]))
        from mirsym.engine import Limit, Panic
        try: res = ex.call('mono::mono', [genv, Agg(CFILE.key, 0, [PyVec([f_, h, main])])])
        except Limit as e_: raise Panic('HANG-CANDIDATE: ' + str(e_))
        out = []
        find_apps(res.fields[0], [], out)
        return form, out
    res = e2.explore(r, W, entry, [])
    for p in res:
        r.cases += 1
        if p.kind != 'ok':
            if not any(f.key == 'panic' for f in r.findings): r.findings.append(Finding('panic', 'mono::mono panics / does not finish on form %s: %s' % ((p.notes or {}).get('form'), str(p.value)[:160]), {}, False, 'not replayed'))
            continue
        form, left = p.value; r.nontrivial += 1
        if left:
            key = 'type-application-survives:' + form
            try: ok_, detail = replay_app_residue(form)
            except Exception as e_: ok_, detail = False, 'replay failed: %s' % str(e_)[:160]
            r.findings.append(Finding(key, 'form `%s` (`%s` with o: Opt[int32]): the output of mono::mono still contains a generic type application at %s' % (form, FORMS_78[form], sorted(set(left))[:4]), {'form': form}, ok_, detail))
        elif len(r.samples) < 3: r.samples.append({'form': form})

_obligations_77 = obligations
def obligations():
    return _obligations_77() + [Ob('O7.8-body-type-applications', 'no generic type application survives in any type stored inside a function body after mono::mono', ob_mono_app_residue, ('quick', 'thorough'), 5, {})]

# ----------------------------------------------------------------------------- O17.6 a trait method called through a bound runs the implementation for the receiver's type (mono's ETraitCall)
def ob_bounded_trait_calls(r, tier, seed):
    W = e2.fresh_world(CRATES); tt = W.tt; W.step_limit = 400000
    TY = tt.find_adt(['tast', 'Ty'], 'compiler'); CE = tt.find_adt(['core', 'Expr'], 'compiler'); CF = tt.find_adt(['core', 'Fn'], 'compiler'); CFILE = tt.find_adt(['core', 'File'], 'compiler')
    PR = tt.find_adt(['common', 'Prim'], 'compiler'); MFN = [a for a in tt.by_name['MonoFn'] if a.crate == 'compiler'][0]; ME = [a for a in tt.by_name['MonoExpr'] if a.crate == 'compiler'][0]
    TI = tt.find_adt(['tast', 'TastIdent'], 'compiler')
    W.stubs['ty_compact'] = lambda ex, a: mkstr(json.dumps(shape(ex.deref(a[0]), TY), sort_keys=True).replace(' ', ''))
    r.bounds = ('the program `fn pair[A: Tr1, B: Tr2](a: A, b: B) -> unit { let _ = Tr1::m(a); let _ = Tr2::m(b); let _ = Tr1::m(a); () }` (Tr1, Tr2 each Show or Debug - solver decision; the same trait twice is included), '
                'called from main at the type arguments (int32, bool), (bool, int32), (int32, int32) - one, two or all three calls present (solver decision)')
    r.assumptions = ['names::ty_compact replaced by an injective stand-in', 'oracle: in the instance of `pair` for (X, Y) the three calls are calls of trait_impl_fn_name(Tr1, X, m), trait_impl_fn_name(Tr2, Y, m), trait_impl_fn_name(Tr1, X, m) (names from the real names::trait_impl_fn_name) - the implementation for the type of each receiver']
    T = lambda n, *f: Agg(TY.key, TY.vindex(n), list(f))
    E = lambda n, **kw: Agg(CE.key, CE.vindex(n), [kw[f[0]] for f in CE.variants[CE.vindex(n)].fields])
    def fn(name, params, ret, body):
        return Agg(CF.key, 0, [{'name': mkstr(name), 'generics': PyVec([]), 'params': PyVec([Agg('tuple', 0, [mkstr(n), t]) for n, t in params]), 'ret_ty': ret, 'body': body}[fl[0]] for fl in CF.variants[0].fields])
    ident = lambda n: Agg(TI.key, 0, [mkstr(n)])
    ARGS = [('TInt32', 'TBool'), ('TBool', 'TInt32'), ('TInt32', 'TInt32')]
    def entry(ex):
        t1 = ex.choose([(True, 'Show'), (True, 'Debug')]); t2 = ex.choose([(True, 'Show'), (True, 'Debug')])
        present = [ex.choose([(True, True), (True, False)]) for _ in ARGS]
        if not any(present): present[0] = True
        un = T('TUnit'); st = T('TString'); tp = lambda n: T('TParam', mkstr(n))
        unit = E('EPrim', value=Agg(PR.key, PR.vindex('Unit'), [ms.UNIT]), ty=un)
        def let(n, v, body): return E('ELet', name=mkstr(n), value=mkbox(v), body=mkbox(body), ty=un)
        def tcall(tr, recv, rty): return E('ETraitCall', trait_name=ident(tr), method_name=ident('m'), receiver=mkbox(E('EVar', name=mkstr(recv), ty=rty)), args=PyVec([]), ty=st)
        body = let('_1', tcall(t1, 'a', tp('A')), let('_2', tcall(t2, 'b', tp('B')), let('_3', tcall(t1, 'a', tp('A')), unit)))
        g = fn('pair', [('a', tp('A')), ('b', tp('B'))], un, body)
        lit = {'TInt32': lambda: E('EPrim', value=Agg(PR.key, PR.vindex('Int32'), [1]), ty=T('TInt32')), 'TBool': lambda: E('EPrim', value=Agg(PR.key, PR.vindex('Bool'), [True]), ty=T('TBool'))}
        mbody = unit
        for (x, y), pr in reversed(list(zip(ARGS, present))):
            if not pr: continue
            fty = T('TFunc', PyVec([T(x), T(y)]), mkbox(un))
            mbody = let('_c', E('ECall', func=mkbox(E('EVar', name=mkstr('pair'), ty=fty)), args=PyVec([lit[x](), lit[y]()]), ty=un), mbody)
        main = fn('main', [], un, mbody)
        genv = ex.call('env::GlobalTypeEnv::new_empty', [])
        res = ex.call('mono::mono', [genv, Agg(CFILE.key, 0, [PyVec([g, main])])])
        names = {}
        for tr in (t1, t2):
            for x in ('TInt32', 'TBool'):
                hh = {0: ident(tr), 1: T(x), 2: mkstr('m')}; names[(tr, x)] = ms.pystr(ex.call('names::trait_impl_fn_name', [Ref(hh, 0), Ref(hh, 1), Ref(hh, 2)]))
        def calls(e, out):
            if isinstance(e, Agg) and e.ty == 'Box': e = unbox(e)
            n = ME.variants[e.idx].name; f = dict(zip([x[0] for x in ME.variants[e.idx].fields], e.fields))
            if n == 'ECall':
                fe = unbox(f['func']); fn_, ff = ME.variants[fe.idx].name, dict(zip([x[0] for x in ME.variants[fe.idx].fields], fe.fields))
                if fn_ == 'EVar': out.append(ms.pystr(ff['name']))
                for a_ in f['args'].items: calls(a_, out)
            elif n == 'ELet': calls(f['value'], out); calls(f['body'], out)
            return out
        insts = []
        for f_ in res.fields[0].fields[0].items:
            fd = dict(zip([x[0] for x in MFN.variants[0].fields], f_.fields)); nm = ms.pystr(fd['name'])
            if nm == 'main' or not nm.startswith('pair'): continue
            insts.append(([TY.variants[p_.fields[1].idx].name for p_ in fd['params'].items], calls(fd['body'], [])))
        return t1, t2, [a for a, pr in zip(ARGS, present) if pr], insts, names
    res = e2.explore(r, W, entry, [])
    for p in res:
        r.cases += 1
        if p.kind != 'ok':
            if not any(f.key == 'panic' for f in r.findings): r.findings.append(Finding('panic', 'mono::mono panics on the bounded-call program: %s' % str(p.value)[:200], {}, False, 'not replayed'))
            continue
        t1, t2, args, insts, names = p.value; r.nontrivial += 1; bad = None
        if sorted(tuple(i[0]) for i in insts) != sorted(set(args)): bad = 'instances %s for the call sites %s' % ([i[0] for i in insts], args)
        else:
            for ptys, cs in insts:
                want = [names[(t1, ptys[0])], names[(t2, ptys[1])], names[(t1, ptys[0])]]
                if cs != want: bad = 'the instance pair[%s, %s] calls %s, the implementations for its receivers are %s' % (ptys[0], ptys[1], cs, want); break
        if bad and not r.findings:
            ok_, detail = replay_bounded_calls()
            r.findings.append(Finding('bounded-call-runs-other-impl', 'bounds (%s, %s), call sites %s: %s' % (t1, t2, args, bad), {'traits': [t1, t2], 'calls': [list(a) for a in args]}, ok_, detail))
        elif not bad and len(r.samples) < 3: r.samples.append({'traits': [t1, t2], 'instances': [[i[0], i[1]] for i in insts]})

def replay_bounded_calls():
    src = ('trait Show { fn m(Self) -> string; }\nimpl Show for int32 { fn m(self: int32) -> string { "i" } }\nimpl Show for bool { fn m(self: bool) -> string { "b" } }\n'
           'fn pair[A: Show, B: Show](a: A, b: B) -> string { Show::m(a) + Show::m(b) + Show::m(a) }\nfn main() -> unit { string_println(pair(1, true)); string_println(pair(true, 1)) }\n')
    d = tempfile.mkdtemp(prefix='vf-c17b-')
    try:
        open(os.path.join(d, 'main.gom'), 'w').write(src)
        out = subprocess.run([build.compiler_bin(), 'run', '--dump-mono', os.path.join(d, 'main.gom')], capture_output=True, text=True, timeout=60).stdout
    finally: shutil.rmtree(d, ignore_errors=True)
    import re as _re
    wrong = []; blocks = _re.split(r'\n(?=fn )', out)
    for b in blocks:
        m_ = _re.match(r'fn (pair\S*)\(a/\d+: (\w+), b/\d+: (\w+)\)', b)
        if not m_: continue
        cs = _re.findall(r'trait_impl#Show#(\w+)#m', b)
        if cs != [m_.group(2), m_.group(3), m_.group(2)]: wrong.append((m_.group(1), cs))
    return bool(wrong), 'goml `%s`: instances whose bounded calls do not follow the receiver types: %s' % (src.replace('\n', ' | ')[:400], wrong)

def obligations_c17():
    return [Ob('O17.6-bounded-trait-calls', 'a trait method called through a bound resolves to the implementation for the type of each receiver', ob_bounded_trait_calls, ('quick', 'thorough'), 5, {})]

# ----------------------------------------------------------------------------- O7.9 an instantiated generic definition gets ITS OWN arguments in every field, also after a field that instantiates another generic
def ob_instance_fields(r, tier, seed):
    W = e2.fresh_world(CRATES); tt = W.tt; TY = tt.find_adt(['tast', 'Ty'], 'compiler'); W.step_limit = 400000
    ED = tt.find_adt(['env', 'EnumDef'], 'compiler'); SD = tt.find_adt(['env', 'StructDef'], 'compiler'); TI = tt.find_adt(['tast', 'TastIdent'], 'compiler')
    CE = tt.find_adt(['core', 'Expr'], 'compiler'); CF = tt.find_adt(['core', 'Fn'], 'compiler'); CFILE = tt.find_adt(['core', 'File'], 'compiler'); PR = tt.find_adt(['common', 'Prim'], 'compiler')
    GE = tt.find_adt(['env', 'GlobalTypeEnv'], 'compiler'); TEV = tt.find_adt(['env', 'TypeEnv'], 'compiler'); ME = tt.find_adt(['mono', 'GlobalMonoEnv'], 'compiler')
    r.bounds = ('the generic enum Opt[T] { Non, Som(T) }, the generic struct P[T] { a: <inner>, b: T, c: T } with <inner> (solver decision) one of Opt[bool], Opt[T], P-free int32, Opt[Opt[string]], '
                'and the non-generic struct H { f: P[X] } with X one of int32 / string / Opt[int32]; mono::mono on a program whose main does nothing')
    r.assumptions = ['names::ty_compact replaced by an injective stand-in', 'oracle: the monomorphic definition generated for P[X] has the fields b and c of exactly the type X (collapsed), whatever the field a instantiates before them - the parameter names of two generic definitions may coincide']
    def ident(n): return Agg(TI.key, 0, [mkstr(n)])
    W.stubs['ty_compact'] = lambda ex, a: mkstr(json.dumps(shape(ex.deref(a[0]), TY), sort_keys=True).replace(' ', ''))
    T = lambda n, *f: Agg(TY.key, TY.vindex(n), list(f))
    app = lambda base, kind, arg: T('TApp', mkbox(T(kind, mkstr(base))), PyVec([arg]))
    tparam = lambda n: T('TParam', mkstr(n))
    def fld(adt, agg, name): return agg.fields[[f[0] for f in adt.variants[0].fields].index(name)]
    INNER = {'Opt[bool]': lambda: app('Opt', 'TEnum', T('TBool')), 'Opt[T]': lambda: app('Opt', 'TEnum', tparam('T')), 'int32': lambda: T('TInt32'), 'Opt[Opt[string]]': lambda: app('Opt', 'TEnum', app('Opt', 'TEnum', T('TString')))}
    ARG = {'int32': lambda: T('TInt32'), 'string': lambda: T('TString'), 'Opt[int32]': lambda: app('Opt', 'TEnum', T('TInt32'))}
    def entry(ex):
        ik = ex.choose([(True, k) for k in INNER]); ak = ex.choose([(True, k) for k in ARG])
        genv = ex.call('env::GlobalTypeEnv::new_empty', [])
        tenv = fld(GE, genv, 'type_env'); enums = fld(TEV, tenv, 'enums'); structs = fld(TEV, tenv, 'structs')
        enums.keys.append(ident('Opt')); enums.vals.append(Agg(ED.key, 0, [ident('Opt'), PyVec([ident('T')]), PyVec([Agg('tuple', 0, [ident('Non'), PyVec([])]), Agg('tuple', 0, [ident('Som'), PyVec([tparam('T')])])])]))
        structs.keys.append(ident('P')); structs.vals.append(Agg(SD.key, 0, [ident('P'), PyVec([ident('T')]), PyVec([Agg('tuple', 0, [ident('a'), INNER[ik]()]), Agg('tuple', 0, [ident('b'), tparam('T')]), Agg('tuple', 0, [ident('c'), tparam('T')])])]))
        structs.keys.append(ident('H')); structs.vals.append(Agg(SD.key, 0, [ident('H'), PyVec([]), PyVec([Agg('tuple', 0, [ident('f'), app('P', 'TStruct', ARG[ak]())])])]))
        un = T('TUnit')
        unit = Agg(CE.key, CE.vindex('EPrim'), [{'value': Agg(PR.key, PR.vindex('Unit'), [ms.UNIT]), 'ty': un}[f[0]] for f in CE.variants[CE.vindex('EPrim')].fields])
        main = Agg(CF.key, 0, [{'name': mkstr('main'), 'generics': PyVec([]), 'params': PyVec([]), 'ret_ty': un, 'body': unit}[fl[0]] for fl in CF.variants[0].fields])
        res = ex.call('mono::mono', [genv, Agg(CFILE.key, 0, [PyVec([main])])])
        menv = res.fields[1]; defs = {}
        g2 = fld(ME, menv, 'genv'); t2 = fld(GE, g2, 'type_env')
        for src_ in (fld(TEV, t2, 'structs'), fld(ME, menv, 'mono_structs')):
            for k, v in zip(src_.keys, src_.vals):
                if len(v.fields[1].items) == 0: defs[ms.pystr(k.fields[0])] = [(ms.pystr(f_.fields[0].fields[0]), shape(f_.fields[1], TY)) for f_ in v.fields[2].items]
        return ik, ak, defs
    res = e2.explore(r, W, entry, [])
    for p in res:
        r.cases += 1
        if p.kind != 'ok':
            if not any(f.key == 'panic' for f in r.findings): r.findings.append(Finding('panic', 'mono::mono panics: %s' % str(p.value)[:200], {}, False, 'not replayed'))
            continue
        ik, ak, defs = p.value; r.nontrivial += 1
        hf = dict(defs.get('H', [])).get('f'); pname = hf.get('name') if hf and hf['k'] == 'TStruct' else None
        pd = dict(defs.get(pname, [])) if pname else None
        if pd is None:
            if not r.findings: r.findings.append(Finding('instance-definition-missing', 'H.f has the type %s after mono::mono; no monomorphic definition of P[%s] is reachable from it (definitions: %s)' % (json.dumps(hf), ak, sorted(defs)), {'inner': ik, 'arg': ak}, False, 'not replayed'))
            continue
        if pd.get('b') != pd.get('c') or (ak == 'int32' and pd.get('b', {}).get('k') != 'TInt32') or (ak == 'string' and pd.get('b', {}).get('k') != 'TString') or (ak == 'Opt[int32]' and pd.get('b', {}).get('k') != 'TEnum'):
            if any(f.key == 'instance-field-gets-foreign-argument' for f in r.findings): continue
            ok_, detail = replay_instance_fields(ik, ak)
            r.findings.append(Finding('instance-field-gets-foreign-argument', 'P[T] { a: %s, b: T, c: T } at T = %s: the monomorphic definition %s has b: %s, c: %s' % (ik, ak, pname, json.dumps(pd.get('b')), json.dumps(pd.get('c'))), {'inner': ik, 'arg': ak}, ok_, detail))
        elif len(r.samples) < 3: r.samples.append({'inner': ik, 'arg': ak, 'instance': pname, 'b': pd.get('b')})

def replay_instance_fields(ik, ak):
    src = 'enum Opt[T] { Non, Som(T) }\nstruct P[T] { a: %s, b: T, c: T }\nstruct H { f: P[%s] }\nfn mk() -> H { mk() }\nfn main() -> unit { let x = mk(); () }\n' % (ik, ak)
    d = tempfile.mkdtemp(prefix='vf-c07i-')
    try:
        open(os.path.join(d, 'main.gom'), 'w').write(src)
        out = subprocess.run([build.compiler_bin(), 'run', '--dump-go', os.path.join(d, 'main.gom')], capture_output=True, text=True, timeout=60).stdout
    finally: shutil.rmtree(d, ignore_errors=True)
    import re as _re
    m_ = _re.search(r'type (P__\w*) struct \{(.*?)\n\}', out, _re.S)
    fields = [l.split() for l in m_.group(2).strip().splitlines()] if m_ else []
    tys = {f[0]: ' '.join(f[1:]) for f in fields if f}
    return bool(m_) and tys.get('b') != tys.get('c') or (bool(m_) and ak == 'int32' and tys.get('b') != 'int32'), 'goml `%s`: the emitted Go declares %s with %s' % (src.replace('\n', ' | '), m_.group(1) if m_ else 'no P instance', tys)

def obligations_instance_fields():
    return [Ob('O7.9-instance-definition-fields', 'the definition generated for an instantiated generic struct has its own type arguments in every field', ob_instance_fields, ('quick', 'thorough'), 3, {})]

"""C08 - one facet only: the capture set computed for a closure body is exactly its free variables that are in scope
(lift::collect_captured), so a lifted closure sees every outer variable it uses and rebinds none of its own."""
import json, os, re, subprocess, tempfile, shutil
from vlib import build
import z3
from vlib import e2
from vlib.core import Ob, Finding
import mirsym as ms
from mirsym.lazy import Spec, force
from mirsym.engine import Agg, PyVec, PyMap, Str, Ref, Opaque, Unsupported, unbox, mkbox, mkstr

CRATES = ('compiler', 'common_defs', 'diagnostics')
NAMES = ('x', 'y', 'z')

def fv(LE, e, bound):
    """free variables of a forced LiftExpr value, in first-use order (reference definition)"""
    if isinstance(e, Agg) and e.ty == 'Box': e = unbox(e)
    n = LE.variants[e.idx].name; f = dict(zip([x[0] for x in LE.variants[e.idx].fields], e.fields)); out = []
    def add(xs):
        for x in xs:
            if x not in out: out.append(x)
    if n == 'EVar':
        nm = ms.pystr(f['name'])
        return [] if nm in bound else [nm]
    if n == 'ELet':
        add(fv(LE, f['value'], bound)); add(fv(LE, f['body'], bound + [ms.pystr(f['name'])])); return out
    for k, v in f.items():
        if isinstance(v, PyVec):
            for x in v.items:
                if isinstance(x, Agg) and x.ty == LE.key: add(fv(LE, x, bound))
                elif isinstance(x, Agg) and x.ty != LE.key and x.fields and all(isinstance(y, Agg) for y in x.fields):      # LiftArm { lhs, body }
                    for y in x.fields: add(fv(LE, y, bound))
        elif isinstance(v, Agg) and (v.ty == LE.key or v.ty == 'Box'):
            add(fv(LE, v, bound))
        elif isinstance(v, Agg) and v.ty == 'Option' and v.idx == 1: add(fv(LE, v.fields[0], bound))
    return out

def show(LE, e):
    if isinstance(e, Agg) and e.ty == 'Box': e = unbox(e)
    n = LE.variants[e.idx].name; f = dict(zip([x[0] for x in LE.variants[e.idx].fields], e.fields))
    if n == 'EVar': return ms.pystr(f['name'])
    if n == 'EPrim': return '1'
    if n == 'ELet': return 'let %s = %s in %s' % (ms.pystr(f['name']), show(LE, f['value']), show(LE, f['body']))
    if n == 'EIf': return 'if %s { %s } else { %s }' % (show(LE, f['cond']), show(LE, f['then_branch']), show(LE, f['else_branch']))
    if n == 'EBinary': return '(%s + %s)' % (show(LE, f['lhs']), show(LE, f['rhs']))
    if n == 'ECall': return '%s(%s)' % (show(LE, f['func']), ', '.join(show(LE, a) for a in f['args'].items))
    if n == 'ETuple': return '(%s)' % ', '.join(show(LE, a) for a in f['items'].items)
    if n == 'EWhile': return 'while %s { %s }' % (show(LE, f['cond']), show(LE, f['body']))
    return n

def ob_capture_set(r, tier, seed, depth, forms, inner=('EVar', 'ELet', 'EBinary'), names=NAMES):
    W = e2.fresh_world(CRATES); tt = W.tt
    LE = tt.find_adt(['lift', 'LiftExpr'], 'compiler'); TY = tt.find_adt(['tast', 'Ty'], 'compiler'); PR = tt.find_adt(['common', 'Prim'], 'compiler')
    SC = [a for a in tt.by_name['Scope'] if a.crate == 'compiler' and 'lift' in '::'.join(a.path)][0]
    SE = [a for a in tt.by_name['ScopeEntry'] if a.crate == 'compiler'][0]
    BOP = tt.find_adt(['common_defs', 'BinaryOp'], 'common_defs')
    r.bounds = 'closure bodies of depth <= %d: top constructor in %s, below it %s, leaves variables; variable and let names in %s; enclosing scope = {x, y} (z is not in scope: a global or builtin)' % (depth, forms, list(inner), list(names))
    r.assumptions = ['oracle: captured = the free variables of the body (reference definition: a let binds its name in its body only) that the enclosing scope defines, each once']
    int_ty = Agg(TY.key, TY.vindex('TInt32'), [])
    class S2(Spec):
        def make_adt(s, ex, adt, d, path, subst):
            if adt.name == 'LiftExpr': s.allowed['LiftExpr'] = list(forms) if d == depth else list(inner)
            return Spec.make_adt(s, ex, adt, d, path, subst)
    spec = S2(tt, allowed={'LiftExpr': forms, 'Ty': ['TInt32'], 'Prim': ['Int32'], 'BinaryOp': ['Add']}, leaves={'LiftExpr': ['EVar'], 'Ty': ['TInt32'], 'Prim': ['Int32'], 'BinaryOp': ['Add']},
                strings=names, vec_len=(1, 1), int_choices=[1], depth=depth)
    def entry(ex):
        body = force(ex, spec.root(ex, 'lift::LiftExpr', tag='b'))
        layer = PyMap('index')
        for n in ('x', 'y'):
            layer.keys.append(mkstr(n)); layer.vals.append(Agg(SE.key, 0, [int_ty, ms.NONE()]))
        h = {0: body, 1: PyVec([]), 2: PyMap('index'), 3: Agg(SC.key, 0, [PyVec([layer])])}
        ex.call('lift::collect_captured', [Ref(h, 0), Ref(h, 1), Ref(h, 2), Ref(h, 3)])
        return show(LE, body), [ms.pystr(k) for k in h[2].keys], [x for x in fv(LE, body, []) if x in ('x', 'y')], len(h[1].items)
    res = e2.explore(r, W, entry, [])
    for p in res:
        r.cases += 1
        if p.kind != 'ok':
            if not any(f.key == 'panic' for f in r.findings): r.findings.append(Finding('panic', 'collect_captured panics: %s' % p.value, {}, True, 'MIR run'))
            continue
        src, got, want, nb = p.value
        if want: r.nontrivial += 1
        if sorted(got) != sorted(want) or nb != 0:
            ckey = 'missing-capture' if set(want) - set(got) else 'wrong-capture-set'
            if not any(f.key == ckey for f in r.findings):
                r.findings.append(Finding(ckey, 'closure body `%s` in scope {x, y}: captured %s, free variables %s%s' % (src, got, want, '' if nb == 0 else '; the bound-variable stack is not restored (%d left)' % nb), {'body': src, 'captured': got, 'free': want}, True, 'capture map filled by the real lift::collect_captured MIR'))
        elif len(r.samples) < 3 and want: r.samples.append({'body': src, 'captured': got})

def obligations():
    return [Ob('O8.1-capture-set-d2', 'collect_captured = free variables in scope: depth 2 (let / binary / call / tuple / while on top)', ob_capture_set, ('quick', 'thorough'), 10, dict(depth=2, forms=['ELet', 'EBinary', 'ECall', 'ETuple', 'EWhile'])),
            Ob('O8.1-capture-set-if', 'collect_captured = free variables in scope: if / match-free branches', ob_capture_set, ('quick', 'thorough'), 5, dict(depth=2, forms=['EIf'], inner=('EVar', 'ELet'), names=('x', 'z'))),
            Ob('O8.1-capture-set-more', 'collect_captured = free variables in scope: match (scrutinee, arm bodies, default) / unary / projection / array / go / field read on top', ob_capture_set, ('quick', 'thorough'), 5, dict(depth=2, forms=['EMatch', 'EUnary', 'EProj', 'EArray', 'EGo', 'EConstrGet', 'EConstr'], inner=('EVar', 'ELet'), names=('x', 'z'))),
            Ob('O8.1-capture-set-d3', 'collect_captured = free variables in scope: depth 3 (let only, names x / z)', ob_capture_set, ('thorough',), 100, dict(depth=3, forms=['ELet'], inner=('EVar', 'ELet'), names=('x', 'z')))]

META = {
    'level': 'other',
    'explanation': 'One bounded facet of C08, decided on the real code: lift::collect_captured (MIR of the current tree) is executed on lazily built closure bodies (constructor and name choices are solver decisions) inside a scope that defines x and y; the capture map it fills must contain exactly the free variables of the body that the scope defines. This is the set that becomes the fields of the closure environment struct.',
    'assumptions': ['O8.2 adds: a struct field read gets the lifted type of the field (a closure stored in a struct field is called through its apply function)', 'everything else in C08 (flow of closure values through tuples / arrays / Vec / returns, apply-function generation, Ref sharing) is outside this claim; seen while probing and not claimed: a closure stored in a Vec is emitted as ill-typed Go (the lifting tracks closure structs per variable, not per type)'],
    'trusted_base': ['mirsym MIR interpreter', 'library models listed per obligation', 'z3', 'reference free-variable function (20 lines)'],
}

# ----------------------------------------------------------------------------- O8.2 reading a struct field after lifting has the field's lifted type (closure struct), not the source function type
def ob_field_read_type(r, tier, seed):
    from mirsym.engine import Cell_
    W = e2.fresh_world(CRATES); tt = W.tt
    TY = tt.find_adt(['tast', 'Ty'], 'compiler'); LE = tt.find_adt(['lift', 'LiftExpr'], 'compiler'); ME = [a for a in tt.by_name['MonoExpr'] if a.crate == 'compiler'][0]
    SD = tt.find_adt(['env', 'StructDef'], 'compiler'); TI = tt.find_adt(['tast', 'TastIdent'], 'compiler')
    CO = tt.find_adt(['common', 'Constructor'], 'compiler'); SCn = tt.find_adt(['common', 'StructConstructor'], 'compiler')
    SC = [a for a in tt.by_name['Scope'] if a.crate == 'compiler' and 'lift' in '::'.join(a.path)][0]; SE = [a for a in tt.by_name['ScopeEntry'] if a.crate == 'compiler'][0]
    kinds = {'closure': lambda: Agg(TY.key, TY.vindex('TStruct'), [mkstr('closure_env_main_0')]), 'int32': lambda: Agg(TY.key, TY.vindex('TInt32'), []), 'tuple': lambda: Agg(TY.key, TY.vindex('TTuple'), [PyVec([Agg(TY.key, TY.vindex('TInt32'), [])])])}
    r.bounds = 'struct H with one field whose type in the lifted environment is one of %s; the expression `h.f` (mono type: the source type of the field, a function type for the closure case)' % sorted(kinds)
    r.assumptions = ['oracle: lift::transform_expr gives the field read the type the lifted struct definition records for the field (for a field holding a closure: the closure environment struct, so that a later call goes through its apply function)']
    ident = lambda n: Agg(TI.key, 0, [mkstr(n)])
    def shape_of(t): return (TY.variants[t.idx].name, ms.pystr(t.fields[0]) if t.fields and isinstance(t.fields[0], Str) else None)
    def entry(ex):
        k = ex.choose([(True, x) for x in sorted(kinds)]); fty = kinds[k]()
        src_ty = Agg(TY.key, TY.vindex('TFunc'), [PyVec([Agg(TY.key, TY.vindex('TInt32'), [])]), mkbox(Agg(TY.key, TY.vindex('TInt32'), []))]) if k == 'closure' else kinds[k]()
        genv2 = ex.call('env::GlobalTypeEnv::new_empty', []); monoenv = ex.call('mono::GlobalMonoEnv::from_genv', [genv2]); hm = {0: monoenv}
        ex.call('mono::GlobalMonoEnv::insert_struct', [Ref(hm, 0), Agg(SD.key, 0, [ident('H'), PyVec([]), PyVec([Agg('tuple', 0, [ident('f'), fty])])])])
        liftenv = ex.call('lift::GlobalLiftEnv::from_monoenv', [hm[0]])
        hl = {0: liftenv, 1: Agg('compiler::env::Gensym', 0, [Cell_(0)])}
        state = ex.call('lift::State::new', [Ref(hl, 0), Ref(hl, 1)])
        hty = Agg(TY.key, TY.vindex('TStruct'), [mkstr('H')])
        layer = PyMap('index'); layer.keys.append(mkstr('h')); layer.vals.append(Agg(SE.key, 0, [hty, ms.NONE()]))
        M = lambda n, **kw: Agg(ME.key, ME.vindex(n), [kw[f[0]] for f in ME.variants[ME.vindex(n)].fields])
        e = M('EConstrGet', expr=mkbox(M('EVar', name=mkstr('h'), ty=hty)), constructor=Agg(CO.key, CO.vindex('Struct'), [Agg(SCn.key, 0, [ident('H')])]), field_index=0, ty=src_ty)
        h = {0: state, 1: Agg(SC.key, 0, [PyVec([layer])])}
        out = ex.call('lift::transform_expr', [Ref(h, 0), Ref(h, 1), e])
        f = dict(zip([x[0] for x in LE.variants[out.idx].fields], out.fields))
        return k, LE.variants[out.idx].name, shape_of(f['ty']), shape_of(fty)
    res = e2.explore(r, W, entry, [])
    for p in res:
        r.cases += 1
        if p.kind != 'ok':
            if not any(f.key == 'panic' for f in r.findings): r.findings.append(Finding('panic', 'transform_expr panics: %s' % p.value, {}, False, 'not replayed'))
            continue
        k, vn, got, want = p.value; r.nontrivial += 1
        if vn != 'EConstrGet' or got != want:
            if r.findings: continue
            import os, subprocess, tempfile, shutil
            from vlib import build
            src = 'struct H { run: (int32) -> int32 }\nfn main() -> unit { let k = 2; let h = H { run: |x| x + k }; let f = h.run; string_println(int32_to_string(f(3))) }\n'
            d = tempfile.mkdtemp(prefix='vf-c08-')
            try:
                open(os.path.join(d, 'main.gom'), 'w').write(src)
                out = subprocess.run([build.compiler_bin(), 'run', '--dump-lift', os.path.join(d, 'main.gom')], capture_output=True, text=True, timeout=60)
            finally: shutil.rmtree(d, ignore_errors=True)
            txt = out.stdout; main_body = txt.split('fn main')[-1].split('\nfn ')[0] if 'fn main' in txt else ''; ok_ = bool(main_body) and 'apply' not in main_body
            r.findings.append(Finding('field-read-keeps-source-type', 'reading field f of H (lifted field type %s) is given the type %s' % (want, got), {'kind': k}, ok_, 'goml `%s`: the lifted main %s the closure through its apply function' % (src.replace('\n', ' | '), 'does not call' if ok_ else 'calls')))
        elif len(r.samples) < 3: r.samples.append({'field': k, 'type': list(got)})

_c08_obl = obligations
def obligations():
    return _c08_obl() + [Ob('O8.2-field-read-type', 'a struct field read after lifting has the lifted type of the field', ob_field_read_type, ('quick', 'thorough'), 2, {})]

# ----------------------------------------------------------------------------- O8.3 a struct literal that stores closures rewrites exactly the fields that receive a closure
def ob_struct_literal_fields(r, tier, seed, nfields=3):
    from mirsym.engine import Cell_
    W = e2.fresh_world(CRATES); tt = W.tt
    TY = tt.find_adt(['tast', 'Ty'], 'compiler'); ME = [a for a in tt.by_name['MonoExpr'] if a.crate == 'compiler'][0]
    SD = tt.find_adt(['env', 'StructDef'], 'compiler'); TI = tt.find_adt(['tast', 'TastIdent'], 'compiler'); PR = tt.find_adt(['common', 'Prim'], 'compiler')
    CO = tt.find_adt(['common', 'Constructor'], 'compiler'); SCn = tt.find_adt(['common', 'StructConstructor'], 'compiler')
    SC = [a for a in tt.by_name['Scope'] if a.crate == 'compiler' and 'lift' in '::'.join(a.path)][0]; SE = [a for a in tt.by_name['ScopeEntry'] if a.crate == 'compiler'][0]
    r.bounds = 'struct H with %d fields, each field (solver decision) either an int32 field initialised with a literal or a field of type (int32) -> int32 initialised with a variable holding a lifted closure; one execution of lift::transform_expr on the struct literal per combination' % nfields
    r.assumptions = ['the closure type closure_env_main_0 is registered with State::register_closure_type and the variable c is in scope with that closure struct (what transform_closure / ELet leave behind)',
                     'oracle: afterwards the lifted definition of H gives every field that received the closure the closure environment struct as its type and leaves every other field at int32']
    ident = lambda n: Agg(TI.key, 0, [mkstr(n)])
    i32 = lambda: Agg(TY.key, TY.vindex('TInt32'), []); clo_ty = lambda: Agg(TY.key, TY.vindex('TStruct'), [mkstr('closure_env_main_0')])
    fty = lambda: Agg(TY.key, TY.vindex('TFunc'), [PyVec([i32()]), mkbox(i32())])
    def shape_of(t): return (TY.variants[t.idx].name, ms.pystr(t.fields[0]) if t.fields and isinstance(t.fields[0], Str) else None)
    def entry(ex):
        kinds = [ex.choose([(True, 'int'), (True, 'closure')]) for _ in range(nfields)]
        genv2 = ex.call('env::GlobalTypeEnv::new_empty', []); monoenv = ex.call('mono::GlobalMonoEnv::from_genv', [genv2]); hm = {0: monoenv}
        fields = PyVec([Agg('tuple', 0, [ident('f%d' % i), i32() if k == 'int' else fty()]) for i, k in enumerate(kinds)])
        ex.call('mono::GlobalMonoEnv::insert_struct', [Ref(hm, 0), Agg(SD.key, 0, [ident('H'), PyVec([]), fields])])
        liftenv = ex.call('lift::GlobalLiftEnv::from_monoenv', [hm[0]])
        hl = {0: liftenv, 1: Agg('compiler::env::Gensym', 0, [Cell_(0)]), 2: ident('closure_env_main_0'), 3: ident('H')}
        state = ex.call('lift::State::new', [Ref(hl, 0), Ref(hl, 1)]); h = {0: state}
        ex.call('lift::State::register_closure_type', [Ref(h, 0), Ref(hl, 2), mkstr('apply0')])
        hty = Agg(TY.key, TY.vindex('TStruct'), [mkstr('H')])
        layer = PyMap('index'); layer.keys.append(mkstr('c')); layer.vals.append(Agg(SE.key, 0, [clo_ty(), ms.some(mkstr('closure_env_main_0'))]))
        h[1] = Agg(SC.key, 0, [PyVec([layer])])
        M = lambda n, **kw: Agg(ME.key, ME.vindex(n), [kw[f[0]] for f in ME.variants[ME.vindex(n)].fields])
        args = [M('EPrim', value=Agg(PR.key, PR.vindex('Int32'), [7]), ty=i32()) if k == 'int' else M('EVar', name=mkstr('c'), ty=fty()) for k in kinds]
        e = M('EConstr', constructor=Agg(CO.key, CO.vindex('Struct'), [Agg(SCn.key, 0, [ident('H')])]), args=PyVec(args), ty=hty)
        ex.call('lift::transform_expr', [Ref(h, 0), Ref(h, 1), e])
        sd = ex.call('lift::GlobalLiftEnv::get_struct', [Ref(hl, 0), Ref(hl, 3)])
        if sd.idx == 0: return kinds, None
        d = ex.deref(sd.fields[0]); fl = dict(zip([x[0] for x in SD.variants[0].fields], d.fields))
        return kinds, [shape_of(x.fields[1]) for x in fl['fields'].items]
    res = e2.explore(r, W, entry, [])
    for p in res:
        r.cases += 1
        if p.kind != 'ok':
            if not any(f.key == 'panic' for f in r.findings): r.findings.append(Finding('panic', 'transform_expr panics on a struct literal: %s' % p.value, {}, False, 'not replayed'))
            continue
        kinds, got = p.value; r.nontrivial += 1
        want = [('TInt32', None) if k == 'int' else ('TStruct', 'closure_env_main_0') for k in kinds]
        if got != want:
            if r.findings: continue
            import os, subprocess, tempfile, shutil
            from vlib import build
            decl = ', '.join('f%d: %s' % (i, 'int32' if k == 'int' else '(int32) -> int32') for i, k in enumerate(kinds))
            init = ', '.join('f%d: %s' % (i, '7' if k == 'int' else 'c') for i, k in enumerate(kinds))
            src = 'struct H { %s }\nfn main() -> unit { let k = 2; let c = |x: int32| x + k; let h = H { %s }; () }\n' % (decl, init)
            d = tempfile.mkdtemp(prefix='vf-c08s-')
            try:
                open(os.path.join(d, 'main.gom'), 'w').write(src)
                out = subprocess.run([build.compiler_bin(), 'run', '--dump-go', os.path.join(d, 'main.gom')], capture_output=True, text=True, timeout=60)
            finally: shutil.rmtree(d, ignore_errors=True)
            import re as _re
            m_ = _re.search(r'type H struct \{(.*?)\n\}', out.stdout, _re.S); decl_go = [l.split() for l in m_.group(1).strip().splitlines()] if m_ else []
            exp_go = ['int32' if k == 'int' else 'closure_env' for k in kinds]
            bad = [(f_, t_) for (f_, *t_), e_ in zip(decl_go, exp_go) if not ' '.join(t_).startswith(e_)] if len(decl_go) == len(kinds) else None
            ok_ = bool(bad); detail = 'goml `%s`: the emitted Go declares `type H struct { %s }`' % (src.replace('\n', ' | '), '; '.join(' '.join(x) for x in decl_go)) if m_ else 'no `type H struct` in the Go dump: ' + (out.stderr or out.stdout)[:160]
            r.findings.append(Finding('struct-literal-closure-field-index', 'struct literal with fields %s: the lifted definition of H has the field types %s, expected %s' % (kinds, got, want), {'kinds': kinds}, ok_, detail))
        elif len(r.samples) < 3: r.samples.append({'fields': kinds, 'types': [list(x) for x in got]})

_c08_obl2 = obligations
def obligations():
    return _c08_obl2() + [Ob('O8.3-struct-literal-closure-fields', 'a struct literal rewrites exactly the fields that receive a closure', ob_struct_literal_fields, ('quick', 'thorough'), 2, {})]

# ----------------------------------------------------------------------------- O8.4 a type that mentions a closure environment struct is recognised as containing a closure
def goml_closure_ty(sh):
    k = sh['k']
    if k == 'TStruct': return '(int32) -> int32' if sh['name'] == 'closure_env_f_0' else 'P'
    if k == 'TInt32': return 'int32'
    if k == 'TTuple': return '(' + ', '.join(goml_closure_ty(x) for x in sh['a']) + ')'
    if k == 'TArray': return '[%s; 1]' % goml_closure_ty(sh['a'][0])
    if k == 'TFunc': return '(%s) -> %s' % (', '.join(goml_closure_ty(x) for x in sh['a'][:-1]), goml_closure_ty(sh['a'][-1]))
    raise Unsupported('no goml spelling for ' + k)

def replay_contains_closure(sh):
    """a function whose declared result type is the witness type and whose body builds a value with closures at the closure positions:
    lifting must rewrite the declared result type (the rewritten type mentions a closure_env struct)"""
    helpers = []
    def value(s):
        k = s['k']
        if k == 'TStruct': return '|x: int32| x + n' if s['name'] == 'closure_env_f_0' else 'P { v: n }'
        if k == 'TInt32': return 'n'
        if k == 'TTuple': return '(' + ', '.join(value(x) for x in s['a']) + (',' if len(s['a']) == 1 else '') + ')'
        if k == 'TArray': return '[' + value(s['a'][0]) + ']'
        if k == 'TFunc':
            if any('closure_env_f_0' in json.dumps(x) for x in s['a'][:-1]): raise Unsupported('closure in parameter position: no value of that type is built by the replay')
            name = 'h%d' % len(helpers)
            helpers.append('fn %s(%s) -> %s { %s }' % (name, ', '.join('n: %s' % goml_closure_ty(x) if i == 0 else 'a%d: %s' % (i, goml_closure_ty(x)) for i, x in enumerate(s['a'][:-1])) or 'n: int32', goml_closure_ty(s['a'][-1]), value(s['a'][-1])))
            return name
        raise Unsupported('no value for ' + k)
    body = value(sh)
    src = 'struct P { v: int32 }\n' + '\n'.join(helpers) + '\nfn mk(n: int32) -> %s { %s }\nfn main() -> unit { let r = mk(1); () }\n' % (goml_closure_ty(sh), body)
    d = tempfile.mkdtemp(prefix='vf-c08-')
    try:
        open(os.path.join(d, 'main.gom'), 'w').write(src)
        out = subprocess.run([build.compiler_bin(), 'run', '--dump-lift', os.path.join(d, 'main.gom')], capture_output=True, text=True, timeout=60)
    finally: shutil.rmtree(d, ignore_errors=True)
    txt = out.stdout + out.stderr
    m = re.search(r'^fn mk\([^\n]*\) -> ([^\n]*) \{$', txt, re.M)
    if not m: raise Unsupported('replay program not lifted: ' + txt.strip()[:200])
    return 'closure_env' not in m.group(1), 'goml `%s`: after lifting mk is declared to return `%s`' % (src.replace('\n', ' | '), m.group(1))

def ob_contains_closure(r, tier, seed, depth, top, inner, vec_len=(1, 1)):
    from mirsym.engine import Cell_
    from mirsym.lazy import force as lforce
    from props.enc_ob import shape
    W = e2.fresh_world(CRATES); tt = W.tt
    TY = tt.find_adt(['tast', 'Ty'], 'compiler'); CI = [a for a in tt.by_name['ClosureTypeInfo'] if a.crate == 'compiler'][0]
    ST = [a for a in tt.by_name['State'] if a.crate == 'compiler' and 'lift' in '::'.join(a.path)][0]
    handled = ['TStruct', 'TTuple', 'TArray', 'TFunc', 'TApp']
    r.bounds = 'types of depth <= %d: top constructor in %s, inner in %s, leaves int32 / struct P / the closure environment struct closure_env_f_0 (registered in State.closure_types); component lists of %d..%d' % (depth, top, inner, vec_len[0], vec_len[1])
    r.assumptions = ['oracle: State::ty_contains_closure(t) <=> the name of a registered closure environment struct occurs at some position of t - over the constructors the function distinguishes (%s); Vec and Ref are outside: the lifting design tracks closure structs per variable and does not propagate them through Vec / Ref (DESIGN 5.7)' % handled]
    class S2(Spec):
        def make_adt(s, ex, adt, d, path, subst):
            if adt.name == 'Ty': s.allowed['Ty'] = top if d == depth else inner
            return Spec.make_adt(s, ex, adt, d, path, subst)
    spec = S2(tt, allowed={'Ty': top}, leaves={'Ty': ['TInt32', 'TStruct']}, strings=('closure_env_f_0', 'P'), vec_len=vec_len, int_choices=[1], depth=depth,
              field_hooks={('Ty', 'TApp', 'ty'): lambda sp, ex, d, p: mkbox(Agg(TY.key, TY.vindex('TStruct'), [mkstr('P')]))})
    def entry(ex):
        t = lforce(ex, spec.root(ex, 'tast::Ty', tag='t')); tsh = shape(t, TY)
        genv2 = ex.call('env::GlobalTypeEnv::new_empty', []); monoenv = ex.call('mono::GlobalMonoEnv::from_genv', [genv2])
        liftenv = ex.call('lift::GlobalLiftEnv::from_monoenv', [monoenv])
        hl = {0: liftenv, 1: Agg('compiler::env::Gensym', 0, [Cell_(0)])}
        state = ex.call('lift::State::new', [Ref(hl, 0), Ref(hl, 1)])
        ct = state.fields[[f[0] for f in ST.variants[0].fields].index('closure_types')]
        ct.keys.append(mkstr('closure_env_f_0')); ct.vals.append(Agg(CI.key, 0, [mkstr('apply0')]))
        h = {0: state, 1: t}
        res = ex.call('lift::State::ty_contains_closure', [Ref(h, 0), Ref(h, 1)])
        if not isinstance(res, bool): res = ex.branch_bool(res)
        return tsh, bool(res)
    res = e2.explore(r, W, entry, [])
    def occurs(sh): return (sh['k'] == 'TStruct' and sh.get('name') == 'closure_env_f_0') or any(occurs(x) for x in sh.get('a', [])) or ('base' in sh and occurs(sh['base']))
    def under(sh, parent=None):
        if sh['k'] == 'TStruct' and sh.get('name') == 'closure_env_f_0': return parent
        for x in sh.get('a', []):
            u = under(x, sh['k'])
            if u is not None: return u
        return None
    for p in res:
        r.cases += 1
        if p.kind != 'ok':
            if not any(f.key == 'panic' for f in r.findings): r.findings.append(Finding('panic', 'ty_contains_closure panics: %s' % str(p.value)[:200], {}, False, 'not replayed'))
            continue
        tsh, got = p.value; want = occurs(tsh)
        if want: r.nontrivial += 1
        if got != want:
            key = ('closure-not-recognised:under-%s' % under(tsh)) if want else 'closure-invented'
            if any(f.key == key for f in r.findings): continue
            try: ok_, detail = replay_contains_closure(tsh) if want else (True, 'value returned by the real State::ty_contains_closure MIR')
            except Exception as e_: ok_, detail = False, 'replay failed: %s' % str(e_)[:200]
            if not ok_ and 'replay failed' in detail and 'Unsupported' not in detail and key.startswith('closure-not'):
                pass
            r.findings.append(Finding(key, 'ty_contains_closure(%s) = %s, but the closure environment struct %s' % (json.dumps(tsh)[:200], got, 'occurs in it' if want else 'does not occur in it'), {'type': tsh}, ok_, detail))
        elif len(r.samples) < 3 and want: r.samples.append({'type': json.dumps(tsh)[:160], 'contains': got})

_c08_obl3 = obligations
def obligations():
    comp = ['TTuple', 'TArray', 'TFunc', 'TStruct']
    return _c08_obl3() + [Ob('O8.4-contains-closure-d2', 'a type mentions a closure environment struct iff ty_contains_closure says so: depth 2', ob_contains_closure, ('quick', 'thorough'), 5, dict(depth=2, top=comp + ['TApp'], inner=comp + ['TInt32'])),
                          Ob('O8.4-contains-closure-d2w', 'same, depth 2, component lists of 1..2', ob_contains_closure, ('thorough',), 50, dict(depth=2, top=comp, inner=comp + ['TInt32'], vec_len=(1, 2))),
                          Ob('O8.4-contains-closure-d3', 'same, depth 3', ob_contains_closure, ('thorough',), 50, dict(depth=3, top=['TTuple', 'TArray', 'TFunc'], inner=['TTuple', 'TFunc', 'TStruct']))]

"""C08 - one facet only: the capture set computed for a closure body is exactly its free variables that are in scope
(lift::collect_captured), so a lifted closure sees every outer variable it uses and rebinds none of its own."""
import json, os, re, subprocess, tempfile, shutil
from vlib import build
import z3
from vlib import e2
from vlib.core import Ob, Finding
import mirsym as ms
from mirsym.lazy import Spec, force
from mirsym.engine import Agg, PyVec, PyMap, Str, Ref, Opaque, Unsupported, unbox, mkbox, mkstr

CRATES = ('compiler', 'common_defs', 'diagnostics')
NAMES = ('x', 'y', 'z')

def fv(LE, e, bound):
    """free variables of a forced LiftExpr value, in first-use order (reference definition)"""
    if isinstance(e, Agg) and e.ty == 'Box': e = unbox(e)
    n = LE.variants[e.idx].name; f = dict(zip([x[0] for x in LE.variants[e.idx].fields], e.fields)); out = []
    def add(xs):
        for x in xs:
            if x not in out: out.append(x)
    if n == 'EVar':
        nm = ms.pystr(f['name'])
        return [] if nm in bound else [nm]
    if n == 'ELet':
        add(fv(LE, f['value'], bound)); add(fv(LE, f['body'], bound + [ms.pystr(f['name'])])); return out
    for k, v in f.items():
        if isinstance(v, PyVec):
            for x in v.items:
                if isinstance(x, Agg) and x.ty == LE.key: add(fv(LE, x, bound))
                elif isinstance(x, Agg) and x.ty != LE.key and x.fields and all(isinstance(y, Agg) for y in x.fields):      # LiftArm { lhs, body }
                    for y in x.fields: add(fv(LE, y, bound))
        elif isinstance(v, Agg) and (v.ty == LE.key or v.ty == 'Box'):
            add(fv(LE, v, bound))
        elif isinstance(v, Agg) and v.ty == 'Option' and v.idx == 1: add(fv(LE, v.fields[0], bound))
    return out

def show(LE, e):
    if isinstance(e, Agg) and e.ty == 'Box': e = unbox(e)
    n = LE.variants[e.idx].name; f = dict(zip([x[0] for x in LE.variants[e.idx].fields], e.fields))
    if n == 'EVar': return ms.pystr(f['name'])
    if n == 'EPrim': return '1'
    if n == 'ELet': return 'let %s = %s in %s' % (ms.pystr(f['name']), show(LE, f['value']), show(LE, f['body']))
    if n == 'EIf': return 'if %s { %s } else { %s }' % (show(LE, f['cond']), show(LE, f['then_branch']), show(LE, f['else_branch']))
    if n == 'EBinary': return '(%s + %s)' % (show(LE, f['lhs']), show(LE, f['rhs']))
    if n == 'ECall': return '%s(%s)' % (show(LE, f['func']), ', '.join(show(LE, a) for a in f['args'].items))
    if n == 'ETuple': return '(%s)' % ', '.join(show(LE, a) for a in f['items'].items)
    if n == 'EWhile': return 'while %s { %s }' % (show(LE, f['cond']), show(LE, f['body']))
    return n

def ob_capture_set(r, tier, seed, depth, forms, inner=('EVar', 'ELet', 'EBinary'), names=NAMES):
    W = e2.fresh_world(CRATES); tt = W.tt
    LE = tt.find_adt(['lift', 'LiftExpr'], 'compiler'); TY = tt.find_adt(['tast', 'Ty'], 'compiler'); PR = tt.find_adt(['common', 'Prim'], 'compiler')
    SC = [a for a in tt.by_name['Scope'] if a.crate == 'compiler' and 'lift' in '::'.join(a.path)][0]
    SE = [a for a in tt.by_name['ScopeEntry'] if a.crate == 'compiler'][0]
    BOP = tt.find_adt(['common_defs', 'BinaryOp'], 'common_defs')
    r.bounds = 'closure bodies of depth <= %d: top constructor in %s, below it %s, leaves variables; variable and let names in %s; enclosing scope = {x, y} (z is not in scope: a global or builtin)' % (depth, forms, list(inner), list(names))
    r.assumptions = ['oracle: captured = the free variables of the body (reference definition: a let binds its name in its body only) that the enclosing scope defines, each once']
    int_ty = Agg(TY.key, TY.vindex('TInt32'), [])
    class S2(Spec):
        def make_adt(s, ex, adt, d, path, subst):
            if adt.name == 'LiftExpr': s.allowed['LiftExpr'] = list(forms) if d == depth else list(inner)
            return Spec.make_adt(s, ex, adt, d, path, subst)
    spec = S2(tt, allowed={'LiftExpr': forms, 'Ty': ['TInt32'], 'Prim': ['Int32'], 'BinaryOp': ['Add']}, leaves={'LiftExpr': ['EVar'], 'Ty': ['TInt32'], 'Prim': ['Int32'], 'BinaryOp': ['Add']},
                strings=names, vec_len=(1, 1), int_choices=[1], depth=depth)
    def entry(ex):
        body = force(ex, spec.root(ex, 'lift::LiftExpr', tag='b'))
        layer = PyMap('index')
        for n in ('x', 'y'):
            layer.keys.append(mkstr(n)); layer.vals.append(Agg(SE.key, 0, [int_ty, ms.NONE()]))
        h = {0: body, 1: PyVec([]), 2: PyMap('index'), 3: Agg(SC.key, 0, [PyVec([layer])])}
        ex.call('lift::collect_captured', [Ref(h, 0), Ref(h, 1), Ref(h, 2), Ref(h, 3)])
        return show(LE, body), [ms.pystr(k) for k in h[2].keys], [x for x in fv(LE, body, []) if x in ('x', 'y')], len(h[1].items)
    res = e2.explore(r, W, entry, [])
    for p in res:
        r.cases += 1
        if p.kind != 'ok':
            if not any(f.key == 'panic' for f in r.findings): r.findings.append(Finding('panic', 'collect_captured panics: %s' % p.value, {}, True, 'MIR run'))
            continue
        src, got, want, nb = p.value
        if want: r.nontrivial += 1
        if sorted(got) != sorted(want) or nb != 0:
            ckey = 'missing-capture' if set(want) - set(got) else 'wrong-capture-set'
            if not any(f.key == ckey for f in r.findings):
                r.findings.append(Finding(ckey, 'closure body `%s` in scope {x, y}: captured %s, free variables %s%s' % (src, got, want, '' if nb == 0 else '; the bound-variable stack is not restored (%d left)' % nb), {'body': src, 'captured': got, 'free': want}, True, 'capture map filled by the real lift::collect_captured MIR'))
        elif len(r.samples) < 3 and want: r.samples.append({'body': src, 'captured': got})

def obligations():
    return [Ob('O8.1-capture-set-d2', 'collect_captured = free variables in scope: depth 2 (let / binary / call / tuple / while on top)', ob_capture_set, ('quick', 'thorough'), 10, dict(depth=2, forms=['ELet', 'EBinary', 'ECall', 'ETuple', 'EWhile'])),
            Ob('O8.1-capture-set-if', 'collect_captured = free variables in scope: if / match-free branches', ob_capture_set, ('quick', 'thorough'), 5, dict(depth=2, forms=['EIf'], inner=('EVar', 'ELet'), names=('x', 'z'))),
            Ob('O8.1-capture-set-more', 'collect_captured = free variables in scope: match (scrutinee, arm bodies, default) / unary / projection / array / go / field read on top', ob_capture_set, ('quick', 'thorough'), 5, dict(depth=2, forms=['EMatch', 'EUnary', 'EProj', 'EArray', 'EGo', 'EConstrGet', 'EConstr'], inner=('EVar', 'ELet'), names=('x', 'z'))),
            Ob('O8.1-capture-set-d3', 'collect_captured = free variables in scope: depth 3 (let only, names x / z)', ob_capture_set, ('thorough',), 100, dict(depth=3, forms=['ELet'], inner=('EVar', 'ELet'), names=('x', 'z')))]

META = {
    'level': 'other',
    'explanation': 'One bounded facet of C08, decided on the real code: lift::collect_captured (MIR of the current tree) is executed on lazily built closure bodies (constructor and name choices are solver decisions) inside a scope that defines x and y; the capture map it fills must contain exactly the free variables of the body that the scope defines. This is the set that becomes the fields of the closure environment struct.',
    'assumptions': ['O8.2 adds: a struct field read gets the lifted type of the field (a closure stored in a struct field is called through its apply function)', 'everything else in C08 (flow of closure values through tuples / arrays / Vec / returns, apply-function generation, Ref sharing) is outside this claim; seen while probing and not claimed: a closure stored in a Vec is emitted as ill-typed Go (the lifting tracks closure structs per variable, not per type)'],
    'trusted_base': ['mirsym MIR interpreter', 'library models listed per obligation', 'z3', 'reference free-variable function (20 lines)'],
}

# ----------------------------------------------------------------------------- O8.2 reading a struct field after lifting has the field's lifted type (closure struct), not the source function type
def ob_field_read_type(r, tier, seed):
    from mirsym.engine import Cell_
    W = e2.fresh_world(CRATES); tt = W.tt
    TY = tt.find_adt(['tast', 'Ty'], 'compiler'); LE = tt.find_adt(['lift', 'LiftExpr'], 'compiler'); ME = [a for a in tt.by_name['MonoExpr'] if a.crate == 'compiler'][0]
    SD = tt.find_adt(['env', 'StructDef'], 'compiler'); TI = tt.find_adt(['tast', 'TastIdent'], 'compiler')
    CO = tt.find_adt(['common', 'Constructor'], 'compiler'); SCn = tt.find_adt(['common', 'StructConstructor'], 'compiler')
    SC = [a for a in tt.by_name['Scope'] if a.crate == 'compiler' and 'lift' in '::'.join(a.path)][0]; SE = [a for a in tt.by_name['ScopeEntry'] if a.crate == 'compiler'][0]
    kinds = {'closure': lambda: Agg(TY.key, TY.vindex('TStruct'), [mkstr('closure_env_main_0')]), 'int32': lambda: Agg(TY.key, TY.vindex('TInt32'), []), 'tuple': lambda: Agg(TY.key, TY.vindex('TTuple'), [PyVec([Agg(TY.key, TY.vindex('TInt32'), [])])])}
    r.bounds = 'struct H with one field whose type in the lifted environment is one of %s; the expression `h.f` (mono type: the source type of the field, a function type for the closure case)' % sorted(kinds)
    r.assumptions = ['oracle: lift::transform_expr gives the field read the type the lifted struct definition records for the field (for a field holding a closure: the closure environment struct, so that a later call goes through its apply function)']
    ident = lambda n: Agg(TI.key, 0, [mkstr(n)])
    def shape_of(t): return (TY.variants[t.idx].name, ms.pystr(t.fields[0]) if t.fields and isinstance(t.fields[0], Str) else None)
    def entry(ex):
        k = ex.choose([(True, x) for x in sorted(kinds)]); fty = kinds[k]()
        src_ty = Agg(TY.key, TY.vindex('TFunc'), [PyVec([Agg(TY.key, TY.vindex('TInt32'), [])]), mkbox(Agg(TY.key, TY.vindex('TInt32'), []))]) if k == 'closure' else kinds[k]()
        genv2 = ex.call('env::GlobalTypeEnv::new_empty', []); monoenv = ex.call('mono::GlobalMonoEnv::from_genv', [genv2]); hm = {0: monoenv}
        ex.call('mono::GlobalMonoEnv::insert_struct', [Ref(hm, 0), Agg(SD.key, 0, [ident('H'), PyVec([]), PyVec([Agg('tuple', 0, [ident('f'), fty])])])])
        liftenv = ex.call('lift::GlobalLiftEnv::from_monoenv', [hm[0]])
        hl = {0: liftenv, 1: Agg('compiler::env::Gensym', 0, [Cell_(0)])}
        state = ex.call('lift::State::new', [Ref(hl, 0), Ref(hl, 1)])
        hty = Agg(TY.key, TY.vindex('TStruct'), [mkstr('H')])
        layer = PyMap('index'); layer.keys.append(mkstr('h')); layer.vals.append(Agg(SE.key, 0, [hty, ms.NONE()]))
        M = lambda n, **kw: Agg(ME.key, ME.vindex(n), [kw[f[0]] for f in ME.variants[ME.vindex(n)].fields])
        e = M('EConstrGet', expr=mkbox(M('EVar', name=mkstr('h'), ty=hty)), constructor=Agg(CO.key, CO.vindex('Struct'), [Agg(SCn.key, 0, [ident('H')])]), field_index=0, ty=src_ty)
        h = {0: state, 1: Agg(SC.key, 0, [PyVec([layer])])}
        out = ex.call('lift::transform_expr', [Ref(h, 0), Ref(h, 1), e])
        f = dict(zip([x[0] for x in LE.variants[out.idx].fields], out.fields))
        return k, LE.variants[out.idx].name, shape_of(f['ty']), shape_of(fty)
    res = e2.explore(r, W, entry, [])
    for p in res:
        r.cases += 1
        if p.kind != 'ok':
            if not any(f.key == 'panic' for f in r.findings): r.findings.append(Finding('panic', 'transform_expr panics: %s' % p.value, {}, False, 'not replayed'))
            continue
        k, vn, got, want = p.value; r.nontrivial += 1
        if vn != 'EConstrGet' or got != want:
            if r.findings: continue
            import os, subprocess, tempfile, shutil
            from vlib import build
            src = 'struct H { run: (int32) -> int32 }\nfn main() -> unit { let k = 2; let h = H { run: |x| x + k }; let f = h.run; string_println(int32_to_string(f(3))) }\n'
            d = tempfile.mkdtemp(prefix='vf-c08-')
            try:
                open(os.path.join(d, 'main.gom'), 'w').write(src)
                out = subprocess.run([build.compiler_bin(), 'run', '--dump-lift', os.path.join(d, 'main.gom')], capture_output=True, text=True, timeout=60)
            finally: shutil.rmtree(d, ignore_errors=True)
            txt = out.stdout; main_body = txt.split('fn main')[-1].split('\nfn ')[0] if 'fn main' in txt else ''; ok_ = bool(main_body) and 'apply' not in main_body
            r.findings.append(Finding('field-read-keeps-source-type', 'reading field f of H (lifted field type %s) is given the type %s' % (want, got), {'kind': k}, ok_, 'goml `%s`: the lifted main %s the closure through its apply function' % (src.replace('\n', ' | '), 'does not call' if ok_ else 'calls')))
        elif len(r.samples) < 3: r.samples.append({'field': k, 'type': list(got)})

_c08_obl = obligations
def obligations():
    return _c08_obl() + [Ob('O8.2-field-read-type', 'a struct field read after lifting has the lifted type of the field', ob_field_read_type, ('quick', 'thorough'), 2, {})]

# ----------------------------------------------------------------------------- O8.3 a struct literal that stores closures rewrites exactly the fields that receive a closure
def ob_struct_literal_fields(r, tier, seed, nfields=3):
    from mirsym.engine import Cell_
    W = e2.fresh_world(CRATES); tt = W.tt
    TY = tt.find_adt(['tast', 'Ty'], 'compiler'); ME = [a for a in tt.by_name['MonoExpr'] if a.crate == 'compiler'][0]
    SD = tt.find_adt(['env', 'StructDef'], 'compiler'); TI = tt.find_adt(['tast', 'TastIdent'], 'compiler'); PR = tt.find_adt(['common', 'Prim'], 'compiler')
    CO = tt.find_adt(['common', 'Constructor'], 'compiler'); SCn = tt.find_adt(['common', 'StructConstructor'], 'compiler')
    SC = [a for a in tt.by_name['Scope'] if a.crate == 'compiler' and 'lift' in '::'.join(a.path)][0]; SE = [a for a in tt.by_name['ScopeEntry'] if a.crate == 'compiler'][0]
    r.bounds = 'struct H with %d fields, each field (solver decision) either an int32 field initialised with a literal or a field of type (int32) -> int32 initialised with a variable holding a lifted closure; one execution of lift::transform_expr on the struct literal per combination' % nfields
    r.assumptions = ['the closure type closure_env_main_0 is registered with State::register_closure_type and the variable c is in scope with that closure struct (what transform_closure / ELet leave behind)',
                     'oracle: afterwards the lifted definition of H gives every field that received the closure the closure environment struct as its type and leaves every other field at int32']
    ident = lambda n: Agg(TI.key, 0, [mkstr(n)])
    i32 = lambda: Agg(TY.key, TY.vindex('TInt32'), []); clo_ty = lambda: Agg(TY.key, TY.vindex('TStruct'), [mkstr('closure_env_main_0')])
    fty = lambda: Agg(TY.key, TY.vindex('TFunc'), [PyVec([i32()]), mkbox(i32())])
    def shape_of(t): return (TY.variants[t.idx].name, ms.pystr(t.fields[0]) if t.fields and isinstance(t.fields[0], Str) else None)
    def entry(ex):
        kinds = [ex.choose([(True, 'int'), (True, 'closure')]) for _ in range(nfields)]
        genv2 = ex.call('env::GlobalTypeEnv::new_empty', []); monoenv = ex.call('mono::GlobalMonoEnv::from_genv', [genv2]); hm = {0: monoenv}
        fields = PyVec([Agg('tuple', 0, [ident('f%d' % i), i32() if k == 'int' else fty()]) for i, k in enumerate(kinds)])
        ex.call('mono::GlobalMonoEnv::insert_struct', [Ref(hm, 0), Agg(SD.key, 0, [ident('H'), PyVec([]), fields])])
        liftenv = ex.call('lift::GlobalLiftEnv::from_monoenv', [hm[0]])
        hl = {0: liftenv, 1: Agg('compiler::env::Gensym', 0, [Cell_(0)]), 2: ident('closure_env_main_0'), 3: ident('H')}
        state = ex.call('lift::State::new', [Ref(hl, 0), Ref(hl, 1)]); h = {0: state}
        ex.call('lift::State::register_closure_type', [Ref(h, 0), Ref(hl, 2), mkstr('apply0')])
        hty = Agg(TY.key, TY.vindex('TStruct'), [mkstr('H')])
        layer = PyMap('index'); layer.keys.append(mkstr('c')); layer.vals.append(Agg(SE.key, 0, [clo_ty(), ms.some(mkstr('closure_env_main_0'))]))
        h[1] = Agg(SC.key, 0, [PyVec([layer])])
        M = lambda n, **kw: Agg(ME.key, ME.vindex(n), [kw[f[0]] for f in ME.variants[ME.vindex(n)].fields])
        args = [M('EPrim', value=Agg(PR.key, PR.vindex('Int32'), [7]), ty=i32()) if k == 'int' else M('EVar', name=mkstr('c'), ty=fty()) for k in kinds]
        e = M('EConstr', constructor=Agg(CO.key, CO.vindex('Struct'), [Agg(SCn.key, 0, [ident('H')])]), args=PyVec(args), ty=hty)
        ex.call('lift::transform_expr', [Ref(h, 0), Ref(h, 1), e])
        sd = ex.call('lift::GlobalLiftEnv::get_struct', [Ref(hl, 0), Ref(hl, 3)])
        if sd.idx == 0: return kinds, None
        d = ex.deref(sd.fields[0]); fl = dict(zip([x[0] for x in SD.variants[0].fields], d.fields))
        return kinds, [shape_of(x.fields[1]) for x in fl['fields'].items]
    res = e2.explore(r, W, entry, [])
    for p in res:
        r.cases += 1
        if p.kind != 'ok':
            if not any(f.key == 'panic' for f in r.findings): r.findings.append(Finding('panic', 'transform_expr panics on a struct literal: %s' % p.value, {}, False, 'not replayed'))
            continue
        kinds, got = p.value; r.nontrivial += 1
        want = [('TInt32', None) if k == 'int' else ('TStruct', 'closure_env_main_0') for k in kinds]
        if got != want:
            if r.findings: continue
            import os, subprocess, tempfile, shutil
            from vlib import build
            decl = ', '.join('f%d: %s' % (i, 'int32' if k == 'int' else '(int32) -> int32') for i, k in enumerate(kinds))
            init = ', '.join('f%d: %s' % (i, '7' if k == 'int' else 'c') for i, k in enumerate(kinds))
            src = 'struct H { %s }\nfn main() -> unit { let k = 2; let c = |x: int32| x + k; let h = H { %s }; () }\n' % (decl, init)
            d = tempfile.mkdtemp(prefix='vf-c08s-')
            try:
                open(os.path.join(d, 'main.gom'), 'w').write(src)
                out = subprocess.run([build.compiler_bin(), 'run', '--dump-go', os.path.join(d, 'main.gom')], capture_output=True, text=True, timeout=60)
            finally: shutil.rmtree(d, ignore_errors=True)
            import re as _re
            m_ = _re.search(r'type H struct \{(.*?)\n\}', out.stdout, _re.S); decl_go = [l.split() for l in m_.group(1).strip().splitlines()] if m_ else []
            exp_go = ['int32' if k == 'int' else 'closure_env' for k in kinds]
            bad = [(f_, t_) for (f_, *t_), e_ in zip(decl_go, exp_go) if not ' '.join(t_).startswith(e_)] if len(decl_go) == len(kinds) else None
            ok_ = bool(bad); detail = 'goml `%s`: the emitted Go declares `type H struct { %s }`' % (src.replace('\n', ' | '), '; '.join(' '.join(x) for x in decl_go)) if m_ else 'no `type H struct` in the Go dump: ' + (out.stderr or out.stdout)[:160]
            r.findings.append(Finding('struct-literal-closure-field-index', 'struct literal with fields %s: the lifted definition of H has the field types %s, expected %s' % (kinds, got, want), {'kinds': kinds}, ok_, detail))
        elif len(r.samples) < 3: r.samples.append({'fields': kinds, 'types': [list(x) for x in got]})

_c08_obl2 = obligations
def obligations():
    return _c08_obl2() + [Ob('O8.3-struct-literal-closure-fields', 'a struct literal rewrites exactly the fields that receive a closure', ob_struct_literal_fields, ('quick', 'thorough'), 2, {})]

# ----------------------------------------------------------------------------- O8.4 a type that mentions a closure environment struct is recognised as containing a closure
def goml_closure_ty(sh):
    k = sh['k']
    if k == 'TStruct': return '(int32) -> int32' if sh['name'] == 'closure_env_f_0' else 'P'
    if k == 'TInt32': return 'int32'
    if k == 'TTuple': return '(' + ', '.join(goml_closure_ty(x) for x in sh['a']) + ')'
    if k == 'TArray': return '[%s; 1]' % goml_closure_ty(sh['a'][0])
    if k == 'TFunc': return '(%s) -> %s' % (', '.join(goml_closure_ty(x) for x in sh['a'][:-1]), goml_closure_ty(sh['a'][-1]))
    raise Unsupported('no goml spelling for ' + k)

def replay_contains_closure(sh):
    """a function whose declared result type is the witness type and whose body builds a value with closures at the closure positions:
    lifting must rewrite the declared result type (the rewritten type mentions a closure_env struct)"""
    helpers = []
    def value(s):
        k = s['k']
        if k == 'TStruct': return '|x: int32| x + n' if s['name'] == 'closure_env_f_0' else 'P { v: n }'
        if k == 'TInt32': return 'n'
        if k == 'TTuple': return '(' + ', '.join(value(x) for x in s['a']) + (',' if len(s['a']) == 1 else '') + ')'
        if k == 'TArray': return '[' + value(s['a'][0]) + ']'
        if k == 'TFunc':
            if any('closure_env_f_0' in json.dumps(x) for x in s['a'][:-1]): raise Unsupported('closure in parameter position: no value of that type is built by the replay')
            name = 'h%d' % len(helpers)
            helpers.append('fn %s(%s) -> %s { %s }' % (name, ', '.join('n: %s' % goml_closure_ty(x) if i == 0 else 'a%d: %s' % (i, goml_closure_ty(x)) for i, x in enumerate(s['a'][:-1])) or 'n: int32', goml_closure_ty(s['a'][-1]), value(s['a'][-1])))
            return name
        raise Unsupported('no value for ' + k)
    body = value(sh)
    src = 'struct P { v: int32 }\n' + '\n'.join(helpers) + '\nfn mk(n: int32) -> %s { %s }\nfn main() -> unit { let r = mk(1); () }\n' % (goml_closure_ty(sh), body)
    d = tempfile.mkdtemp(prefix='vf-c08-')
    try:
        open(os.path.join(d, 'main.gom'), 'w').write(src)
        out = subprocess.run([build.compiler_bin(), 'run', '--dump-lift', os.path.join(d, 'main.gom')], capture_output=True, text=True, timeout=60)
    finally: shutil.rmtree(d, ignore_errors=True)
    txt = out.stdout + out.stderr
    m = re.search(r'^fn mk\([^\n]*\) -> ([^\n]*) \{$', txt, re.M)
    if not m: raise Unsupported('replay program not lifted: ' + txt.strip()[:200])
    return 'closure_env' not in m.group(1), 'goml `%s`: after lifting mk is declared to return `%s`' % (src.replace('\n', ' | '), m.group(1))

def ob_contains_closure(r, tier, seed, depth, top, inner, vec_len=(1, 1)):
    from mirsym.engine import Cell_
    from mirsym.lazy import force as lforce
    from props.enc_ob import shape
    W = e2.fresh_world(CRATES); tt = W.tt
    TY = tt.find_adt(['tast', 'Ty'], 'compiler'); CI = [a for a in tt.by_name['ClosureTypeInfo'] if a.crate == 'compiler'][0]
    ST = [a for a in tt.by_name['State'] if a.crate == 'compiler' and 'lift' in '::'.join(a.path)][0]
    handled = ['TStruct', 'TTuple', 'TArray', 'TFunc', 'TApp']
    r.bounds = 'types of depth <= %d: top constructor in %s, inner in %s, leaves int32 / struct P / the closure environment struct closure_env_f_0 (registered in State.closure_types); component lists of %d..%d' % (depth, top, inner, vec_len[0], vec_len[1])
    r.assumptions = ['oracle: State::ty_contains_closure(t) <=> the name of a registered closure environment struct occurs at some position of t - over the constructors the function distinguishes (%s); Vec and Ref are outside: the lifting design tracks closure structs per variable and does not propagate them through Vec / Ref (DESIGN 5.7)' % handled]
    class S2(Spec):
        def make_adt(s, ex, adt, d, path, subst):
            if adt.name == 'Ty': s.allowed['Ty'] = top if d == depth else inner
            return Spec.make_adt(s, ex, adt, d, path, subst)
    spec = S2(tt, allowed={'Ty': top}, leaves={'Ty': ['TInt32', 'TStruct']}, strings=('closure_env_f_0', 'P'), vec_len=vec_len, int_choices=[1], depth=depth,
              field_hooks={('Ty', 'TApp', 'ty'): lambda sp, ex, d, p: mkbox(Agg(TY.key, TY.vindex('TStruct'), [mkstr('P')]))})
    def entry(ex):
        t = lforce(ex, spec.root(ex, 'tast::Ty', tag='t')); tsh = shape(t, TY)
        genv2 = ex.call('env::GlobalTypeEnv::new_empty', []); monoenv = ex.call('mono::GlobalMonoEnv::from_genv', [genv2])
        liftenv = ex.call('lift::GlobalLiftEnv::from_monoenv', [monoenv])
        hl = {0: liftenv, 1: Agg('compiler::env::Gensym', 0, [Cell_(0)])}
        state = ex.call('lift::State::new', [Ref(hl, 0), Ref(hl, 1)])
        ct = state.fields[[f[0] for f in ST.variants[0].fields].index('closure_types')]
        ct.keys.append(mkstr('closure_env_f_0')); ct.vals.append(Agg(CI.key, 0, [mkstr('apply0')]))
        h = {0: state, 1: t}
        res = ex.call('lift::State::ty_contains_closure', [Ref(h, 0), Ref(h, 1)])
        if not isinstance(res, bool): res = ex.branch_bool(res)
        return tsh, bool(res)
    res = e2.explore(r, W, entry, [])
    def occurs(sh): return (sh['k'] == 'TStruct' and sh.get('name') == 'closure_env_f_0') or any(occurs(x) for x in sh.get('a', [])) or ('base' in sh and occurs(sh['base']))
    def under(sh, parent=None):
        if sh['k'] == 'TStruct' and sh.get('name') == 'closure_env_f_0': return parent
        for x in sh.get('a', []):
            u = under(x, sh['k'])
            if u is not None: return u
        return None
    for p in res:
        r.cases += 1
        if p.kind != 'ok':
            if not any(f.key == 'panic' for f in r.findings): r.findings.append(Finding('panic', 'ty_contains_closure panics: %s' % str(p.value)[:200], {}, False, 'not replayed'))
            continue
        tsh, got = p.value; want = occurs(tsh)
        if want: r.nontrivial += 1
        if got != want:
            key = ('closure-not-recognised:under-%s' % under(tsh)) if want else 'closure-invented'
            if any(f.key == key for f in r.findings): continue
            try: ok_, detail = replay_contains_closure(tsh) if want else (True, 'value returned by the real State::ty_contains_closure MIR')
            except Exception as e_: ok_, detail = False, 'replay failed: %s' % str(e_)[:200]
            if not ok_ and 'replay failed' in detail and 'Unsupported' not in detail and key.startswith('closure-not'):
                pass
            r.findings.append(Finding(key, 'ty_contains_closure(%s) = %s, but the closure environment struct %s' % (json.dumps(tsh)[:200], got, 'occurs in it' if want else 'does not occur in it'), {'type': tsh}, ok_, detail))
        elif len(r.samples) < 3 and want: r.samples.append({'type': json.dumps(tsh)[:160], 'contains': got})

_c08_obl3 = obligations
def obligations():
    comp = ['TTuple', 'TArray', 'TFunc', 'TStruct']
    return _c08_obl3() + [Ob('O8.4-contains-closure-d2', 'a type mentions a closure environment struct iff ty_contains_closure says so: depth 2', ob_contains_closure, ('quick', 'thorough'), 5, dict(depth=2, top=comp + ['TApp'], inner=comp + ['TInt32'])),
                          Ob('O8.4-contains-closure-d2w', 'same, depth 2, component lists of 1..2', ob_contains_closure, ('thorough',), 50, dict(depth=2, top=comp, inner=comp + ['TInt32'], vec_len=(1, 2))),
                          Ob('O8.4-contains-closure-d3', 'same, depth 3', ob_contains_closure, ('thorough',), 50, dict(depth=3, top=['TTuple', 'TArray', 'TFunc'], inner=['TTuple', 'TFunc', 'TStruct']))]

# ----------------------------------------------------------------------------- O8.5 closure conversion: every captured variable is read back from the environment field it was stored in
def _lift_world():
    from mirsym.engine import Cell_
    W = e2.fresh_world(CRATES); tt = W.tt
    class K: pass
    k = K(); k.W = W; k.tt = tt
    k.TY = tt.find_adt(['tast', 'Ty'], 'compiler'); k.LE = tt.find_adt(['lift', 'LiftExpr'], 'compiler'); k.ME = [a for a in tt.by_name['MonoExpr'] if a.crate == 'compiler'][0]
    k.SD = tt.find_adt(['env', 'StructDef'], 'compiler'); k.TI = tt.find_adt(['tast', 'TastIdent'], 'compiler'); k.PR = tt.find_adt(['common', 'Prim'], 'compiler')
    k.CP = tt.find_adt(['tast', 'ClosureParam'], 'compiler'); k.LF = tt.find_adt(['lift', 'LiftFn'], 'compiler')
    k.SC = [a for a in tt.by_name['Scope'] if a.crate == 'compiler' and 'lift' in '::'.join(a.path)][0]; k.SE = [a for a in tt.by_name['ScopeEntry'] if a.crate == 'compiler'][0]
    k.ST = [a for a in tt.by_name['State'] if a.crate == 'compiler' and 'lift' in '::'.join(a.path)][0]
    W.stubs['ty_compact'] = lambda ex, a: mkstr('T' + str(abs(hash(repr(ex.deref(a[0])))) % 100000))
    k.T = lambda n, *f: Agg(k.TY.key, k.TY.vindex(n), list(f))
    k.M = lambda n, **kw: Agg(k.ME.key, k.ME.vindex(n), [kw[f[0]] for f in k.ME.variants[k.ME.vindex(n)].fields])
    k.ident = lambda n: Agg(k.TI.key, 0, [mkstr(n)])
    def fresh_state(ex, scope_vars, closures=()):
        genv2 = ex.call('env::GlobalTypeEnv::new_empty', []); monoenv = ex.call('mono::GlobalMonoEnv::from_genv', [genv2])
        liftenv = ex.call('lift::GlobalLiftEnv::from_monoenv', [monoenv])
        hl = {0: liftenv, 1: Agg('compiler::env::Gensym', 0, [Cell_(0)])}
        state = ex.call('lift::State::new', [Ref(hl, 0), Ref(hl, 1)]); h = {0: state}
        for i, cn in enumerate(closures):
            hl[10 + i] = k.ident(cn); ex.call('lift::State::register_closure_type', [Ref(h, 0), Ref(hl, 10 + i), mkstr('apply_' + cn)])
        layer = PyMap('index')
        for n, (ty, cs) in scope_vars.items():
            layer.keys.append(mkstr(n)); layer.vals.append(Agg(k.SE.key, 0, [ty, ms.some(mkstr(cs)) if cs else ms.NONE()]))
        h[1] = Agg(k.SC.key, 0, [PyVec([layer])])
        return h, hl
    k.fresh_state = fresh_state
    k.lf = lambda e: (k.LE.variants[e.idx].name, dict(zip([x[0] for x in k.LE.variants[e.idx].fields], e.fields)))
    return k

def ob_closure_rebind(r, tier, seed, nuses=3):
    k = _lift_world(); T = k.T; M = k.M
    VARS = {'a': 'TInt32', 'b': 'TBool', 's': 'TString', 'u': 'TUnit'}
    r.bounds = 'lift::transform_expr on the closure |p: int32| (v1, .., v%d) with every vi a solver-chosen variable among the outer a: int32, b: bool, s: string, u: unit and the parameter p (all sequences, repetitions included)' % nuses
    r.assumptions = ['names::ty_compact (external `pretty` crate) replaced by a stand-in (the apply function name is not inspected)',
                     'oracle: the closure value is the environment struct built from the captured variables; in the generated apply function every captured variable v is bound, exactly once and before the body, to a read of the field index j of the environment parameter such that the constructor argument j is v and the declared type of field j is the type of v; the parameter p is not rebound']
    def entry(ex):
        uses = [ex.choose([(True, v) for v in list(VARS) + ['p']]) for _ in range(nuses)]
        h, hl = k.fresh_state(ex, {n: (T(t), None) for n, t in VARS.items()})
        tyof = lambda v: T('TInt32') if v == 'p' else T(VARS[v])
        body = M('ETuple', items=PyVec([M('EVar', name=mkstr(v), ty=tyof(v)) for v in uses]), ty=T('TTuple', PyVec([tyof(v) for v in uses])))
        clo = M('EClosure', params=PyVec([Agg(k.CP.key, 0, [{'name': mkstr('p'), 'ty': T('TInt32'), 'astptr': ms.NONE()}[f[0]] for f in k.CP.variants[0].fields])]), body=mkbox(body),
                ty=T('TFunc', PyVec([T('TInt32')]), mkbox(T('TTuple', PyVec([tyof(v) for v in uses])))))
        res = ex.call('lift::transform_expr', [Ref(h, 0), Ref(h, 1), clo])
        n, f = k.lf(res)
        if n != 'EConstr': return uses, ('shape', 'the closure value is %s, not a constructor of the environment struct' % n)
        args = []
        for a_ in f['args'].items:
            an, af = k.lf(a_); args.append(ms.pystr(af['name']) if an == 'EVar' else '<%s>' % an)
        st = h[0]; sf = dict(zip([x[0] for x in k.ST.variants[0].fields], st.fields)); fns = sf['new_functions'].items
        if len(fns) != 1: return uses, ('shape', '%d apply functions generated' % len(fns))
        ff = dict(zip([x[0] for x in k.LF.variants[0].fields], fns[0].fields)); params = [ms.pystr(p_.fields[0]) for p_ in ff['params'].items]
        envty = f['ty']; sname = ms.pystr(envty.fields[0]); hl[5] = k.ident(sname)
        sd = ex.call('lift::GlobalLiftEnv::get_struct', [Ref(hl, 0), Ref(hl, 5)])
        if sd.idx == 0: return uses, ('shape', 'environment struct %s not registered' % sname)
        d = ex.deref(sd.fields[0]); fl = dict(zip([x[0] for x in k.SD.variants[0].fields], d.fields)); ftys = [k.TY.variants[x.fields[1].idx].name for x in fl['fields'].items]
        lets = []; e = ff['body']
        while True:
            if isinstance(e, Agg) and e.ty == 'Box': e = unbox(e)
            en, ef = k.lf(e)
            if en != 'ELet': break
            v = ef['value']; v = unbox(v) if v.ty == 'Box' else v; vn, vf = k.lf(v)
            if vn != 'EConstrGet': break
            src = vf['expr']; src = unbox(src) if src.ty == 'Box' else src; sn, sff = k.lf(src)
            lets.append((ms.pystr(ef['name']), vf['field_index'], ms.pystr(sff['name']) if sn == 'EVar' else '<%s>' % sn)); e = ef['body']
        return uses, ('ok', args, params, ftys, lets)
    res = e2.explore(r, k.W, entry, [])
    for p in res:
        r.cases += 1
        if p.kind != 'ok':
            if not any(f.key == 'panic' for f in r.findings): r.findings.append(Finding('panic', 'transform_expr panics on a closure: %s' % str(p.value)[:200], {}, False, 'not replayed'))
            continue
        uses, out = p.value; r.nontrivial += 1
        free = []
        for v in uses:
            if v != 'p' and v not in free: free.append(v)
        bad = None
        if out[0] != 'ok': bad = out[1]
        else:
            _, args, params, ftys, lets = out
            if sorted(args) != sorted(free): bad = 'the environment is built from %s, the free variables are %s' % (args, free)
            elif len(params) != 2 or params[1] != 'p': bad = 'apply function parameters %s' % params
            elif sorted(l[0] for l in lets) != sorted(free): bad = 'the apply function rebinds %s, the free variables are %s' % ([l[0] for l in lets], free)
            else:
                for name, j, src in lets:
                    if src != params[0]: bad = '%s is read from %s, not from the environment parameter %s' % (name, src, params[0]); break
                    if not (0 <= j < len(args)) or args[j] != name: bad = 'the closure stores %s in the fields 0.. but the apply function reads %s from field %d (which holds %s)' % (args, name, j, args[j] if 0 <= j < len(args) else 'nothing'); break
                    if ftys[j] != VARS[name]: bad = 'field %d of the environment struct is declared %s, the variable %s stored there has type %s' % (j, ftys[j], name, VARS[name]); break
        if bad and not r.findings:
            ok_, detail = replay_rebind(free)
            r.findings.append(Finding('capture-rebound-from-wrong-field', 'closure |p| (%s): %s' % (', '.join(uses), bad), {'uses': uses}, ok_, detail))
        elif not bad and len(r.samples) < 3 and len(free) > 1: r.samples.append({'uses': uses, 'environment': out[1], 'rebinds': [list(l[:2]) for l in out[4]]})

def replay_rebind(free):
    """real CLI: a closure capturing the same variables; in --dump-lift every `let v = env.<field i>` must read the field the constructor filled with v"""
    lits = {'a': ('int32', '1'), 'b': ('bool', 'true'), 's': ('string', '"t"'), 'u': ('unit', '()')}
    vs = [v for v in free] or ['a']
    src = 'fn main() -> unit {\n' + ''.join('    let %s: %s = %s;\n' % (v, lits[v][0], lits[v][1]) for v in vs) + '    let f = |p: int32| (%s, p);\n    let _ = f(1);\n    ()\n}\n' % ', '.join(vs)
    d = tempfile.mkdtemp(prefix='vf-c08r-')
    try:
        open(os.path.join(d, 'main.gom'), 'w').write(src)
        out = subprocess.run([build.compiler_bin(), 'run', '--dump-lift', os.path.join(d, 'main.gom')], capture_output=True, text=True, timeout=60).stdout
    finally: shutil.rmtree(d, ignore_errors=True)
    cons = re.search(r'(closure_env_\w+)\s*\{?\(?([^\n]*)', out)
    order = re.findall(r'(\w+)/\d+', re.search(r'let f/\d+[^=]*=\s*([^\n;]*)', out).group(1)) if re.search(r'let f/\d+[^=]*=\s*([^\n;]*)', out) else []
    reads = re.findall(r'let (\w+)/\d+[^=\n]*=\s*[^\n;]*?\.(\w+)', out)
    wrong = []
    for v, fld in reads:
        m_ = re.match(r'(\w+?)_(\d+)$', fld)
        if v in vs and m_ and (m_.group(1) != v or (order and int(m_.group(2)) < len(order) and order[int(m_.group(2))] != v)): wrong.append((v, fld))
    return bool(wrong), 'goml `%s`: --dump-lift reads %s; constructor arguments %s; mismatching reads %s' % (src.replace('\n', ' | '), reads[:6], order, wrong)

# ----------------------------------------------------------------------------- O8.6 a tuple that holds closures (at any depth) gets the lifted types of its components
def ob_tuple_closure_type(r, tier, seed):
    k = _lift_world(); T = k.T; M = k.M
    CS = 'closure_env_main_0'
    SHAPES = ['(l,l)', '((l,l),l)', '(l,(l,l))', '((l,l),(l,l))', '(((l,l),l),l)']
    r.bounds = 'lift::transform_expr on tuple expressions of the shapes %s whose leaves are (solver decision each) the int32 literal 5 or the variable c: (int32) -> int32 holding a lifted closure (%s)' % (SHAPES, CS)
    r.assumptions = ['c is in scope with its closure struct and %s is registered with State::register_closure_type (what transform_closure / ELet leave behind)' % CS,
                     'oracle: the type of the lifted tuple, at every depth, is the tuple of the types of the lifted components: the closure environment struct where c stands, int32 where the literal stands - this type decides how a later projection / destructuring types the component and whether its call goes through the apply function']
    fty = lambda: T('TFunc', PyVec([T('TInt32')]), mkbox(T('TInt32')))
    def build(ex, sh, pos=[0]):
        if sh == 'l':
            c_ = ex.choose([(True, 'int'), (True, 'clo')])
            return (M('EPrim', value=Agg(k.PR.key, k.PR.vindex('Int32'), [5]), ty=T('TInt32')), T('TInt32'), 'int32') if c_ == 'int' else (M('EVar', name=mkstr('c'), ty=fty()), fty(), CS)
        inner = sh[1:-1]; parts = []; depth = 0; cur = ''
        for ch in inner:
            if ch == ',' and depth == 0: parts.append(cur); cur = ''; continue
            depth += ch == '('; depth -= ch == ')'; cur += ch
        parts.append(cur); sub = [build(ex, p_) for p_ in parts]
        return M('ETuple', items=PyVec([s_[0] for s_ in sub]), ty=T('TTuple', PyVec([s_[1] for s_ in sub]))), T('TTuple', PyVec([s_[1] for s_ in sub])), tuple(s_[2] for s_ in sub)
    def shape_of(t):
        n = k.TY.variants[t.idx].name
        if n == 'TTuple': return tuple(shape_of(x) for x in t.fields[0].items)
        if n == 'TStruct': return ms.pystr(t.fields[0])
        return {'TInt32': 'int32', 'TFunc': 'fn'}.get(n, n)
    def entry(ex):
        sh = ex.choose([(True, s_) for s_ in SHAPES])
        h, hl = k.fresh_state(ex, {'c': (T('TStruct', mkstr(CS)), CS)}, closures=(CS,))
        e, _, want = build(ex, sh)
        res = ex.call('lift::transform_expr', [Ref(h, 0), Ref(h, 1), e])
        hh = {0: res}; ty = ex.call('lift::LiftExpr::get_ty', [Ref(hh, 0)])
        return sh, want, shape_of(ty)
    res = e2.explore(r, k.W, entry, [])
    for p in res:
        r.cases += 1
        if p.kind != 'ok':
            if not any(f.key == 'panic' for f in r.findings): r.findings.append(Finding('panic', 'transform_expr panics on a tuple: %s' % str(p.value)[:200], {}, False, 'not replayed'))
            continue
        sh, want, got = p.value; r.nontrivial += 1
        if got != want:
            if r.findings: continue
            ok_, detail = replay_tuple(want)
            r.findings.append(Finding('tuple-type-not-lifted', 'tuple %s with components %s: the lifted expression has type %s' % (sh, want, got), {'shape': sh, 'components': str(want)}, ok_, detail))
        elif len(r.samples) < 3 and CS in str(want): r.samples.append({'shape': sh, 'type': str(got)})

def replay_tuple(want):
    """real CLI: the same tuple built from a let-bound closure; --dump-lift must give the let-bound tuple a type that names a closure environment at every closure position"""
    def lit(w): return ('(' + ', '.join(lit(x) for x in w) + ')') if isinstance(w, tuple) else ('5' if w == 'int32' else 'c')
    def pat(w): return ('(' + ', '.join(pat(x) for x in w) + ')') if isinstance(w, tuple) else ('int32' if w == 'int32' else 'closure_env')
    src = 'fn main() -> unit {\n    let k = 2;\n    let c = |x: int32| x + k;\n    let t = %s;\n    ()\n}\n' % lit(want)
    d = tempfile.mkdtemp(prefix='vf-c08t-')
    try:
        open(os.path.join(d, 'main.gom'), 'w').write(src)
        out = subprocess.run([build.compiler_bin(), 'run', '--dump-lift', os.path.join(d, 'main.gom')], capture_output=True, text=True, timeout=60).stdout
    finally: shutil.rmtree(d, ignore_errors=True)
    m_ = re.search(r'let t/\d+\s*:\s*([^=\n]*)=', out) or re.search(r'let t/\d+([^\n]*)', out)
    tytext = m_.group(1) if m_ else ''
    nclo = str(want).count('closure_env'); seen = tytext.count('closure_env')
    return (m_ is not None and seen < nclo), 'goml `%s`: --dump-lift types t as `%s` (%d closure environments named, %d closures stored)' % (src.replace('\n', ' | '), tytext.strip()[:160], seen, nclo)

_c08_obl5 = obligations
def obligations():
    return _c08_obl5() + [Ob('O8.5-closure-rebind-3', 'every captured variable is read back from the environment field it was stored in (closures using 3 variables)', ob_closure_rebind, ('quick', 'thorough'), 5, dict(nuses=3)),
                          Ob('O8.5-closure-rebind-4', 'same, 4 uses', ob_closure_rebind, ('thorough',), 20, dict(nuses=4)),
                          Ob('O8.6-tuple-closure-type', 'a tuple holding closures at any depth gets the lifted component types', ob_tuple_closure_type, ('quick', 'thorough'), 5, {})]

_obl_models = obligations
def obligations():
    from props import selftest_ob
    return selftest_ob.obligations_models('O8.0') + _obl_models()

"""CST -> AST lowering (ast::lower) under E2, on the syntax trees produced by the E2 run of the real parser (rowan tree model)."""
import json, os, glob
import z3
from vlib import e2, build
from vlib.core import Ob, Finding
import mirsym as ms
from mirsym.engine import Agg, LazyEnum, PyVec, Str, Ref, Opaque, Panic, Limit, Unsupported, mkstr
from mirsym.models_rowan import tree_from_ops, SynNode, SynToken
from props import parser_ob

LCRATES = ('parser', 'lexer', 'diagnostics', 'cst', 'ast', 'common_defs')

class LW(parser_ob.PW):
    def __init__(s):
        s.W = e2.fresh_world(LCRATES); s.W.overrides = [parser_ob.stub_overrides]; s.W.step_limit = 3000000
        tt = s.W.tt
        s.TK = tt.find_adt(['lexer', 'TokenKind'], 'parser'); s.SK = tt.find_adt(['syntax', 'MySyntaxKind'], 'parser')
        s.EV = tt.find_adt(['event', 'Event'], 'parser'); s.TOK = tt.find_adt(['lexer', 'Token'], 'parser')
        s.kinds = s.TK.vnames(); s.eof = s.TK.vindex('Eof'); s.trivia = [s.TK.vindex('Whitespace'), s.TK.vindex('Comment')]
        s.AFILE = [a for a in tt.by_name['File'] if a.crate == 'ast'][0]; s.ITEM = [a for a in tt.by_name['Item'] if a.crate == 'ast'][0]

def run_lower(lw, ex, kinds, texts=None):
    """real parser, then real lower, on token kinds (+ optional concrete token texts); returns the LowerResult pieces"""
    toks = PyVec([Agg(lw.TOK.key, 0, [parser_ob.kind_value(lw, ex, k, 'k%d' % i), (mkstr(texts[i]) if texts else mkstr('t%d' % i)), Agg('TextRange', 0, [i, i + 1])]) for i, k in enumerate(kinds)])
    p = ex.call('Parser::new', [Opaque('path'), toks], 'parser'); h = [p]
    ex.call('file::file', [Ref(h, 0)], 'parser')
    res = ex.call('Parser::build_tree', [h[0]], 'parser')
    b = res.fields[0]; pdiags = res.fields[1]
    root = tree_from_ops(b.ops)
    f = ex.call('<File as CstNode>::cast', [root], 'cst')
    if f.idx != 1: raise Panic('ROOT: the tree root does not cast to cst::File')
    lr = ex.call('lower::lower', [f.fields[0]], 'ast')
    return lr, root, pdiags

def lower_summary(lw, ex, lr):
    astf, diags = lr.fields[0], lr.fields[1]
    ditems = diags.fields[0].items if isinstance(diags, Agg) else diags.items
    items = []
    if astf.idx == 1:
        fv = astf.fields[0]; fd = dict(zip([x[0] for x in lw.AFILE.variants[0].fields], fv.fields))
        items = [lw.ITEM.variants[i.idx].name for i in fd['toplevels'].items]
    return astf.idx == 1, len(ditems), items, ditems

def ob_lower_selftest(r, tier, seed, nfiles):
    lw = LW()
    from props.selftest_ob import corpus_files
    files = corpus_files(nfiles)
    r.bounds = '%d corpus programs: real lexer -> (MIR) parser -> rowan tree model -> (MIR) ast::lower, compared with the native pipeline: AST present, number of diagnostics, sequence of item kinds; also with every 7th token deleted' % len(files)
    texts = [open(f).read() for f in files]
    rc, out, errt = build.run_driver('vreplay', '\n'.join(json.dumps({'fn': 'lex', 'args': [t]}) for t in texts) + '\n')
    cases = []
    for f, l in zip(files, out.splitlines()):
        toks = json.loads(l)['ok']
        cases.append((f, 'as-is', toks))
        nt = [i for i, t in enumerate(toks) if t[0] not in ('Whitespace', 'Comment')]
        drop = set(nt[3::7]); cases.append((f, 'every-7th-deleted', [t for i, t in enumerate(toks) if i not in drop]))
    srcs = [''.join(t[1] for t in toks) for _, _, toks in cases]
    rc, out, errt = build.run_driver('vreplay', '\n'.join(json.dumps({'fn': 'lower_text', 'args': [s_]}) for s_ in srcs) + '\n', timeout=900)
    native = [json.loads(l) for l in out.splitlines()]
    if len(native) != len(cases): raise Unsupported('native driver: %d answers for %d cases %s' % (len(native), len(cases), errt[-300:]))
    for (f, mode, toks), nat in zip(cases, native):
        # the deleted-token text must lex back to the same tokens, otherwise the two sides see different inputs: skip such cases
        def entry(ex, toks=toks):
            lr, root, pd = run_lower(lw, ex, [t[0] for t in toks], [t[1] for t in toks])
            return lower_summary(lw, ex, lr)[:3]
        if mode != 'as-is':
            rc2, o2, _ = build.run_driver('vreplay', json.dumps({'fn': 'lex', 'args': [''.join(t[1] for t in toks)]}) + '\n')
            if [t[0] for t in json.loads(o2.splitlines()[0])['ok']] != [t[0] for t in toks]: continue
        res = e2.explore(r, lw.W, entry, [])
        r.cases += 1
        if len(res) != 1: raise Unsupported('concrete run forked: %s %s' % (f, mode))
        p = res[0]; name = os.path.basename(os.path.dirname(f))
        if p.kind != 'ok':
            if 'panic' in nat: r.nontrivial += 1; continue
            raise Unsupported('SELFTEST MISMATCH %s (%s): MIR run panics (%s), native does not' % (name, mode, p.value))
        n = nat.get('ok')
        if n is None: raise Unsupported('SELFTEST MISMATCH %s (%s): native panics, MIR run does not' % (name, mode))
        has, nd, items = p.value
        if has != n['has_ast'] or nd != n['diagnostics'] or items != n['items']:
            raise Unsupported('SELFTEST MISMATCH %s (%s): MIR (ast=%s, diagnostics=%d, items=%s) native (ast=%s, diagnostics=%d, items=%s)' % (name, mode, has, nd, items, n['has_ast'], n['diagnostics'], n['items']))
        r.nontrivial += 1
        if len(r.samples) < 3: r.samples.append({'file': name, 'mode': mode, 'items': items[:6], 'diagnostics': nd})

# ----------------------------------------------------------------------------- O4.4 / O12.6: lowering never panics, diagnostics stay inside the text
def lower_findings(r, lw, res, specs, label):
    for p in res:
        r.cases += 1
        if p.kind == 'ok':
            r.nontrivial += 1; continue
        st = [x for x in (p.notes.get('stack') or []) if 'lower' in x or x.startswith('lower_')]
        where = (st[-1] if st else ((p.notes.get('stack') or ['?'])[-1])).split('::')[-1]
        key = 'lower-diag-range' if p.value.startswith('DIAG-RANGE') else ('hang' if 'HANG' in p.value else 'lower-panic:' + where)
        if any(f.key == key for f in r.findings): continue
        m, _ = e2.check(p.pc)
        names = [k if isinstance(k, str) else lw.kinds[e2.mval(m, k)] for k, _t in specs]
        texts = [t for _k, t in specs]
        try:
            rc, out, errt = build.run_driver('vreplay', json.dumps({'fn': 'lower_kinds', 'args': [names, lw.kinds, texts]}) + '\n', timeout=30)
            nat = json.loads(out.splitlines()[0]) if out.strip() else {'error': errt[-200:]}
        except Exception as e:
            nat = {'hang': True} if 'Timeout' in type(e).__name__ else {'error': str(e)[:200]}
        ok_ = bool(nat.get('panic')) if key.startswith('lower-panic') else (bool(nat.get('hang')) if key == 'hang' else nat.get('ok', {}).get('bad_ranges', 0) > 0)
        r.findings.append(Finding(key, 'parse + lower on tokens %s: %s' % (list(zip(names, texts)), p.value[:200]), {'kinds': names, 'texts': texts, 'native': nat, 'stack': p.notes.get('stack')}, ok_, json.dumps(nat)[:200]))

def explore_lower(r, lw, specs, label):
    """specs: [(kind name | z3 Int, text)]"""
    n = len(specs); allowed = [i for i in range(len(lw.kinds)) if i != lw.eof]
    def entry(ex):
        for k, _t in specs:
            if not isinstance(k, str): ex.restrict(k, allowed)
        try:
            lr, root, pd = run_lower(lw, ex, [k for k, _ in specs], [t for _, t in specs])
        except Limit as e:
            raise Panic('HANG-CANDIDATE: ' + str(e))
        has, nd, items, ditems = lower_summary(lw, ex, lr)
        for d in ditems:
            rg = parser_ob.diag_range(ex, d)
            if rg is not None and not (0 <= rg[0] <= rg[1] <= n): raise Panic('DIAG-RANGE: lowering diagnostic range %r outside the %d-token text' % (rg, n))
        return has, nd
    res = e2.explore(r, lw.W, entry, [])
    lower_findings(r, lw, res, specs, label)
    return res

def ob_lower_sequences(r, tier, seed, n, first=None):
    lw = LW(); lw.W.step_limit = 800000
    ks = [z3.Int('k%d' % i) for i in range(n)]
    specs = [(k, 'x%d' % i) for i, k in enumerate(ks)]
    if first is not None: specs[0] = (first, 'x0')
    r.bounds = 'real parser then real ast::lower on every sequence of %d token kinds over the full TokenKind list (token texts abstract: x0, x1, ..)%s' % (n, '' if first is None else '; first kind ' + first)
    r.assumptions = ['rowan red tree modelled on the recorder output of the real build_tree; cst accessors, casts and ast::lower are executed from MIR', 'token texts are abstract identifiers-like strings (numeric literal texts are covered by the templates)']
    explore_lower(r, lw, specs, 'seq%d' % n)

def ob_lower_templates(r, tier, seed, shard, nshards):
    lw = LW(); lw.W.step_limit = 1500000
    lines = [l.rstrip('\n') for l in open(os.path.join(os.path.dirname(__file__), 'skeletons.txt')) if l.strip() and not l.startswith('#')]
    mine = [l for i, l in enumerate(lines) if i % nshards == shard]
    rc, out, errt = build.run_driver('vreplay', '\n'.join(json.dumps({'fn': 'lex', 'args': [l]}) for l in mine) + '\n')
    r.bounds = '%d of %d valid skeletons with their real token texts; any one non-trivia position replaced by an arbitrary token kind (text `h`), or deleted' % (len(mine), len(lines))
    r.assumptions = ['as O4.4-seq; skeleton token texts come from the real lexer']
    for l, o in zip(mine, out.splitlines()):
        toks = [(t[0], t[1]) for t in json.loads(o)['ok']]
        nt = [i for i, t in enumerate(toks) if t[0] not in ('Whitespace', 'Comment')]
        for i in nt:
            sp = list(toks); sp[i] = (z3.Int('h'), 'h'); explore_lower(r, lw, sp, 'replace@%d' % i)
            explore_lower(r, lw, toks[:i] + toks[i + 1:], 'delete@%d' % i)
        if len(r.samples) < 2: r.samples.append({'skeleton': l, 'positions': len(nt)})

def obligations_lower(prefix):
    obs = [Ob(prefix + '-lower-seq-1', 'parser + lower on every single token', ob_lower_sequences, ('quick', 'thorough'), 1, dict(n=1)),
           Ob(prefix + '-lower-seq-2', 'parser + lower on every pair of tokens', ob_lower_sequences, ('quick', 'thorough'), 30, dict(n=2))]
    for sh in range(16):
        obs.append(Ob(prefix + '-lower-tmpl-s%02d' % sh, 'parser + lower on valid skeletons with one arbitrary hole / deletion', ob_lower_templates, ('quick', 'thorough'), 40, dict(shard=sh, nshards=16)))
    obs.append(Ob(prefix + '-lower-selftest', 'MIR parser+lower reproduces the native AST summary on corpus programs', ob_lower_selftest, ('quick',), 5, dict(nfiles=8)))
    obs.append(Ob(prefix + '-lower-selftest-all', 'MIR parser+lower reproduces the native AST summary on all small corpus programs', ob_lower_selftest, ('thorough',), 50, dict(nfiles=60)))
    return obs

# ----------------------------------------------------------------------------- O4.9 number texts of any magnitude in the positions that lowering parses (array length, tuple index) never panic
NUM_TEXTS = ('0', '2', '007', '4294967295', '4294967296', '18446744073709551615', '18446744073709551616', '99999999999999999999', '340282366920938463463374607431768211456')
def ob_lower_number_texts(r, tier, seed):
    lw = LW()
    r.bounds = 'the programs `fn f(x: [int32; N]) { }` and `fn f() { t.N }` with the integer token N each of %s (solver decision); real parser, real tree builder, real ast::lower' % list(NUM_TEXTS)
    r.assumptions = ['rowan red tree modelled on the recorder output of the real build_tree (validated by O4.4-lower-selftest)', 'oracle: lowering returns (with a diagnostic when the number does not fit); it never panics']
    def entry(ex):
        pos = ex.choose([(True, 'array-length'), (True, 'tuple-index')]); n = ex.choose([(True, t) for t in NUM_TEXTS]); ex.notes['w'] = (pos, n)
        if pos == 'array-length':
            full = [('FnKeyword', 'fn'), ('Ident', 'f'), ('LParen', '('), ('Ident', 'x'), ('Colon', ':'), ('LBracket', '['), ('Int32Keyword', 'int32'), ('Semi', ';'), ('Int', n), ('RBracket', ']'), ('RParen', ')'), ('LBrace', '{'), ('RBrace', '}')]
        else:
            full = [('FnKeyword', 'fn'), ('Ident', 'f'), ('LParen', '('), ('RParen', ')'), ('LBrace', '{'), ('Ident', 't'), ('Dot', '.'), ('Int', n), ('RBrace', '}')]
        lr, root, pd = run_lower(lw, ex, [k for k, _ in full], [t for _, t in full])
        has, nd, items, ditems = lower_summary(lw, ex, lr)
        return pos, n, has, nd
    res = e2.explore(r, lw.W, entry, [])
    for p in res:
        r.cases += 1
        if p.kind != 'ok':
            pos, n = (p.notes or {}).get('w') or ('?', '?')
            if any(f.key == 'panic:' + pos for f in r.findings): continue
            src = ('fn f(x: [int32; %s]) { }\n' % n) if pos == 'array-length' else ('fn f() { t.%s }\n' % n)
            import json as _j
            try:
                rc, out, errt = build.run_driver('vreplay', _j.dumps({'fn': 'lower_text', 'args': [src]}) + '\n', timeout=60)
                ok_ = 'panicked' in (out + errt) or rc != 0; detail = 'native parser + ast::lower on `%s`: %s' % (src.strip(), (errt or out)[-200:].replace('\n', ' '))
            except Exception as e_: ok_, detail = False, 'native replay failed: %s' % str(e_)[:160]
            r.findings.append(Finding('panic:' + pos, 'lowering `%s` panics: %s' % (src.strip(), p.value[:160]), {'position': pos, 'number': n}, ok_, detail))
            continue
        r.nontrivial += 1
        if len(r.samples) < 3: r.samples.append({'position': p.value[0], 'number': p.value[1], 'diagnostics': p.value[3]})

def obligations_numbers():
    return [Ob('O4.9-lower-number-texts', 'array lengths and tuple indices of any magnitude never panic in lowering', ob_lower_number_texts, ('quick', 'thorough'), 3, {})]

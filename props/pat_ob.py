"""C03 O3.4 - pattern checking ties a literal pattern to the type of the value it is matched against: Typer::check_pat on every literal
pattern kind against every leaf type must either agree structurally or leave a TypeEqual constraint / diagnostic behind."""
import json, os, subprocess, tempfile, shutil
import z3
from vlib import e2, build
from vlib.core import Ob, Finding
import mirsym as ms
from mirsym.engine import Agg, PyVec, Str, Ref, Opaque, Unsupported, Panic, unbox, mkbox, mkstr, UNIT

CRATES = ('compiler', 'common_defs', 'diagnostics', 'parser')
TYS = ['TUnit', 'TBool', 'TInt8', 'TInt16', 'TInt32', 'TInt64', 'TUint8', 'TUint16', 'TUint32', 'TUint64', 'TFloat32', 'TFloat64', 'TString']
GOML = {'TUnit': 'unit', 'TBool': 'bool', 'TString': 'string'}
PATS = {'PUnit': ('TUnit', '()'), 'PBool': ('TBool', 'true'), 'PString': ('TString', '"a"'), 'PInt': (None, '1'), 'PInt8': ('TInt8', '1i8'), 'PInt16': ('TInt16', '1i16'), 'PInt32': ('TInt32', '1i32'),
        'PInt64': ('TInt64', '1i64'), 'PUInt8': ('TUint8', '1u8'), 'PUInt16': ('TUint16', '1u16'), 'PUInt32': ('TUint32', '1u32'), 'PUInt64': ('TUint64', '1u64'), 'PWild': (None, '_')}
INTS = ['TInt8', 'TInt16', 'TInt32', 'TInt64', 'TUint8', 'TUint16', 'TUint32', 'TUint64']

def goml_ty(t): return GOML.get(t, t[1:].lower())

def replay(pk, ty):
    src = 'fn f(x: %s) -> int32 { match x { %s => 1, _ => 2 } }\nfn main() -> unit { () }\n' % (goml_ty(ty), PATS[pk][1])
    d = tempfile.mkdtemp(prefix='vf-c03-')
    try:
        open(os.path.join(d, 'main.gom'), 'w').write(src)
        p = subprocess.run([build.compiler_bin(), 'run', '--dump-tast', os.path.join(d, 'main.gom')], capture_output=True, text=True, timeout=60)
    finally: shutil.rmtree(d, ignore_errors=True)
    txt = p.stdout + p.stderr
    rejected = 'error (typer)' in txt or 'error (lower)' in txt or 'error:' in txt
    return (not rejected), 'goml `%s`: %s' % (src.replace('\n', ' | '), 'rejected: ' + txt[:120] if rejected else 'accepted without a type diagnostic' + (' and the compiler then panics' if 'panicked' in txt else ''))

def replay_panic(pk, ty, lit):
    text = PATS[pk][1] if lit is None else lit + PATS[pk][1][1:]
    src = 'fn f(x: %s) -> int32 { match x { %s => 1, _ => 2 } }\nfn main() -> unit { () }\n' % (goml_ty(ty), text)
    d = tempfile.mkdtemp(prefix='vf-c04p-')
    try:
        open(os.path.join(d, 'main.gom'), 'w').write(src)
        p = subprocess.run([build.compiler_bin(), 'run', '--dump-tast', os.path.join(d, 'main.gom')], capture_output=True, text=True, timeout=60)
    finally: shutil.rmtree(d, ignore_errors=True)
    txt = p.stdout + p.stderr
    return 'panicked' in txt, 'goml `%s`: exit %d, %s' % (src.replace('\n', ' | '), p.returncode, ('the compiler panics: ' + txt[txt.find('panicked'):][:160].replace('\n', ' ')) if 'panicked' in txt else 'no panic: ' + txt[:120].replace('\n', ' '))

def ob_pattern_types(r, tier, seed, int_lits=('1',), nopanic_only=False):
    W = e2.fresh_world(CRATES); tt = W.tt
    TY = tt.find_adt(['tast', 'Ty'], 'compiler'); HP = [a for a in tt.by_name['Pat'] if a.crate == 'compiler' and 'hir' in '::'.join(a.path)][0]
    TP = tt.find_adt(['tast', 'Pat'], 'compiler'); TYPER = tt.find_adt(['typer', 'Typer'], 'compiler'); CO = [a for a in tt.by_name['Constraint'] if a.crate == 'compiler'][0]
    DI = tt.find_adt(['diagnostics', 'Diagnostics'], 'diagnostics')
    r.bounds = 'every literal pattern kind %s against every scalar type %s' % (sorted(PATS), TYS) + ('' if len(int_lits) == 1 else '; integer patterns with each of the digit strings %s' % list(int_lits))
    r.assumptions = ['HirTable::pat returns the chosen pattern; TypeckResultsBuilder recording and the local environment are stubbed (not part of the obligation)',
                     'oracle: when the literal\'s own type differs from the type of the matched value, check_pat must push a TypeEqual constraint relating the two (the solver then reports the mismatch) or report a diagnostic itself']
    cur = {}
    def ov(f, g):
        if g.endswith('HirTable::pat'):
            def m_hir_pat(ex, f_, a): return Ref(cur, 'pat')
            return m_hir_pat
        if 'TypeckResultsBuilder' in g and ('record_' in g):
            def m_record(ex, f_, a): return UNIT
            return m_record
        return None
    from props import c03 as c03m
    c3 = c03m.Ctx(W)
    W.overrides = [ov, c03m.ena_overrides(c3)]
    for nm in list(W.methods.get('pat', [])):
        if nm[2] is not None and nm[2].self_key == 'HirTable': W.stubs[nm[1]] = lambda ex, a: Ref(cur, 'pat')
    for meth in ('record_pat_ty', 'record_local_ty', 'record_expr_ty'):
        for nm in list(W.methods.get(meth, [])): W.stubs[nm[1]] = lambda ex, a: UNIT
    def entry(ex):
        pk = ex.choose([(True, k) for k in sorted(PATS)]); ty = ex.choose([(True, t) for t in TYS])
        v = HP.variants[HP.vindex(pk)]
        fields = []
        for fn_, fty in v.fields:
            if pk == 'PBool': fields.append(True)
            elif pk == 'PString': fields.append(mkstr('a'))
            else:
                lt = ex.choose([(True, x) for x in int_lits]) if len(int_lits) > 1 else int_lits[0]
                fields.append(mkstr(lt)); ex.notes['lit'] = lt
        ex.notes['w'] = (pk, ty, ex.notes.get('lit'))
        cur['pat'] = Agg(HP.key, HP.vindex(pk), fields)
        typer = Agg(TYPER.key, 0, [{'uni': c03m.UTable(), 'constraints': PyVec([]), 'hir_table': Opaque('hir_table'), 'results': Opaque('results')}[f[0]] for f in TYPER.variants[0].fields])
        h = {0: typer, 1: Opaque('genv'), 2: Opaque('local_env'), 3: Agg(DI.key, 0, [PyVec([])]), 4: Agg(TY.key, TY.vindex(ty), [])}
        out = ex.call('Typer::check_pat', [Ref(h, 0), Ref(h, 1), Ref(h, 2), Ref(h, 3), Agg('PatId', 0, [0]), Ref(h, 4)])
        cons = typer.fields[[f[0] for f in TYPER.variants[0].fields].index('constraints')].items
        eqs = []
        for c_ in cons:
            if CO.variants[c_.idx].name == 'TypeEqual': eqs.append(tuple(TY.variants[x.idx].name for x in c_.fields))
        ndiag = len(h[3].fields[0].items)
        pt = out.fields[[f[0] for f in TP.variants[out.idx].fields].index('ty')]
        return pk, ty, eqs, ndiag, TY.variants[pt.idx].name
    res = e2.explore(r, W, entry, [])
    found = {}
    for p in res:
        r.cases += 1
        if p.kind != 'ok':
            w_ = (p.notes or {}).get('w')
            found.setdefault('panic', ('check_pat panics on the pattern %s: %s' % (w_, p.value), ('panic', w_))); continue
        pk, ty, eqs, ndiag, pty = p.value
        if nopanic_only: r.nontrivial += 1; continue
        lit = PATS[pk][0]
        if pk == 'PInt': lit = ty if ty in INTS else 'TInt32'
        if lit is None or lit == ty or ndiag: r.nontrivial += 1; continue
        r.nontrivial += 1
        if not any(set(e_) == {lit, ty} for e_ in eqs):
            found.setdefault('pattern-type-unconstrained:' + pk, ('check_pat accepts the %s pattern `%s` against a value of type %s without relating the two types (constraints pushed: %s)' % (lit[1:].lower(), PATS[pk][1], goml_ty(ty), eqs), (pk, ty)))
        elif len(r.samples) < 3: r.samples.append({'pattern': PATS[pk][1], 'against': goml_ty(ty), 'constraint': list(eqs[0])})
    for key, (what, w) in found.items():
        ok_, detail = True, 'constraints read from the Typer value after the real check_pat MIR'
        if w is not None and w[0] == 'panic':
            try: ok_, detail = replay_panic(*w[1])
            except Exception as e: ok_, detail = False, 'replay failed: %s' % str(e)[:200]
            r.findings.append(Finding(key, what, {'pattern': list(w[1])}, ok_, detail)); continue
        if w is not None:
            try: ok_, detail = replay(*w)
            except Exception as e: ok_, detail = False, 'replay failed: %s' % str(e)[:200]
        r.findings.append(Finding(key, what, {'pattern': w[0] if w else None, 'type': w[1] if w else None}, ok_, detail))

def obligations():
    return [Ob('O3.4-literal-pattern-types', 'check_pat relates every literal pattern to the type of the matched value', ob_pattern_types, ('quick', 'thorough'), 3, {})]

# ----------------------------------------------------------------------------- O3.5 builtin operators are typed by their signatures
NUM = ['TInt8', 'TInt16', 'TInt32', 'TInt64', 'TUint8', 'TUint16', 'TUint32', 'TUint64', 'TFloat32', 'TFloat64']
BOPS = {'Add': '+', 'Sub': '-', 'Mul': '*', 'Div': '/', 'And': '&&', 'Or': '||', 'Less': '<', 'Greater': '>', 'LessEq': '<=', 'GreaterEq': '>=', 'Eq': '==', 'NotEq': '!='}
UOPS = {'Neg': '-', 'Not': '!'}

def op_rule(op, lt, rt):
    """True = must be accepted, False = must be rejected, None = either (not fixed by the property)"""
    if op in ('And', 'Or'): return lt == 'TBool' and rt == 'TBool'
    if lt != rt: return False
    if op == 'Add': return True if lt in NUM + ['TString'] else False
    if op in ('Sub', 'Mul', 'Div'): return lt in NUM
    if op in ('Less', 'Greater', 'LessEq', 'GreaterEq'): return True if lt in NUM else (None if lt == 'TString' else False)
    return None if lt not in NUM + ['TBool', 'TString'] else True          # == / != on scalars

def replay_op(op, lt, rt):
    if rt is None: src = 'fn f(a: %s) -> unit { let r = %sa; () }\n' % (goml_ty(lt), UOPS[op])
    else: src = 'fn f(a: %s, b: %s) -> unit { let r = a %s b; () }\n' % (goml_ty(lt), goml_ty(rt), BOPS[op])
    src += 'fn main() -> unit { () }\n'
    d = tempfile.mkdtemp(prefix='vf-c03-')
    try:
        open(os.path.join(d, 'main.gom'), 'w').write(src)
        p = subprocess.run([build.compiler_bin(), 'run', '--dump-tast', os.path.join(d, 'main.gom')], capture_output=True, text=True, timeout=60)
    finally: shutil.rmtree(d, ignore_errors=True)
    txt = p.stdout + p.stderr
    return 'error (' in txt or 'error:' in txt, src.replace('\n', ' | '), txt[:160].replace('\n', ' | ')

def ob_operator_types(r, tier, seed, unary=False):
    W = e2.fresh_world(CRATES); tt = W.tt
    TY = tt.find_adt(['tast', 'Ty'], 'compiler'); TE = tt.find_adt(['tast', 'Expr'], 'compiler'); TYPER = tt.find_adt(['typer', 'Typer'], 'compiler')
    DI = tt.find_adt(['diagnostics', 'Diagnostics'], 'diagnostics')
    BOP = tt.find_adt(['common_defs', 'BinaryOp'], 'common_defs'); UOP = tt.find_adt(['common_defs', 'UnaryOp'], 'common_defs')
    ops = sorted(UOPS) if unary else sorted(BOPS)
    r.bounds = 'every builtin %s operator %s on operands of every scalar type %s (all %s)' % ('unary' if unary else 'binary', ops, TYS, 'operand types' if unary else 'pairs of operand types')
    r.assumptions = ['infer_expr on the operands is stubbed by variables of the chosen types; then the real infer_%s_expr, the real Typer::solve (ena union-find modelled) and the real Typer::subst run' % ('unary' if unary else 'binary'),
                     'oracle (operator signatures): && || ! take bool; + takes two operands of one numeric type or two strings; - * / and unary - take numeric operands of one type; < > <= >= take two operands of one numeric type (strings: not fixed); == != take two operands of one type; everything else must be rejected with a diagnostic']
    from props import c03 as c03m
    c3 = c03m.Ctx(W); cur = {}
    def ov(f, g):
        if 'TypeckResultsBuilder' in g and 'record_' in g:
            def m_record(ex, f_, a): return UNIT
            return m_record
        return None
    W.overrides = [ov, c03m.ena_overrides(c3)]
    for meth in ('record_pat_ty', 'record_local_ty', 'record_expr_ty', 'record_binary_resolution', 'record_unary_resolution'):
        for nm in list(W.methods.get(meth, [])): W.stubs[nm[1]] = lambda ex, a: UNIT
    def stub_infer_expr(ex, a):
        eid = a[4]
        while isinstance(eid, Agg): eid = eid.fields[0]
        t = cur['tys'][eid]; v = TE.variants[TE.vindex('EVar')]
        return Agg(TE.key, TE.vindex('EVar'), [{'name': mkstr('ab'[eid]), 'ty': Agg(TY.key, TY.vindex(t), []), 'astptr': ms.NONE()}[f[0]] for f in v.fields])
    for nm in list(W.methods.get('infer_expr', [])):
        if nm[2] is not None and nm[2].self_key == 'Typer': W.stubs[nm[1]] = stub_infer_expr
    def entry(ex):
        op = ex.choose([(True, o) for o in ops]); lt = ex.choose([(True, t) for t in TYS]); rt = None if unary else ex.choose([(True, t) for t in TYS])
        cur['tys'] = [lt, rt]
        typer = Agg(TYPER.key, 0, [{'uni': c03m.UTable(), 'constraints': PyVec([]), 'hir_table': Opaque('hir_table'), 'results': Opaque('results')}[f[0]] for f in TYPER.variants[0].fields])
        h = {0: typer, 1: Opaque('genv'), 2: Opaque('local_env'), 3: Agg(DI.key, 0, [PyVec([])])}
        eid = lambda i: Agg('ExprId', 0, [i])
        if unary: e = ex.call('Typer::infer_unary_expr', [Ref(h, 0), Ref(h, 1), Ref(h, 2), Ref(h, 3), Agg(UOP.key, UOP.vindex(op), []), eid(0)])
        else: e = ex.call('Typer::infer_binary_expr', [Ref(h, 0), Ref(h, 1), Ref(h, 2), Ref(h, 3), Agg(BOP.key, BOP.vindex(op), []), eid(0), eid(1)])
        ex.call('Typer::solve', [Ref(h, 0), Ref(h, 1), Ref(h, 3)])
        ex.call('Typer::subst', [Ref(h, 0), Ref(h, 3), e])
        return op, lt, rt, len(h[3].fields[0].items)
    res = e2.explore(r, W, entry, [])
    found = {}
    for p in res:
        r.cases += 1
        if p.kind != 'ok': found.setdefault('panic', ('operator typing panics: %s' % p.value, None)); continue
        op, lt, rt, nd = p.value
        want = op_rule(op, lt, rt) if not unary else ((lt in NUM) if op == 'Neg' else (lt == 'TBool'))
        r.nontrivial += 1
        if want is None: continue
        sym = (UOPS if unary else BOPS)[op]
        shown = '%s%s' % (sym, goml_ty(lt)) if unary else '%s %s %s' % (goml_ty(lt), sym, goml_ty(rt))
        if want is False and nd == 0:
            cls = 'unary-minus-on-non-numeric' if unary else ('arithmetic-on-non-numeric' if op in ('Add', 'Sub', 'Mul', 'Div') else 'ordering-on-non-numeric' if op in ('Less', 'Greater', 'LessEq', 'GreaterEq') else 'operand-types-unrelated')
            found.setdefault('ill-typed-operator-accepted:' + cls, ('`%s` is accepted without a diagnostic' % shown, (op, lt, rt)))
        elif want is True and nd > 0: found.setdefault('well-typed-operator-rejected', ('`%s` is rejected' % shown, (op, lt, rt)))
        elif len(r.samples) < 3: r.samples.append({'expr': shown, 'accepted': nd == 0})
    for key, (what, w) in found.items():
        ok_, detail = True, 'diagnostics read after the real infer / solve / subst MIR'
        if w is not None:
            try:
                rejected, src, txt = replay_op(*w)
                ok_ = (not rejected) if key.startswith('ill-typed') else rejected
                detail = 'goml `%s`: %s' % (src, 'rejected: ' + txt if rejected else 'accepted without a diagnostic')
            except Exception as e: ok_, detail = False, 'replay failed: %s' % str(e)[:200]
        r.findings.append(Finding(key, what, {'op': w[0] if w else None, 'types': list(w[1:]) if w else None}, ok_, detail))

_obs34 = obligations
def obligations():
    return _obs34() + [Ob('O3.5-binary-operator-types', 'builtin binary operators accept exactly the operand types of their signatures', ob_operator_types, ('quick', 'thorough'), 10, dict(unary=False)),
                       Ob('O3.5-unary-operator-types', 'builtin unary operators accept exactly the operand types of their signatures', ob_operator_types, ('quick', 'thorough'), 2, dict(unary=True))]

# ----------------------------------------------------------------------------- O6.2 a struct pattern matches fields by NAME: the sub-pattern written for field f constrains and tests field f
def ob_struct_pattern(r, tier, seed):
    W = e2.fresh_world(CRATES); tt = W.tt
    TY = tt.find_adt(['tast', 'Ty'], 'compiler'); HP = [a for a in tt.by_name['Pat'] if a.crate == 'compiler' and 'hir' in '::'.join(a.path)][0]
    TP = tt.find_adt(['tast', 'Pat'], 'compiler'); TYPER = tt.find_adt(['typer', 'Typer'], 'compiler'); CO = [a for a in tt.by_name['Constraint'] if a.crate == 'compiler'][0]
    DI = tt.find_adt(['diagnostics', 'Diagnostics'], 'diagnostics'); SD = tt.find_adt(['env', 'StructDef'], 'compiler'); TI = tt.find_adt(['tast', 'TastIdent'], 'compiler')
    GTE = tt.find_adt(['env', 'GlobalTypeEnv'], 'compiler'); TEN = tt.find_adt(['env', 'TypeEnv'], 'compiler'); PR = tt.find_adt(['common', 'Prim'], 'compiler')
    r.bounds = 'struct S { a: int32, b: bool, c: string }; a pattern `S { .. }` listing the three fields in every one of the 6 orders, each field with a literal sub-pattern of its own type (1, true, "s")'
    r.assumptions = ['HirTable::pat returns the chosen patterns; type-name resolution returns the environment holding S; result recording stubbed',
                     'oracle: the elaborated constructor pattern has its arguments in declaration order, argument i being the sub-pattern written for the i-th declared field, and every pushed TypeEqual relates equal types (no spurious mismatch)']
    from props import c03 as c03m
    c3 = c03m.Ctx(W); cur = {}
    import itertools
    orders = list(itertools.permutations(['a', 'b', 'c']))
    lit = {'a': ('PInt', mkstr('1')), 'b': ('PBool', True), 'c': ('PString', mkstr('s'))}; fty = {'a': 'TInt32', 'b': 'TBool', 'c': 'TString'}
    def ov(f, g):
        if 'TypeckResultsBuilder' in g and 'record_' in g:
            def m_record(ex, f_, a): return UNIT
            return m_record
        return None
    W.overrides = [ov, c03m.ena_overrides(c3)]
    for meth in ('record_pat_ty', 'record_local_ty', 'record_struct_pat_elab'):
        for nm in list(W.methods.get(meth, [])): W.stubs[nm[1]] = lambda ex, a: UNIT
    def stub_pat(ex, a):
        pid = a[1]
        while isinstance(pid, Agg): pid = pid.fields[-1]
        return Ref(cur['pats'], pid)
    for nm in list(W.methods.get('pat', [])):
        if nm[2] is not None and nm[2].self_key == 'HirTable': W.stubs[nm[1]] = stub_pat
    for nm in list(W.methods.get('display', [])):
        if nm[2] is not None and nm[2].self_key == 'QualifiedPath': W.stubs[nm[1]] = lambda ex, a: mkstr('S')
    W.stubs['resolve_type_name'] = lambda ex, a: Agg('tuple', 0, [mkstr('S'), Ref(cur, 'genv')])
    def entry(ex):
        order = ex.choose([(True, o) for o in orders])
        genv = ex.call('env::GlobalTypeEnv::new_empty', [])
        te = genv.fields[[f[0] for f in GTE.variants[0].fields].index('type_env')]
        sm = te.fields[[f[0] for f in TEN.variants[0].fields].index('structs')]
        ident = lambda n: Agg(TI.key, 0, [mkstr(n)])
        sm.keys.append(ident('S')); sm.vals.append(Agg(SD.key, 0, [ident('S'), PyVec([]), PyVec([Agg('tuple', 0, [ident(n), Agg(TY.key, TY.vindex(fty[n]), [])]) for n in 'abc'])]))
        cur['genv'] = genv
        QP = tt.find_adt(['hir', 'QualifiedPath'], 'compiler'); HPATH = [a for a in tt.by_name['Path'] if a.crate == 'compiler' and 'hir' in '::'.join(a.path)][0]; HID = tt.find_adt(['hir', 'HirIdent'], 'compiler')
        qp = Agg(QP.key, 0, [ms.NONE(), Agg(HPATH.key, 0, [PyVec([])])])
        hid = lambda n: Agg(HID.key, HID.vindex('Name'), [mkstr(n)])
        pats = {0: Agg(HP.key, HP.vindex('PStruct'), [qp, PyVec([Agg('tuple', 0, [hid(n), Agg('PatId', 0, [i + 1])]) for i, n in enumerate(order)])])}
        for i, n in enumerate(order): pats[i + 1] = Agg(HP.key, HP.vindex(lit[n][0]), [lit[n][1]])
        cur['pats'] = pats
        typer = Agg(TYPER.key, 0, [{'uni': c03m.UTable(), 'constraints': PyVec([]), 'hir_table': Opaque('hir_table'), 'results': Opaque('results')}[f[0]] for f in TYPER.variants[0].fields])
        PTE = tt.find_adt(['env', 'PackageTypeEnv'], 'compiler')
        penv = Agg(PTE.key, 0, [{'package': mkstr('Main'), 'current': genv, 'deps': ms.engine.PyMap('hash')}[f[0]] for f in PTE.variants[0].fields])
        h = {0: typer, 1: penv, 2: Opaque('local_env'), 3: Agg(DI.key, 0, [PyVec([])]), 4: Agg(TY.key, TY.vindex('TStruct'), [mkstr('S')])}
        out = ex.call('Typer::check_pat_constructor', [Ref(h, 0), Ref(h, 1), Ref(h, 2), Ref(h, 3), Agg('PatId', 0, [0]), Ref(h, 4)])
        cons = typer.fields[[f[0] for f in TYPER.variants[0].fields].index('constraints')].items
        eqs = [tuple(TY.variants[x.idx].name for x in c_.fields) for c_ in cons if CO.variants[c_.idx].name == 'TypeEqual']
        args = []
        if TP.variants[out.idx].name == 'PConstr':
            for a_ in dict(zip([x[0] for x in TP.variants[out.idx].fields], out.fields))['args'].items:
                if TP.variants[a_.idx].name == 'PPrim': args.append(PR.variants[a_.fields[0].idx].name)
                else: args.append(TP.variants[a_.idx].name)
        return order, args, eqs, len(h[3].fields[0].items)
    res = e2.explore(r, W, entry, [])
    for p in res:
        r.cases += 1
        if p.kind != 'ok':
            if not any(f.key == 'panic' for f in r.findings): r.findings.append(Finding('panic', 'check_pat_constructor panics: %s' % p.value, {}, False, 'not replayed'))
            continue
        order, args, eqs, nd = p.value
        r.nontrivial += 1
        bad_eq = [e_ for e_ in eqs if e_[0] != e_[1] and 'TVar' not in e_]
        if args != ['Int32', 'Bool', 'String'] or bad_eq or nd:
            if r.findings: continue
            ok_, detail = replay_struct_pattern(order)
            r.findings.append(Finding('struct-pattern-fields-by-position', 'pattern `S { %s }` on struct S { a: int32, b: bool, c: string } elaborates to arguments %s (declaration order expects [Int32, Bool, String]); mismatching constraints %s, %d diagnostics' % (', '.join('%s: ..' % n for n in order), args, bad_eq, nd), {'order': list(order)}, ok_, detail))
        elif len(r.samples) < 3: r.samples.append({'order': list(order), 'args': args})

def replay_struct_pattern(order):
    v = {'a': '1', 'b': 'true', 'c': '"s"'}
    src = 'struct S { a: int32, b: bool, c: string }\nfn f(s: S) -> int32 { match s { S { %s } => 1, _ => 2 } }\nfn main() -> unit { () }\n' % ', '.join('%s: %s' % (n, v[n]) for n in order)
    d = tempfile.mkdtemp(prefix='vf-c06-')
    try:
        open(os.path.join(d, 'main.gom'), 'w').write(src)
        p = subprocess.run([build.compiler_bin(), 'run', '--dump-tast', os.path.join(d, 'main.gom')], capture_output=True, text=True, timeout=60)
    finally: shutil.rmtree(d, ignore_errors=True)
    txt = p.stdout + p.stderr
    return ('error (' in txt or 'panicked' in txt), 'goml `%s`: %s' % (src.replace('\n', ' | '), txt[:200].replace('\n', ' | '))

def obligations_c06():
    return [Ob('O6.2-struct-pattern-by-name', 'a struct pattern binds and tests fields by name, whatever order they are written in', ob_struct_pattern, ('quick', 'thorough'), 2, {})]

# ----------------------------------------------------------------------------- O13.5 diagnostics of a struct pattern do not depend on hash iteration order
def ob_struct_pattern_diag_order(r, tier, seed):
    W = e2.fresh_world(CRATES); W.hash_order = 'symbolic'; tt = W.tt
    TY = tt.find_adt(['tast', 'Ty'], 'compiler'); HP = [a for a in tt.by_name['Pat'] if a.crate == 'compiler' and 'hir' in '::'.join(a.path)][0]
    TYPER = tt.find_adt(['typer', 'Typer'], 'compiler'); DI = tt.find_adt(['diagnostics', 'Diagnostics'], 'diagnostics'); DG = tt.find_adt(['diagnostics', 'Diagnostic'], 'diagnostics')
    SD = tt.find_adt(['env', 'StructDef'], 'compiler'); TI = tt.find_adt(['tast', 'TastIdent'], 'compiler'); GTE = tt.find_adt(['env', 'GlobalTypeEnv'], 'compiler'); TEN = tt.find_adt(['env', 'TypeEnv'], 'compiler')
    r.bounds = 'struct S { a: int32 }; the pattern `S { a: 1, zeta: 2, alpha: 3, mid: 4 }` (three unknown fields); iteration order of every std HashMap/HashSet is a symbolic permutation'
    r.assumptions = ['as O6.2', 'oracle: the list of diagnostic messages is the same on every feasible execution']
    from props import c03 as c03m
    c3 = c03m.Ctx(W); cur = {}
    def ov(f, g):
        if 'TypeckResultsBuilder' in g and 'record_' in g:
            def m_record(ex, f_, a): return UNIT
            return m_record
        return None
    W.overrides = [ov, c03m.ena_overrides(c3)]
    for meth in ('record_pat_ty', 'record_local_ty', 'record_struct_pat_elab'):
        for nm in list(W.methods.get(meth, [])): W.stubs[nm[1]] = lambda ex, a: UNIT
    def stub_pat(ex, a):
        pid = a[1]
        while isinstance(pid, Agg): pid = pid.fields[-1]
        return Ref(cur['pats'], pid)
    for nm in list(W.methods.get('pat', [])):
        if nm[2] is not None and nm[2].self_key == 'HirTable': W.stubs[nm[1]] = stub_pat
    for nm in list(W.methods.get('display', [])):
        if nm[2] is not None and nm[2].self_key == 'QualifiedPath': W.stubs[nm[1]] = lambda ex, a: mkstr('S')
    W.stubs['resolve_type_name'] = lambda ex, a: Agg('tuple', 0, [mkstr('S'), Ref(cur, 'genv')])
    names = ['a', 'zeta', 'alpha', 'mid']
    def entry(ex):
        genv = ex.call('env::GlobalTypeEnv::new_empty', [])
        te = genv.fields[[f[0] for f in GTE.variants[0].fields].index('type_env')]
        sm = te.fields[[f[0] for f in TEN.variants[0].fields].index('structs')]
        ident = lambda n: Agg(TI.key, 0, [mkstr(n)])
        sm.keys.append(ident('S')); sm.vals.append(Agg(SD.key, 0, [ident('S'), PyVec([]), PyVec([Agg('tuple', 0, [ident('a'), Agg(TY.key, TY.vindex('TInt32'), [])])])]))
        cur['genv'] = genv
        QP = tt.find_adt(['hir', 'QualifiedPath'], 'compiler'); HPATH = [a for a in tt.by_name['Path'] if a.crate == 'compiler' and 'hir' in '::'.join(a.path)][0]; HID = tt.find_adt(['hir', 'HirIdent'], 'compiler')
        qp = Agg(QP.key, 0, [ms.NONE(), Agg(HPATH.key, 0, [PyVec([])])]); hid = lambda n: Agg(HID.key, HID.vindex('Name'), [mkstr(n)])
        pats = {0: Agg(HP.key, HP.vindex('PStruct'), [qp, PyVec([Agg('tuple', 0, [hid(n), Agg('PatId', 0, [i + 1])]) for i, n in enumerate(names)])])}
        for i, n in enumerate(names): pats[i + 1] = Agg(HP.key, HP.vindex('PInt'), [mkstr(str(i + 1))])
        cur['pats'] = pats
        typer = Agg(TYPER.key, 0, [{'uni': c03m.UTable(), 'constraints': PyVec([]), 'hir_table': Opaque('hir_table'), 'results': Opaque('results')}[f[0]] for f in TYPER.variants[0].fields])
        PTE = tt.find_adt(['env', 'PackageTypeEnv'], 'compiler')
        penv = Agg(PTE.key, 0, [{'package': mkstr('Main'), 'current': genv, 'deps': ms.engine.PyMap('hash')}[f[0]] for f in PTE.variants[0].fields])
        h = {0: typer, 1: penv, 2: Opaque('local_env'), 3: Agg(DI.key, 0, [PyVec([])]), 4: Agg(TY.key, TY.vindex('TStruct'), [mkstr('S')])}
        ex.call('Typer::check_pat_constructor', [Ref(h, 0), Ref(h, 1), Ref(h, 2), Ref(h, 3), Agg('PatId', 0, [0]), Ref(h, 4)])
        return tuple(ms.pystr(d.fields[[f[0] for f in DG.variants[0].fields].index('message')]) for d in h[3].fields[0].items)
    res = e2.explore(r, W, entry, [])
    outs = set()
    for p in res:
        r.cases += 1
        if p.kind != 'ok': raise Unsupported('check_pat_constructor panicked: %s' % p.value)
        outs.add(p.value)
    r.nontrivial = len(res)
    if len(outs) > 1:
        src = 'struct S { a: int32 }\nfn f(s: S) -> int32 { match s { S { a: 1, zeta: 2, alpha: 3, mid: 4 } => 1, _ => 2 } }\nfn main() -> unit { () }\n'
        d = tempfile.mkdtemp(prefix='vf-c13-')
        try:
            open(os.path.join(d, 'main.gom'), 'w').write(src); seen = set()
            for _ in range(30): seen.add(subprocess.run([build.compiler_bin(), 'run', '--dump-tast', os.path.join(d, 'main.gom')], capture_output=True, text=True, timeout=60).stderr)
        finally: shutil.rmtree(d, ignore_errors=True)
        ex2 = sorted(outs)[:2]
        r.findings.append(Finding('diagnostic-text-depends-on-hash-iteration', 'the "unknown fields" diagnostic of a struct pattern lists the fields in HashMap order: %d different texts, e.g. %r vs %r' % (len(outs), [m for m in ex2[0] if 'unknown' in m], [m for m in ex2[1] if 'unknown' in m]), {'texts': [list(o) for o in sorted(outs)][:4]}, len(seen) > 1, '30 runs of the real CLI print %d different diagnostic texts' % len(seen)))
    else: r.samples.append({'diagnostics': list(next(iter(outs))) if outs else []})

def obligations_c13():
    return [Ob('O13.5-struct-pattern-diagnostics', 'diagnostics of a struct pattern with unknown fields independent of hash iteration order', ob_struct_pattern_diag_order, ('quick', 'thorough'), 3, {})]

# ----------------------------------------------------------------------------- O3.6 checking a tuple literal against a tuple type: arity and element types
def ob_tuple_check(r, tier, seed):
    W = e2.fresh_world(CRATES); tt = W.tt
    TY = tt.find_adt(['tast', 'Ty'], 'compiler'); TE = tt.find_adt(['tast', 'Expr'], 'compiler'); TYPER = tt.find_adt(['typer', 'Typer'], 'compiler')
    HE = [a for a in tt.by_name['Expr'] if a.crate == 'compiler' and 'hir' in '::'.join(a.path)][0]; DI = tt.find_adt(['diagnostics', 'Diagnostics'], 'diagnostics')
    r.bounds = 'a tuple literal of 1..3 items (each `1` or `true`) checked against a tuple type of 1..3 elements (each int32 or bool): every combination'
    r.assumptions = ['HirTable::expr returns the chosen expressions; result recording stubbed; then the real Typer::check_expr, Typer::solve and Typer::subst run',
                     'oracle: accepted (no diagnostic) iff the literal has as many items as the type has elements and every item has the element type; the elaborated tuple keeps every written item']
    from props import c03 as c03m
    c3 = c03m.Ctx(W); cur = {}
    def ov(f, g):
        if 'TypeckResultsBuilder' in g and 'record_' in g:
            def m_record(ex, f_, a): return UNIT
            return m_record
        return None
    W.overrides = [ov, c03m.ena_overrides(c3)]
    for meth in ('record_expr_result', 'record_expr_ty', 'record_pat_ty', 'record_local_ty'):
        for nm in list(W.methods.get(meth, [])): W.stubs[nm[1]] = lambda ex, a: UNIT
    def stub_expr(ex, a):
        eid = a[1]
        while isinstance(eid, Agg): eid = eid.fields[-1]
        return Ref(cur['exprs'], eid)
    for nm in list(W.methods.get('expr', [])):
        if nm[2] is not None and nm[2].self_key == 'HirTable': W.stubs[nm[1]] = stub_expr
    eid = lambda i: Agg('ExprId', 0, [i])
    def entry(ex):
        n = ex.choose([(True, k) for k in (1, 2, 3)]); m_ = ex.choose([(True, k) for k in (1, 2, 3)])
        items = [ex.choose([(True, 'int'), (True, 'bool')]) for _ in range(n)]; elems = [ex.choose([(True, 'TInt32'), (True, 'TBool')]) for _ in range(m_)]
        exprs = {0: Agg(HE.key, HE.vindex('ETuple'), [PyVec([eid(i + 1) for i in range(n)])])}
        for i, k in enumerate(items): exprs[i + 1] = Agg(HE.key, HE.vindex('EInt'), [mkstr('1')]) if k == 'int' else Agg(HE.key, HE.vindex('EBool'), [True])
        cur['exprs'] = exprs
        typer = Agg(TYPER.key, 0, [{'uni': c03m.UTable(), 'constraints': PyVec([]), 'hir_table': Opaque('hir_table'), 'results': Opaque('results')}[f[0]] for f in TYPER.variants[0].fields])
        expected = Agg(TY.key, TY.vindex('TTuple'), [PyVec([Agg(TY.key, TY.vindex(t), []) for t in elems])])
        h = {0: typer, 1: Opaque('genv'), 2: Opaque('local_env'), 3: Agg(DI.key, 0, [PyVec([])]), 4: expected}
        out = ex.call('Typer::check_expr', [Ref(h, 0), Ref(h, 1), Ref(h, 2), Ref(h, 3), eid(0), Ref(h, 4)])
        ex.call('Typer::solve', [Ref(h, 0), Ref(h, 1), Ref(h, 3)])
        out2 = ex.call('Typer::subst', [Ref(h, 0), Ref(h, 3), out])
        kept = len(dict(zip([x[0] for x in TE.variants[out2.idx].fields], out2.fields))['items'].items) if TE.variants[out2.idx].name == 'ETuple' else -1
        return items, elems, len(h[3].fields[0].items), kept
    res = e2.explore(r, W, entry, [])
    for p in res:
        r.cases += 1
        if p.kind != 'ok':
            if not any(f.key == 'panic' for f in r.findings): r.findings.append(Finding('panic', 'tuple checking panics: %s' % p.value, {}, False, 'not replayed'))
            continue
        items, elems, nd, kept = p.value
        want_ok = len(items) == len(elems) and all((k == 'int') == (t == 'TInt32') for k, t in zip(items, elems))
        r.nontrivial += 1
        if (nd == 0) != want_ok or (nd == 0 and kept != len(items)):
            if any(f.key.startswith('tuple-literal') for f in r.findings): continue
            lit = '(%s%s)' % (', '.join('1' if k == 'int' else 'true' for k in items), ',' if len(items) == 1 else ''); ty = '(%s%s)' % (', '.join(goml_ty(t) for t in elems), ',' if len(elems) == 1 else '')
            src = 'fn main() -> unit { let t: %s = %s; () }\n' % (ty, lit)
            d = tempfile.mkdtemp(prefix='vf-c03-')
            try:
                open(os.path.join(d, 'main.gom'), 'w').write(src)
                pr = subprocess.run([build.compiler_bin(), 'run', '--dump-tast', os.path.join(d, 'main.gom')], capture_output=True, text=True, timeout=60)
            finally: shutil.rmtree(d, ignore_errors=True)
            txt = pr.stdout + pr.stderr; rejected = 'error (' in txt or 'error:' in txt
            key = 'tuple-literal-ill-typed-accepted' if not want_ok else 'tuple-literal-well-typed-rejected'
            r.findings.append(Finding(key, 'the tuple literal %s checked against %s: %d diagnostics, %d of %d items kept' % (lit, ty, nd, kept, len(items)), {'literal': lit, 'type': ty}, rejected == want_ok, 'goml `%s`: %s' % (src.strip(), 'rejected: ' + txt[:120] if rejected else 'accepted')))
    r.samples = []

_obs35 = obligations
def obligations():
    return _obs35() + [Ob('O3.6-tuple-literal-check', 'a tuple literal is accepted against a tuple type iff arity and element types agree', ob_tuple_check, ('quick', 'thorough'), 5, {})]

# ----------------------------------------------------------------------------- O3.7 / O4.7 array literals: checked against an array type without panicking, accepted iff length and element types agree
def ob_array_check(r, tier, seed):
    W = e2.fresh_world(CRATES); tt = W.tt
    TY = tt.find_adt(['tast', 'Ty'], 'compiler'); TYPER = tt.find_adt(['typer', 'Typer'], 'compiler')
    HE = [a for a in tt.by_name['Expr'] if a.crate == 'compiler' and 'hir' in '::'.join(a.path)][0]; DI = tt.find_adt(['diagnostics', 'Diagnostics'], 'diagnostics')
    r.bounds = 'an array literal of 0..2 items (each `1` or `true`) checked against an array type of length 0..2 with element type int32 or bool: every combination'
    r.assumptions = ['as O3.6', 'oracle: no panic; accepted iff the literal has exactly the declared length and every item has the element type']
    from props import c03 as c03m
    c3 = c03m.Ctx(W); cur = {}
    def ov(f, g):
        if 'TypeckResultsBuilder' in g and 'record_' in g:
            def m_record(ex, f_, a): return UNIT
            return m_record
        return None
    W.overrides = [ov, c03m.ena_overrides(c3)]
    for meth in ('record_expr_result', 'record_expr_ty', 'record_pat_ty', 'record_local_ty'):
        for nm in list(W.methods.get(meth, [])): W.stubs[nm[1]] = lambda ex, a: UNIT
    def stub_expr(ex, a):
        eid = a[1]
        while isinstance(eid, Agg): eid = eid.fields[-1]
        return Ref(cur['exprs'], eid)
    for nm in list(W.methods.get('expr', [])):
        if nm[2] is not None and nm[2].self_key == 'HirTable': W.stubs[nm[1]] = stub_expr
    eid = lambda i: Agg('ExprId', 0, [i])
    def entry(ex):
        n = ex.choose([(True, k) for k in (0, 1, 2)]); m_ = ex.choose([(True, k) for k in (0, 1, 2)])
        items = [ex.choose([(True, 'int'), (True, 'bool')]) for _ in range(n)]; elem = ex.choose([(True, 'TInt32'), (True, 'TBool')])
        ex.notes['case'] = (n, m_, items, elem)
        exprs = {0: Agg(HE.key, HE.vindex('EArray'), [PyVec([eid(i + 1) for i in range(n)])])}
        for i, k in enumerate(items): exprs[i + 1] = Agg(HE.key, HE.vindex('EInt'), [mkstr('1')]) if k == 'int' else Agg(HE.key, HE.vindex('EBool'), [True])
        cur['exprs'] = exprs
        typer = Agg(TYPER.key, 0, [{'uni': c03m.UTable(), 'constraints': PyVec([]), 'hir_table': Opaque('hir_table'), 'results': Opaque('results')}[f[0]] for f in TYPER.variants[0].fields])
        expected = Agg(TY.key, TY.vindex('TArray'), [m_, mkbox(Agg(TY.key, TY.vindex(elem), []))])
        h = {0: typer, 1: Opaque('genv'), 2: Opaque('local_env'), 3: Agg(DI.key, 0, [PyVec([])]), 4: expected}
        out = ex.call('Typer::check_expr', [Ref(h, 0), Ref(h, 1), Ref(h, 2), Ref(h, 3), eid(0), Ref(h, 4)])
        ex.call('Typer::solve', [Ref(h, 0), Ref(h, 1), Ref(h, 3)])
        ex.call('Typer::subst', [Ref(h, 0), Ref(h, 3), out])
        return items, m_, elem, len(h[3].fields[0].items)
    res = e2.explore(r, W, entry, [])
    def replay(items, m_, elem):
        lit = '[%s]' % ', '.join('1' if k == 'int' else 'true' for k in items); ty = '[%s; %d]' % (goml_ty(elem), m_)
        src = 'fn main() -> unit { let t: %s = %s; () }\n' % (ty, lit)
        d = tempfile.mkdtemp(prefix='vf-c04-')
        try:
            open(os.path.join(d, 'main.gom'), 'w').write(src)
            pr = subprocess.run([build.compiler_bin(), 'run', '--dump-tast', os.path.join(d, 'main.gom')], capture_output=True, text=True, timeout=60)
        finally: shutil.rmtree(d, ignore_errors=True)
        return src.strip(), pr.stdout + pr.stderr
    for p in res:
        r.cases += 1
        if p.kind != 'ok':
            if any(f.key == 'panic:array-literal' for f in r.findings): continue
            n, m_, items, elem = (p.notes or {}).get('case', (0, 0, [], 'TInt32'))
            src, txt = replay(items, m_, elem)
            r.findings.append(Finding('panic:array-literal', 'type checking the array literal [%s] against [%s; %d] panics: %s' % (', '.join(items), goml_ty(elem), m_, p.value[:120]), {'items': items, 'len': m_, 'elem': elem}, 'panicked' in txt, 'goml `%s`: %s' % (src, [l for l in txt.splitlines() if 'panicked' in l][:1] or txt[:120])))
            continue
        items, m_, elem, nd = p.value
        want_ok = len(items) == m_ and all((k == 'int') == (elem == 'TInt32') for k in items)
        r.nontrivial += 1
        if (nd == 0) != want_ok and not any(f.key.startswith('array-literal') for f in r.findings):
            src, txt = replay(items, m_, elem); rejected = 'error (' in txt or 'error:' in txt
            r.findings.append(Finding('array-literal-ill-typed-accepted' if not want_ok else 'array-literal-well-typed-rejected', 'the array literal [%s] checked against [%s; %d]: %d diagnostics' % (', '.join(items), goml_ty(elem), m_, nd), {'items': items, 'len': m_, 'elem': elem}, rejected == want_ok, 'goml `%s`: %s' % (src, 'rejected' if rejected else 'accepted')))
    r.samples = []

_obs36 = obligations
def obligations():
    return _obs36() + [Ob('O3.7-array-literal-check', 'an array literal is accepted against an array type iff length and element types agree; never panics', ob_array_check, ('quick', 'thorough'), 3, {})]
def ob_array_nopanic(r, tier, seed):
    """O4.7: same exploration as O3.7; only the panic findings count under C04"""
    ob_array_check(r, tier, seed)
    r.findings = [f for f in r.findings if f.key.startswith('panic')]
BOUNDARY_LITS = ('0', '7', '127', '128', '255', '256', '32767', '32768', '65535', '65536', '2147483647', '2147483648', '4294967295', '4294967296', '9223372036854775807', '9223372036854775808',
                 '18446744073709551615', '18446744073709551616', '340282366920938463463374607431768211455', '340282366920938463463374607431768211456', '00', '007')
def ob_int_pattern_nopanic(r, tier, seed):
    ob_pattern_types(r, tier, seed, int_lits=BOUNDARY_LITS, nopanic_only=True)
    r.assumptions = list(r.assumptions) + ['only panics count here (C04); the typing verdicts are O3.4']

def _obligations_c04_a():
    return [Ob('O4.7-array-literal-nopanic', 'type checking array literals of 0..2 items never panics', ob_array_nopanic, ('quick', 'thorough'), 3, {})]

# ----------------------------------------------------------------------------- O3.8 a call of a trait method on a trait object checks the remaining arguments against the method signature
def ob_dyn_call_args(r, tier, seed):
    W = e2.fresh_world(CRATES); tt = W.tt
    TY = tt.find_adt(['tast', 'Ty'], 'compiler'); TYPER = tt.find_adt(['typer', 'Typer'], 'compiler')
    HE = [a for a in tt.by_name['Expr'] if a.crate == 'compiler' and 'hir' in '::'.join(a.path)][0]; DI = tt.find_adt(['diagnostics', 'Diagnostics'], 'diagnostics')
    HPATH = [a for a in tt.by_name['Path'] if a.crate == 'compiler' and 'hir' in '::'.join(a.path)][0]; PSEG = [a for a in tt.by_name['PathSegment'] if a.crate == 'compiler' and 'hir' in '::'.join(a.path)][0]
    NR = tt.find_adt(['hir', 'NameRef'], 'compiler')
    r.bounds = 'the call `Shape::scale(d, a)` with d: dyn Shape, trait method scale(Self, P) -> int32, P in {int32, bool, string} and the argument a one of the literals 1 / true / "s": every combination'
    r.assumptions = ['trait lookup (resolve_trait_name / lookup_trait_method), the local environment (d: dyn Shape) and result recording are environment stubs; then the real infer_static_member_call_expr, Typer::solve and Typer::subst run',
                     'oracle: accepted (no diagnostic) iff the literal has the parameter type']
    from props import c03 as c03m
    c3 = c03m.Ctx(W); cur = {}
    def ov(f, g):
        if 'TypeckResultsBuilder' in g and 'record_' in g:
            def m_record(ex, f_, a): return UNIT
            return m_record
        if g.endswith('lookup_trait_method'):
            def m_lookup_method(ex, f_, a): return ms.some(cur['method_ty'])
            return m_lookup_method
        if g.endswith('LocalTypeEnv::lookup_var'):
            def m_lookup_var(ex, f_, a): return ms.some(Agg(TY.key, TY.vindex('TDyn'), [mkstr('Shape')]))
            return m_lookup_var
        return None
    W.overrides = [ov, c03m.ena_overrides(c3)]
    for meth in ('record_expr_result', 'record_expr_ty', 'record_pat_ty', 'record_local_ty', 'record_name_ref_elab', 'record_call_elab'):
        for nm in list(W.methods.get(meth, [])): W.stubs[nm[1]] = lambda ex, a: UNIT
    W.stubs['resolve_trait_name'] = lambda ex, a: ms.some(Agg('tuple', 0, [mkstr('Shape'), Ref(cur, 'genv')]))
    for nm in list(W.methods.get('lookup_trait_method', [])): W.stubs[nm[1]] = lambda ex, a: ms.some(cur['method_ty'])
    for nm in list(W.methods.get('lookup_var', [])): W.stubs[nm[1]] = lambda ex, a: ms.some(Agg(TY.key, TY.vindex('TDyn'), [mkstr('Shape')]))
    for meth in ('local_hint', 'local_ident_name'):
        for nm in list(W.methods.get(meth, [])): W.stubs[nm[1]] = lambda ex, a: mkstr('d')
    def stub_expr(ex, a):
        eid = a[1]
        while isinstance(eid, Agg): eid = eid.fields[-1]
        return Ref(cur['exprs'], eid)
    for nm in list(W.methods.get('expr', [])):
        if nm[2] is not None and nm[2].self_key == 'HirTable': W.stubs[nm[1]] = stub_expr
    eid = lambda i: Agg('ExprId', 0, [Agg('PackageId', 0, [1]), i])
    PT = {'TInt32': 'int', 'TBool': 'bool', 'TString': 'str'}
    def entry(ex):
        pty = ex.choose([(True, t) for t in sorted(PT)]); lit = ex.choose([(True, 'int'), (True, 'bool'), (True, 'str')])
        T = lambda n, *f: Agg(TY.key, TY.vindex(n), list(f))
        cur['method_ty'] = T('TFunc', PyVec([T('TParam', mkstr('Self')), T(pty)]), mkbox(T('TInt32')))
        cur['genv'] = Opaque('genv')
        local = Agg(NR.key, NR.vindex('Local'), [Agg('LocalId', 0, [Agg('PackageId', 0, [1]), 0])])
        nref = Agg(HE.key, HE.vindex('ENameRef'), [{'res': local, 'hint': mkstr('d'), 'astptr': ms.NONE()}.get(f[0], ms.NONE()) for f in HE.variants[HE.vindex('ENameRef')].fields])
        arg = {'int': Agg(HE.key, HE.vindex('EInt'), [mkstr('1')]), 'bool': Agg(HE.key, HE.vindex('EBool'), [True]), 'str': Agg(HE.key, HE.vindex('EString'), [mkstr('s')])}[lit]
        cur['exprs'] = {1: nref, 2: arg}
        path = Agg(HPATH.key, 0, [PyVec([Agg(PSEG.key, 0, [mkstr('Shape')]), Agg(PSEG.key, 0, [mkstr('scale')])])])
        typer = Agg(TYPER.key, 0, [{'uni': c03m.UTable(), 'constraints': PyVec([]), 'hir_table': Opaque('hir_table'), 'results': Opaque('results')}[f[0]] for f in TYPER.variants[0].fields])
        h = {0: typer, 1: Opaque('genv'), 2: Opaque('local_env'), 3: Agg(DI.key, 0, [PyVec([])]), 4: path, 5: PyVec([eid(1), eid(2)])}
        out = ex.call('Typer::infer_static_member_call_expr', [Ref(h, 0), Ref(h, 1), Ref(h, 2), Ref(h, 3), eid(10), eid(11), Ref(h, 4), ms.NONE(), Ref(h, 5)])
        ex.call('Typer::solve', [Ref(h, 0), Ref(h, 1), Ref(h, 3)])
        ex.call('Typer::subst', [Ref(h, 0), Ref(h, 3), out])
        return pty, lit, len(h[3].fields[0].items)
    res = e2.explore(r, W, entry, [])
    for p in res:
        r.cases += 1
        if p.kind != 'ok':
            if not any(f.key == 'panic' for f in r.findings): r.findings.append(Finding('panic', 'typing a dyn method call panics: %s' % p.value, {}, False, 'not replayed'))
            continue
        pty, lit, nd = p.value; want_ok = PT[pty] == lit; r.nontrivial += 1
        if (nd == 0) != want_ok and not any(f.key.startswith('dyn-call') for f in r.findings):
            litsrc = {'int': '1', 'bool': 'true', 'str': '"s"'}[lit]
            src = 'struct C { r: int32 }\ntrait Shape { fn scale(Self, %s) -> int32; }\nimpl Shape for C { fn scale(self: C, k: %s) -> int32 { self.r } }\nfn main() -> unit { let d: dyn Shape = C { r: 1 }; let x = Shape::scale(d, %s); () }\n' % (goml_ty(pty), goml_ty(pty), litsrc)
            d = tempfile.mkdtemp(prefix='vf-c03-')
            try:
                open(os.path.join(d, 'main.gom'), 'w').write(src)
                pr = subprocess.run([build.compiler_bin(), 'run', '--dump-tast', os.path.join(d, 'main.gom')], capture_output=True, text=True, timeout=60)
            finally: shutil.rmtree(d, ignore_errors=True)
            txt = pr.stdout + pr.stderr; rejected = 'error (' in txt or 'error:' in txt
            r.findings.append(Finding('dyn-call-ill-typed-argument-accepted' if not want_ok else 'dyn-call-well-typed-argument-rejected', '`Shape::scale(d, %s)` with parameter type %s: %d diagnostics' % (litsrc, goml_ty(pty), nd), {'param': pty, 'arg': lit}, rejected == want_ok, 'goml `%s`: %s' % (src.replace('\n', ' | '), 'rejected: ' + txt[:100] if rejected else 'accepted')))
    r.samples = []

_obs37 = obligations
def obligations():
    return _obs37() + [Ob('O3.8-dyn-call-arguments', 'the arguments of a trait-object method call are checked against the method signature', ob_dyn_call_args, ('quick', 'thorough'), 3, {})]

def obligations_c04():
    return _obligations_c04_a() + [Ob('O4.8-int-pattern-nopanic', 'type checking an integer literal pattern of any magnitude against any scalar type never panics', ob_int_pattern_nopanic, ('quick', 'thorough'), 5, {})]
